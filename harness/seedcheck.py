#!/venv/bin/python
"""seedcheck.py <seed dir> [--checks C01,C03|all] [--tier quick]

Confirms a seeded change (patch.diff + demo) and runs checks against it:
  1. creates a scratch worktree of /repo under /root/scratch, applies patch.diff;
  2. runs the repository's test suite on it and compares the set of failing test ids with the unchanged tree;
  3. runs the demo on the unchanged and on the changed tree;
  4. runs the selected checks with PRTPY_REPO pointing at the changed tree (exit 1 + VIOLATION expected);
  5. records everything in <seed dir>/meta.json under "confirmation" and "detected_by"; removes the worktree.
Nothing is ever applied to /repo itself by this script."""
import os, sys, json, subprocess, re, shutil, argparse, time

VERIF = os.path.dirname(os.path.dirname(os.path.abspath(__file__)))


def sh(cmd, cwd=None, env=None, timeout=3600):
    p = subprocess.run(cmd, shell=True, cwd=cwd, env=env, capture_output=True, text=True, timeout=timeout)
    return p.returncode, p.stdout + p.stderr


def failing_tests(tree):
    rc, out = sh("/venv/bin/python -m pytest -q -p no:cacheprovider --timeout=900 --continue-on-collection-errors 2>&1 | grep -E '^(FAILED|ERROR)' | sort", cwd=tree)
    return sorted(set(l.split(" - ")[0].strip() for l in out.split("\n") if l.strip() and "conda" not in l))


def main():
    ap = argparse.ArgumentParser()
    ap.add_argument("seed")
    ap.add_argument("--checks", default="own")
    ap.add_argument("--tier", default="quick")
    ap.add_argument("--skip-tests", action="store_true")
    a = ap.parse_args()
    seed = os.path.abspath(a.seed)
    meta_path = os.path.join(seed, "meta.json")
    meta = json.load(open(meta_path)) if os.path.exists(meta_path) else {}
    pid = meta.get("property") or os.path.basename(seed)[:3]
    wt = f"/root/scratch/seedwt_{os.path.basename(seed)}_{os.getpid()}"
    sh(f"git -C /repo worktree add -q --detach {wt}")
    conf = {}
    try:
        demo = [f for f in os.listdir(seed) if f.startswith("demo") and f.endswith(".py")]
        demo = os.path.join(seed, demo[0]) if demo else None

        def run_demo():
            if not demo:
                return None, ""
            src = open(demo).read()
            src = re.sub(r"/tmp/seed_[A-Za-z0-9_]+", wt, src)
            tmp = os.path.join(wt, "_demo.py")
            open(tmp, "w").write(src)
            rc, out = sh(f"/venv/bin/python {tmp}", cwd=wt, env=dict(os.environ, PYTHONPATH=wt), timeout=900)
            os.remove(tmp)
            return rc, "\n".join(l for l in out.split("\n") if "conda" not in l)[-600:]
        if not a.skip_tests:
            conf["failing_tests_unchanged"] = failing_tests(wt)
        rc0, out0 = run_demo()
        conf["demo_unchanged"] = {"rc": rc0, "tail": out0[-300:]}
        rc, out = sh(f"git apply {os.path.join(seed, 'patch.diff')}", cwd=wt)
        if rc != 0:
            conf["error"] = "patch does not apply: " + out[-300:]
            print(conf["error"])
            return
        if not a.skip_tests:
            conf["failing_tests_changed"] = failing_tests(wt)
            # the randomised rnp test fails now and then on the unchanged tree too (known finding rnp-suboptimal): not compared
            flaky = "test_recursive_number_partitioning.py::TestRNP::test_on_random_inputs"
            conf["tests_same"] = [t for t in conf["failing_tests_changed"] if flaky not in t] == [t for t in conf["failing_tests_unchanged"] if flaky not in t]
        rc1, out1 = run_demo()
        conf["demo_changed"] = {"rc": rc1, "tail": out1[-600:]}
        conf["demo_discriminates"] = (rc0 == 0 and rc1 not in (0, None))
        checks = [pid] if a.checks == "own" else ([c["property_id"] for c in json.load(open(os.path.join(VERIF, "MANIFEST.json")))["checks"]] if a.checks == "all" else a.checks.split(","))
        det = meta.get("detected_by", {})
        for c in checks:
            t0 = time.time()
            rc, out = sh(f"{VERIF}/check {c} --tier {a.tier}", cwd=VERIF, env=dict(os.environ, PRTPY_REPO=wt), timeout=7200)
            lines = [l for l in out.split("\n") if l.startswith("VIOLATION") or l.startswith("# ")]
            # keep the replay file(s) of a detection next to the seed (input for the regression corpus)
            if rc != 0:
                for l in lines:
                    mm = re.search(r"replay=(\S+)", l)
                    if mm and os.path.exists(mm.group(1)):
                        shutil.copy(mm.group(1), os.path.join(seed, f"replay_{c}_{os.path.basename(mm.group(1))}"))
            det[c] = {"rc": rc, "violation": any(l.startswith("VIOLATION") for l in lines), "lines": [l[:400] for l in lines][:4], "tier": a.tier, "wall_s": round(time.time() - t0, 1)}
            print(c, "rc", rc, "|", " ".join(lines)[:300])
        meta["detected_by"] = det
    finally:
        sh(f"git -C /repo worktree remove --force {wt}")
        shutil.rmtree(wt, ignore_errors=True)
        meta["confirmation"] = conf
        json.dump(meta, open(meta_path, "w"), indent=1)
    print(json.dumps({k: v for k, v in conf.items() if k in ("tests_same", "demo_discriminates", "error")}))


if __name__ == "__main__":
    main()
