"""Check units: pure-data descriptions {"kind":..., "params":{...}, "cmp":..., "judges":[...], "family":...}
of one comparison between implementation and model plus judgements of the implementation's
output by the verified oracles.  Everything is reconstructible from JSON so that a failing
unit can be written to a replay file."""
import math
from harness.runner import model_line

OBJ_NAMES = ["MaxSmallest", "MinLargest", "MinDiff", "MaxKSmallest", "MinKLargest"]
SUMS_ONLY_OUT = ("sums", "largest", "smallest", "extreme", "sorted", "difference", "bincount")


# ------------------------------------------------------------------ small arithmetic (judge side)
def obj_value(o, ok, sums):
    s = sorted(sums)
    if o == 0:
        return -s[0]
    if o == 1:
        return s[-1]
    if o == 2:
        return s[-1] - s[0]
    if o == 3:
        return -sum(s[:ok])
    if o == 4:
        return sum(s[-ok:]) if ok > 0 else sum(s)
    raise ValueError(o)


def ids_of(p):
    return p.get("ids", p["vals"])


def valmap(p):
    return dict(zip(ids_of(p), p["vals"]))


def bins_in(p, bins):
    """[[sum,[ids]],...] -> driver encoding [[sum, ids, vals], ...]; None if an id is unknown"""
    vm = valmap(p)
    out = []
    for s, l in bins:
        if not isinstance(s, int) or any(not isinstance(x, int) for x in l):
            return None
        out.append([s, list(l), [vm.get(x, -999999937) for x in l]])
    return out


# ------------------------------------------------------------------ model requests
def model_request(kind, p):
    """returns (cmd, args) for the OCaml driver, or None when this unit has no driver model"""
    if kind == "part":
        a = p["algo"]
        keep = 0 if p["out"] in SUMS_ONLY_OUT else 1
        ids, vals, k = ids_of(p), p["vals"], p["k"]
        if a in ("greedy", "roundrobin", "bidir", "kk", "ckk", "snp", "rnp"):
            return (a, [keep, k, ids, vals])
        if a == "multifit":
            return ("multifit", [keep, p.get("iterations", 10), k, ids, vals])
        if a == "cg":
            o, ok = p.get("objective", [2, 0])
            f = p.get("flags", [1, 1, 0, 1])
            return ("cg", [keep, o, ok] + list(f) + [-1, k, ids, vals])
        if a == "dp":
            o, ok = p.get("objective", [2, 0])
            return ("dp", [keep, o, ok, k, ids, vals])
        if a == "cbldm":
            return ("cbldm", [k, ids, vals, 1, p.get("partition_difference", 2 ** 60), 1, -1])
        return None
    if kind == "pack":
        a = p["algo"]
        keep = 0 if p["out"] in SUMS_ONLY_OUT else 1
        if a == "bc":
            if "ids" in p:      # named items: value-level search, then the names are put back (Model/BinCompletionNamed.v)
                return ("bcn", [keep, p["C"], 200000, p["ids"], p["vals"]])
            return ("bc", [keep, p["C"], 200000, p["vals"]])
        return (a, [keep, p["C"], ids_of(p), p["vals"]])
    if kind == "direct":       # algorithm called with a binner
        a = p["algo"]
        keep = 1 if p["keep"] else 0
        ids, vals = ids_of(p), p["vals"]
        if a in ("greedy", "roundrobin", "bidir", "kk", "ckk", "snp", "rnp"):
            return (a, [keep, p["k"], ids, vals])
        if a in ("ff", "ffd", "bf", "bfd", "cover_dec", "cover_23", "cover_34"):
            return (a, [keep, p["C"], ids, vals])
        if a == "bc":
            return ("bc", [keep, p["C"], 200000, vals])
        if a == "dp":
            o, ok = p.get("objective", [2, 0])
            return ("dp", [keep, o, ok, p["k"], ids, vals])
        return None
    if kind == "cg_clock":
        o, ok = p.get("objective", [2, 0])
        f = p.get("flags", [1, 1, 0, 1])
        return ("cg", [1 if p["keep"] else 0, o, ok] + list(f) + [p["limit"], p["k"], ids_of(p), p["vals"]])
    if kind == "cbldm_clock":
        return ("cbldm", [2, ids_of(p), p["vals"], 1, p["d"], 1, p["limit"]])
    if kind == "ckk_generator":
        best = [] if p.get("best") is None else [p["best"]]
        return ("ckkgen", [1 if p["keep"] else 0, p["k"], ids_of(p), p["vals"], best])
    if kind == "objective_value":
        return ("value", [p["o"], p.get("ok", 0), p["sums"], p["sorted"]])
    if kind == "weighted_value":
        return ("wvalue", [p["weights"], p["sums"], p["sorted"]])
    if kind == "lower_bound":
        return ("lb", [p["o"], p.get("ok", 0), p["sums"], p["R"], p["sorted"]])
    if kind == "generate_tree":
        return ("inex", [p["lbn"], p["lbd"], p["ubn"], p["ubd"], ids_of(p), p["vals"]])
    if kind == "all_combinations":
        return ("allcomb", [1 if p["keep"] else 0, p["b1"], p["b2"]])
    if kind == "ckk_bound":
        return ("ckkbound", [p["k"], p["heaps"]])
    if kind == "find_diff":
        return ("finddiff", [p["l1"], p["l1"], p["l2"], p["l2"]])
    if kind == "cbldm_args":
        tl = p.get("time_limit", 1)
        d = p.get("d", 2 ** 60)
        return ("cbldm", [p["k"], ids_of(p), p["vals"], 1 if tl > 0 else 0, d, 0 if p.get("d_float") else 1, -1])
    if kind == "numitems":
        return ("numitems", [p["keep"], p["k"], p["i"]])
    if kind == "snp_trace":
        return (p["algo"] + "_trace", [1 if p.get("keep", True) else 0, p["k"], ids_of(p), p["vals"]])
    if kind == "ckk_nodes":
        return ("ckk_nodes", [1 if p.get("keep", True) else 0, p["k"], ids_of(p), p["vals"]])
    if kind == "bc_trace":
        return ("bc_trace", [1 if p.get("keep", True) else 0, p["C"], 200000, p["vals"]])
    if kind == "ilp_full":
        o, ok = p["objective"]
        n = len(p["vals"])
        copies = p.get("copies", 1)
        copies = [copies] * n if isinstance(copies, int) else copies
        ws = p.get("weights") or [1] * p["k"]
        return ("ilp_formulate", [p["vals"], p["k"], copies, ws, o, ok, p.get("extras", [])])
    if kind == "binner_ops":
        return ("heap_run", [p["ops"]])
    if kind == "bc_util":
        f = p["fn"]
        if f == "fbc":
            return ("fbc", [p["x"], p["items"], p["C"]])
        if f == "cfd":
            return ("cfd", [p["lists"]])
        if f == "isdom":
            return ("isdom", [p["l1"], p["l2"]])
        if f == "undom":
            return ("undom", [p["const"], p["y"], p["items"], p["C"]])
    return None


def impl_case(kind, p):
    port = {"part": "partition", "pack": "pack", "direct": "algo_direct"}.get(kind, kind)
    return {"port": port, "args": p}


# ------------------------------------------------------------------ normalisation of model replies
def norm_model(kind, p, r):
    """driver reply -> same shape as the implementation result"""
    if isinstance(r, dict) and "driver_error" in r:
        return {"model_error": r["driver_error"]}
    if isinstance(r, dict) and "err" in r:
        return {"exc": r["err"]}
    if isinstance(r, dict) and "ok" in r:
        r = r["ok"]
    if kind in ("part", "pack", "direct"):
        a = p["algo"]
        if a == "cg":
            best = r[0]
            return {"bins": best} if best is not None else {"exc": "TypeError"}
        if a == "cbldm":
            b = r[0]
            return {"bins": b} if b is not None else {"bins": "placeholder"}
        return {"bins": r}
    if kind == "cg_clock":
        return {"best": r[0], "ticks": r[1], "first": r[2]}
    if kind == "cbldm_clock":
        return {"best": r[0], "ticks": r[1]}
    if kind == "ckk_generator":
        return {"yields": r}
    if kind in ("objective_value", "lower_bound", "ckk_bound"):
        return {"num": r}
    if kind == "weighted_value":
        return {"frac": r}
    if kind == "generate_tree":
        return {"subsets": r}
    if kind == "all_combinations":
        return {"combos": r}
    if kind == "find_diff":
        return {"list": r}
    if kind == "binner_ops":
        return {"obs": r}
    if kind == "cbldm_args":
        return {"bins": r[0]}
    if kind == "numitems":
        return {"num": r}
    if kind == "ilp_full":
        return {"form": r}
    if kind == "snp_trace":
        res, tr = r
        out = {"exc": res["err"]} if "err" in res else {"bins": res["ok"]}
        out["trace"] = tr
        return out
    if kind == "ckk_nodes":
        return {"num": r}
    if kind == "bc_trace":
        res, tr = r
        out = {"exc": res["err"]} if "err" in res else {"bins": res["ok"]}
        out["trace"] = tr
        return out
    if kind == "bc_util":
        return {"bool": r} if p["fn"] == "isdom" else {"lists": r}
    return {"raw": r}


# ------------------------------------------------------------------ canonical forms
def canon_bins(p, bins, how):
    """bins = [[sum,[ids]],...]"""
    if how == "exact":
        return [[s, list(l)] for s, l in bins]
    if how == "bins":
        vm = valmap(p)
        return sorted([s, sorted(vm.get(x, ("?", x)) if not isinstance(vm.get(x), int) else vm[x] for x in l)] for s, l in bins)
    if how == "sums":
        return sorted(s for s, _ in bins)
    if how == "sums_ordered":
        return [s for s, _ in bins]
    raise ValueError(how)


def derived_from_bins(out, bins):
    """what a sums-only output type must equal, computed from the model's bins"""
    sums = [s for s, _ in bins]
    if out == "sums":
        return {"sums": sums}
    if out == "sorted":
        return {"sums": sorted(sums)}
    if out == "largest":
        return {"num": max(sums)}
    if out == "smallest":
        return {"num": min(sums)}
    if out == "extreme":
        return {"sums": [min(sums), max(sums)]}
    if out == "difference":
        return {"num": max(sums) - min(sums)}
    if out == "bincount":
        return {"num": len(sums)}
    if out == "partition":
        return {"lists": [list(l) for _, l in bins]}
    return {"bins": bins}


def compare(kind, p, how, impl, model):
    """returns None when implementation and model agree in canonical form `how`, else a description"""
    if how is None or model is None:
        return None
    if "model_error" in model:
        return f"model error: {model['model_error']}"
    if kind == "ilp_full":
        return compare_ilp(p, impl, model)
    if kind == "snp_trace":
        if impl.get("exc") != model.get("exc"):
            return f"impl {short(impl, 120)} vs model {short(model, 120)}"
        it, mt = impl.get("trace", []), model.get("trace", [])
        if it != mt:
            k = next((i for i in range(min(len(it), len(mt))) if it[i] != mt[i]), min(len(it), len(mt)))
            return (f"search trace differs at sub-collection #{k} pulled from the inclusion/exclusion tree: impl {it[k] if k < len(it) else 'ends (' + str(len(it)) + ')'} vs model "
                    f"{mt[k] if k < len(mt) else 'ends (' + str(len(mt)) + ')'}")
        if "bins" in model and impl.get("bins") != model["bins"]:
            return f"impl {short(impl.get('bins'), 150)} vs model {short(model['bins'], 150)}"
        return None
    if kind == "ckk_nodes":
        if "exc" in impl:
            return f"impl {short(impl, 120)} vs model {short(model, 120)}"
        return None if impl.get("num") == model.get("num") else f"heaps popped by the CKK search: impl {impl.get('num')} vs model {model.get('num')}"
    if kind == "bc_trace":
        if impl.get("exc") != model.get("exc"):
            return f"impl {short(impl, 120)} vs model {short(model, 120)}"
        if impl.get("trace") != model.get("trace"):
            it, mt = impl.get("trace", []), model.get("trace", [])
            k = next((i for i in range(min(len(it), len(mt))) if it[i] != mt[i]), min(len(it), len(mt)))
            return (f"search trace differs at call #{k} of find_bin_completions: impl {it[k] if k < len(it) else 'ends (' + str(len(it)) + ' calls)'} vs model "
                    f"{mt[k] if k < len(mt) else 'ends (' + str(len(mt)) + ' calls)'}")
        if "bins" in model and sorted(map(str, impl.get("bins", []))) != sorted(map(str, model["bins"])):
            return f"impl {short(impl.get('bins'), 150)} vs model {short(model['bins'], 150)}"
        return None
    if kind in ("part", "pack") and model.get("bins") == [] and p.get("out") in ("largest", "smallest", "extreme", "difference"):
        # max()/min() of an empty list of sums: Python raises ValueError (Model/Output.v documents that zmax [] = 0 diverges here)
        return None if impl.get("exc") == "ValueError" else f"impl {short(impl)} vs model: no bins, so max/min of the sums must raise ValueError"
    if "exc" in impl or "exc" in model:
        if impl.get("exc") != model.get("exc"):
            return f"impl {short(impl)} vs model {short(model)}"
        return None
    if how == "excmatch":
        return None      # only the error/no-error status is compared (done above)
    if kind in ("part", "pack", "direct"):
        mb = model["bins"]
        if mb == "placeholder":
            return None if impl.get("bins") == "placeholder" else f"impl {short(impl)} vs model placeholder"
        out = p.get("out", "pst")
        if kind == "direct":
            ib = impl["bins"]
            if ib is None or mb is None:
                return None if ib == mb else f"impl {short(impl)} vs model {short(model)}"
            a, b = canon_bins(p, ib, how), canon_bins(p, mb, how)
            return None if a == b else f"impl {a} vs model {b}"
        if how == "count":
            ni = len(impl["bins"]) if "bins" in impl else (len(impl["lists"]) if "lists" in impl else (len(impl["sums"]) if "sums" in impl else impl.get("num")))
            return None if ni == len(mb) else f"number of bins impl {ni} vs model {len(mb)}"
        if how == "value":
            o, ok = p.get("objective", [2, 0])
            iv = obj_value(o, ok, sums_of_result(out, impl))
            mv = obj_value(o, ok, [s for s, _ in mb])
            return None if iv == mv else f"objective value impl {iv} vs model {mv}"
        if out in ("pst", "pas"):
            a, b = canon_bins(p, impl["bins"], how), canon_bins(p, mb, how)
            return None if a == b else f"impl {a} vs model {b}"
        exp = derived_from_bins(out, mb)
        got = impl
        if how in ("sums", "bins") and out in ("sums",):
            exp = {"sums": sorted(exp["sums"])}
            got = {"sums": sorted(impl["sums"])}
        if how in ("sums", "bins") and out == "partition":
            vm = valmap(p)
            exp = sorted(sorted(vm[x] for x in l) for l in exp["lists"])
            got = sorted(sorted(vm.get(x, x) for x in l) for l in impl["lists"])
        return None if exp == got else f"impl {got} vs model-derived {exp}"
    if kind == "cg_clock":
        if impl["ticks"] != model["ticks"]:
            return f"clock readings impl {impl['ticks']} vs model {model['ticks']}"
        ib, mb = impl["best"], model["best"]
        if (ib is None) != (mb is None):
            return f"impl best {ib} vs model best {mb}"
        if ib is None:
            return None
        a, b = canon_bins(p, ib, how), canon_bins(p, mb, how)
        return None if a == b else f"impl {a} vs model {b}"
    if kind == "cbldm_clock":
        if impl["ticks"] != model["ticks"]:
            return f"part() calls impl {impl['ticks']} vs model {model['ticks']}"
        ib, mb = impl["best"], model["best"]
        if (ib is None) != (mb is None):
            return f"impl best {ib} vs model best {mb}"
        if ib is None:
            return None
        a, b = canon_bins(p, ib, how), canon_bins(p, mb, how)
        return None if a == b else f"impl {a} vs model {b}"
    if kind == "ckk_generator":
        a = [canon_bins(p, y, how) for y in impl["yields"]]
        b = [canon_bins(p, y, how) for y in model["yields"]]
        return None if a == b else f"impl yields {a} vs model {b}"
    if kind == "weighted_value":
        n, d = model["frac"]
        n *= p.get("wscale", 1)          # the model ran on the integer weights w, the implementation on w / wscale
        exp = (-(n / d)).hex() if n != 0 else (-0.0).hex()
        got = impl["float"]
        if float.fromhex(got) == float.fromhex(exp):
            return None
        return f"impl {float.fromhex(got)!r} vs model -({n}/{d})"
    if kind == "all_combinations":
        a = [canon_bins(p, c, "exact") for c in impl["combos"]]
        b = [canon_bins(p, c, "exact") for c in model["combos"]]
        if how == "set":
            a, b = sorted(a), sorted(b)
        return None if a == b else f"impl {a} vs model {b}"
    if kind == "binner_ops" and how == "live":
        # only arrays that are live under the hand-over discipline are compared (after every operation)
        dead = set()
        nh = 0
        for step, o in enumerate(p["ops"]):
            if o[0] in (0, 2):
                nh += 1
            elif o[0] in (4, 5):
                dead.add(o[1]); nh += 1
            elif o[0] == 6:
                dead.add(o[1]); dead.add(o[2]); nh += 1
            io, mo = impl["obs"][step], model["obs"][step]
            if len(io) != len(mo):
                return f"after operation {step} {o}: impl has {len(io)} arrays, model {len(mo)}"
            for h in range(len(io)):
                if h not in dead and io[h] != mo[h]:
                    return f"after operation {step} {o}: array #{h} impl {io[h]} vs model {mo[h]}"
        return None
    # plain equality of dicts
    return None if impl == model else f"impl {short(impl)} vs model {short(model)}"


def sums_of_result(out, impl):
    if "bins" in impl:
        return [s for s, _ in impl["bins"]]
    if "sums" in impl:
        return impl["sums"]
    raise KeyError("no sums in " + short(impl))


def short(x, n=300):
    s = str(x)
    return s if len(s) <= n else s[:n] + "..."


def _close(n, d, hx):
    import math
    return math.isclose(n / d, float.fromhex(hx), rel_tol=1e-9, abs_tol=1e-12)


def compare_ilp(p, impl, model):
    """captured mip model (number of integer variables >= 0, objective to minimise, constraints in insertion
    order; each expression = terms merged per variable and sorted by index + constant, everything on the
    left-hand side) against formulate of Model/ILP.v; coefficients value/weight compared with relative tolerance
    1e-9 because python-mip computes expr * (1.0 / w)"""
    cap = impl.get("cap") or {}
    if "form" not in cap:
        return None          # the solver was never reached (pre-solver exception): judged separately
    nv, obj, cons, is_min, int_lb0 = cap["form"]
    mnv, mobj, mcons = model["form"]
    if not is_min or not int_lb0:
        return f"captured model is not a minimisation over non-negative integer variables (min={is_min}, int&lb0={int_lb0})"
    if nv != mnv:
        return f"number of variables impl {nv} vs model {mnv}"

    def expr_eq(ie, me, where):
        it, ic = ie[0], ie[1]
        mt, mc = me
        if len(it) != len(mt):
            return f"{where}: impl terms {it} vs model {mt}"
        for (iv, ih), (mv, (n, d)) in zip(it, mt):
            if iv != mv or not _close(n, d, ih):
                return f"{where}: variable {iv} coefficient {float.fromhex(ih)} vs model variable {mv} coefficient {n}/{d}"
        if not _close(mc[0], mc[1], ic):
            return f"{where}: constant {float.fromhex(ic)} vs model {mc[0]}/{mc[1]}"
        return None
    t = expr_eq(obj, mobj, "objective")
    if t:
        return t
    if len(cons) != len(mcons):
        return f"number of constraints impl {len(cons)} vs model {len(mcons)}"
    for i, (ic, (me, ms)) in enumerate(zip(cons, mcons)):
        t = expr_eq(ic, me, f"constraint {i}")
        if t:
            return t
        if ic[2] != ms:
            return f"constraint {i}: sense impl {ic[2]!r} vs model {ms!r}"
    return None
