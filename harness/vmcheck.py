"""vm_compute cross-check of the extracted model: a sample of the driver requests of a run is re-evaluated inside Coq
(`Eval vm_compute` on the Gallina definitions, printed by coq/theories/Show.v in the driver's reply format) and must give
the same reply as the extracted OCaml driver.  This ties the extraction + driver glue (trusted base) to the definitions
the theorems are about.  Only requests whose command is in RENDER are checked."""
import os, re, json, subprocess, hashlib

VERIF = os.path.dirname(os.path.dirname(os.path.abspath(__file__)))
COQ = os.path.join(VERIF, "coq")
OBJ = {0: "MaxSmallest", 1: "MinLargest", 2: "MinDiff"}


def z(n):
    return str(n) if n >= 0 else f"({n})"


def zl(l):
    return "[" + "; ".join(z(x) for x in l) + "]"


def items(ns, vs):
    return "[" + "; ".join(f"({z(a)}, {z(b)})" for a, b in zip(ns, vs)) + "]"


def nat(n):
    return f"{n}%nat" if n < 2000 else f"(Z.to_nat {n})"


def b(x):
    return "true" if x else "false"


def obj(o, k):
    return OBJ[o] if o < 3 else (f"(MaxKSmallest {nat(k)})" if o == 3 else f"(MinKLargest {nat(k)})")


def optnat(n):
    return "None" if n < 0 else f"(Some {nat(n)})"


def render(cmd, a):
    """Coq term (a string expression) for one driver request, or None if unsupported"""
    try:
        if cmd in ("greedy", "roundrobin", "bidir"):
            keep, k, ns, vs = a
            return f"show_bins ({'bidirectional_balanced' if cmd == 'bidir' else cmd} vof {b(keep)} {nat(k)} {items(ns, vs)})"
        if cmd in ("ff", "ffd", "bf", "bfd"):
            keep, c, ns, vs = a
            f = {"ff": "first_fit", "ffd": "first_fit_decreasing", "bf": "best_fit", "bfd": "best_fit_decreasing"}[cmd]
            return f"show_res show_bins ({f} vof {b(keep)} {z(c)} {items(ns, vs)})"
        if cmd in ("cover_dec", "cover_23", "cover_34"):
            keep, c, ns, vs = a
            f = {"cover_dec": "cover_decreasing", "cover_23": "cover_twothirds", "cover_34": "cover_threequarters"}[cmd]
            return f"show_bins ({f} vof {b(keep)} {z(c)} {items(ns, vs)})"
        if cmd == "kk":
            keep, k, ns, vs = a
            return f"show_res show_bins (kk vof {b(keep)} {nat(k)} {items(ns, vs)})"
        if cmd in ("ckk", "snp", "rnp"):
            keep, k, ns, vs = a
            return f"show_res show_bins ({cmd} vof nof {b(keep)} {nat(k)} {items(ns, vs)})"
        if cmd == "multifit":
            keep, it, k, ns, vs = a
            return f"show_res show_bins (multifit vof {b(keep)} {nat(it)} {nat(k)} {items(ns, vs)})"
        if cmd == "cg":
            keep, o, ok, f1, f2, f3, f4, limit, k, ns, vs = a
            flags = f"(mk_flags {b(f1)} {b(f2)} {b(f3)} {b(f4)})"
            return f"show_cg (cg_run vof {b(keep)} {obj(o, ok)} {flags} {optnat(limit)} {nat(k)} {items(ns, vs)})"
        if cmd == "dp":
            keep, o, ok, k, ns, vs = a
            return f"show_res show_bins (dp vof {b(keep)} {obj(o, ok)} {nat(k)} {items(ns, vs)})"
        if cmd == "cbldm":
            k, ns, vs, tlpos, d, disint, limit = a
            return f"show_cbldm (cbldm vof {nat(k)} {items(ns, vs)} {b(tlpos)} {z(d)} {b(disint)} {optnat(limit)})"
        if cmd == "bc":
            keep, c, fuel, vs = a
            return f"show_res show_zbins (bin_completion {b(keep)} {z(c)} {nat(fuel)} {zl(vs)})"
        if cmd == "bcn":
            keep, c, fuel, ns, vs = a
            return f"show_res show_bins (bin_completion_named vof {b(keep)} {z(c)} {nat(fuel)} {items(ns, vs)})"
        if cmd == "value":
            o, ok, s, srt = a
            return f"show_Z (value {obj(o, ok)} {zl(s)} {b(srt)})"
        if cmd == "lb":
            o, ok, s, r, srt = a
            return f"show_opt show_Z (lower_bound {obj(o, ok)} {zl(s)} {z(r)} {b(srt)})"
        if cmd == "opt_value":
            o, ok, k, vs = a
            return f"show_opt show_Z (opt_value {obj(o, ok)} {nat(k)} {zl(vs)})"
        if cmd == "min_bins":
            c, vs = a
            return f"show_nat (min_bins {z(c)} {zl(vs)})"
        if cmd == "max_cover":
            c, vs = a
            return f"show_nat (max_cover {z(c)} {zl(vs)})"
        if cmd == "opt_balanced2":
            d, vs = a
            return f"show_opt show_Z (opt_balanced2 {z(d)} {zl(vs)})"
    except Exception:
        return None
    return None


HEADER = """From Coq Require Import ZArith List String.
From Prtpy Require Import Base.Prelude Model.Binner Model.Objectives Model.Greedy Model.Balanced Model.Packing Model.Covering Model.KK Model.CG Model.DP
  Model.CBLDM Model.SNP Model.BinCompletion Model.BinCompletionNamed Model.Multifit Oracle.Reach Show.
Import ListNotations.
Open Scope Z_scope.
Set Printing Width 1000000.
Set Printing Depth 1000000.
"""


def cheap(cmd, a):
    """keep the Coq evaluation fast: vm_compute on inductive Z/nat is ~100x slower than the extracted code"""
    flat = json.dumps(a)
    if len(flat) > 400:
        return False
    vs = a[-1] if isinstance(a[-1], list) else []
    n = len(vs)
    if cmd in ("opt_value", "min_bins", "max_cover", "opt_balanced2", "dp"):
        return n <= 6
    if cmd in ("cg", "ckk", "snp", "rnp", "cbldm", "bc", "bcn"):
        return n <= 7
    return n <= 30


def cross_check(requests, replies, rng, sample=40, timeout=600):
    """requests: list of (cmd, args); replies: parsed driver replies.  Returns dict(checked, mismatches[list of text], skipped)"""
    cand = [i for i, (c, a) in enumerate(requests) if render(c, a) is not None and cheap(c, a)]
    if not cand:
        return {"checked": 0, "mismatches": [], "eligible": 0}
    pick = sorted(rng.sample(cand, min(sample, len(cand))))
    src = HEADER
    for i in pick:
        src += f"Eval vm_compute in ({render(*requests[i])}).\n"
    tmpd = os.path.join(VERIF, "work", "vmcheck")
    os.makedirs(tmpd, exist_ok=True)
    name = "vm_" + hashlib.sha1(src.encode()).hexdigest()[:12] + f"_{os.getpid()}"      # unique per process: concurrent checks may sample the same requests
    path = os.path.join(tmpd, name + ".v")
    with open(path, "w") as f:
        f.write(src)
    try:
        p = subprocess.run(["timeout", str(timeout), "coqc", "-Q", os.path.join(COQ, "theories"), "Prtpy", "-o", os.path.join(tmpd, name + ".vo"), path],
                           capture_output=True, text=True)
    finally:
        for ext in (".vo", ".glob", ".vok", ".vos"):
            try:
                os.remove(os.path.join(tmpd, name + ext))
            except OSError:
                pass
    if p.returncode != 0:
        return {"checked": 0, "mismatches": [f"cases file did not evaluate: {p.stderr.strip()[-300:]}"], "eligible": len(cand), "file": path}
    outs = re.findall(r'=\s*"((?:[^"]|"")*)"\s*:\s*string', p.stdout, flags=re.S)
    outs = [o.replace('""', '"').replace("\n", "") for o in outs]
    mism = []
    if len(outs) != len(pick):
        return {"checked": 0, "mismatches": [f"expected {len(pick)} results from Coq, parsed {len(outs)}"], "eligible": len(cand), "file": path}
    for i, o in zip(pick, outs):
        try:
            cv = json.loads(o)
        except Exception:
            cv = ("unparsable", o)
        if cv != replies[i]:
            mism.append(f"{requests[i][0]} {json.dumps(requests[i][1])[:200]}: vm_compute gives {o[:200]}, extracted driver gives {json.dumps(replies[i])[:200]}")
    os.remove(path)
    return {"checked": len(pick), "mismatches": mism[:3], "eligible": len(cand)}
