#!/venv/bin/python
"""mkprop.py <spec.json>: generates coq/theories/Properties/<PID>.v from a list of
(theorem name, lemma, comment): the explicit statement is what `Check @lemma` prints under the same imports.
The generated file is committed and re-checked by every run; this script only saves typing."""
import sys, json, subprocess, re, os
COQ = "/verif/coq"
spec = json.load(open(sys.argv[1]))
imports = spec["imports"]
hdr = f"From Prtpy Require Import {imports}.\n" + spec.get("extra_header", "")
src = hdr + "Set Printing Width 100.\nSet Printing Depth 200.\n" + "".join(f"Check @{e['lemma']}.\n" for e in spec["theorems"])
tmp = "/root/scratch/mkprop_tmp.v"
open(tmp, "w").write(src)
r = subprocess.run(["coqc", "-Q", "theories", "Prtpy", tmp], cwd=COQ, capture_output=True, text=True)
if r.returncode != 0:
    print(r.stderr); sys.exit(1)
out = r.stdout
# split on lines starting with '@name' 
names = "|".join(re.escape(e["lemma"]) for e in spec["theorems"])
chunks = re.split(r"^@?(?:" + names + r")\n", out, flags=re.M)[1:]
assert len(chunks) == len(spec["theorems"]), (len(chunks), len(spec["theorems"]))
body = f"(** {spec['title']}\n{spec['doc']} *)\n" + hdr + "\n"
for e, ch in zip(spec["theorems"], chunks):
    ty = ch.strip()
    assert ty.startswith(":"), ty[:50]
    ty = ty[1:].strip()
    ty = "\n".join("  " + l.strip() if i else l.strip() for i, l in enumerate(ty.split("\n")))
    name = f"{spec['pid']}_{e['name']}"
    if e.get("comment"):
        body += f"(** {e['comment']} *)\n"
    body += f"Theorem {name} :\n  {ty}.\nProof. exact {e.get('at', '@')}{e['lemma']}. Qed.\nPrint Assumptions {name}.\n\n"
path = f"{COQ}/theories/Properties/{spec['pid']}.v"
open(path, "w").write(body)
r = subprocess.run(["coqc", "-Q", "theories", "Prtpy", "-o", "/root/scratch/mkprop_out/" + spec["pid"] + ".vo", path], cwd=COQ, capture_output=True, text=True)
bad = [l for l in r.stdout.split("\n") if l and not l.startswith("Closed")]
print(spec["pid"], "rc", r.returncode, "theorems", len(spec["theorems"]), "non-closed lines:", bad[:5], r.stderr[-500:])
