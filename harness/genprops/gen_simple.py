#!/venv/bin/python
"""Generates the Properties/*.v files whose statements are the same schema instantiated per
algorithm (packers, covers).  The generated files are committed; this script only saves typing."""
import os
OUT = "/verif/coq/theories/Properties"
PACK = [("ff", "first_fit", "first-fit"), ("ffd", "first_fit_decreasing", "first-fit-decreasing"),
        ("bf", "best_fit", "best-fit"), ("bfd", "best_fit_decreasing", "best-fit-decreasing")]
COV = [("dec", "cover_decreasing", "decreasing"), ("tt", "cover_twothirds", "two-thirds"), ("tq", "cover_threequarters", "three-quarters")]

def thm(name, stmt, lemma, comment=None):
    c = f"(** {comment} *)\n" if comment else ""
    return f"{c}Theorem {name} : {stmt}.\nProof. exact {lemma}. Qed.\nPrint Assumptions {name}.\n\n"

# ---------------- C03
s = """(** C03 - Bin-packing results are feasible packings of exactly the input items.
    Statements only; proofs in Proofs/PackingProofs.v (fit heuristics) and Proofs/BCProofs.v (bin completion). *)
From Prtpy Require Import Base.Prelude Model.Binner Model.Packing Spec.Partition Proofs.PackingProofs.

"""
for a, f, doc in PACK:
    s += thm(f"C03_{a}_packing",
             f"forall (A : Type) (valueof : A -> Z) (C : Z) (items : list A) (b : bins A),\n  (items = [] -> 0 <= C) -> Forall (fun x : A => 0 <= valueof x) items ->\n  {f} valueof true C items = Ok b -> is_packing valueof C items b",
             f"@{a}_packing", f"{doc}: every item exactly once, no sum above the bin size, recorded sums are the totals")
    s += thm(f"C03_{a}_nonempty",
             f"forall (A : Type) (valueof : A -> Z) (C : Z) (items : list A) (b : bins A),\n  items <> [] -> Forall (fun x : A => 0 <= valueof x) items ->\n  {f} valueof true C items = Ok b -> all_nonempty b",
             f"@{a}_nonempty", f"{doc}: no bin of a non-empty input is empty")
open(os.path.join(OUT, "C03.v"), "w").write(s)

# ---------------- C09
s = """(** C09 - Fit heuristics keep the any-fit invariant (and the bin-count bound that follows from it).
    The sharp bounds 1.7 OPT, 11/9 OPT + 6/9, 11/9 OPT + 4 are NOT proved (DESIGN section 8): they are
    tested against the verified min_bins oracle; what is proved is the invariant and length <= 2 OPT - 1.
    Statements only; proofs in Proofs/PackingProofs.v and Proofs/OracleSpec.v. *)
From Prtpy Require Import Base.Prelude Model.Binner Model.Packing Spec.Partition Oracle.Reach Proofs.PackingProofs Proofs.OracleSpec.

"""
for a, f, doc in PACK:
    s += thm(f"C09_{a}_anyfit",
             f"forall (A : Type) (valueof : A -> Z) (C : Z) (items : list A) (b : bins A),\n  Forall (fun x : A => 0 <= valueof x) items -> items <> [] ->\n  {f} valueof true C items = Ok b -> anyfit valueof C b",
             f"@{a}_anyfit", f"{doc}: for any two bins, the earlier sum plus the first item of the later bin exceeds the bin size")
    s += thm(f"C09_{a}_lt_2opt",
             f"forall (A : Type) (valueof : A -> Z) (C : Z) (items : list A) (b : bins A) (n : nat),\n  items <> [] -> Forall (fun x : A => 0 <= valueof x) items ->\n  {f} valueof true C items = Ok b -> Packable C (map valueof items) n -> (length b <= 2 * n - 1)%nat",
             f"@{a}_lt_2n", f"{doc}: fewer than twice the bins of ANY feasible packing (weak consequence of any-fit)")
s += thm("C09_min_bins_oracle",
         "forall C vs, 0 < C -> Forall (fun v => 0 <= v <= C) vs ->\n  MinBins C (filter (fun v => negb (v =? 0)) vs) (min_bins C vs)",
         "min_bins_spec", "the yardstick used for the sharp bounds: min_bins is the true optimum")
open(os.path.join(OUT, "C09.v"), "w").write(s)

# ---------------- C05
s = """(** C05 - Bin-covering results are valid covers that waste less than one bin.
    Statements only; proofs in Proofs/CoveringProofs.v. *)
From Prtpy Require Import Base.Prelude Model.Binner Model.Covering Spec.Partition Proofs.CoveringProofs.

"""
for a, f, doc in COV:
    s += thm(f"C05_{a}_cover",
             f"forall (A : Type) (valueof : A -> Z) (C : Z) (items : list A),\n  0 < C -> Forall (fun x : A => 0 < valueof x) items ->\n  exists rest : list A, is_cover valueof C items ({f} valueof true C items) rest /\\ zsum (map valueof rest) < C",
             f"@{a}_cover", f"{doc}: every bin reaches the bin size, items used at most once, the unused items total less than one bin")
open(os.path.join(OUT, "C05.v"), "w").write(s)

# ---------------- C10
s = """(** C10 - Bin-covering heuristics meet their approximation guarantees.
    Proved: never more than OPT (all three); decreasing covers at least OPT/2 bins (stronger than the
    (OPT-1)/2 of the property).  NOT proved: 2/3 (OPT-1) for two-thirds and 3/4 OPT - 4 for three-quarters
    (tested against the verified max_cover oracle and planted instances; DESIGN section 8).
    Statements only; proofs in Proofs/CoveringProofs.v and Proofs/OracleSpec.v. *)
From Prtpy Require Import Base.Prelude Model.Binner Model.Covering Spec.Partition Oracle.Reach Proofs.CoveringProofs Proofs.OracleSpec.

"""
for a, f, doc in COV:
    s += thm(f"C10_{a}_le_opt",
             f"forall (A : Type) (valueof : A -> Z) (C : Z) (items : list A) (n : nat),\n  0 < C -> Forall (fun x : A => 0 < valueof x) items ->\n  MaxCover C (map valueof items) n -> (length ({f} valueof true C items) <= n)%nat",
             f"@{a}_le_opt", f"{doc}: never reports more than OPT")
s += thm("C10_dec_half",
         "forall (A : Type) (valueof : A -> Z) (C : Z) (items : list A) (n : nat),\n  0 < C -> Forall (fun x : A => 0 < valueof x) items ->\n  MaxCover C (map valueof items) n -> (n <= 2 * length (cover_decreasing valueof true C items))%nat",
         "@dec_half_strong", "decreasing: OPT <= 2 * covered (hence covered >= (OPT-1)/2)")
s += thm("C10_max_cover_oracle",
         "forall C vs, 0 < C -> Forall (fun v => 0 < v) vs -> MaxCover C vs (max_cover C vs)",
         "max_cover_spec", "the yardstick used for the unproved ratios: max_cover is the true optimum")
open(os.path.join(OUT, "C10.v"), "w").write(s)
print("generated")
