#!/venv/bin/python
"""Prints the markdown table of seeded changes (DESIGN.md 10.5.1) from seeded/*/meta.json."""
import os, json, glob
V = os.path.dirname(os.path.dirname(os.path.abspath(__file__)))
print("| seed | property | what was changed | needs, to manifest | own check | all checks that raise VIOLATION (quick tier) |")
print("|------|----------|------------------|--------------------|-----------|------------------------------------------------|")
for d in sorted(glob.glob(os.path.join(V, "seeded", "*"))):
    m = json.load(open(os.path.join(d, "meta.json")))
    pid = m.get("property")
    det = m.get("detected_by", {})
    own = det.get(pid, {})
    hits = sorted(c for c, r in det.items() if r.get("violation"))
    def short(s, n):
        s = " ".join(str(s).split())
        return (s[:n] + "...") if len(s) > n else s
    kind = ""
    if own.get("violation"):
        kind = "failing input" if not any("no-failing-input-found" in l for l in own.get("lines", [])) else "correspondence (no-failing-input-found)"
    print(f"| {os.path.basename(d)} | {pid} | {short(m.get('summary'), 170)} | {short(m.get('needs'), 150)} | {'caught: ' + kind if own.get('violation') else ('not detected - ' + short(m['verdict'], 60) if m.get('verdict') else 'MISSED')} | {' '.join(hits)} |")
