"""Runs batches of cases on the extracted model (OCaml driver) and on the implementation
(worker pool importing prtpy from $PRTPY_REPO)."""
import os, sys, json, subprocess, resource, multiprocessing as mp

VERIF = os.path.dirname(os.path.dirname(os.path.abspath(__file__)))
DRIVER = os.path.join(VERIF, "ocaml", "driver")
JOBS = int(os.environ.get("VERIF_JOBS", "12"))


def _unlimit_stack():
    try:
        resource.setrlimit(resource.RLIMIT_STACK, (resource.RLIM_INFINITY, resource.RLIM_INFINITY))
    except Exception:
        pass


def fmt_arg(x):
    """nested lists of ints -> driver syntax"""
    if isinstance(x, bool):
        return "1" if x else "0"
    if isinstance(x, int):
        return str(x)
    if isinstance(x, (list, tuple)):
        return "[" + ",".join(fmt_arg(y) for y in x) + "]"
    if x is None:
        return "[]"
    raise TypeError(f"cannot encode {x!r}")


def model_line(cmd, args):
    return cmd + " " + fmt_arg(list(args))


def _run_driver(lines, timeout):
    p = subprocess.run([DRIVER], input="\n".join(lines) + "\n", capture_output=True, text=True,
                       preexec_fn=_unlimit_stack, timeout=timeout)
    outs = p.stdout.split("\n")
    if outs and outs[-1] == "":
        outs.pop()
    if len(outs) != len(lines):
        # crashed in the middle: fill the rest with a driver error
        outs = outs + ['{"driver_error":"driver died: %s"}' % p.stderr.strip().replace('"', "'")[:200]] * (len(lines) - len(outs))
    return outs


def run_model(lines, timeout=3000, jobs=None):
    """lines: list of driver request lines; returns list of parsed JSON replies (same order)"""
    if not lines:
        return []
    jobs = jobs or JOBS
    n = len(lines)
    nchunks = max(1, min(jobs, n // 4 if n >= 8 else 1))
    # round-robin chunks so that expensive neighbouring cases are spread
    chunks = [lines[i::nchunks] for i in range(nchunks)]
    from concurrent.futures import ThreadPoolExecutor
    with ThreadPoolExecutor(max_workers=nchunks) as ex:
        results = list(ex.map(lambda c: _run_driver(c, timeout), chunks))
    out = [None] * n
    for ci, res in enumerate(results):
        for j, r in enumerate(res):
            out[ci + j * nchunks] = json.loads(r)
    return out


# ---------------------------------------------------------------- implementation pool
def _impl_worker(payload):
    case, timeout = payload
    from harness import impl
    return impl.run_case(case, timeout)


_pool = None


def get_pool(jobs=None):
    global _pool
    if _pool is None:
        ctx = mp.get_context("fork")
        _pool = ctx.Pool(jobs or JOBS, maxtasksperchild=2000)
    return _pool


def run_impl(cases, timeout=60, jobs=None, chunksize=None):
    """cases: list of {"port":..., "args":...}; returns list of result dicts"""
    if not cases:
        return []
    pool = get_pool(jobs)
    cs = chunksize or max(1, min(50, len(cases) // (4 * (jobs or JOBS)) or 1))
    return pool.map(_impl_worker, [(c, timeout) for c in cases], chunksize=cs)


def run_impl_sequential(cases, timeout=60):
    """one fresh worker process handling the cases in order (for history-sensitive checks)"""
    pool = mp.get_context("fork").Pool(1)
    try:
        return pool.map(_impl_worker, [(c, timeout) for c in cases], chunksize=len(cases))
    finally:
        pool.terminate()


def run_impl_fresh(cases, timeout=60, jobs=None):
    """every case in its own fresh interpreter process (no earlier call in the same process)"""
    if not cases:
        return []
    pool = mp.get_context("spawn").Pool(jobs or JOBS, maxtasksperchild=1)
    try:
        return pool.map(_impl_worker, [(c, timeout) for c in cases], chunksize=1)
    finally:
        pool.terminate()


def _cov_worker(payload):
    cases, timeout, repo, files = payload
    import coverage
    cov = coverage.Coverage(data_file=None, include=[os.path.join(repo, f) for f in files] or [os.path.join(repo, "prtpy", "*")])
    cov.start()
    from harness import impl
    for c in cases:
        try:
            impl.run_case(c, timeout)
        except Exception:
            pass
    cov.stop()
    out = {}
    for f in files:
        path = os.path.join(repo, f)
        try:
            _, stmts, _, missing, _ = cov.analysis2(path)
            out[f] = [len(stmts) - len(missing), len(stmts)]
        except Exception as e:      # noqa
            out[f] = [0, 0]
    return out


def coverage_sample(cases, files, timeout=20, limit=400):
    """statement coverage of the anchored source files by a sample of this run's cases (one fresh process, coverage.py)"""
    if not cases or not files:
        return {}
    repo = os.environ.get("PRTPY_REPO", "/repo")
    step = max(1, len(cases) // limit)
    sample = cases[::step][:limit]
    pool = mp.get_context("spawn").Pool(1)
    try:
        return pool.apply(_cov_worker, ((sample, timeout, repo, list(files)),))
    except Exception as e:      # noqa
        return {"error": str(e)[:200]}
    finally:
        pool.terminate()


def close_pool():
    global _pool
    if _pool is not None:
        _pool.terminate()
        _pool = None
