#!/venv/bin/python
"""Builds corpus/<pid>/seed_<id>.json from the replay files kept next to the seeded changes: the concrete failing inputs
found when a check was run against a seeded change are re-run FIRST by every later run of that check (regression corpus).
On the unchanged tree they must pass."""
import os, json, glob
V = os.path.dirname(os.path.dirname(os.path.abspath(__file__)))
n = 0
for d in sorted(glob.glob(os.path.join(V, "seeded", "*"))):
    sid = os.path.basename(d)
    for f in sorted(glob.glob(os.path.join(d, "replay_*.json"))):
        r = json.load(open(f))
        pid = r.get("property")
        us = [u for u in r.get("units", []) if isinstance(u, dict) and "kind" in u and "params" in u]
        if not pid or not us:
            continue
        for u in us:
            u["family"] = f"corpus/{sid}"
            if "group" in u:
                u["group"] = f"corpus/{sid}/{os.path.basename(f)}"
            u.pop("sibling_of", None)
        os.makedirs(os.path.join(V, "corpus", pid), exist_ok=True)
        out = os.path.join(V, "corpus", pid, f"seed_{sid}_{os.path.basename(f)[7:]}")
        json.dump({"from": sid, "what": str(r.get("what"))[:300], "units": us}, open(out, "w"), indent=1)
        n += 1
print("corpus files:", n)

# validation: every corpus file must pass on the unchanged tree (a file that fails there is stale - produced by an older
# version of the harness - or holds a badly shrunk input); such files are dropped and listed in corpus/REJECTED.txt
import subprocess, sys
if "--no-validate" not in sys.argv:
    rej = []
    files = sorted(glob.glob(os.path.join(V, "corpus", "C*", "seed_*.json")))
    for f in files:
        pid = os.path.basename(os.path.dirname(f))
        r = subprocess.run([os.path.join(V, "check"), pid, "--replay", f, "--no-coq"], capture_output=True, text=True,
                           env=dict(os.environ, PRTPY_REPO="/repo", VERIF_REPLAY_DIR=os.path.join(V, "work", "replay_corpus_validation")))
        if r.returncode != 0:
            why = [l for l in r.stdout.split("\n") if l.startswith("# ")][:1]
            rej.append(f"{os.path.relpath(f, V)}: {why[0][:200] if why else 'rc ' + str(r.returncode)}")
            os.remove(f)
    with open(os.path.join(V, "corpus", "REJECTED.txt"), "w") as fh:
        fh.write("corpus files dropped because they fail on the unchanged tree (stale replay of an older harness, or a badly shrunk input):\n" + "\n".join(rej) + "\n")
    print("validated", len(files), "rejected", len(rej))
