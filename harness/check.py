#!/venv/bin/python
"""check.py <property id> [--tier quick|thorough] [--replay FILE]

Decision procedure of DESIGN.md section 1.1:
 1. build the Coq development, re-check Properties/<id>.v, parse Print Assumptions;
 2. generate cases (one PRNG seeded by VERIF_SEED);
 3. run the implementation (prtpy from $PRTPY_REPO, default /repo) and the extracted model;
 4. compare in canonical form per port;  5. judge implementation outputs with the verified oracles;
 6. on any break search for a concrete failing input; 7. write evidence/<id>.json.
Exit 0 iff no violation outside /verif/known_findings.json."""
import os, sys, json, time, random, argparse, importlib, subprocess, hashlib, traceback

VERIF = os.path.dirname(os.path.dirname(os.path.abspath(__file__)))
sys.path.insert(0, VERIF)
REPO = os.environ.get("PRTPY_REPO", "/repo")
os.environ.setdefault("PYTHONHASHSEED", "0")

from harness import runner, units, coqstage, vmcheck, evidence as ev   # noqa: E402


def load_known():
    with open(os.path.join(VERIF, "known_findings.json")) as f:
        return json.load(f)


def unit_key(u):
    return hashlib.sha1(json.dumps([u["kind"], u["params"]], sort_keys=True).encode()).hexdigest()


class Outcome:
    def __init__(self):
        self.mismatch = {}     # idx -> text   (correspondence breaks)
        self.judged = {}       # idx -> [text] (property predicate false on implementation output)
        self.impl = []
        self.model = []


def evaluate(prop, us, timeout=60):
    """run implementation + model on the units, compare, judge"""
    oc = Outcome()
    cases = [units.impl_case(u["kind"], u["params"]) if "impl" not in u else u["impl"] for u in us]
    reqs = [units.model_request(u["kind"], u["params"]) if u.get("cmp") is not None or u.get("need_model") else None for u in us]
    lines, where = [], []
    for i, r in enumerate(reqs):
        if r is not None:
            lines.append(runner.model_line(*r))
            where.append(i)
    t0 = time.time()
    oc.impl = runner.run_impl(cases, timeout=timeout)
    t1 = time.time()
    replies = runner.run_model(lines)
    t2 = time.time()
    oc.requests = [reqs[i] for i in where]
    oc.raw_replies = replies
    oc.model = [None] * len(us)
    for i, r in zip(where, replies):
        oc.model[i] = units.norm_model(us[i]["kind"], us[i]["params"], r)
    # a unit on which the implementation exceeded the harness's own per-case wall-clock allowance is INCONCLUSIVE: no property is
    # about running time (the exact algorithms are exponential), so it is neither compared nor judged; it is counted in the evidence
    oc.timeouts = {i for i, r in enumerate(oc.impl) if isinstance(r, dict) and r.get("exc") == "Timeout"}
    for i, u in enumerate(us):
        if i in oc.timeouts:
            continue
        try:
            m = units.compare(u["kind"], u["params"], u.get("cmp"), oc.impl[i], oc.model[i])
        except Exception as e:   # malformed implementation output is a disagreement, not a crash
            m = f"comparison failed ({type(e).__name__}: {e}); impl {units.short(oc.impl[i])} model {units.short(oc.model[i])}"
        if m:
            oc.mismatch[i] = m
    # judges: property predicates evaluated on the implementation's output
    jreqs, jwhere = [], []
    for i, u in enumerate(us):
        if i in oc.timeouts:
            continue
        try:
            for j in prop.judge_requests(u, oc.impl[i], oc.model[i]):
                # j = (cmd, args, predicate(reply)->None|text) or ("py", None, text-or-None)
                if j[0] == "py":
                    if j[2]:
                        oc.judged.setdefault(i, []).append(j[2])
                else:
                    jreqs.append(runner.model_line(j[0], j[1]))
                    jwhere.append((i, j[2]))
        except Exception as e:
            oc.judged.setdefault(i, []).append(f"judge failed on malformed output ({type(e).__name__}: {e}): {units.short(oc.impl[i])}")
    jreplies = runner.run_model(jreqs)
    for (i, pred), r in zip(jwhere, jreplies):
        try:
            t = pred(r)
        except Exception as e:
            t = f"judge predicate failed ({type(e).__name__}: {e}) on {r}"
        if t:
            oc.judged.setdefault(i, []).append(t)
    oc.times = {"impl_s": round(t1 - t0, 2), "model_s": round(t2 - t1, 2), "judge_s": round(time.time() - t2, 2)}
    return oc


def shrink(prop, u, still_fails, budget=60):
    """greedy shrinking of the unit's item list (drop items, lower values, lower k)"""
    p = u["params"]
    if "vals" not in p or not hasattr(prop, "shrinkable") or not prop.shrinkable(u):
        return u
    best = u
    tries = 0
    changed = True
    while changed and tries < budget:
        changed = False
        p = best["params"]
        cands = []
        n = len(p["vals"])
        for i in range(n):
            q = dict(p)
            q["vals"] = p["vals"][:i] + p["vals"][i + 1:]
            if "ids" in p:
                q["ids"] = p["ids"][:i] + p["ids"][i + 1:]
            if q["vals"]:
                cands.append(q)
        if "k" in p and p["k"] > 1 and p.get("algo") != "cbldm":      # cbldm accepts two bins only: a smaller k is another (invalid) request
            q = dict(p)
            q["k"] = p["k"] - 1
            cands.append(q)
        for i in range(n):
            if p["vals"][i] > 1 and "ids" in p:
                q = dict(p)
                q["vals"] = list(p["vals"])
                q["vals"][i] = p["vals"][i] // 2
                cands.append(q)
        for q in cands:
            tries += 1
            if tries > budget:
                break
            v = dict(best)
            v["params"] = q
            if "ids" not in q and "ids" in p:
                pass
            try:
                if still_fails(v):
                    best = v
                    changed = True
                    break
            except Exception:
                continue
    return best


def main():
    ap = argparse.ArgumentParser()
    ap.add_argument("pid")
    ap.add_argument("--tier", default=os.environ.get("VERIF_TIER", "quick"))
    ap.add_argument("--replay")
    ap.add_argument("--no-coq", action="store_true", help="skip the Coq stage (debugging only; evidence says so)")
    args = ap.parse_args()
    pid = args.pid.upper()
    tier = "thorough" if args.tier == "thorough" else "quick"
    seed = int(os.environ.get("VERIF_SEED", "20260926"))
    t_start = time.time()
    prop = importlib.import_module("harness.props." + pid.lower())
    known = load_known()
    os.makedirs(os.path.join(VERIF, "work"), exist_ok=True)
    replay_dir = os.environ.get("VERIF_REPLAY_DIR") or os.path.join(VERIF, "work", "replay")
    os.makedirs(replay_dir, exist_ok=True)

    violations = []        # (text, replay path)
    known_lines = []

    # ---- 1. Coq stage
    if args.no_coq:
        coq = {"ok": True, "skipped": True, "theorems": [], "axioms": {}, "obligations": 0, "discharged": 0, "log": "skipped"}
    else:
        coq = coqstage.run(pid, thorough=(tier == "thorough"))

    # ---- 2-6 are one ROUND.  quick: one round.  thorough: rounds with fresh sub-seeds until the time budget is used
    #      (VERIF_THOROUGH_BUDGET seconds, default 420; at most VERIF_THOROUGH_ROUNDS, default 40) or a violation is found.
    budget = float(os.environ.get("VERIF_THOROUGH_BUDGET", "420"))
    max_rounds = 1 if (tier == "quick" or args.replay) else int(os.environ.get("VERIF_THOROUGH_ROUNDS", "40"))
    cum = {"rounds": 0, "evaluations": 0, "nontrivial": set(), "families": {}, "vm_checked": 0, "mismatch": 0, "judged": 0}
    for rnd in range(max_rounds):
        # ---- 2. units
        rng = random.Random(seed * 1000003 + int(pid[1:]) + 7919 * rnd)
        if args.replay:
            with open(args.replay) as f:
                rp = json.load(f)
            us = rp.get("units", [])
        else:
            us = list(prop.units(rng, tier))
            # regression corpus (concrete failing inputs of past detections, see harness/mkcorpus.py): appended, first round only
            corpus_dir = os.path.join(VERIF, "corpus", pid)
            if rnd == 0 and os.path.isdir(corpus_dir):
                for fn in sorted(os.listdir(corpus_dir)):
                    if fn.endswith(".json"):
                        with open(os.path.join(corpus_dir, fn)) as f:
                            us.extend(json.load(f).get("units", []))

        # ---- 3-5. run, compare, judge
        oc = evaluate(prop, us, timeout=getattr(prop, "CASE_TIMEOUT", 60))
        extra = prop.extra_checks(rng, tier, us, oc) if hasattr(prop, "extra_checks") else []
        _to = {id(us[i]) for i in getattr(oc, "timeouts", ())}
        extra = [e for e in extra if not any(id(u) in _to for u in e.get("units", []))]     # a group with a timed-out member is inconclusive
        # extra: list of {"text":..., "units":[...], "kind": "judge"|"corr"} property-level checks (metamorphic pairs, histories...)

        # ---- 5b. the extracted driver against vm_compute on the same requests (sample)
        vm = {"checked": 0, "mismatches": [], "eligible": 0}
        if not args.no_coq and not args.replay:
            try:
                vm = vmcheck.cross_check(oc.requests, oc.raw_replies, rng, sample=40 if tier == "quick" else 200)
            except Exception as e:
                vm = {"checked": 0, "mismatches": [f"cross-check failed to run: {type(e).__name__}: {e}"], "eligible": 0}
        oc.vm = vm

        # ---- 6. classify
        bad = sorted(set(oc.mismatch) | set(oc.judged))
        found_input = []
        corr_only = []
        for i in bad:
            u = us[i]
            kf = prop.known_finding(u, oc.impl[i], oc.model[i], oc.mismatch.get(i), oc.judged.get(i), known) \
                if hasattr(prop, "known_finding") else None
            if kf:
                known_lines.append(kf)
                continue
            if i in oc.judged:
                found_input.append(i)
            else:
                corr_only.append(i)

        def write_replay(name, payload):
            path = os.path.join(replay_dir, f"{pid}_{name}.json")
            with open(path, "w") as f:
                json.dump(payload, f, indent=1, sort_keys=True)
            return path

        def fails_judge(v):
            o = evaluate(prop, [v], timeout=getattr(prop, "CASE_TIMEOUT", 60))
            return 0 in o.judged

        def fails_any(v):
            o = evaluate(prop, [v], timeout=getattr(prop, "CASE_TIMEOUT", 60))
            return 0 in o.judged or 0 in o.mismatch

        if found_input:
            i = found_input[0]
            u = shrink(prop, us[i], fails_judge) if not args.replay else us[i]
            o1 = evaluate(prop, [u])
            path = write_replay("violation", {
                "property": pid, "kind": "failing-input", "units": [u],
                "what": o1.judged.get(0, oc.judged[i]), "correspondence": o1.mismatch.get(0),
                "impl_output": o1.impl[0], "model_output": o1.model[0],
                "others": len(found_input) - 1,
                "how_to_replay": f"/verif/check {pid} --replay <this file>"})
            violations.append((f"property predicate false on implementation output: {units.short(o1.judged.get(0, oc.judged[i]), 200)}", path, True))
        elif corr_only:
            # correspondence broke but no judged failure among the generated cases: widen the search
            i = corr_only[0]
            witness = None
            if hasattr(prop, "search_failing_input") and not args.replay:
                witness = prop.search_failing_input(rng, tier, [us[j] for j in corr_only], evaluate)
            elif not args.replay:
                # generic wider search: fresh batches of cases (other sub-seeds), looking for an input on which the PROPERTY itself fails
                for extra_round in range(int(os.environ.get("VERIF_SEARCH_ROUNDS", "3"))):
                    rng2 = random.Random(seed * 7 + 104729 * (extra_round + 1) + int(pid[1:]))
                    us2 = prop.units(rng2, tier)
                    oc2 = evaluate(prop, us2, timeout=getattr(prop, "CASE_TIMEOUT", 60))
                    cand = [j for j in sorted(oc2.judged)
                            if not (hasattr(prop, "known_finding") and prop.known_finding(us2[j], oc2.impl[j], oc2.model[j], oc2.mismatch.get(j), oc2.judged.get(j), known))]
                    if cand:
                        witness = shrink(prop, us2[cand[0]], fails_judge)
                        break
            if witness is not None:
                o1 = evaluate(prop, [witness])
                path = write_replay("violation", {
                    "property": pid, "kind": "failing-input", "units": [witness],
                    "what": o1.judged.get(0), "impl_output": o1.impl[0], "model_output": o1.model[0],
                    "found_by": "oracle-backed search after a correspondence break",
                    "how_to_replay": f"/verif/check {pid} --replay <this file>"})
                violations.append((f"property predicate false on implementation output: {units.short(o1.judged.get(0), 200)}", path, True))
            else:
                u = shrink(prop, us[i], fails_any) if not args.replay else us[i]
                o1 = evaluate(prop, [u])
                path = write_replay("violation", {
                    "property": pid, "kind": "correspondence-break",
                    "no_longer_checks": f"correspondence model<->implementation at port '{u['kind']}' (canonical form '{u.get('cmp')}'), on which theorems {coq.get('theorems', [])} rely",
                    "units": [u], "disagreement": o1.mismatch.get(0, oc.mismatch[i]),
                    "impl_output": o1.impl[0], "model_output": o1.model[0],
                    "disagreeing_cases": len(corr_only),
                    "how_to_replay": f"/verif/check {pid} --replay <this file>"})
                violations.append((f"model and implementation disagree: {units.short(o1.mismatch.get(0, oc.mismatch[i]), 200)}", path, False))

        for x in extra:
            kf = x.get("known")
            if kf:
                known_lines.append(kf)
                continue
            path = write_replay("violation_extra", {"property": pid, "kind": x.get("kind", "failing-input"),
                                                    "what": x["text"], "units": x.get("units", []), "detail": x.get("detail")})
            violations.append((x["text"], path, x.get("kind", "failing-input") == "failing-input"))

        if oc.vm["mismatches"]:
            path = write_replay("extraction", {"property": pid, "kind": "correspondence-break",
                                               "no_longer_checks": "extracted OCaml driver vs vm_compute on the Gallina definitions (trusted glue: extraction + ocaml/driver.ml)",
                                               "mismatches": oc.vm["mismatches"]})
            violations.append((f"extracted model and vm_compute disagree: {oc.vm['mismatches'][0][:200]}", path, False))


        # cumulative statistics over the rounds
        cum["rounds"] += 1
        cum["evaluations"] += len(us) + sum(x.get("evaluations", 0) for x in extra if isinstance(x, dict))
        cum["mismatch"] += len(oc.mismatch)
        cum["judged"] += len(oc.judged)
        cum["vm_checked"] += oc.vm.get("checked", 0)
        for i, u in enumerate(us):
            f = u.get("family", u["kind"])
            cum["families"][f] = cum["families"].get(f, 0) + 1
            try:
                if prop.nontrivial(u, oc.impl[i], oc.model[i]):
                    cum["nontrivial"].add(unit_key(u))
            except Exception:
                pass
        if violations or time.time() - t_start > budget:
            break

    if not coq["ok"]:
        path = write_replay("proof", {"property": pid, "kind": "proof-obligation-break",
                                      "no_longer_checks": coq.get("failed", "Properties/%s.v" % pid),
                                      "log": coq.get("log", "")[-4000:]})
        # a broken proof obligation with no failing input found among the cases explored
        if not any(v[2] for v in violations):
            violations.append((f"proof obligation no longer checks: {coq.get('failed')}", path, False))

    # static known findings that the property module demonstrates on every run
    if hasattr(prop, "demonstrate_known") and not args.replay:
        known_lines.extend(prop.demonstrate_known(known, evaluate))

    # ---- 6b. statement coverage of the property's anchored files by a sample of the cases (informational, in the evidence)
    anchors = []
    try:
        for l in open(os.path.join(VERIF, "properties.jsonl")):
            pj = json.loads(l)
            if pj["id"] == pid:
                anchors = [f for f in pj.get("anchors", {}).get("files", []) if f.endswith(".py")]
    except Exception:
        pass
    if not args.replay and anchors:
        cases_s = [units.impl_case(u["kind"], u["params"]) if "impl" not in u else u["impl"] for u in us]
        oc.anchor_coverage = runner.coverage_sample(cases_s, anchors)

    # ---- 7. evidence
    wall = time.time() - t_start
    if not args.replay:
        ev.write(pid, tier, seed, prop, us, oc, coq, violations, known_lines, wall, extra, cum)

    for line in sorted(set(known_lines)):
        print(f"KNOWN-FINDING: property={pid} {line}")
    rc = 0
    for text, path, has_input in violations:
        tail = "" if has_input else " no-failing-input-found"
        print(f"# {pid}: {text}")
        print(f"VIOLATION property={pid} replay={path}{tail}")
        rc = 1
    if rc == 0:
        print(f"OK property={pid} tier={tier} units={len(us)} theorems={coq.get('discharged')}/{coq.get('obligations')} wall={wall:.1f}s")
    runner.close_pool()
    sys.exit(rc)


if __name__ == "__main__":
    main()
