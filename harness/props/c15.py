"""C15 - calls are pure: inputs untouched, results repeatable, no state across calls."""
import json
from harness import units as UN, gen, runner
from harness.pcommon import part_unit, pack_unit

ID = "C15"
RULE = ("histories: random sequences of 12..40 calls in ONE interpreter, drawn with repetition from a pool of calls covering every partitioning, packing and covering "
        "algorithm x input formats (list, numpy array, dict with string / integer keys, names + value function) x output types, complete greedy with random switches, "
        "families of related calls (same items with another bin size / number of bins / objective / switch vector / cardinality bound, same parameter with reordered items or another format) inserted back to back, and FAILING calls (oversize item, cbldm with three bins / negative item, rnp with 6 bins); each call of the pool is also run alone in a fresh interpreter. "
        "After every call of a history every argument object handed to prtpy (list, array, dict, the dict behind the value function) is deep-compared with a snapshot. "
        "Non-trivial history: >= 12 calls, >= 5 distinct algorithms, >= 1 failing call, >= 1 repeated call. Distinct by (port, params).")
EXPLANATION = ("what a Gallina model can carry: every model algorithm is a function of its arguments (determinism and independence of earlier calls hold by construction), "
               "and on the object-heap layer (Model/BinnerHeap.v) the frame theorems show that an operation changes only the arrays it names, that copies are independent and that "
               "the source of combine_bins is never altered (C15_* theorems). What only the interpreter can exhibit - module globals, caches, mutable default arguments, in-place "
               "sorting of the caller's list, solver state - is decided by exploration: each result inside a history must be IDENTICAL (bins in order, contents in order, or the "
               "same error) to the result of the same call alone in a fresh interpreter, and no argument object may change.")
ASSUMPTIONS = ["PYTHONHASHSEED fixed; CBC deterministic for identical models", "interpreter-level state is explored, not proved (partial)"]
EXTRA_TRUSTED = ["interpreter-level purity (globals, caches, argument mutation in CPython) is outside any Gallina model: explored with histories, not proved"]
CASE_TIMEOUT = 300
STATS = {"pool_calls": 0, "history_calls": 0, "failing_calls_in_histories": 0, "repeated_calls": 0}
POOL = []


def build_pool(rng, tier):
    pool = []
    n = 1 if tier == "quick" else 3
    for _ in range(n):
        for a in ["greedy", "roundrobin", "bidir", "multifit", "kk", "cg", "ckk", "snp", "rnp", "dp", "ilp", "cbldm"]:
            for fmt in rng.sample(gen.FORMATS, 3):
                vals, fam = gen.values(rng, nmax=7, vmax=2 ** 40)
                k = rng.choice([2, 2, 3, 4])
                kw = {}
                if a == "cg":
                    kw = {"objective": rng.choice([[0, 0], [1, 0], [2, 0]]), "flags": [rng.randint(0, 1) for _ in range(4)]}
                if a in ("dp", "ilp"):
                    vals = [min(v, 60) for v in vals[:6]]
                    k = min(k, 3)
                    kw = {"objective": rng.choice([[0, 0], [1, 0], [2, 0]])}
                if a == "cbldm":
                    k = 2
                u = part_unit(a, k, vals, rng, fmt=fmt, out=rng.choice(["pst", "pst", "sums", "partition", "difference"]) if a not in ("dp", "cbldm") else "pst", **kw)
                pool.append({"port": "partition", "args": u["params"]})
        for a in ["ff", "ffd", "bf", "bfd", "bc", "cover_dec", "cover_23", "cover_34"]:
            for fmt in rng.sample(gen.FORMATS, 3):
                C, vals, fam = (gen.covering_instance if a.startswith("cover") else gen.packing_instance)(rng, nmax=8)
                u = pack_unit(a, C, vals, rng, fmt=fmt, out=rng.choice(["pst", "pst", "sums", "bincount", "partition"]))
                pool.append({"port": "pack", "args": u["params"]})
        # argument-mutation bait: unsorted items with zero-valued and repeated entries, as a plain list and as names + value function,
        # for every algorithm (an in-place sort, de-duplication or removal of zeros on the caller's object shows here)
        for a in ["ff", "ffd", "bf", "bfd", "bc", "cover_dec", "cover_23", "cover_34"]:
            for fmt in ["list", "names_valueof"]:
                C = rng.choice([10, 12, 20])
                vals = [rng.randint(1, C) for _ in range(rng.randint(2, 5))]
                vals += [rng.choice(vals)] + [0] * rng.randint(1, 2)
                rng.shuffle(vals)
                pool.append({"port": "pack", "args": pack_unit(a, C, vals, rng, fmt=fmt, out=rng.choice(["pst", "sums", "bincount"]))["params"]})
        # ... and the degenerate sizes: a ONE-item list and an EMPTY list for every packer and cover (a shortcut that skips the
        # defensive copy for "nothing to sort" inputs shows here)
        for a in ["ff", "ffd", "bf", "bfd", "bc", "cover_dec", "cover_23", "cover_34"]:
            for vals in ([rng.randint(1, 9)], [rng.randint(10, 15)], []):
                pool.append({"port": "pack", "args": pack_unit(a, 10, vals, rng, fmt="list", out=rng.choice(["pst", "sums"]))["params"]})
        for a in ["greedy", "roundrobin", "bidir", "multifit", "kk", "cg", "ckk", "snp", "dp", "cbldm"]:
            for fmt in ["list", "names_valueof"]:
                vals = [rng.randint(1, 30) for _ in range(rng.randint(2, 5))]
                vals += [rng.choice(vals)] + [0] * rng.randint(1, 2)
                rng.shuffle(vals)
                pool.append({"port": "partition", "args": part_unit(a, 2 if a == "cbldm" else rng.choice([2, 3]), vals, rng, fmt=fmt, out="pst")["params"]})
        # ... and UNHASHABLE item objects ([name, value] records with a value function): the algorithms that count items with a Counter
        # refuse them (TypeError) - identically in a history and alone - and a refusal must leave the caller's list alone as well
        for a in ["greedy", "kk", "ckk", "snp", "rnp", "cg", "multifit", "ffd", "bfd", "bc", "cover_34"]:
            vals = [rng.randint(1, 30) for _ in range(rng.randint(5, 7))]
            if a in ("ffd", "bfd", "bc", "cover_34"):
                pool.append({"port": "pack", "args": pack_unit(a, max(vals) + rng.randint(0, 9), vals, rng, fmt="records_valueof", out="pst")["params"]})
            else:
                pool.append({"port": "partition", "args": part_unit(a, rng.choice([3, 3, 4]), vals, rng, fmt="records_valueof", out=rng.choice(["pst", "sums"]))["params"]})
        # the rest of the public surface inside histories: objective objects (among them the weighted one, whose value is a float division),
        # lower bounds, and complete KK with ONE bin (its bound divides by numbins - 1 = 0 and relies on numpy's default error mode)
        for _ in range(3):
            nb = rng.randint(2, 4)
            sm = [rng.randint(0, 50) for _ in range(nb)]
            pool.append({"port": "weighted_value", "args": {"weights": [rng.randint(1, 4) for _ in range(nb)], "sums": sm, "sorted": 0, "kind": "list"}})
            pool.append({"port": "objective_value", "args": {"o": rng.choice([0, 1, 2, 3, 4]), "ok": 2, "sums": sm, "sorted": 0, "kind": rng.choice(["list", "array"])}})
            pool.append({"port": "lower_bound", "args": {"o": rng.choice([0, 1, 2]), "ok": 2, "sums": sorted(sm), "R": rng.randint(0, 30), "sorted": 1, "kind": "list"}})
        for a in ["ckk", "ckk", "kk", "greedy"]:
            vals = [rng.randint(1, 20) for _ in range(rng.randint(2, 5))]
            pool.append({"port": "partition", "args": part_unit(a, 1, vals, rng, fmt="list", out="pst")["params"]})
        # failing calls
        for a in ["ff", "bfd", "bc"]:
            u = pack_unit(a, 10, [3, 11, 4, 10], rng, fmt=rng.choice(gen.FORMATS))
            pool.append({"port": "pack", "args": u["params"], "fails": True})
        pool.append({"port": "partition", "args": part_unit("cbldm", 3, [1, 2, 3], rng, fmt="list")["params"], "fails": True})
        pool.append({"port": "partition", "args": part_unit("cbldm", 2, [1, -2, 3], rng, fmt="list")["params"], "fails": True})
        pool.append({"port": "partition", "args": part_unit("rnp", 6, [68, 22, 72, 23, 31, 30, 4], rng, fmt="list")["params"], "fails": True})
        # direct calls with a bins-manager
        for a in ["greedy", "kk", "ckk", "ffd", "cover_23"]:
            vals, fam = gen.values(rng, nmax=7, vmax=1000, allow_zero=False)
            p = {"algo": a, "keep": rng.random() < 0.5, "fmt": rng.choice(["list", "dict_str"])}
            p.update(gen.with_format(rng, vals, p["fmt"]))
            if a in ("ffd", "cover_23"):
                p["C"] = max(vals) + rng.randint(0, 20)
            else:
                p["k"] = rng.choice([2, 3])
            pool.append({"port": "algo_direct", "args": p})
    # families of RELATED calls: the same items with a different parameter (bin size, number of bins, objective, switches, bound),
    # the same parameter with reordered items, the same values under another format - the shapes on which a cache with an
    # incomplete key, a memo that outlives the call or a default argument that is mutated give a wrong answer
    fams = []
    for _ in range(6 if tier == "quick" else 40):
        for a in ["bc", "bc", "ffd", "bfd", "cover_34"]:
            C0 = rng.choice([12, 20, 21, 30, 32])
            lo, hi = max(1, C0 // 5), max(2, (2 * C0) // 3)
            vals = [rng.randint(lo, hi) for _ in range(rng.randint(4, 7))]
            fam = []
            for C in sorted(set([max(vals) + rng.randint(0, 3), max(vals) + rng.randint(4, 12), C0 + max(vals)])):
                for fmt in rng.sample(["list", "dict_str", "array"], 2):
                    fam.append({"port": "pack", "args": pack_unit(a, C, vals, rng, fmt=fmt, out=rng.choice(["pst", "sums", "bincount"]))["params"]})
            v2 = list(vals)
            rng.shuffle(v2)
            fam.append({"port": "pack", "args": pack_unit(a, fam[0]["args"]["C"], v2, rng, fmt="list")["params"]})
            fams.append(fam)
        for a in ["greedy", "kk", "ckk", "snp", "cg", "dp", "cbldm", "multifit"]:
            vals, _f = gen.values(rng, nmax=7, vmax=1000)
            if a == "dp":
                vals = [min(v, 40) for v in vals[:6]]
            fam = []
            for k in ([2] if a == "cbldm" else [2, 3, 4]):
                kws = [{}]
                if a == "cg":
                    kws = [{"objective": o, "flags": [rng.randint(0, 1) for _ in range(4)]} for o in ([0, 0], [1, 0], [2, 0])]
                if a == "dp":
                    kws = [{"objective": o} for o in ([0, 0], [1, 0], [2, 0])]
                if a == "cbldm":
                    kws = [{}, {"partition_difference": 1}, {"partition_difference": 2}]
                for kw in kws:
                    fam.append({"port": "partition", "args": part_unit(a, k, vals, rng, fmt=rng.choice(["list", "dict_str"]), out="pst", **kw)["params"]})
            fams.append(fam)
    # bin completion only searches when best-fit-decreasing misses the volume bound: families whose capacities are all of that kind
    # (screened with the model), so that consecutive searches on the same items really happen
    tries = []
    for _ in range(60 if tier == "quick" else 400):
        vals = [rng.randint(4, 20) for _ in range(rng.randint(4, 6))]
        tries.append(vals)
    lines = []
    for vals in tries:
        for C in range(max(vals), max(vals) + 16):
            lines.append(runner.model_line("bfd", [0, C, vals, vals]))
    res = runner.run_model(lines)
    j = 0
    nsearch = 0
    for vals in tries:
        caps = []
        for C in range(max(vals), max(vals) + 16):
            r = res[j]
            j += 1
            if isinstance(r, dict) and "ok" in r and len(r["ok"]) > -(-sum(vals) // C):
                caps.append(C)
        if len(caps) >= 2 and nsearch < (12 if tier == "quick" else 80):
            nsearch += 1
            fam = [{"port": "pack", "args": pack_unit("bc", C, vals, rng, fmt=rng.choice(["list", "dict_str"]), out=rng.choice(["pst", "sums"]))["params"]} for C in rng.sample(caps, min(4, len(caps)))]
            fams.append(fam)
            fams.append(fam)      # twice: these families are picked more often
    # ... and a long list of such searches (small values, 5-10 items), each of which is made TWICE in a row inside one history (units()):
    # a memo that hands out a mutable value which its first user then alters corrupts the second identical search on about 1 in 100 of them
    tries = []
    for _ in range(700 if tier == "quick" else 4000):
        lo, hi, nlo, nhi, cx = rng.choice([(1, 20, 5, 8, 15), (1, 12, 6, 10, 8), (1, 30, 6, 9, 10)])
        vals = [rng.randint(lo, hi) for _ in range(rng.randint(nlo, nhi))]
        tries.append((rng.randint(max(vals), max(vals) + cx), vals))
    res = runner.run_model([runner.model_line("bfd", [0, C, vals, vals]) for C, vals in tries])
    del SEARCHES[:]
    for (C, vals), r in zip(tries, res):
        if isinstance(r, dict) and "ok" in r and len(r["ok"]) > -(-sum(vals) // C):
            SEARCHES.append({"port": "pack", "args": pack_unit("bc", C, vals, rng, fmt="list", out=rng.choice(["pst", "sums", "bincount"]))["params"]})
    FAMILIES[:] = fams
    seen = set()
    for fam in fams:
        if id(fam) not in seen:
            seen.add(id(fam))
            pool.extend(fam)
    return pool


FAMILIES = []
SEARCHES = []


def units(rng, tier):
    del POOL[:]
    POOL.extend(build_pool(rng, tier))
    STATS["pool_calls"] = len(POOL)
    us = []
    for _ in range(40 if tier == "quick" else 300):
        n = rng.randint(12, 40)
        idx = [rng.randrange(len(POOL)) for _ in range(n)]
        # bursts of related calls (same items, another parameter / order / format) back to back, in random order
        for _b in range(rng.randint(1, 3)):
            fam = rng.choice(FAMILIES)
            burst = [POOL.index(c) for c in rng.sample(fam, min(len(fam), rng.randint(2, 5)))]
            if rng.random() < 0.6:
                burst.append(burst[0])      # ... and the very same call once more (a memo whose stored value was altered by its first user)
            at = rng.randrange(n)
            idx[at:at] = burst
        n = len(idx)
        # make sure something repeats and something fails
        idx[rng.randrange(n)] = idx[0]
        fails = [i for i, c in enumerate(POOL) if c.get("fails")]
        idx[rng.randrange(1, n)] = rng.choice(fails)
        recs = [i for i, c in enumerate(POOL) if c["args"].get("fmt") == "records_valueof"]
        for _r in range(2):
            idx.insert(rng.randrange(1, len(idx)), rng.choice(recs))      # two calls on unhashable record items in every history
        calls = [{"port": POOL[i]["port"], "args": POOL[i]["args"]} for i in idx]
        us.append({"kind": "history", "params": {"calls": calls}, "cmp": None, "family": "random-history"})
    # LONG histories: a few small complete-KK / SNP calls on which the differencing heuristic alone is not optimal, then dozens of heavy
    # three-way searches on 13-14 items (several hundred thousand search nodes in one process), then the small calls again - a budget,
    # counter or table that outlives a call changes the later answers
    for _h in range(1 if tier == "quick" else 3):
        small = []
        for v in ([4, 5, 6, 7, 8], [5, 5, 6, 6, 7, 7, 8], [3, 4, 4, 5, 6, 7, 7], [8, 7, 6, 5, 4, 4, 2]):
            small.append({"port": "partition", "args": part_unit("ckk", 2, v, rng, fmt="list", out="sums")["params"]})
            small.append({"port": "partition", "args": part_unit("snp", 3, v + [9, 11], rng, fmt="list", out="sums")["params"]})
        heavy = []
        for j in range(45):
            v = [rng.randint(5, 99) for _ in range(rng.choice([13, 14]))]
            heavy.append({"port": "partition", "args": part_unit("ckk", 3, v, rng, fmt="list", out="sums")["params"]})
        us.append({"kind": "history", "params": {"calls": small + heavy + small}, "cmp": None, "family": "long-history-heavy-searches"})
    # histories of bin-completion searches, each made twice in a row (see build_pool)
    per = 60
    for i in range(0, len(SEARCHES), per):
        calls = [c for c in SEARCHES[i:i + per] for _ in (0, 1)]
        us.append({"kind": "history", "params": {"calls": calls}, "cmp": None, "family": "bc-searches-twice"})
    return us


def judge_requests(u, impl, model):
    if "exc" in impl:
        return [("py", None, f"history could not be executed: {impl['exc']}")]
    js = []
    for step, (c, h) in enumerate(zip(u["params"]["calls"], impl["history"])):
        if h["args_changed"]:
            js.append(("py", None, f"call #{step} of the history ({c['args'].get('algo')} on {UN.short(c['args'].get('vals'), 100)}, format {c['args'].get('fmt')}) modified its input: {h['args_changed']}"))
            break
        if h.get("env_changed"):
            js.append(("py", None, f"call #{step} of the history (port {c['port']}, {c['args'].get('algo') or c['args'].get('fn') or ''} {UN.short(c['args'], 160)}) changed process-wide state that later calls depend on: {UN.short(h['env_changed'], 300)}"))
            break
    return js


def extra_checks(rng, tier, us, oc):
    out = []
    key = lambda r: json.dumps(r, sort_keys=True)
    # every distinct call of the histories, alone in a fresh interpreter
    distinct = {}
    for u in us:
        for c in u["params"]["calls"]:
            distinct.setdefault(key(c), c)
    keys = list(distinct)
    base_list = runner.run_impl_fresh([distinct[k] for k in keys], timeout=CASE_TIMEOUT)
    base = dict(zip(keys, base_list))
    fails = set(key({"port": c["port"], "args": c["args"]}) for c in POOL if c.get("fails"))
    for i, u in enumerate(us):
        r = oc.impl[i]
        if "history" not in r:
            continue
        seen = set()
        for step, (c, h) in enumerate(zip(u["params"]["calls"], r["history"])):
            kc = key(c)
            STATS["history_calls"] += 1
            if kc in fails:
                STATS["failing_calls_in_histories"] += 1
            if kc in seen:
                STATS["repeated_calls"] += 1
            seen.add(kc)
            if key(h["result"]) != key(base[kc]):
                before = [x["args"].get("algo") for x in u["params"]["calls"][:step]]
                out.append({"text": f"call #{step} of a history ({c['args'].get('algo')}, {'numbins=' + str(c['args']['k']) if 'k' in c['args'] else 'binsize=' + str(c['args'].get('C'))}, items {UN.short(c['args'].get('vals'), 100)}, "
                                    f"format {c['args'].get('fmt')}) returned {UN.short(h['result'], 200)} but the same call alone in a fresh interpreter returns {UN.short(base[kc], 200)}; calls made before it: {before}",
                            "units": [{"kind": "history", "params": {"calls": u["params"]["calls"][:step + 1]}, "cmp": None, "family": "failing-history-prefix"}],
                            "kind": "failing-input"})
                break
        if out:
            break
    return out[:3]


def extra_evidence():
    return {"histories": dict(STATS)}


def nontrivial(u, impl, model):
    calls = u["params"]["calls"]
    algos = set(c["args"].get("algo") for c in calls)
    keys = [json.dumps(c, sort_keys=True) for c in calls]
    if u.get("family") in ("bc-searches-twice", "long-history-heavy-searches"):
        return len(calls) >= 12 and len(set(keys)) < len(keys)
    return len(calls) >= 12 and len(algos) >= 5 and len(set(keys)) < len(keys)


def shrinkable(u):
    return False
