"""C12 - balanced 2-way partitioning obeys the cardinality bound and is optimal under it."""
from harness import units as UN, gen
from harness.pcommon import part_unit, malformed

ID = "C12"
RULE = ("prtpy.partition(cbldm, numbins=2, partition_difference=d) without time limit: bounded-exhaustive item lists of length 1..6 over {0,1,2,3,5} "
        "(rotating subset in the quick tier) x d in {1,2,3,n, default}; structured random lists with n <= 11 (zeros, repeats, all-ones, all-equal, powers of "
        "two, values up to 2^48), formats list/array/dict/names+valueof. Non-trivial: >= 4 items, >= 2 distinct values. Distinct by (port, params).")
EXPLANATION = ("the returned bins compared with the Gallina model (multiset of (sum, multiset of values)) and judged independently: verified checker "
               "is_partition_b with 2 bins, |cardinality difference| <= d, and |sum difference| = opt_balanced2 d values (oracle proved to be the optimum under the bound). "
               "Theorem C12_cbldm_optimal proves all three for the model for ALL inputs and bounds.")
ASSUMPTIONS = ["non-negative integers, total below 2^53; no time limit"]
CASE_TIMEOUT = 120


def mk(rng, vals, d, fam, fmt=None):
    kw = {} if d is None else {"partition_difference": d}
    return part_unit("cbldm", 2, vals, rng, fmt=fmt or rng.choice(gen.FORMATS), cmp="bins", family=fam, **kw)


def units(rng, tier):
    us = []
    lists = list(gen.small_lists([0, 1, 2, 3, 5], 6 if tier != "quick" else 5))
    if tier == "quick":
        lists = rng.sample(lists, 260)
    else:
        lists = rng.sample(lists, 6000)
    for vals in lists:
        for d in (1, 2, 3, len(vals), None):
            if tier == "quick" and rng.random() < 0.5:
                continue
            us.append(mk(rng, vals, d, "exhaustive", fmt="list" if rng.random() < 0.7 else None))
    for _ in range(420 if tier == "quick" else 5000):
        fam = rng.choice([None, None, None, "allones"])
        if fam == "allones":
            vals = [1] * rng.randint(2, 11)
        else:
            vals, fam = gen.values(rng, nmax=11)
        d = rng.choice([1, 1, 2, 3, len(vals), None, None])
        us.append(mk(rng, vals, d, fam))
    # dense stream where the cardinality bound binds: 6..9 small values (many ties and zero-sum-difference sub-partitions) with d in 1..3
    for _ in range(6000 if tier == "quick" else 60000):
        n = rng.randint(6, 9)
        hi = rng.choice([3, 4, 6, 10, 30])
        vals = [rng.randint(0, hi) for _ in range(n)]
        us.append(mk(rng, vals, rng.choice([1, 1, 2, 3]), "dense-small-bound", fmt="list"))
    return us


def judge_requests(u, impl, model):
    p = u["params"]
    d = p.get("partition_difference", 2 ** 62)
    desc = f"cbldm(items={UN.short(p['vals'], 150)}, partition_difference={p.get('partition_difference', 'default')}, format {p['fmt']})"
    if "exc" in impl:
        return [("py", None, f"{desc} did not complete: {impl['exc']}")]
    if impl.get("bins") == "placeholder":
        return [("py", None, f"{desc} returned the no-solution placeholder without a time limit")]
    m = malformed(impl)
    if m:
        return [("py", None, f"{desc}: {m}")]
    bins = impl["bins"]
    js = [("chk_partition", [2, UN.ids_of(p), p["vals"], UN.bins_in(p, bins)],
           lambda r: None if r is True else f"{desc} returned {UN.short(bins, 250)}, not a partition into 2 bins")]
    if len(bins) == 2:
        ld = abs(len(bins[0][1]) - len(bins[1][1]))
        if ld > d:
            js.append(("py", None, f"{desc}: cardinalities differ by {ld} > bound {d}: {UN.short(bins, 250)}"))
        sd = abs(bins[0][0] - bins[1][0])
        if len(p["vals"]) <= 16:
            js.append(("opt_balanced2", [min(d, 10 ** 6), p["vals"]],
                       lambda r: None if r == sd else f"{desc}: sum difference {sd}, optimum under the bound is {r}"))
    return js


def nontrivial(u, impl, model):
    v = u["params"]["vals"]
    return len(v) >= 4 and len(set(v)) >= 2


def shrinkable(u):
    return True
