"""C02 - exact partitioners attain the true optimum of their objective."""
from harness import units as UN, gen, runner
from harness.pcommon import part_unit, malformed

ID = "C02"
RULE = ("prtpy.partition(..., PartitionAndSumsTuple / Sums) without time limit for dp and ilp (all five objectives), complete greedy (largest, smallest, "
        "difference x all 16 switch vectors, both managers), ckk, snp, rnp (difference): bounded-exhaustive lists of length <= 4 over {0,1,2,3,5} x k in 1..4 "
        "(rotating subset in the quick tier), structured random lists (near-perfect planted partitions, zeros, repeats, all-equal, one huge, values up to 2^48) "
        "with n <= 9 (dp n <= 7, ilp n <= 8 and values <= 200), k up to 5 (and k > n); the published hard cases from the sources. "
        "Non-trivial: >= 4 items, >= 2 bins, not all equal, optimum differs from the greedy value or items >= 6. Distinct by (port, params).")
EXPLANATION = ("objective value of the returned partition compared with the Gallina model's and judged against the verified oracle opt_value (proved to be the optimum over "
               "all assignments); ilp mismatches are re-solved with solver preprocessing off to tell a solver fault from a prtpy fault, as the property prescribes. "
               "Theorems C02_*: dp, cg (all switches/objectives), ckk, snp are optimal for ALL inputs; rnp is refuted (known finding).")
ASSUMPTIONS = ["non-negative integers, total below 2^53; ILP: values <= 200; CBC reliable on that range (solver hypothesis)"]
CASE_TIMEOUT = 180
OBJ3 = [[0, 0], [1, 0], [2, 0]]
OBJ5 = OBJ3 + [[3, 2], [4, 2], [3, 1], [4, 3]]
STATS = {"ilp_solver_faults": 0, "ilp_checked": 0}


def mk(rng, a, k, vals, fam, fmt=None, out=None):
    kw = {}
    if a == "cg":
        kw = {"objective": rng.choice(OBJ3), "flags": [rng.randint(0, 1) for _ in range(4)]}
    elif a == "dp":
        kw = {"objective": rng.choice(OBJ5)}
    elif a == "ilp":
        kw = {"objective": rng.choice(OBJ5)}
        vals = [min(v, 200) for v in vals]
    out = out or ("pst" if rng.random() < 0.7 else "sums")
    if a == "dp":
        out = "pst"
    return part_unit(a, k, vals, rng, fmt=fmt or rng.choice(gen.FORMATS), out=out, cmp=None if a == "ilp" else "value", family=fam, **kw)


HARD = [([46, 39, 27, 26, 16, 13, 10], 3), ([18, 12, 22, 22], 2), ([62, 93, 99, 129, 158, 187, 199, 212], 5), ([4, 5, 6, 7, 8], 2),
        ([68, 22, 72, 23, 31, 30, 4], 3), ([14, 3, 16, 55, 1, 95, 3, 5], 3), ([8, 7, 6, 5, 4], 2), ([1, 2, 3, 3, 5, 9, 9], 3)]


def units(rng, tier):
    us = []
    lists = list(gen.small_lists([0, 1, 2, 3, 5], 4, minlen=1))
    lists = rng.sample(lists, 45 if tier == "quick" else 600)
    for vals in lists:
        for k in range(1, 5):
            for a in ("dp", "cg", "ckk", "snp", "rnp"):
                us.append(mk(rng, a, k, vals, "exhaustive", fmt="list" if rng.random() < 0.6 else None))
            if rng.random() < (0.08 if tier == "quick" else 0.5):
                us.append(mk(rng, "ilp", k, vals, "exhaustive"))
    # every switch vector x the three objectives, both managers
    for f in range(16):
        for o in OBJ3:
            for rep in range(1 if tier == "quick" else 6):
                vals, fam = gen.values(rng, nmax=8)
                k = rng.choice([2, 3, 3, 4, 5])
                us.append(part_unit("cg", k, vals, rng, fmt=rng.choice(gen.FORMATS), out=rng.choice(["pst", "sums"]), cmp="value", family="cg-switches/" + fam,
                                    objective=o, flags=[(f >> i) & 1 for i in range(4)]))
    # large values that differ only in their low digits: tolerance-based comparisons (of bin sums, of bounds) go wrong only here
    for _ in range(500 if tier == "quick" else 6000):
        vals, fam = gen.values(rng, nmax=8, family="scalednoise")
        vals = vals[:8]
        k = rng.choice([2, 2, 3, 3, 4])
        a = rng.choice(["cg", "cg", "cg", "ckk", "snp"])
        us.append(mk(rng, a, k, vals, fam, fmt="list" if rng.random() < 0.7 else None))
        if rng.random() < 0.3:
            # and tiny items next to huge ones
            v2 = [rng.randint(10 ** 5, 10 ** 6) for _ in range(rng.randint(2, 3))] + [rng.randint(1, 5) for _ in range(rng.randint(1, 4))]
            v2[1] = v2[0] + rng.randint(-2, 2)
            us.append(mk(rng, "cg", rng.choice([2, 3]), v2, "huge+tiny", fmt="list"))
    # the CKK search itself: number of heaps popped from its stack (every popped heap is bounded once; the bound function is wrapped),
    # compared with the model's node count - a pruning or ordering change shows here long before it changes an optimum
    for _ in range(400 if tier == "quick" else 5000):
        vals, fam = gen.values(rng, nmax=8, vmax=2 ** 40)
        p = {"keep": rng.random() < 0.6, "k": rng.choice([1, 2, 2, 3, 3, 4, 5])}
        p.update(gen.with_format(rng, vals, rng.choice(["list", "dict_str", "dict_int"])))
        us.append({"kind": "ckk_nodes", "params": p, "cmp": "nodes", "family": "ckk-search-nodes/" + fam})
    # the SNP / RNP search itself: every sub-collection pulled from the inclusion/exclusion tree, in order (generator method wrapped on
    # the class), compared with the traced model (Model/SNPTrace.v, result proved equal to snp / rnp)
    for _ in range(300 if tier == "quick" else 4000):
        vals, fam = gen.values(rng, nmax=8, vmax=2 ** 40)
        a = rng.choice(["snp", "snp", "rnp"])
        p = {"algo": a, "keep": rng.random() < 0.6, "k": rng.choice([2, 3, 3, 4, 5]) if a == "snp" else rng.choice([2, 3, 4, 5])}
        p.update(gen.with_format(rng, vals[:8], rng.choice(["list", "dict_str", "dict_int"])))
        us.append({"kind": "snp_trace", "params": p, "cmp": "trace", "family": a + "-search-trace/" + fam})
    # the complete-greedy search itself: the number of clock readings of an unlimited run (one per search node; the module's clock is
    # replaced by a counter) compared with the model's tick count, for every objective and switch vector: a node pruned, skipped or
    # added by mistake shows here on most inputs, long before it changes an optimum
    for _ in range(300 if tier == "quick" else 4000):
        n = rng.randint(5, 9)
        hi = rng.choice([10, 30, 30, 100])
        vals = [rng.randint(0 if rng.random() < 0.1 else 1, hi) for _ in range(n)]
        p = {"keep": rng.random() < 0.6, "k": rng.choice([2, 3, 3, 4, 4, 5]), "objective": rng.choice([[0, 0], [0, 0], [1, 0], [2, 0], [3, 2], [4, 2]]),
             "flags": [rng.randint(0, 1) for _ in range(4)], "limit": -1}
        p.update(gen.with_format(rng, vals, rng.choice(["list", "dict_str"])))
        us.append({"kind": "cg_clock", "params": p, "cmp": "exact", "family": "cg-search-ticks"})
    for vals, k in HARD:
        for a in ("dp", "cg", "ckk", "snp", "rnp", "ilp"):
            v = vals[:6] if a == "dp" else vals
            us.append(mk(rng, a, min(k, 3) if a == "dp" else k, v, "published"))
    for _ in range(130 if tier == "quick" else 1600):
        vals, fam = gen.values(rng, nmax=9, family=rng.choice([None, None, "nearperfect"]))
        k = rng.choice([1, 2, 2, 3, 3, 4, 5, len(vals) + 1])
        for a in ("dp", "cg", "ckk", "snp", "rnp", "ilp"):
            v, kk = vals, k
            if a == "dp":
                v = vals[:7] if max(vals) <= 20 else (vals[:6] if max(vals) < 2 ** 20 else vals[:5])
                kk = min(k, 4)
            if a == "ilp":
                if rng.random() < (0.75 if tier == "quick" else 0.3):
                    continue
                v = vals[:8]
                kk = min(k, 4)
            if a in ("ckk", "snp", "rnp"):
                kk = min(k, 5)
                if max(v) > 2 ** 30:
                    v = v[:7]
            us.append(mk(rng, a, kk, v, fam))
    return us


def result_sums(p, impl):
    if "bins" in impl:
        return [s for s, _ in impl["bins"]]
    return impl.get("sums")


def judge_requests(u, impl, model):
    p = u["params"]
    if u["kind"] == "ckk_nodes":
        return [("py", None, f"ckk did not complete: {impl['exc']} on {p}")] if "exc" in impl else []
    if u["kind"] == "snp_trace":
        return []
    if u["kind"] == "cg_clock":
        if "exc" in impl:
            return [("py", None, f"cg did not complete: {impl['exc']} on {UN.short(p, 200)}")]
        b = impl.get("best")
        if b is None:
            return [("py", None, f"cg without time limit returned no result on {UN.short(p, 200)}")]
        if len(p["vals"]) > 10:
            return []
        o, ok = p["objective"]
        val = UN.obj_value(o, ok, [s for s, _ in b])
        return [("opt_value", [o, ok, p["k"], p["vals"]], lambda r: None if r == val else f"cg(numbins={p['k']}, items={p['vals']}, objective {o}/{ok}, switches {p['flags']}) returned objective value {val}, the optimum is {r}")]
    a = p["algo"]
    o, ok = p.get("objective", [2, 0])
    desc = f"{a}(numbins={p['k']}, items={UN.short(p['vals'], 150)}, objective {o}/{ok}, switches {p.get('flags', '-')}, format {p['fmt']}, output {p['out']})"
    if a == "ilp":
        return []          # handled in extra_checks (solver faults are told apart there)
    if "exc" in impl:
        return [("py", None, f"{desc} did not complete: {impl['exc']}")]
    sums = result_sums(p, impl)
    if not isinstance(sums, list) or len(sums) != p["k"] or any(not isinstance(s, int) for s in sums) or sum(sums) != sum(p["vals"]):
        return [("py", None, f"{desc} returned sums {UN.short(sums)} (wrong count or total)")]
    js = []
    if "bins" in impl and p["out"] == "pst" and not malformed(impl):
        js.append(("chk_partition", [p["k"], UN.ids_of(p), p["vals"], UN.bins_in(p, impl["bins"])],
                   lambda r: None if r is True else f"{desc} returned {UN.short(impl['bins'], 200)}, not a partition"))
    if len(p["vals"]) <= 10:
        v = UN.obj_value(o, ok, sums)
        js.append(("opt_value", [o, ok, p["k"], p["vals"]],
                   lambda r: None if r == v else f"{desc}: objective value {v}, the optimum is {r} (returned sums {sorted(sums)})"))
    return js


def known_finding(u, impl, model, mismatch, judged, known):
    p = u["params"]
    if p.get("algo") != "rnp" or model is None:
        return None
    by = {f["id"]: f for f in known["findings"]}
    if impl.get("exc") == "IndexError" and model.get("exc") == "IndexError" and not mismatch:
        return by["rnp-float-index"]["line"]
    # sub-optimal exactly like the faithful model of the unrepaired code (attribution rule of DESIGN section 7)
    if judged and not mismatch and "bins" in model and isinstance(model["bins"], list) and p["k"] >= 4:
        ms = sorted(s for s, _ in model["bins"])
        isums = result_sums(p, impl)
        if isums is not None and sorted(isums) == ms and all("optimum is" in t for t in judged):
            return by["rnp-suboptimal"]["line"]
    return None


def extra_checks(rng, tier, us, oc):
    out = []
    idx = [i for i, u in enumerate(us) if u["params"].get("algo") == "ilp"]
    reqs = []
    for i in idx:
        p = us[i]["params"]
        o, ok = p["objective"]
        reqs.append(runner.model_line("opt_value", [o, ok, p["k"], p["vals"]]))
    opts = runner.run_model(reqs)
    suspects = []
    for i, opt in zip(idx, opts):
        p = us[i]["params"]
        r = oc.impl[i]
        STATS["ilp_checked"] += 1
        o, ok = p["objective"]
        sums = result_sums(p, r) if "exc" not in r else None
        good = sums is not None and len(sums) == p["k"] and sum(sums) == sum(p["vals"]) and UN.obj_value(o, ok, sums) == opt
        if not good:
            suspects.append((i, opt, r))
    if suspects:
        # re-solve with preprocessing off: a solver fault disappears, a prtpy fault stays
        cases = []
        for i, opt, r in suspects:
            q = dict(us[i]["params"])
            q["preprocess_off"] = True
            cases.append({"port": "partition", "args": q})
        again = runner.run_impl(cases, timeout=CASE_TIMEOUT)
        for (i, opt, r), r2 in zip(suspects, again):
            p = us[i]["params"]
            o, ok = p["objective"]
            s2 = result_sums(p, r2) if "exc" not in r2 else None
            if s2 is not None and len(s2) == p["k"] and sum(s2) == sum(p["vals"]) and UN.obj_value(o, ok, s2) == opt:
                STATS["ilp_solver_faults"] += 1
                continue
            out.append({"text": f"ilp(numbins={p['k']}, items={p['vals']}, objective {o}/{ok}) returned {UN.short(r, 200)}; optimum is {opt}; "
                                f"the same with solver preprocessing off: {UN.short(r2, 200)}", "units": [us[i]], "kind": "failing-input"})
    return out[:3]


def extra_evidence():
    return {"ilp": dict(STATS)}


def nontrivial(u, impl, model):
    p = u["params"]
    v = p["vals"]
    return len(v) >= 4 and p["k"] >= 2 and len(set(v)) >= 2


def shrinkable(u):
    return u["kind"] == "part" and u["params"]["algo"] != "ilp"


def demonstrate_known(known, evaluate):
    import sys
    from harness.pcommon import rnp_demo
    return rnp_demo(known, evaluate, sys.modules[__name__], ID)
