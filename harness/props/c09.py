"""C09 - fit heuristics keep the any-fit invariant and their bin-count bounds."""
import itertools
from harness import units as UN, gen
from harness.pcommon import pack_unit, j_true, malformed

ID = "C09"
ALGOS = ["ff", "ffd", "bf", "bfd"]
RULE = ("every arrival order (all distinct permutations) of bounded-exhaustive multisets of size <= 4 over {1,2,3,4,5} with C in {5,6} (rotating "
        "subset in the quick tier), structured random packing instances with n <= 9 (thorough 11) judged against the verified min_bins oracle, "
        "planted perfect packings with 30..300 items (OPT = number of planted full bins). Compared in placement order (exact). "
        "Non-trivial: >= 2 bins returned. Distinct by (port, params).")
EXPLANATION = ("prtpy.pack(first/best-fit[-decreasing], PartitionAndSumsTuple) compared EXACTLY (order of bins and of items in bins) with the model, judged by the "
               "verified checker anyfit_b and by the bin-count bounds against min_bins / planted optima. The invariant and length <= 2 OPT - 1 are "
               "theorems; 1.7 OPT, 11/9 OPT + 6/9, 11/9 OPT + 4 are tested only (open_statements).")
ASSUMPTIONS = ["0 <= value <= bin size, integers below 2^53"]
OPEN_STATEMENTS = ["ff_17 / bf_17 : 10 * bins <= 17 * OPT (Dosa-Sgall 2013) -- tested against min_bins; proved for first-fit and best-fit with + 2 (10 * bins <= 17 * OPT + 2: C09_ff_ratio_17_partial, C09_bf_ratio_17_partial) and exactly for every OPT not congruent to 4, 7 mod 10 (first-fit: also every OPT <= 6); open for OPT = 4, 7 mod 10",
                   "ffd_11_9 : 9 * bins <= 11 * OPT + 6 (Dosa 2007) -- tested; proved: 4 * bins <= 5 * OPT + 4 for every input, 9 * bins <= 11 * OPT + 8 when no value lies in (2C/11, C/4], 9 * bins <= 11 * OPT + 16 when none lies in (8C/41, C/5] (C09_ffd_ratio_54_partial, C09_ffd_ratio_11_9_partial, C09_ffd_ratio_11_9_wide_partial)",
                   "bfd_11_9 : 9 * bins <= 11 * OPT + 36 -- tested; proved: 4 * bins <= 5 * OPT + 4 for every input, 9 * bins <= 11 * OPT + 8 when no value lies in (2C/11, C/4], 9 * bins <= 11 * OPT + 16 (within the property's + 36) when none lies in (8C/41, C/5] (C09_bfd_ratio_54_partial, C09_bfd_ratio_11_9_partial, C09_bfd_ratio_11_9_wide_partial); open only when some value lies in that sliver"]
ORACLE_MAX = {"quick": 9, "thorough": 11}


def units(rng, tier):
    us = []
    msets = list(gen.small_multisets([1, 2, 3, 4, 5], 4))
    if tier == "quick":
        msets = rng.sample(msets, 40)
    for ms in msets:
        for order in sorted(set(itertools.permutations(ms))):
            for C in (5, 6):
                for a in ("ff", "bf"):
                    us.append(pack_unit(a, C, list(order), cmp="exact", family="all-arrival-orders"))
        for C in (5, 6):
            for a in ("ffd", "bfd"):
                us.append(pack_unit(a, C, ms, cmp="exact", family="all-arrival-orders"))
    for _ in range(260 if tier == "quick" else 3000):
        C, vals, fam = gen.packing_instance(rng, nmax=ORACLE_MAX[tier])
        vals = [v for v in vals]
        for a in ALGOS:
            us.append(pack_unit(a, C, vals, rng, fmt=rng.choice(["list", "dict_str", "names_valueof", "array"]), cmp="exact", family=fam))
    for _ in range(25 if tier == "quick" else 250):
        C = rng.choice([20, 100, 1000])
        m = rng.randint(5, 60)
        vals = []
        for _ in range(m):
            rest = C
            for j in range(rng.randint(0, 5)):
                if rest <= 1:
                    break
                x = rng.randint(1, rest - 1)
                vals.append(x)
                rest -= x
            vals.append(rest)
        rng.shuffle(vals)
        for a in ALGOS:
            u = pack_unit(a, C, vals, rng, fmt="list", cmp="exact", family="planted-perfect")
            u["opt"] = m
            us.append(u)
    return us


def bound_text(algo, n, opt):
    if n < opt:
        return f"uses {n} bins, fewer than the optimum {opt} (infeasible?)"
    if algo in ("ff", "bf") and 10 * n > 17 * opt:
        return f"{algo} uses {n} bins > floor(1.7*OPT) with OPT={opt}"
    if algo == "ffd" and 9 * n > 11 * opt + 6:
        return f"ffd uses {n} bins > 11/9 OPT + 6/9 with OPT={opt}"
    if algo == "bfd" and 9 * n > 11 * opt + 36:
        return f"bfd uses {n} bins > 11/9 OPT + 4 with OPT={opt}"
    return None


def judge_requests(u, impl, model):
    p = u["params"]
    if "exc" in impl:
        return [("py", None, f"unexpected exception {impl['exc']}")]
    m = malformed(impl)
    if m:
        return [("py", None, m)]
    bins = impl["bins"]
    js = []
    if p["vals"]:
        js.append(("chk_anyfit", [p["C"], UN.bins_in(p, bins)], j_true(f"any-fit invariant violated (C={p['C']}, arrival order {UN.short(p['vals'],150)}): {UN.short(bins,200)}")))
    n = len(bins)
    a = p["algo"]
    if "opt" in u:
        t = bound_text(a, n, u["opt"])
        js.append(("py", None, f"{t}; C={p['C']} items {UN.short(p['vals'],120)}" if t else None))
    elif len(p["vals"]) <= 11 and p["vals"] and any(v > 0 for v in p["vals"]):
        def pred(r, a=a, n=n, p=p):
            # zero-valued items do not need bins of their own: OPT over the non-zero items, at least 1
            t = bound_text(a, n, max(r, 1))
            return f"{t}; C={p['C']} items {p['vals']}" if t else None
        js.append(("min_bins", [p["C"], p["vals"]], pred))
    return js


def nontrivial(u, impl, model):
    return len(impl.get("bins", [])) >= 2


def shrinkable(u):
    return "opt" not in u
