"""C05 - bin-covering results are valid covers that waste less than one bin."""
from harness import units as UN, gen
from harness.pcommon import pack_unit, malformed

ID = "C05"
ALGOS = ["cover_dec", "cover_23", "cover_34"]
RULE = ("bounded-exhaustive: every item list of length 1..4 over {1,2,3,4,6,7} with bin size 6 (thresholds C/2=3, C/3=2) x 3 covers; structured "
        "random covering instances (thresholds +-1, all small, all big, oversize items, too small to cover, planted full bins), n <= 10, "
        "plus inputs of 40..150 items; list / array / dict(str,int) / names+valueof. Non-trivial: >= 3 items and >= 1 covered bin. Distinct by (port, params).")
EXPLANATION = ("prtpy.pack(covering.*) compared with the Gallina model (canonical form: multiset of (sum, multiset of values)) and judged by the verified "
               "checker is_cover_b (bins >= C, items used at most once, leftover total < C); theorems C05_* prove this for the model for all inputs.")
ASSUMPTIONS = ["positive integer values, integer bin size > 0, totals below 2^53; thresholds binsize/2, binsize/3 modelled by cross-multiplication"]


def units(rng, tier):
    us = []
    lists = list(gen.small_lists([1, 2, 3, 4, 6, 7], 4))
    if tier == "quick":
        lists = rng.sample(lists, 170)
    for vals in lists:
        for a in ALGOS:
            us.append(pack_unit(a, 6, vals, family="exhaustive"))
    for _ in range(330 if tier == "quick" else 3300):
        C, vals, fam = gen.covering_instance(rng, nmax=10)
        for a in ALGOS:
            us.append(pack_unit(a, C, vals, rng, fmt=rng.choice(gen.FORMATS), family=fam))
    for _ in range(15 if tier == "quick" else 150):
        C = rng.choice([100, 1000])
        vals = [rng.randint(1, rng.choice([C // 4, C, 2 * C])) for _ in range(rng.randint(40, 150))]
        for a in ALGOS:
            us.append(pack_unit(a, C, vals, rng, fmt=rng.choice(["list", "dict_str"]), family="large"))
    return us


def judge_requests(u, impl, model):
    p = u["params"]
    if "exc" in impl:
        return [("py", None, f"unexpected exception {impl['exc']} on a valid covering request")]
    m = malformed(impl)
    if m:
        return [("py", None, m)]
    bins = impl["bins"]
    C = p["C"]

    def pred(r):
        if r is None:
            return f"not a valid cover of {p['vals']} (C={C}): {bins}"
        if r >= C:
            return f"unused items total {r} >= bin size {C}: items {p['vals']}, bins {bins}"
        return None
    return [("chk_cover", [C, UN.ids_of(p), p["vals"], UN.bins_in(p, bins)], pred)]


def nontrivial(u, impl, model):
    return len(u["params"]["vals"]) >= 3 and len(impl.get("bins", [])) >= 1


def shrinkable(u):
    return True
