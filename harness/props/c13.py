"""C13 - search bounds are admissible and search enumerators are complete."""
import itertools
from fractions import Fraction
from harness import units as UN, gen

ID = "C13"
RULE = ("bounded-exhaustive: sorted sum vectors of length 1..4 over 0..6 with R in 0..12 (rotating subset in the quick tier), both "
        "sorted flags, lists/tuples/arrays, plus unsorted vectors with the flag off; item lists of length <= 6 over {0,1,2,3,5} with "
        "integer and half-integer windows; all pairs of bins-arrays with 1..3 bins over small values, 4-5 bins random; CKK bound on "
        "random heaps. Non-trivial: vector/list has >= 2 distinct entries. Distinct by (port, params).")
EXPLANATION = ("Objective.lower_bound, InExclusionBinTree.generate_tree, Binner.all_combinations and the CKK bound compared exactly "
               "with the Gallina model (theorems C13_*), and judged by brute force enumeration (all distributions of R, all sub-collections, all permutations).")
ASSUMPTIONS = ["integers below 2^53; floor_fl_div (np.floor(a/i) = a // i on that domain)"]


def U(kind, params, family, cmp="eq"):
    return {"kind": kind, "params": params, "cmp": cmp, "family": family}


def compositions(R, k):
    if k == 1:
        yield (R,)
        return
    for x in range(R + 1):
        for rest in compositions(R - x, k - 1):
            yield (x,) + rest


def units(rng, tier):
    us = []
    # ---- lower bounds
    vecs = []
    for n in range(1, 5):
        for t in itertools.combinations_with_replacement(range(0, 7), n):
            vecs.append(list(t))
    if tier == "quick":
        vecs = rng.sample(vecs, 110)
    for s in vecs:
        Rs = range(0, 13) if tier != "quick" else rng.sample(range(0, 13), 3)
        for R in Rs:
            for o in (0, 1, 2):
                kind = rng.choice(["list", "tuple", "array"])
                for flag in (0, 1):
                    us.append(U("lower_bound", {"o": o, "sums": s, "R": R, "sorted": flag, "kind": kind}, "lb/sorted-vector"))
    for _ in range(150 if tier == "quick" else 1500):
        n = rng.randint(1, 6)
        hi = rng.choice([6, 50, 10 ** 6, 2 ** 45])
        s = [rng.randint(0, hi) for _ in range(n)]
        R = rng.randint(0, hi * 2)
        o = rng.choice([0, 1, 2, 3, 4])
        us.append(U("lower_bound", {"o": o, "ok": 2, "sums": s, "R": R, "sorted": 0, "kind": rng.choice(["list", "tuple", "array"])}, "lb/unsorted-random"))
        ss = sorted(s)
        us.append(U("lower_bound", {"o": o, "ok": 2, "sums": ss, "R": R, "sorted": 1, "kind": rng.choice(["list", "tuple", "array"])}, "lb/sorted-random"))
    # ---- inclusion/exclusion tree
    lists = list(gen.small_lists([0, 1, 2, 3, 5], 4 if tier == "quick" else 5))
    if tier == "quick":
        lists = rng.sample(lists, 160)
    for vals in lists:
        tot = sum(vals)
        for _ in range(2):
            lb2 = rng.randint(-1, 2 * tot + 1)       # bounds in halves
            ub2 = rng.randint(max(0, lb2 - 1), 2 * tot + 2)
            p = {"lbn": lb2, "lbd": 2, "ubn": ub2, "ubd": 2}
            p.update(gen.with_format(rng, vals, rng.choice(["list", "dict_str", "dict_int"])))
            us.append(U("generate_tree", p, "inex/exhaustive"))
    # the same tree object enumerated again after one or two earlier enumerations were abandoned part-way (the complete enumeration
    # must be the same: the model is a function of the items and the window)
    for _ in range(60 if tier == "quick" else 600):
        vals, fam = gen.values(rng, n=rng.randint(2, 7), family=rng.choice(["small", "medium", "zeros", "repeats"]))
        tot = sum(vals)
        lb2 = rng.randint(-1, tot)
        ub2 = rng.randint(lb2, 2 * tot + 2)
        p = {"lbn": lb2, "lbd": 2, "ubn": ub2, "ubd": 2, "abandon": [rng.randint(0, 4) for _ in range(rng.randint(1, 2))]}
        p.update(gen.with_format(rng, vals, rng.choice(["list", "dict_str"])))
        us.append(U("generate_tree", p, "inex/re-enumerated-after-abandoned-run"))
    # degenerate shapes: no item at all, or only zero-valued items, with windows that contain 0, lie above it or below it
    for vals in ([], [], [0], [0, 0]):
        for lb2, ub2 in ((0, 0), (-2, 3), (1, 4), (2, 2), (-6, -1), (-3, -3), (1, 0)):
            p = {"lbn": lb2, "lbd": 2, "ubn": ub2, "ubd": 2, "vals": list(vals), "fmt": "list"}
            us.append(U("generate_tree", p, "inex/degenerate"))
    for _ in range(60 if tier == "quick" else 600):
        vals, fam = gen.values(rng, n=rng.randint(1, 9 if tier == "quick" else 11), family=rng.choice(["small", "medium", "zeros", "repeats"]))
        tot = sum(vals)
        k = rng.randint(2, 5)
        d = rng.randint(0, max(1, tot // 2))
        p = {"lbn": tot - (k - 1) * d, "lbd": k, "ubn": tot, "ubd": k}     # the SNP window
        p.update(gen.with_format(rng, vals, rng.choice(["list", "dict_str"])))
        us.append(U("generate_tree", p, "inex/snp-window"))
    # ---- all_combinations
    def mkbins(sums_lists, keep):
        return [[sum(l), list(l) if keep else [], list(l) if keep else []] if keep else [l, [], []] for l in sums_lists]
    pool_small = [[], [1], [2], [1, 1], [3], [1, 2]]
    count = 0
    for k in (1, 2, 3):
        combos = list(itertools.product(pool_small, repeat=k))
        picks = rng.sample(combos, min(len(combos), 25 if tier == "quick" else 120))
        for c1 in picks:
            c2 = rng.choice(combos)
            us.append(U("all_combinations", {"keep": True, "b1": mkbins(c1, True), "b2": mkbins(c2, True), "numpy": rng.random() < 0.5}, f"allcomb/contents-k{k}"))
            s1 = sorted(sum(l) for l in c1)
            s2 = sorted(sum(l) for l in c2)
            us.append(U("all_combinations", {"keep": False, "b1": mkbins(s1, False), "b2": mkbins(s2, False), "numpy": rng.random() < 0.5}, f"allcomb/sums-k{k}"))
    # zero-valued items: bins with sum 0 that are NOT empty ([0], [0, 0]) next to empty ones - equal sums, different contents
    pool_zero = [[], [0], [0, 0], [1], [0, 1], [2]]
    for k in (2, 3, 4):
        combos = list(itertools.product(pool_zero, repeat=k))
        for c1 in rng.sample(combos, min(len(combos), 30 if tier == "quick" else 200)):
            c2 = rng.choice(combos)
            c1 = sorted(c1, key=sum)
            c2 = sorted(c2, key=sum)
            us.append(U("all_combinations", {"keep": True, "b1": mkbins(c1, True), "b2": mkbins(c2, True), "numpy": rng.random() < 0.5}, f"allcomb/contents-k{k}-zero-valued-items"))
    for _ in range(30 if tier == "quick" else 300):
        k = rng.choice([3, 4, 4, 5])
        mk = lambda: [[rng.randint(1, 9) for _ in range(rng.randint(0, 2))] for _ in range(k)]
        c1, c2 = mk(), mk()
        us.append(U("all_combinations", {"keep": True, "b1": mkbins(c1, True), "b2": mkbins(c2, True)}, f"allcomb/contents-k{k}-random"))
        us.append(U("all_combinations", {"keep": False, "b1": mkbins(sorted(sum(l) for l in c1), False), "b2": mkbins(sorted(sum(l) for l in c2), False)}, f"allcomb/sums-k{k}-random"))
    # 4 and 5 bins whose contents repeat over a tiny pool (many equal bins, equal sums with different contents): the de-duplication of
    # combinations has to count multiplicities here - bounded-exhaustive over multisets of bins
    for k, pool in ((4, [[], [1], [2], [1, 1]]), (5, [[1], [2], []]), (5, [[1], [2]]), (5, [[1], [1, 1], [2]])):
        ms = list(itertools.combinations_with_replacement(range(len(pool)), k))
        pairs = [(a, b) for a in ms for b in ms]
        if tier == "quick":
            pairs = rng.sample(pairs, min(len(pairs), 90))
        else:
            pairs = rng.sample(pairs, min(len(pairs), 700))
        for a, b in pairs:
            c1 = [pool[i] for i in a]
            c2 = [pool[i] for i in b]
            rng.shuffle(c1)
            rng.shuffle(c2)
            c1 = sorted(c1, key=sum)
            c2 = sorted(c2, key=sum)
            us.append(U("all_combinations", {"keep": True, "b1": mkbins(c1, True), "b2": mkbins(c2, True)}, f"allcomb/contents-k{k}-repeated-bins"))
            if rng.random() < 0.6:
                us.append(U("all_combinations", {"keep": False, "b1": mkbins(sorted(sum(l) for l in c1), False), "b2": mkbins(sorted(sum(l) for l in c2), False)},
                            f"allcomb/sums-k{k}-repeated-sums"))
    # sums manager, 5 bins, sums repeated over a tiny pool {0,1,2,3}: combinations with the same SET but different MULTISET of sums
    ms5 = list(itertools.combinations_with_replacement(range(4), 5))
    pairs5 = [(a, b) for a in ms5 for b in ms5]
    for a, b in rng.sample(pairs5, 150 if tier == "quick" else 1500):
        us.append(U("all_combinations", {"keep": False, "b1": mkbins(sorted(a), False), "b2": mkbins(sorted(b), False)}, "allcomb/sums-k5-small-pool"))
    # 5 bins with pairwise DISTINCT small sums on both sides: more than 100 of the 120 permutations give distinct pairings and the rest coincide
    # with earlier ones by arithmetic accident - where a bounded or flushed duplicate filter yields a pairing twice
    for _ in range(40 if tier == "quick" else 600):
        hi = rng.choice([8, 12, 12, 20])
        a = sorted(rng.sample(range(0, hi + 1), 5))
        b = sorted(rng.sample(range(0, hi + 1), 5))
        us.append(U("all_combinations", {"keep": False, "b1": mkbins(a, False), "b2": mkbins(b, False), "numpy": rng.random() < 0.5}, "allcomb/sums-k5-distinct-sums"))
        if rng.random() < 0.4:
            us.append(U("all_combinations", {"keep": True, "b1": mkbins([[x] if x else [] for x in a], True), "b2": mkbins([[x] if x else [] for x in b], True)},
                        "allcomb/contents-k5-distinct-sums"))
    # ---- CKK pruning bound
    for _ in range(150 if tier == "quick" else 1500):
        k = rng.randint(1, 5)
        m = rng.randint(1, 5)
        hi = rng.choice([5, 50, 10 ** 6])
        heaps = [sorted(rng.randint(0, hi) for _ in range(k)) for _ in range(m)]
        us.append(U("ckk_bound", {"k": k, "heaps": heaps}, "ckkbound"))
    return us


def best_reachable(o, s, R):
    best = None
    for c in compositions(R, len(s)):
        v = UN.obj_value(o, 0, [a + b for a, b in zip(s, c)])
        if best is None or v < best:
            best = v
    return best


def judge_requests(u, impl, model):
    p = u["params"]
    if "exc" in impl:
        return [("py", None, f"unexpected exception {impl['exc']}")]
    if u["kind"] == "lower_bound":
        if p["o"] > 2:
            return [] if impl["num"] is None else [("py", None, "K-objective returned a finite bound")]
        if len(p["sums"]) <= 4 and p["R"] <= 12 and max(p["sums"]) <= 6:
            if p["sorted"] and list(p["sums"]) != sorted(p["sums"]):
                return []
            best = best_reachable(p["o"], p["sums"], p["R"])
            if impl["num"] is None or impl["num"] > best:
                return [("py", None, f"lower bound {impl['num']} of {UN.OBJ_NAMES[p['o']]} for sums {p['sums']}, remaining {p['R']} (sorted={p['sorted']}) exceeds reachable objective {best}")]
        return []
    if u["kind"] == "generate_tree":
        vals, ids = p["vals"], UN.ids_of(p)
        order = sorted(range(len(vals)), key=lambda i: -vals[i])      # stable descending
        lb, ub = Fraction(p["lbn"], p["lbd"]), Fraction(p["ubn"], p["ubd"])
        exp = []
        for mask in itertools.product([1, 0], repeat=len(vals)):
            sub = [order[i] for i in range(len(vals)) if mask[i]]
            t = sum(vals[i] for i in sub)
            if lb <= t <= ub:
                exp.append(sorted(ids[i] if ids is not vals else i for i in sub) if ids is not vals else sorted(sub))
        got = impl["subsets"]
        if ids is vals:
            # plain values: compare as multisets of value-multisets
            e = sorted(sorted(vals[i] for i in sub) for sub in exp)
            g = sorted(sorted(x) for x in got)
        else:
            e = sorted(exp)
            g = sorted(sorted(x) for x in got)
        if e != g:
            return [("py", None, f"generate_tree({vals}, window [{lb},{ub}]) yields {g}, every in-window sub-collection exactly once is {e}")]
        return []
    if u["kind"] == "all_combinations":
        b1, b2, keep = p["b1"], p["b2"], p["keep"]
        k = len(b1)
        seen = set()
        for perm in itertools.permutations(range(k)):
            if keep:
                c = tuple(sorted((b1[perm[i]][0] + b2[i][0], tuple(sorted(b1[perm[i]][1] + b2[i][1]))) for i in range(k)))
                key = tuple(sorted(x[1] for x in c))   # python dedups on the tuple of lists after a stable sort by sum
                key = c
            else:
                c = tuple(sorted(b1[perm[i]][0] + b2[i][0] for i in range(k)))
            seen.add(c)
        if keep:
            got = [tuple(sorted((s, tuple(l)) for s, l in c)) for c in impl["combos"]]
        else:
            got = [tuple(sorted(s for s, _ in c)) for c in impl["combos"]]
        if sorted(got) != sorted(seen):
            return [("py", None, f"all_combinations yields {len(got)} combinations ({len(set(got))} distinct); the distinct pairings are {len(seen)}: missing {sorted(seen - set(got))[:2]} extra/dup {[g for g in got if got.count(g) > 1][:2]}")]
        return []
    return []


def extra_checks(rng, tier, us, oc):
    """the bound must not depend on the sorted flag for sorted vectors"""
    by = {}
    out = []
    for i, u in enumerate(us):
        if u["kind"] == "lower_bound" and list(u["params"]["sums"]) == sorted(u["params"]["sums"]):
            p = u["params"]
            by.setdefault((p["o"], tuple(p["sums"]), p["R"]), {})[p["sorted"]] = (i, oc.impl[i])
    for key, d in by.items():
        if 0 in d and 1 in d and d[0][1] != d[1][1]:
            out.append({"text": f"lower bound depends on the sorted flag: {key}: {d[0][1]} (flag off) vs {d[1][1]} (flag on)",
                        "units": [us[d[0][0]], us[d[1][0]]], "kind": "failing-input"})
            break
    return out


def nontrivial(u, impl, model):
    p = u["params"]
    if u["kind"] == "lower_bound":
        return len(set(p["sums"])) >= 2 or p["R"] > 0
    if u["kind"] == "generate_tree":
        return len(p["vals"]) >= 2 and len(impl.get("subsets", [])) >= 1
    if u["kind"] == "all_combinations":
        return len(p["b1"]) >= 2
    return len(p["heaps"]) >= 2


def shrinkable(u):
    return False
