"""C11 - anytime algorithms are safe to interrupt and only ever improve."""
import json
from harness import units as UN, gen, runner

ID = "C11"
RULE = ("complete greedy (anytime) and CBLDM called with a bins-manager under a counting clock that fires the time-limit test at its (n+1)-th reading, "
        "for EVERY n from 0 to the natural end of the search (when the search needs more than 120 readings: the first 60, the last 30 and 30 random ones), "
        "plus the unlimited run; inputs: bounded-exhaustive small lists and structured random lists (zeros, repeats, all-equal, k > n) x objectives x "
        "switch vectors x both managers; the CKK generator on the same inputs with and without an initial bound. Non-trivial: >= 3 items, >= 2 bins, "
        "not all values equal, and the cut-off lies strictly inside the search. Distinct by (port, params).")
EXPLANATION = ("every interrupted run compared exactly (bins in order, contents in order, AND the number of clock readings) with the Gallina model cg_run/cbldm under the "
               "same limit; judged independently: result is None/placeholder or a valid partition (verified checker), objective value non-increasing in n, the "
               "first solution has the LPT sums (greedy model), the unlimited result equals the verified optimum (opt_value / opt_balanced2); CKK generator: every "
               "yield a partition, strictly decreasing difference, last one optimal.")
ASSUMPTIONS = ["non-negative integers below 2^53; the clock is read only through time.perf_counter of the algorithm's module (replaced by the counting clock)"]
CASE_TIMEOUT = 120
OBJS = [[0, 0], [1, 0], [2, 0], [3, 2], [4, 2]]
CAP = 120


def U(kind, params, family, cmp="exact"):
    return {"kind": kind, "params": params, "cmp": cmp, "family": family}


def limits_for(rng, T):
    if T + 1 <= CAP:
        return list(range(0, T + 2))
    ls = set(range(0, 60)) | set(range(T - 28, T + 2)) | set(rng.sample(range(60, T - 28), 30))
    return sorted(ls)


def units(rng, tier):
    us = []
    bases = []     # (kind, params without limit)
    # ---- complete greedy
    lists = list(gen.small_lists([0, 1, 2, 3], 4, minlen=2))
    lists = rng.sample(lists, 30 if tier == "quick" else 200)
    for vals in lists:
        for k in ([2, 3] if tier == "quick" else [1, 2, 3, 4]):
            o = rng.choice(OBJS)
            flags = [rng.randint(0, 1) for _ in range(4)]
            p = {"vals": vals, "fmt": "list", "keep": rng.random() < 0.7, "k": k, "objective": o, "flags": flags}
            bases.append(("cg_clock", p, "cg/exhaustive"))
    for _ in range(70 if tier == "quick" else 500):
        vals, fam = gen.values(rng, nmax=7, vmax=2 ** 40)
        k = rng.choice([1, 2, 2, 3, 3, 4, len(vals) + 1])
        o = rng.choice(OBJS)
        flags = [rng.randint(0, 1) for _ in range(4)]
        if rng.random() < 0.3:
            flags = [1, 1, 0, 1]       # the defaults
        p = {"keep": rng.random() < 0.7, "k": k, "objective": o, "flags": flags}
        p.update(gen.with_format(rng, vals, rng.choice(["list", "dict_str", "dict_int"])))
        bases.append(("cg_clock", p, "cg/" + fam))
    # ---- cbldm
    lists = rng.sample(list(gen.small_lists([0, 1, 2, 3, 5], 5, minlen=1)), 30 if tier == "quick" else 250)
    for vals in lists:
        p = {"vals": vals, "fmt": "list", "keep": True, "d": rng.choice([1, 2, 3, len(vals), 2 ** 60])}
        bases.append(("cbldm_clock", p, "cbldm/exhaustive"))
    for _ in range(50 if tier == "quick" else 400):
        vals, fam = gen.values(rng, nmax=8, vmax=2 ** 40)
        p = {"keep": True, "d": rng.choice([1, 1, 2, 3, len(vals), 2 ** 60])}
        p.update(gen.with_format(rng, vals, rng.choice(["list", "dict_str"])))
        bases.append(("cbldm_clock", p, "cbldm/" + fam))
    # ---- complete greedy on MORE THAN 256 ITEMS whose first leaf (the LPT partition) is perfect, so that the unlimited search ends right after
    # reaching depth numitems: limits around that point (an identity test on integers, a recursion or cache limit, ... only shows beyond 256)
    for _ in range(6 if tier == "quick" else 40):
        k = rng.choice([2, 2, 3])
        m = rng.randint(257 // k + 1, 330 // k)
        vals = [x for _ in range(m) for x in [rng.randint(1, 9)] * k]
        rng.shuffle(vals)
        p = {"vals": vals, "fmt": "list", "keep": rng.random() < 0.7, "k": k, "objective": rng.choice([[0, 0], [1, 0], [2, 0]]), "flags": [1, 1, 0, 1]}
        bases.append(("cg_clock", p, "cg/long-perfect-first-leaf"))
    # natural length of each search, from the model run without limit
    reqs = []
    for kind, p, fam in bases:
        q = dict(p)
        q["limit"] = -1
        reqs.append(runner.model_line(*UN.model_request(kind, q)))
    reps = runner.run_model(reqs)
    for (kind, p, fam), r in zip(bases, reps):
        r = r["ok"] if isinstance(r, dict) and "ok" in r else r
        T = r[1] if isinstance(r, list) else 0
        gid = UN.short(json.dumps([kind, p], sort_keys=True), 10 ** 6)
        for n in [-1] + (limits_for(rng, T) if fam != "cg/long-perfect-first-leaf" else [x for x in (0, 1, len(p["vals"]) - 1, T - 3, T - 2, T - 1, T, T + 1, T + 7) if x >= 0]):
            q = dict(p)
            q["limit"] = n
            u = U(kind, q, fam)
            u["group"] = gid
            u["natural_ticks"] = T
            us.append(u)
    # ---- complete greedy under the WEIGHTED objective (MaximizeSmallestWeightedSum, which refuses the sorted fast path and has no lower
    # bound): no driver model, so only "every interruption point gives nothing or a complete valid partition; no limit gives a result"
    for _ in range(40 if tier == "quick" else 400):
        vals, fam = gen.values(rng, nmax=6, vmax=1000)
        k = rng.choice([2, 2, 3])
        p = {"keep": rng.random() < 0.7, "k": k, "wobjective": [rng.randint(1, 4) for _ in range(k)], "flags": [rng.randint(0, 1) for _ in range(4)]}
        p.update(gen.with_format(rng, vals, rng.choice(["list", "dict_str"])))
        for n in [-1, 0, 1, 2, 3, 5, 8, 13, 21, 40, 80]:
            q = dict(p)
            q["limit"] = n
            us.append(U("cg_clock", q, "cg/weighted-objective", cmp=None))
    # ---- cbldm without limit, dense: a binding cardinality bound on 5..8 small values (perfect but unbalanced partitions exist, the balanced
    # optimum is positive): "with no limit the result is optimal" under the bound, judged by the oracle opt_balanced2 in extra_checks
    for _ in range(2000 if tier == "quick" else 30000):
        n = rng.randint(5, 8)
        hi = rng.choice([5, 12, 12, 20, 30])
        vals = [rng.randint(0 if rng.random() < 0.2 else 1, hi) for _ in range(n)]
        p = {"vals": vals, "fmt": "list", "keep": True, "d": rng.choice([1, 1, 2, 3]), "limit": -1}
        u = U("cbldm_clock", p, "cbldm/dense-unlimited-binding-bound")
        u["group"] = UN.short(json.dumps(["cbldm_clock", p], sort_keys=True), 10 ** 6)
        u["natural_ticks"] = 0
        us.append(u)
    # ---- CKK generator
    for _ in range(250 if tier == "quick" else 2000):
        vals, fam = gen.values(rng, nmax=7, vmax=2 ** 40)
        k = rng.choice([1, 2, 2, 3, 3, 4, 5])
        p = {"keep": rng.random() < 0.6, "k": k}
        if rng.random() < 0.25:
            p["best"] = rng.randint(0, max(vals))
        p.update(gen.with_format(rng, vals, rng.choice(["list", "dict_str", "dict_int"])))
        us.append(U("ckk_generator", p, "ckkgen/" + fam))
    return us


def obj_of(p, bins):
    o, ok = p.get("objective", [2, 0])
    return UN.obj_value(o, ok, [s for s, _ in bins])


def judge_requests(u, impl, model):
    p = u["params"]
    kind = u["kind"]
    if "exc" in impl:
        return [("py", None, f"{kind} did not complete: {impl['exc']} ({UN.short(p, 200)})")]
    js = []
    if kind in ("cg_clock", "cbldm_clock"):
        b = impl["best"]
        if b is None:
            if p["limit"] < 0:
                return [("py", None, f"{kind}: no result although there was no time limit ({UN.short(p, 200)})")]
            return []
        k = p["k"] if kind == "cg_clock" else 2
        if p["keep"]:
            bi = UN.bins_in(p, b)
            if bi is None:
                return [("py", None, f"{kind}: malformed result {UN.short(b)}")]
            js.append(("chk_partition", [k, UN.ids_of(p), p["vals"], bi],
                       lambda r, b=b: None if r is True else f"{kind} interrupted after {p['limit']} clock readings returned {UN.short(b, 200)}, not a partition of {p['vals']} into {k} bins"))
        else:
            if len(b) != k or sum(s for s, _ in b) != sum(p["vals"]):
                js.append(("py", None, f"{kind} (sums only) interrupted after {p['limit']} readings returned sums {[s for s, _ in b]} for items {p['vals']}, k={k}"))
        if kind == "cbldm_clock":
            ld = abs(len(b[0][1]) - len(b[1][1])) if len(b) == 2 else None
            if ld is None or ld > p["d"]:
                js.append(("py", None, f"cbldm interrupted after {p['limit']} readings returned bins whose cardinalities differ by {ld} > {p['d']}: {UN.short(b, 200)}"))
        return js
    if kind == "ckk_generator":
        ys = impl["yields"]
        prev = p.get("best")
        for y in ys:
            if p["keep"]:
                bi = UN.bins_in(p, y)
                if bi is None:
                    return [("py", None, f"ckk generator: malformed yield {UN.short(y)}")]
                js.append(("chk_partition", [p["k"], UN.ids_of(p), p["vals"], bi],
                           lambda r, y=y: None if r is True else f"ckk generator yielded {UN.short(y, 200)}, not a partition of {p['vals']} into {p['k']} bins"))
            elif len(y) != p["k"] or sum(s for s, _ in y) != sum(p["vals"]):
                js.append(("py", None, f"ckk generator (sums only) yielded {y} for {p['vals']}, k={p['k']}"))
            sums = [s for s, _ in y]
            d = max(sums) - min(sums)
            if prev is not None and not d < prev:
                js.append(("py", None, f"ckk generator: yield with difference {d} after {prev} (not strictly better) on {p['vals']}, k={p['k']}"))
            prev = d
        if p.get("best") is None:
            if not ys:
                js.append(("py", None, f"ckk generator yielded nothing on {p['vals']}, k={p['k']}"))
            elif len(p["vals"]) <= 9:
                js.append(("opt_value", [2, 0, p["k"], p["vals"]],
                           lambda r, d=prev: None if r == d else f"ckk generator's last yield has difference {d}, optimum is {r} ({p['vals']}, k={p['k']})"))
        return js
    return []


def extra_checks(rng, tier, us, oc):
    """checks over the whole family of cut-off points of one input"""
    out = []
    groups = {}
    for i, u in enumerate(us):
        if "group" in u:
            groups.setdefault(u["group"], []).append(i)
    oracle_reqs, oracle_for = [], []
    for g, idx in groups.items():
        u0 = us[idx[0]]
        p0 = u0["params"]
        kind = u0["kind"]
        runs = sorted(((us[i]["params"]["limit"], i) for i in idx if us[i]["params"]["limit"] >= 0))
        unl = [i for i in idx if us[i]["params"]["limit"] < 0]
        seq = [(n, oc.impl[i]) for n, i in runs] + [(10 ** 9, oc.impl[i]) for i in unl]
        if any("exc" in r for _, r in seq):
            continue        # already reported by the judge
        prev = None
        first = None
        for n, r in seq:
            b = r["best"]
            if b is None:
                if prev is not None:
                    out.append({"text": f"{kind}: a result existed at a smaller limit but none at limit {n} ({UN.short(p0, 200)})", "units": [us[i] for i in idx[:3]]})
                    break
                continue
            v = obj_of(p0, b) if kind == "cg_clock" else abs(b[0][0] - b[1][0])
            if first is None:
                first = (n, b)
            if prev is not None and v > prev[1]:
                out.append({"text": f"{kind}: objective value got worse as the limit grew: {prev[1]} at {prev[0]} readings, {v} at {n} ({UN.short(p0, 200)})",
                            "units": [u for u in (us[i] for i in idx) if u["params"]["limit"] in (prev[0], n)]})
                break
            prev = (n, v)
        if kind == "cg_clock" and first is not None:
            oracle_reqs.append(runner.model_line("greedy", [1, p0["k"], UN.ids_of(p0), p0["vals"]]))
            oracle_for.append(("lpt", g, first, p0))
        if unl and prev is not None and len(p0["vals"]) <= 9:
            if kind == "cg_clock":
                o, ok = p0["objective"]
                oracle_reqs.append(runner.model_line("opt_value", [o, ok, p0["k"], p0["vals"]]))
            else:
                oracle_reqs.append(runner.model_line("opt_balanced2", [p0["d"], p0["vals"]]))
            oracle_for.append(("opt", g, prev[1], p0))
    reps = runner.run_model(oracle_reqs)
    for (what, g, x, p0), r in zip(oracle_for, reps):
        idx = groups[g]
        if what == "lpt":
            n, b = x
            lpt = sorted(s for s, _ in r)
            got = sorted(s for s, _ in b)
            h3_minmax = p0["flags"][2] == 1 and p0["objective"][0] == 1
            ok = (max(got) == max(lpt)) if h3_minmax else (got == lpt)
            if not ok:
                out.append({"text": f"complete greedy's first solution (limit {n}) has sums {got}, the greedy (LPT) sums are {lpt} ({UN.short(p0, 200)})",
                            "units": [u for u in (us[i] for i in idx) if u["params"]["limit"] == n]})
        else:
            if r != x:
                out.append({"text": f"unlimited run is not optimal: objective {x}, optimum {r} ({UN.short(p0, 200)})",
                            "units": [u for u in (us[i] for i in idx) if u["params"]["limit"] < 0]})
    return out[:3]


def nontrivial(u, impl, model):
    p = u["params"]
    v = p["vals"]
    if len(v) < 3 or len(set(v)) < 2:
        return False
    if u["kind"] == "ckk_generator":
        return p["k"] >= 2 and len(impl.get("yields", [])) >= 2
    if u["kind"] == "cg_clock" and p["k"] < 2:
        return False
    return 0 < p["limit"] < u.get("natural_ticks", 0)


def shrinkable(u):
    return False
