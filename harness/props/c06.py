"""C06 - reported sums and derived outputs always describe the returned bins."""
from harness import units as UN, gen
from harness.pcommon import part_unit, pack_unit, malformed

ID = "C06"
RULE = ("every input is requested with ALL output types of prtpy.out (PartitionAndSumsTuple, PartitionAndSums, Partition, Sums, SortedSums, LargestSum, SmallestSum, "
        "ExtremeSums, Difference, BinCount) from every partitioning algorithm (greedy, roundrobin, multifit, kk, cg with random switches/objective, ckk, snp, rnp, dp, "
        "ilp (rotating), cbldm), the five packers and the three covers; inputs: bounded-exhaustive small lists and structured random lists/instances (n <= 9), formats "
        "list/array/dict/names+valueof. Non-trivial: >= 3 items, >= 2 bins returned, not all values equal, a sums-only output type. Distinct by (port, params).")
EXPLANATION = ("each call compared with the Gallina model (the cheap outputs against the model's full run through Output.derive); judged on the implementation's outputs alone: every "
               "reported sum equals the total value of the items reported in its bin (verified checker wf_b), and every sums-only output equals Output.derive (extracted) applied "
               "to the sums of the PartitionAndSumsTuple output of the same call; Partition lists equal the lists of the tuple output. Theorems C06_*: the cheap run IS derive of "
               "the full run, for ALL inputs.")
ASSUMPTIONS = ["non-negative integers below 2^53; ILP values <= 200"]
CASE_TIMEOUT = 120
PART = ["greedy", "roundrobin", "bidir", "multifit", "kk", "cg", "ckk", "snp", "rnp", "dp", "ilp", "cbldm"]
PACK = ["ff", "ffd", "bf", "bfd", "bc", "cover_dec", "cover_23", "cover_34"]
OUTS = ["pst", "pas", "partition", "sums", "sorted", "largest", "smallest", "extreme", "difference", "bincount"]
OIDX = {"sums": 0, "largest": 1, "smallest": 2, "extreme": 3, "sorted": 4, "difference": 5, "bincount": 6}
_g = [0]


def group(mk):
    _g[0] += 1
    us = []
    for out in OUTS:
        u = mk(out)
        u["group"] = _g[0]
        us.append(u)
    return us


def units(rng, tier):
    us = []

    def part_group(a, k, vals, fam):
        kw = {}
        v = list(vals)
        cmp = "bins"
        if a == "cg":
            kw = {"objective": rng.choice([[0, 0], [1, 0], [2, 0], [3, 2], [4, 2]]), "flags": [rng.randint(0, 1) for _ in range(4)]}
        if a in ("dp", "ilp"):
            kw = {"objective": rng.choice([[0, 0], [1, 0], [2, 0]])}
            v = v[:6]
            k = min(k, 4)
            cmp = "value" if a == "dp" else None
        if a == "ilp":
            v = [min(x, 200) for x in v]
            if k >= 2 and rng.random() < 0.5:
                # the ILP's own options: entitlement weights of the bins (the model works with sums divided by them; the OUTPUT must
                # still report the true sums) and copies
                w = [rng.randint(1, 3) for _ in range(k)]
                if len(set(w)) == 1:
                    w[0] += 1
                kw["weights"] = w
        if a in ("ckk", "snp", "rnp"):
            k = min(k, 5)
            cmp = "sums"
        if a == "cbldm":
            k = 2
        fmt = rng.choice(gen.FORMATS)
        ids = gen.ids_for(rng, len(v))
        return group(lambda out: part_unit(a, k, v, rng, fmt=fmt, out=out, cmp=(cmp if a != "dp" or out in ("pst", "pas") else None), family=fam, ids=ids, **kw))

    lists = rng.sample(list(gen.small_lists([0, 1, 2, 3, 5], 4, minlen=2)), 10 if tier == "quick" else 150)
    for vals in lists:
        for a in PART:
            if a == "ilp" and rng.random() < 0.7:
                continue
            us += part_group(a, rng.choice([1, 2, 3, 4]), vals, "exhaustive")
    for _ in range(30 if tier == "quick" else 500):
        vals, fam = gen.values(rng, nmax=9, vmax=2 ** 40)
        k = rng.choice([1, 2, 2, 3, 3, 4, 5, len(vals) + 1])
        for a in PART:
            if a == "ilp" and rng.random() < (0.85 if tier == "quick" else 0.5):
                continue
            v = vals[:8] if a in ("cg", "ckk", "snp", "rnp") else vals
            us += part_group(a, min(k, 5) if a in ("ckk", "snp", "rnp") else k, v, fam)
    # dynamic programming (its choice among tied optima depends on the exact item list, through the iteration order of a set of states) and
    # the sorting heuristics on small lists WITH ZERO-VALUED ITEMS and often more bins than positive items: an adaptor that prepares the item
    # list differently for the sums-only output types makes the two kinds of output describe different partitions
    for _ in range(120 if tier == "quick" else 2000):
        npos = rng.randint(1, 4)
        v = [rng.randint(1, 14) for _ in range(npos)] + [0] * rng.randint(1, 2)
        rng.shuffle(v)
        k = rng.choice([2, 2, 3, 4, 4])
        for a in (["dp"] if rng.random() < 0.7 else [rng.choice(["greedy", "kk", "cg", "ckk", "multifit", "roundrobin", "bidir"])]):
            us += part_group(a, k, v, "zeros+few-positive")
    for _ in range(30 if tier == "quick" else 500):
        for a in PACK:
            C, vals, fam = (gen.covering_instance if a.startswith("cover") else gen.packing_instance)(rng, nmax=9)
            v = vals[:8] if a == "bc" else vals
            fmt = rng.choice(gen.FORMATS)
            ids = gen.ids_for(rng, len(v))
            us += group(lambda out, a=a, C=C, v=v, fmt=fmt, ids=ids, fam=fam: pack_unit(a, C, v, rng, fmt=fmt, out=out, cmp="bins", family=fam, ids=ids))
    # bin completion where its search runs (best-fit-decreasing misses the volume bound; near-perfect packings): the two bins-managers
    # must prune the same branches, so every output type describes the same packing
    from harness.pcommon import hard_bc_instances
    for C, v in hard_bc_instances(rng, 2500 if tier == "quick" else 30000, 150 if tier == "quick" else 2000):
        ids = gen.ids_for(rng, len(v))
        fmt = rng.choice(["list", "list", "dict_str"])
        us += group(lambda out, C=C, v=v, fmt=fmt, ids=ids: pack_unit("bc", C, v, rng, fmt=fmt, out=out, cmp="bins", family="bc-search-runs(screened)", ids=ids))
    # complete KK with five bins and many equal small values: its two managers de-duplicate search states differently
    for _ in range(60 if tier == "quick" else 800):
        hi = rng.choice([3, 6, 6, 10])
        v = [rng.randint(1, hi) for _ in range(rng.randint(5, 9))]
        ids = gen.ids_for(rng, len(v))
        fmt = rng.choice(["list", "dict_str"])
        us += group(lambda out, v=v, fmt=fmt, ids=ids: part_unit("ckk", 5, v, rng, fmt=fmt, out=out, cmp="sums", family="ckk-5bins-small-values", ids=ids))
    # complete KK with 3-5 bins on LAYERED values (k items per layer): two non-singleton partial partitions with tied sums are combined
    # (repair D11: the sums-only output used to differ from the sums of the full output, e.g. [4,5,7,9,10,10,12,14,15] with 4 bins)
    for _ in range(40 if tier == "quick" else 600):
        k, v = gen.layered(rng)
        ids = gen.ids_for(rng, len(v))
        fmt = rng.choice(["list", "dict_str"])
        us += group(lambda out, v=v, k=k, fmt=fmt, ids=ids: part_unit("ckk", k, v, rng, fmt=fmt, out=out, cmp="sums", family="ckk-layered", ids=ids))
    # covers whose control flow depends on WHICH items are present (class of the smallest item, emptiness of a class): instances made of
    # threshold values plus zero-valued and tiny items, where an adaptor that treats an output type specially shows up
    for _ in range(250 if tier == "quick" else 3000):
        C, vals, fam = gen.covering_instance(rng, nmax=7, family="thresholds")
        vals = list(vals) + rng.choice([[0], [0], [0, 0], [1], []])
        rng.shuffle(vals)
        a = rng.choice(["cover_34", "cover_34", "cover_23", "cover_dec"])
        fmt = rng.choice(["list", "list", "dict_str"])
        ids = gen.ids_for(rng, len(vals))
        us += group(lambda out, a=a, C=C, v=vals, fmt=fmt, ids=ids: pack_unit(a, C, v, rng, fmt=fmt, out=out, cmp="bins", family="thresholds+zero", ids=ids))
    return us


def judge_requests(u, impl, model):
    p = u["params"]
    a = p["algo"]
    desc = f"{a}({'numbins=' + str(p['k']) if 'k' in p else 'binsize=' + str(p['C'])}, values={UN.short(p['vals'], 120)}, format {p['fmt']}, output {p['out']})"
    if "exc" in impl:
        if impl["exc"] == "ValueError" and p["out"] in ("largest", "smallest", "extreme", "difference"):
            return []        # legitimate only when the result has no bin at all: decided in extra_checks from the full output of the same call
        return [("py", None, f"{desc} did not complete: {impl['exc']}")]
    if p["out"] in ("pst", "pas"):
        m = malformed(impl)
        if m:
            return [("py", None, f"{desc}: {m}")]
        bi = UN.bins_in(p, impl["bins"])
        if bi is None:
            return [("py", None, f"{desc}: result contains an unknown item: {UN.short(impl['bins'], 200)}")]
        return [("chk_wf", [bi], lambda r: None if r is True else f"{desc}: a reported sum is not the total value of the items reported in that bin: {UN.short(impl['bins'], 250)}")]
    return []


def extra_checks(rng, tier, us, oc):
    """the sums-only outputs of a call are Output.derive of the sums of the full output of the same call"""
    from harness import runner
    out = []
    groups = {}
    for i, u in enumerate(us):
        groups.setdefault(u["group"], []).append(i)
    reqs, where = [], []
    for g, idx in groups.items():
        by = {us[i]["params"]["out"]: i for i in idx}
        if any(o not in by for o in OUTS):
            continue        # an incomplete group (a corpus unit on its own): judged per unit only
        full0 = oc.impl[by["pst"]]
        if isinstance(full0.get("bins"), list) and len(full0["bins"]) == 0:
            # no bin at all (a cover that fills nothing): largest / smallest / extreme / difference of an empty list of sums are
            # undefined (ValueError from max()/min()); the other output types must describe the empty result
            for o in ("sums", "sorted"):
                if oc.impl[by[o]].get("sums") != []:
                    out.append({"text": f"{us[by[o]]['params']['algo']}: empty result but output type {o} returned {UN.short(oc.impl[by[o]], 100)}", "units": [us[by[o]]]})
            if oc.impl[by["bincount"]].get("num") != 0:
                out.append({"text": f"{us[by['bincount']]['params']['algo']}: empty result but BinCount returned {UN.short(oc.impl[by['bincount']], 100)}", "units": [us[by['bincount']]]})
            continue
        if any("exc" in oc.impl[i] for i in idx):
            excs = {us[i]["params"]["out"]: oc.impl[i].get("exc") for i in idx}
            if len(set(excs.values())) > 1:
                p = us[idx[0]]["params"]
                out.append({"text": f"{p['algo']} on values {UN.short(p['vals'], 120)}: whether the call fails depends on the output type: {excs}", "units": [us[i] for i in idx]})
            continue
        full = oc.impl[by["pst"]]
        if not isinstance(full.get("bins"), list):
            continue
        fsums = [s for s, _ in full["bins"]]
        p0 = us[by["pst"]]["params"]
        # the two full outputs and the Partition output agree
        pas = oc.impl[by["pas"]]
        if pas.get("bins") != full["bins"]:
            out.append({"text": f"{p0['algo']} on {UN.short(p0['vals'], 120)}: PartitionAndSums {UN.short(pas.get('bins'), 150)} differs from PartitionAndSumsTuple {UN.short(full['bins'], 150)}",
                        "units": [us[by['pst']], us[by['pas']]]})
        part = oc.impl[by["partition"]]
        if part.get("lists") != [l for _, l in full["bins"]]:
            out.append({"text": f"{p0['algo']} on {UN.short(p0['vals'], 120)}: Partition output {UN.short(part.get('lists'), 150)} differs from the lists of the tuple output {UN.short(full['bins'], 150)}",
                        "units": [us[by['pst']], us[by['partition']]]})
        for o, oi in OIDX.items():
            reqs.append(runner.model_line("derive", [oi, fsums]))
            where.append((g, o, by[o], by["pst"]))
    reps = runner.run_model(reqs)
    for (g, o, i, ifull), want in zip(where, reps):
        got = oc.impl[i]
        p = us[i]["params"]
        got_cmp = {k: v for k, v in got.items() if k in ("sums", "num")}
        exact_ok = got_cmp == want
        # Sums must list the bins in the same order as the full output; if the multiset agrees but the order differs that is still a disagreement for Sums
        if not exact_ok:
            out.append({"text": f"{p['algo']}({'numbins=' + str(p['k']) if 'k' in p else 'binsize=' + str(p['C'])}, values={UN.short(p['vals'], 120)}, format {p['fmt']}): output type {o} returned {got_cmp} "
                                f"but the full output of the same call has sums {[s for s, _ in oc.impl[ifull]['bins']]}, from which {o} is {want}",
                        "units": [us[ifull], us[i]], "kind": "failing-input"})
    return out[:3]


def nontrivial(u, impl, model):
    p = u["params"]
    return len(p["vals"]) >= 3 and len(set(p["vals"])) >= 2 and p["out"] in OIDX


def shrinkable(u):
    return False
