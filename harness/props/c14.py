"""C14 - simple heuristics compute exactly what their textbook definitions prescribe."""
from harness import units as UN, gen
from harness.pcommon import pack_unit, part_unit

ID = "C14"
RULE = ("nine heuristics x {list, dict(str), dict(int), names+valueof, array}: bounded-exhaustive item lists of length <= 4 over {1,2,3,4,6} (ties, exact fills; "
        "covers and packers with C=6 so that C/2=3 and C/3=2 are item values; partitioners with k in 1..4), structured random instances incl. thresholds +-1, "
        "zeros for the partitioners/packers, inputs of 40..150 items. Canonical form: sorted sums for greedy and the best-fit variants, multiset of "
        "(sum, multiset of values) for the others. Non-trivial: >= 3 items with >= 2 distinct values. Distinct by (port, params).")
EXPLANATION = ("The executable reference kept in /verif is the Gallina model, which Properties/C14.v proves to be a run of the textbook rule of Spec/Rules.v, every run "
               "of which has the same sums/bins; prtpy's output is compared with it, so any disagreement is a concrete input on which the code departs from its textbook rule.")
ASSUMPTIONS = ["integers below 2^53; 0 <= value <= bin size for packers, positive values for covers"]
PART = [("greedy", "sums"), ("roundrobin", "bins")]
PACK = [("ff", "bins"), ("ffd", "bins"), ("bf", "sums"), ("bfd", "sums")]
COV = [("cover_dec", "bins"), ("cover_23", "bins"), ("cover_34", "bins")]


def units(rng, tier):
    us = []
    lists = list(gen.small_lists([1, 2, 3, 4, 6], 4))
    if tier == "quick":
        lists = rng.sample(lists, 120)
    for vals in lists:
        for a, cmp in PART:
            us.append(part_unit(a, rng.randint(1, 4), vals, cmp=cmp, family="exhaustive"))
        for a, cmp in PACK + COV:
            us.append(pack_unit(a, 6, vals, cmp=cmp, family="exhaustive"))
    for _ in range(200 if tier == "quick" else 2500):
        vals, fam = gen.values(rng, nmax=10)
        for a, cmp in PART:
            us.append(part_unit(a, rng.randint(1, 6), vals, rng, fmt=rng.choice(gen.FORMATS), cmp=cmp, family=fam))
        C, pv, fam2 = gen.packing_instance(rng, nmax=10)
        for a, cmp in PACK:
            us.append(pack_unit(a, C, pv, rng, fmt=rng.choice(gen.FORMATS), cmp=cmp, family="pack/" + fam2))
        C, cv, fam3 = gen.covering_instance(rng, nmax=10)
        for a, cmp in COV:
            us.append(pack_unit(a, C, cv, rng, fmt=rng.choice(gen.FORMATS), cmp=cmp, family="cover/" + fam3))
    # dense streams for the rarely taken branches of the class-based covers (one medium item left, a class running out first,
    # items exactly at C/2 and C/3) and of the fit packers (exact fills): cheap, so thousands of small instances
    for _ in range(2500 if tier == "quick" else 30000):
        C = rng.choice([6, 7, 9, 10, 12, 14, 16, 17, 23, 30])
        n = rng.randint(2, 9)
        mode = rng.random()
        if mode < 0.5:
            cv = [rng.randint(1, C) for _ in range(n)]
        elif mode < 0.8:
            cand = [C // 2, C // 2 + 1, max(1, C // 2 - 1), max(1, C // 3), C // 3 + 1, max(1, C // 3 - 1), 1, 2, 3, max(1, C // 4)]
            cv = [rng.choice(cand) for _ in range(n)]
        else:
            cv = [rng.randint(1, max(1, int(1.2 * C))) for _ in range(n)]
        a, cmp = rng.choice(COV + [COV[-1]])
        us.append(pack_unit(a, C, cv, family="cover-dense", cmp=cmp))
        if rng.random() < 0.4:
            a2, cmp2 = rng.choice(PACK)
            us.append(pack_unit(a2, C, [min(v, C) for v in cv], family="pack-dense", cmp=cmp2))
    # covers on big / medium items plus ZERO-VALUED items only (every small item is worth 0): an emptiness test written as a truthiness
    # test on the values takes the small class for empty
    for _ in range(300 if tier == "quick" else 4000):
        C = rng.choice([6, 9, 10, 12, 14, 16, 17, 23, 30])
        cv = [rng.randint(-(-C // 3), C + 2) for _ in range(rng.randint(1, 5))] + [0] * rng.randint(1, 3)
        rng.shuffle(cv)
        a, cmp = rng.choice(COV + [COV[-1]])
        us.append(pack_unit(a, C, cv, family="cover-zero-valued-small-items", cmp=cmp))
    for _ in range(10 if tier == "quick" else 100):
        n = rng.choice([40, 64, 65, 100, 129, 150, 300])
        C = rng.choice([100, 1000])
        vals = [rng.randint(1, C) for _ in range(n)]
        for a, cmp in PART:
            us.append(part_unit(a, rng.choice([2, 3, 5, 9, 16, 31, 32, 33, 40, 64, 65]), vals, rng, fmt=rng.choice(["list", "dict_str"]), cmp=cmp, family="large"))
        for a, cmp in PACK + COV:
            us.append(pack_unit(a, C, vals, rng, fmt=rng.choice(["list", "dict_str"]), cmp=cmp, family="large"))
    return us


def judge_requests(u, impl, model):
    # the judgement IS the comparison with the reference model
    try:
        m = UN.compare(u["kind"], u["params"], u["cmp"], impl, model)
    except Exception as e:
        m = f"malformed output: {UN.short(impl)} ({type(e).__name__})"
    if m:
        p = u["params"]
        return [("py", None, f"{p['algo']} departs from its textbook rule on items {UN.short(p['vals'],150)} ({'k=%s' % p['k'] if 'k' in p else 'C=%s' % p['C']}, format {p['fmt']}): {UN.short(m, 300)}")]
    return []


def nontrivial(u, impl, model):
    v = u["params"]["vals"]
    return len(v) >= 3 and len(set(v)) >= 2


def shrinkable(u):
    return True
