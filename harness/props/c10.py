"""C10 - bin-covering heuristics meet their approximation guarantees."""
import itertools
from harness import units as UN, gen
from harness.pcommon import pack_unit

ID = "C10"
ALGOS = ["cover_dec", "cover_23", "cover_34"]
RULE = ("OPT from the verified oracle max_cover (exhaustive over reach(n, items), n <= 9 items; thorough: <= 11) on bounded-exhaustive "
        "multisets over {1,2,3,4,6,7} with C=6 and structured random instances; planted instances built as OPT exactly-full bins (up to "
        "300 items: OPT = total/C by the volume bound); medium-heavy families (12-65 items in [C/3, C/2) plus a few big ones, OPT >= big + (n - 2 big) // 3); the published worst-case families of Csirik et al. Non-trivial: OPT >= 2. Distinct by (port, params).")
EXPLANATION = ("number of covered bins returned by prtpy.pack(covering.*) compared with the model (count) and judged against OPT: never more than OPT; "
               "decreasing >= (OPT-1)/2; two-thirds >= 2/3 (OPT-1); three-quarters >= 3/4 OPT - 4. Theorems: <= OPT for all three and OPT <= 2*decreasing "
               "and the two-thirds ratio 2/3 (OPT-1) are proved for the model; and the three-quarters ratio 3/4 OPT - 4 are proved for the model too: every bound of the property is a theorem.")
ASSUMPTIONS = ["positive integer values, integer bin size > 0"]
OPEN_STATEMENTS = []
ORACLE_MAX = {"quick": 9, "thorough": 11}


def units(rng, tier):
    us = []
    msets = list(gen.small_multisets([1, 2, 3, 4, 6, 7], 6 if tier == "quick" else 7, minlen=2))
    if tier == "quick":
        msets = rng.sample(msets, 220)
    for vals in msets:
        rng.shuffle(vals)
        for a in ALGOS:
            us.append(pack_unit(a, 6, vals, family="exhaustive-multisets", cmp="count"))
    for _ in range(200 if tier == "quick" else 2500):
        C, vals, fam = gen.covering_instance(rng, nmax=ORACLE_MAX[tier])
        for a in ALGOS:
            us.append(pack_unit(a, C, vals, rng, fmt=rng.choice(["list", "dict_str"]), family=fam, cmp="count"))
    # planted: OPT exactly-full bins
    for _ in range(40 if tier == "quick" else 400):
        C = rng.choice([12, 30, 100, 1000])
        m = rng.randint(2, 40)
        vals = []
        for _ in range(m):
            rest = C
            for j in range(rng.randint(0, 6)):
                if rest <= 1:
                    break
                x = rng.randint(1, max(1, min(rest - 1, rng.choice([rest - 1, C // 3, C // 6 + 1]))))
                vals.append(x)
                rest -= x
            vals.append(rest)
        rng.shuffle(vals)
        for a in ALGOS:
            u = pack_unit(a, C, vals, rng, fmt="list", family="planted", cmp="count")
            u["opt"] = m
            us.append(u)
    # class-heavy families: (almost) only medium items (C/3 <= v < C/2; any three of them cover a bin, so OPT >= n // 3),
    # optionally a few big ones (a big item + two medium ones cover: OPT >= big + (n - 2 big) // 3); no small items
    for _ in range(30 if tier == "quick" else 300):
        C = rng.choice([10, 12, 30, 100, 999])
        n = rng.randint(12, 60)
        lo, hi = -(-C // 3), (C - 1) // 2
        if lo > hi:
            continue
        vals = [rng.randint(lo, hi) for _ in range(n)]
        nbig = rng.choice([0, 0, 1, 2, 5])
        vals += [rng.randint(-(-C // 2), C) for _ in range(nbig)]
        opt_lower = nbig + (n - 2 * nbig) // 3          # 2 * nbig <= 10 < n
        rng.shuffle(vals)
        for a in ALGOS:
            u = pack_unit(a, C, vals, rng, fmt="list", family="medium-heavy", cmp="count")
            u["opt_lower"] = opt_lower
            us.append(u)
    # published worst-case families (Csirik, Frenk, Labbe, Zhang 1999), as in the doctests
    # ... and the same families with MORE THAN 500 ITEMS (k = 60: 721 and 1 560 items; a size-gated fallback to a weaker heuristic shows only there)
    for k in list(range(1, 6 if tier == "quick" else 12)) + ([60] if tier == "quick" else [60, 90, 120]):
        fam = [
            (1000, [1000 - 6 * k] + 6 * k * [499] + 6 * k * [1], 3 * k + 1),       # worst case for decreasing / 2-3
            (1200, 2 * k * [594] + 12 * k * [399] + 12 * k * [1], None),            # worst case for 3/4
        ]
        for C, vals, opt in fam:
            for a in ALGOS:
                u = pack_unit(a, C, vals, family="published-worst-case", cmp="count")
                if opt:
                    u["opt_lower"] = opt
                us.append(u)
    return us


def ratio_text(algo, n, opt):
    if n > opt:
        return f"covers {n} bins but OPT is {opt}"
    if algo == "cover_dec" and 2 * n < opt - 1:
        return f"decreasing covers {n} < (OPT-1)/2 with OPT={opt}"
    if algo == "cover_23" and 3 * n < 2 * (opt - 1):
        return f"two-thirds covers {n} < 2/3 (OPT-1) with OPT={opt}"
    if algo == "cover_34" and 4 * n < 3 * opt - 16:
        return f"three-quarters covers {n} < 3/4 OPT - 4 with OPT={opt}"
    return None


def judge_requests(u, impl, model):
    p = u["params"]
    if "exc" in impl:
        return [("py", None, f"unexpected exception {impl['exc']}")]
    n = len(impl["bins"])
    a = p["algo"]
    if "opt" in u:
        t = ratio_text(a, n, u["opt"])
        return [("py", None, f"{t}; items {UN.short(p['vals'], 120)} C={p['C']}" if t else None)]
    if "opt_lower" in u:
        # only a lower bound on OPT is known by construction: the lower-ratio side applies with it
        opt = u["opt_lower"]
        t = None
        if a == "cover_dec" and 2 * n < opt - 1 or a == "cover_23" and 3 * n < 2 * (opt - 1) or a == "cover_34" and 4 * n < 3 * opt - 16:
            t = f"{a} covers {n} bins, OPT >= {opt}"
        return [("py", None, t)]
    if len(p["vals"]) <= 11:
        def pred(r, a=a, n=n, p=p):
            t = ratio_text(a, n, r)
            return f"{t}; items {p['vals']} C={p['C']}" if t else None
        return [("max_cover", [p["C"], p["vals"]], pred)]
    return []


def nontrivial(u, impl, model):
    return len(impl.get("bins", [])) >= 2


def shrinkable(u):
    return "opt" not in u and "opt_lower" not in u
