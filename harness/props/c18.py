"""C18 - results respect problem symmetries; exact solvers agree beyond oracle size."""
from harness import units as UN, gen, runner
from harness.pcommon import part_unit, pack_unit

ID = "C18"
RULE = ("groups of calls on one base input and its transforms: every base input is called in 2 random reorderings, scaled by a factor from {2,3,7,10,1024} "
        "(bin size scaled too; multifit: powers of two only) and with 1-3 zero-valued items inserted at random positions (exact partitioners only); "
        "sorting heuristics (greedy, round-robin, multifit, kk, ffd, bfd, three covers), order-dependent ones only for scaling (ff, bf), exact algorithms "
        "(dp, cg, ckk, snp, rnp, ilp, cbldm, bin completion). Agreement groups: 11-13 items (thorough: up to 16), 2-5 bins, all exact algorithms + greedy/kk "
        "on the same input, including planted perfect partitions. Non-trivial: >= 4 items, not all equal, >= 2 bins. Distinct by (port, params).")
EXPLANATION = ("each call compared with the Gallina model (sorted sums / objective value) and the relations checked on the implementation's outputs: permutation => same "
               "multiset of sums (heuristics) or same optimal value (exact); scaling => sums/value multiplied; zeros => optimal value unchanged; agreement => all exact "
               "algorithms report one value per objective, never worse than any heuristic. Theorems C18_*: all of these for the model, for inputs of EVERY size.")
ASSUMPTIONS = ["non-negative integers, scaled totals below 2^53; ILP values <= 200 after scaling excluded (ILP is scaled only by 2 and 3 on values <= 60)"]
CASE_TIMEOUT = 300
SORTING_PART = ["greedy", "roundrobin", "bidir", "multifit", "kk"]
EXACT_PART = ["dp", "cg", "ckk", "snp", "rnp", "ilp"]
SORTING_PACK = ["ffd", "bfd", "cover_dec", "cover_23", "cover_34"]
ORDER_PACK = ["ff", "bf"]
SCALES = [2, 3, 7, 10, 1024]
_gid = [0]


def tag(u, group, role, **kw):
    u["group"], u["role"] = group, role
    u.update(kw)
    return u


def perm(rng, vals):
    v = list(vals)
    rng.shuffle(v)
    return v


def part(rng, a, k, vals, fam, **kw):
    exact = a in EXACT_PART or a == "cbldm"
    cmp = "value" if exact else "sums"
    if a == "ilp":
        cmp = None
    return part_unit(a, k, vals, rng, fmt=rng.choice(["list", "list", "dict_str", "array"]), out="pst" if a in ("dp", "cbldm") else rng.choice(["pst", "sums"]),
                     cmp=cmp, family=fam, **kw)


def units(rng, tier):
    us = []
    n_sym = 60 if tier == "quick" else 700
    for _ in range(n_sym):
        vals, fam = gen.values(rng, nmax=8, vmax=2 ** 40)
        k = rng.choice([2, 2, 3, 3, 4, 5])
        _gid[0] += 1
        g = _gid[0]
        for a in SORTING_PART + EXACT_PART + ["cbldm"]:
            v = list(vals)
            kk = k
            kw = {}
            if a == "cg":
                kw = {"objective": rng.choice([[0, 0], [1, 0], [2, 0]]), "flags": [rng.randint(0, 1) for _ in range(4)]}
            if a in ("dp", "ilp"):
                kw = {"objective": rng.choice([[0, 0], [1, 0], [2, 0], [3, 2], [4, 2]])}
                v = v[:6]
                kk = min(k, 4)
                if max(v) > 60:
                    v = [x % 60 + 1 for x in v]
                if a == "ilp" and rng.random() < (0.8 if tier == "quick" else 0.4):
                    continue
            if a == "cbldm":
                kk = 2
                kw = rng.choice([{}, {}, {"partition_difference": rng.choice([1, 2, len(v)])}])
            if a in ("ckk", "snp", "rnp") and max(v) > 2 ** 30:
                v = v[:7]
            if a in ("snp", "rnp"):
                v = v[:7]            # the inclusion/exclusion tree is exponential when its bounds are loose (one huge item, many bins)
            if a in ("snp", "rnp") and v.count(0) > 3:
                # the inclusion/exclusion tree enumerates every sub-collection of the zeros: minutes of CPU for 10 zeros
                nz = [x for x in v if x != 0]
                v = nz + [0] * 3
            grp = f"{g}/{a}"
            us.append(tag(part(rng, a, kk, v, fam, **kw), grp, "base"))
            for _ in range(2):
                us.append(tag(part(rng, a, kk, perm(rng, v), fam, **kw), grp, "perm"))
            cs = [c for c in SCALES if (a != "multifit" or c in (2, 1024)) and (a != "ilp" or c in (2, 3)) and max(v) * c * len(v) < 2 ** 52]
            if cs:
                c = rng.choice(cs)
                us.append(tag(part(rng, a, kk, [x * c for x in v], fam, **kw), grp, "scale", factor=c))
            if a in EXACT_PART or (a == "cbldm" and not kw):     # with a cardinality bound zeros change the problem
                z = list(v)
                for _ in range(rng.randint(1, 2 if a in ("snp", "rnp") else 3)):
                    z.insert(rng.randint(0, len(z)), 0)
                if a not in ("dp", "ilp") or len(z) <= 8:
                    us.append(tag(part(rng, a, kk, z, fam, **kw), grp, "zeros"))
    # dense agreement stream for complete greedy under every objective against the model's (proved optimal) value: 7-10 items, 3-4 bins -
    # pruning rules that are valid for one objective only (min-max rules applied to max-min ...) lose the optimum on about 1 input in 1 000
    for _ in range(1000 if tier == "quick" else 20000):
        k = rng.choice([3, 3, 4])
        v = [rng.randint(1, 40) for _ in range(rng.randint(7, 10))]
        _gid[0] += 1
        kw = {"objective": rng.choice([[0, 0], [0, 0], [0, 0], [1, 0], [2, 0], [3, 2], [4, 2]]), "flags": rng.choice([[1, 1, 0, 1], [1, 1, 0, 1], [rng.randint(0, 1) for _ in range(4)]])}
        us.append(tag(part_unit("cg", k, v, rng, fmt="list", out="sums", cmp="value", family="cg-dense-agreement", **kw), f"{_gid[0]}/cg", "base"))
    # dense agreement stream for SNP on plain lists with REPEATED values (3-4 bins, 8-11 items drawn from a small pool): whatever the tree
    # keys by the item itself (a memo, a table of suffix sums) collides on equal numbers, and the optimum is lost on about 1 such input in 50
    for _ in range(250 if tier == "quick" else 5000):
        k = rng.choice([3, 4, 4])
        n = rng.randint(8, 11)
        pool = [rng.randint(1, 40) for _ in range(rng.randint(max(3, n // 2), n - 1))]
        v = [rng.choice(pool) for _ in range(n)]
        _gid[0] += 1
        us.append(tag(part_unit("snp", k, v, rng, fmt="list", out="sums", cmp="value", family="snp-dense-duplicates"), f"{_gid[0]}/snp", "base"))
    # planted PERFECT partitions (total divisible by the number of bins, every bin exactly T): where the bounds of the searches are tight and
    # an off-by-one in a bound or a tie changes the answer for some scale factors only; complete greedy under every objective and random switches
    for _ in range(80 if tier == "quick" else 900):
        k = rng.choice([2, 3, 3, 4])
        T = rng.randint(6, 40)
        v = []
        for _b in range(k):
            rest = T
            for _j in range(rng.randint(0, 2)):
                if rest <= 1:
                    break
                x = rng.randint(1, rest - 1)
                v.append(x)
                rest -= x
            v.append(rest)
        v = v[:8]
        rng.shuffle(v)
        _gid[0] += 1
        kw = {"objective": rng.choice([[0, 0], [1, 0], [1, 0], [2, 0]]), "flags": [rng.randint(0, 1) for _ in range(4)]}
        grp = f"{_gid[0]}/cg"
        us.append(tag(part(rng, "cg", k, v, "planted-perfect-symmetries", **kw), grp, "base"))
        us.append(tag(part(rng, "cg", k, perm(rng, v), "planted-perfect-symmetries", **kw), grp, "perm"))
        c = rng.choice(SCALES)
        us.append(tag(part(rng, "cg", k, [x * c for x in v], "planted-perfect-symmetries", **kw), grp, "scale", factor=c))
        z = list(v)
        z.insert(rng.randint(0, len(z)), 0)
        us.append(tag(part(rng, "cg", k, z, "planted-perfect-symmetries", **kw), grp, "zeros"))
    for _ in range(60 if tier == "quick" else 700):
        covering = rng.random() < 0.4
        C, vals, fam = (gen.covering_instance if covering else gen.packing_instance)(rng, nmax=10)
        _gid[0] += 1
        g = _gid[0]
        algos = (["cover_dec", "cover_23", "cover_34"] if covering else ["ffd", "bfd", "ff", "bf", "bc"])
        for a in algos:
            v = list(vals)
            if a == "bc":
                v = [x for x in v if x > 0][:8]
                if not v:
                    continue
            grp = f"{g}/{a}"
            cmp = "count" if a == "bc" else "sums"
            fmt = rng.choice(["list", "dict_str"]) if a != "bc" else "list"
            us.append(tag(pack_unit(a, C, v, rng, fmt=fmt, cmp=cmp, family=fam), grp, "base"))
            if a not in ORDER_PACK:
                for _ in range(2):
                    us.append(tag(pack_unit(a, C, perm(rng, v), rng, fmt=fmt, cmp=cmp, family=fam), grp, "perm"))
            c = rng.choice(SCALES)
            us.append(tag(pack_unit(a, C * c, [x * c for x in v], rng, fmt=fmt, cmp=cmp, family=fam), grp, "scale", factor=c))
    # ---- agreement beyond oracle size
    for _ in range(18 if tier == "quick" else 60):
        n = rng.randint(10 if tier == "quick" else 11, 12 if tier == "quick" else 16)
        k = (rng.choice([2, 3, 3, 3, 4, 4]) if tier == "quick" else rng.choice([2, 3, 3, 4, 5])) if n <= 13 else rng.choice([2, 3])
        if rng.random() < 0.4:
            # planted perfect partition: k bins of equal total
            T = rng.randint(30, 90)
            vals = []
            for _ in range(k):
                rest = T
                for j in range(max(1, n // k) - 1):
                    if rest <= 1:
                        break
                    x = rng.randint(1, rest - 1)
                    vals.append(x)
                    rest -= x
                vals.append(rest)
            fam = "planted-perfect"
        else:
            vals = [rng.randint(1, rng.choice([30, 99, 500])) for _ in range(n)]
            fam = "agree-random"
        rng.shuffle(vals)
        _gid[0] += 1
        grp = f"{_gid[0]}/agree"
        for a in ["greedy", "kk", "cg", "ckk", "snp", "rnp"] + (["ilp"] if max(vals) <= 200 and k <= 4 else []):
            kw = {}
            if a == "cg":
                kw = {"objective": [2, 0], "flags": [1, 1, 0, 1]}
            if a == "ilp":
                kw = {"objective": [2, 0]}
            u = part_unit(a, k, vals, rng, fmt="list", out="sums", cmp=None if a == "ilp" else ("value" if a in EXACT_PART else "sums"), family=fam, **kw)
            us.append(tag(u, grp, "agree", planted=(fam == "planted-perfect")))
    # agreement for every objective on inputs small enough for dp: dp, complete greedy under two random switch vectors, ilp (sometimes);
    # planted perfect partitions (total divisible by the number of bins) are over-represented: that is where bounds are tight
    # five bins and many equal small values (where de-duplication of states matters), difference objective: cg, ckk (both managers), snp
    for _ in range(120 if tier == "quick" else 1500):
        k = 5
        hi = rng.choice([3, 6, 6, 10])
        vals = [rng.randint(1, hi) for _ in range(rng.randint(5, 9))]
        _gid[0] += 1
        grp = f"{_gid[0]}/agree"
        for a in ["cg", "ckk", "ckk-sums", "snp"]:
            kw = {"objective": [2, 0], "flags": [1, 1, 0, 1]} if a == "cg" else {}
            u = part_unit("ckk" if a.startswith("ckk") else a, k, vals, rng, fmt="list", out="pst" if a == "ckk" else "sums", cmp="value", family="agree-5bins-small-values", **kw)
            us.append(tag(u, grp, "agree", planted=False, label=a))
    for _ in range(120 if tier == "quick" else 1500):
        k = rng.choice([2, 2, 3, 3, 4])
        if rng.random() < 0.6:
            T = rng.randint(8, 40)
            vals = []
            for _b in range(k):
                rest = T
                for j in range(rng.randint(0, 2)):
                    if rest <= 1:
                        break
                    x = rng.randint(1, rest - 1)
                    vals.append(x)
                    rest -= x
                vals.append(rest)
            fam = "agree-small/planted-perfect"
        else:
            vals, fam = gen.values(rng, nmax=7, vmax=60)
            fam = "agree-small/" + fam
        vals = vals[:7]
        rng.shuffle(vals)
        o = rng.choice([[0, 0], [1, 0], [1, 0], [2, 0]])
        _gid[0] += 1
        grp = f"{_gid[0]}/agree"
        algos = ["dp", "cg", "cg2"] + (["ilp"] if rng.random() < (0.15 if tier == "quick" else 0.4) else [])
        if o == [2, 0]:
            algos += ["ckk", "ckk-sums", "snp"]
        for a in algos:
            kw = {"objective": o} if not (a.startswith("ckk") or a == "snp") else {}
            if a.startswith("cg"):
                kw["flags"] = [rng.randint(0, 1) for _ in range(4)]
            u = part_unit("cg" if a.startswith("cg") else ("ckk" if a.startswith("ckk") else a), k, vals, rng, fmt="list", out="pst" if a in ("dp", "ckk") else "sums",
                          cmp=None if a == "ilp" else "value", family=fam, **kw)
            us.append(tag(u, grp, "agree", planted=False, label=a))
    return us


def rsums(impl):
    if "bins" in impl:
        return [s for s, _ in impl["bins"]]
    if "sums" in impl:
        return impl["sums"]
    if "num" in impl:
        return None
    return None


def judge_requests(u, impl, model):
    if "exc" in impl:
        p = u["params"]
        return [("py", None, f"{p['algo']} did not complete: {impl['exc']} on {UN.short(p['vals'], 150)}")]
    return []


def known_finding(u, impl, model, mismatch, judged, known):
    return None


def value_of(u, impl):
    p = u["params"]
    a = p["algo"]
    if a == "bc":
        return len(impl["bins"]) if "bins" in impl else impl.get("num")
    s = rsums(impl)
    if s is None:
        return None
    if a == "cbldm":
        return abs(s[0] - s[1])
    o, ok = p.get("objective", [2, 0])
    return UN.obj_value(o, ok, s)


def extra_checks(rng, tier, us, oc):
    out, known = [], []
    groups = {}
    for i, u in enumerate(us):
        if "group" in u and "role" in u:
            groups.setdefault(u["group"], []).append(i)
    import json, os
    kf = json.load(open(os.path.join(os.path.dirname(os.path.dirname(os.path.dirname(os.path.abspath(__file__)))), "known_findings.json")))
    rnp_line = [f["line"] for f in kf["findings"] if f["id"] == "rnp-suboptimal"]

    def rnp_as_model(i):
        """attribution rule: the implementation's sums equal the faithful model's"""
        m = oc.model[i]
        r = oc.impl[i]
        return bool(rnp_line) and m is not None and isinstance(m.get("bins"), list) and rsums(r) is not None and sorted(rsums(r)) == sorted(s for s, _ in m["bins"]) \
            and us[i]["params"]["k"] >= 4

    for g, idx in groups.items():
        if any("exc" in oc.impl[i] for i in idx):
            continue
        role = {r: [i for i in idx if us[i]["role"] == r] for r in ("base", "perm", "scale", "zeros", "agree")}
        if role["agree"]:
            vals = {}
            heur = {}
            for i in role["agree"]:
                a = us[i]["params"]["algo"]
                d = value_of(us[i], oc.impl[i]) if a in EXACT_PART else UN.obj_value(*us[role["agree"][0]]["params"].get("objective", [2, 0]), rsums(oc.impl[i]))
                (vals if a in EXACT_PART else heur)[us[i].get("label", a)] = (d, i)
            trusted = {a: v for a, v in vals.items() if a != "rnp"}
            ds = set(d for d, _ in trusted.values())
            if len(ds) > 1:
                out.append({"text": f"exact algorithms disagree on the optimal value of objective {us[idx[0]]['params'].get('objective', [2, 0])}: { {a: d for a, (d, _) in vals.items()} } for items {us[idx[0]]['params']['vals']}, k={us[idx[0]]['params']['k']}",
                            "units": [us[i] for _, i in trusted.values()]})
                continue
            best = min(ds)
            if us[idx[0]].get("planted") and best != 0:
                out.append({"text": f"planted perfect partition but exact algorithms report difference {best}: items {us[idx[0]]['params']['vals']}, k={us[idx[0]]['params']['k']}",
                            "units": [us[i] for _, i in trusted.values()]})
            if "rnp" in vals and vals["rnp"][0] != best:
                if rnp_as_model(vals["rnp"][1]):
                    known.append(rnp_line[0])
                else:
                    out.append({"text": f"rnp reports difference {vals['rnp'][0]}, the other exact algorithms {best} (items {us[idx[0]]['params']['vals']}, k={us[idx[0]]['params']['k']})",
                                "units": [us[vals['rnp'][1]]]})
            for a, (d, i) in heur.items():
                if d < best:
                    out.append({"text": f"heuristic {a} (difference {d}) beats the 'optimal' difference {best} on items {us[i]['params']['vals']}", "units": [us[i]]})
            continue
        if not role["base"]:
            continue
        b = role["base"][0]
        ub, rb = us[b], oc.impl[b]
        a = ub["params"]["algo"]
        exact = a in EXACT_PART or a in ("cbldm", "bc")
        vb = value_of(ub, rb) if exact else sorted(rsums(rb))
        for i in role["perm"]:
            vi = value_of(us[i], oc.impl[i]) if exact else sorted(rsums(oc.impl[i]))
            if vi != vb:
                if a == "rnp" and (rnp_as_model(i) or rnp_as_model(b)):
                    known.append(rnp_line[0])
                    continue
                out.append({"text": f"{a}: reordering the input changed the {'optimal value' if exact else 'multiset of sums'}: {vb} for {ub['params']['vals']} but {vi} for {us[i]['params']['vals']}",
                            "units": [ub, us[i]]})
        for i in role["scale"]:
            c = us[i]["factor"]
            if a == "bc":
                want = vb
            elif exact:
                want = vb * c
            else:
                want = [x * c for x in vb]
            vi = value_of(us[i], oc.impl[i]) if exact else sorted(rsums(oc.impl[i]))
            if vi != want:
                if a == "rnp" and (rnp_as_model(i) or rnp_as_model(b)):
                    known.append(rnp_line[0])
                    continue
                out.append({"text": f"{a}: multiplying all values by {c} gives {vi}, expected {want} (base input {ub['params']['vals']}, C/k={ub['params'].get('C', ub['params'].get('k'))})",
                            "units": [ub, us[i]]})
        for i in role["zeros"]:
            vi = value_of(us[i], oc.impl[i])
            if vi != vb:
                if a == "rnp" and (rnp_as_model(i) or rnp_as_model(b)):
                    known.append(rnp_line[0])
                    continue
                out.append({"text": f"{a}: adding zero-valued items changed the optimal value from {vb} to {vi} ({ub['params']['vals']} -> {us[i]['params']['vals']})", "units": [ub, us[i]]})
    res = out[:3]
    for line in set(known):
        res.append({"text": line, "known": line})
    return res


def nontrivial(u, impl, model):
    p = u["params"]
    v = p["vals"]
    return len(v) >= 4 and len(set(v)) >= 2 and p.get("k", 2) >= 2


def shrinkable(u):
    return False


def demonstrate_known(known, evaluate):
    import sys
    from harness.pcommon import rnp_demo
    return rnp_demo(known, evaluate, sys.modules[__name__], ID)
