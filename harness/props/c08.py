"""C08 - partitioning heuristics meet their proven worst-case guarantees."""
from harness import units as UN, gen
from harness.pcommon import part_unit, malformed

ID = "C08"
ALGOS = ["greedy", "kk", "roundrobin", "multifit"]
RULE = ("prtpy.partition(greedy / kk / roundrobin / multifit, PartitionAndSumsTuple): bounded-exhaustive multisets of length 2..7 over {1,2,3,4,5,7} x k in 2..4 "
        "(rotating subset in the quick tier), structured random lists with n <= 10 (oracle size: OPT from the verified opt_value), Graham's and other "
        "published tight families for LPT (2k+1 items 2k-1,2k-1,...,k,k,k), and planted perfect partitions with up to 300 items (OPT = total/k by construction); "
        "multifit with iterations in {default, 3, 5, 17}. Non-trivial: >= 4 items, >= 2 bins, not all equal, heuristic value differs from OPT or n >= 8. "
        "Distinct by (port, params).")
EXPLANATION = ("sums compared with the Gallina model (multifit: float capacity search modelled bit-exactly) and every bound of the property judged on the implementation's output "
               "against OPT: greedy/kk largest <= (4/3 - 1/(3k)) OPT, greedy smallest >= (3k-1)/(4k-2) OPTmin, multifit largest <= (1.22 + 2^-it) OPT, gap <= largest item, "
               "round-robin sums non-increasing and cardinalities within one. Proved for all inputs: lpt_ratio_43, the gaps, the round-robin shape; the other constants are tested only.")
ASSUMPTIONS = ["non-negative integers, total below 2^53; k >= 2 for the ratio bounds"]
OPEN_STATEMENTS = ["multifit_ratio_122 : largest(multifit) <= (1.22 + 2^-iterations) * OPT -- tested; proved with the constant 11/9 = 1.2222 and an explicit rounding slack ((11/9 + 2^-it) OPT + 44/9, multifit_ratio_119), not with 1.22 (Coffman, Garey, Johnson 1978)"]
CASE_TIMEOUT = 60


def mk(rng, a, k, vals, fam, opt=None, **kw):
    if a == "multifit" and rng.random() < 0.3:
        kw["iterations"] = rng.choice([3, 5, 17])
    u = part_unit(a, k, vals, rng, fmt=rng.choice(["list", "list", "dict_str", "array", "dict_valueof"]), out="pst", cmp="sums", family=fam, **kw)
    if opt is not None:
        u["opt"] = opt
    return u


def units(rng, tier):
    us = []
    msets = list(gen.small_multisets([1, 2, 3, 4, 5, 7], 7, minlen=2))
    msets = rng.sample(msets, 150 if tier == "quick" else 1700)
    for vals in msets:
        rng.shuffle(vals)
        for k in (2, 3, 4):
            if tier == "quick" and rng.random() < 0.4:
                continue
            for a in ALGOS:
                us.append(mk(rng, a, k, vals, "exhaustive-multisets"))
    for _ in range(150 if tier == "quick" else 2000):
        vals, fam = gen.values(rng, nmax=10, vmax=2 ** 40)
        k = rng.choice([1, 2, 2, 3, 3, 4, 5, len(vals) + 1])
        if len(vals) >= 10 and k >= 5:
            k = 4
        for a in ALGOS:
            us.append(mk(rng, a, k, vals, fam))
    # LPT's tight family (Graham): 2k+1 jobs: two each of 2k-1 ... k+1 and three of k: LPT = 4k-1, OPT = 3k
    for k in range(2, 6 if tier == "quick" else 9):
        vals = [x for j in range(k + 1, 2 * k) for x in (j, j)] + [k, k, k]
        if len(vals) <= 11:
            for a in ALGOS:
                us.append(mk(rng, a, k, vals, "graham-tight"))
        else:
            for a in ALGOS:
                us.append(mk(rng, a, k, vals, "graham-tight", opt=[3 * k, None]))
    # planted perfect partitions: OPT largest = OPT smallest = T
    for _ in range(40 if tier == "quick" else 400):
        k = rng.randint(2, 8)
        T = rng.choice([60, 100, 1000, 10 ** 6])
        vals = []
        for _ in range(k):
            rest = T
            for j in range(rng.randint(0, 40)):
                if rest <= 1:
                    break
                x = rng.randint(1, max(1, min(rest - 1, rng.choice([rest - 1, T // 3, T // 8 + 1]))))
                vals.append(x)
                rest -= x
            vals.append(rest)
        rng.shuffle(vals)
        for a in ALGOS:
            us.append(mk(rng, a, k, vals, "planted-perfect", opt=[T, T]))
    return us


def bounds(a, p, bins, optmax, optmin):
    k = p["k"]
    sums = [s for s, _ in bins]
    mx, mn = max(sums), min(sums)
    out = []
    if k >= 2 and optmax is not None:
        if a in ("greedy", "kk") and 3 * k * mx > (4 * k - 1) * optmax:
            out.append(f"{a}: largest sum {mx} > (4/3 - 1/(3k)) * OPT with OPT={optmax}, k={k}")
        if a == "multifit":
            it = p.get("iterations", 10)
            if mx * 100 * 2 ** it > (122 * 2 ** it + 100) * optmax:
                out.append(f"multifit: largest sum {mx} > (1.22 + 2^-{it}) * OPT with OPT={optmax}, k={k}")
    if k >= 2 and optmin is not None and a == "greedy" and len(sums) == k:
        if (4 * k - 2) * mn < (3 * k - 1) * optmin:
            out.append(f"greedy: smallest sum {mn} < (3k-1)/(4k-2) * OPTmin with OPTmin={optmin}, k={k}")
    return out


def judge_requests(u, impl, model):
    p = u["params"]
    a = p["algo"]
    desc = f"{a}(numbins={p['k']}, items={UN.short(p['vals'], 200)})"
    if "exc" in impl:
        return [("py", None, f"{desc} did not complete: {impl['exc']}")]
    m = malformed(impl)
    if m:
        return [("py", None, f"{desc}: {m}")]
    bins = impl["bins"]
    sums = [s for s, _ in bins]
    k = p["k"]
    js = []
    if a in ("greedy", "kk", "roundrobin") and len(sums) == k and max(sums) - min(sums) > max(p["vals"]):
        js.append(("py", None, f"{desc}: gap {max(sums) - min(sums)} between largest and smallest sum exceeds the largest item {max(p['vals'])}: sums {sums}"))
    if a == "roundrobin":
        if any(sums[i] < sums[i + 1] for i in range(len(sums) - 1)):
            js.append(("py", None, f"{desc}: round-robin sums are not non-increasing in bin index: {sums}"))
        cs = [len(l) for _, l in bins]
        if max(cs) - min(cs) > 1:
            js.append(("py", None, f"{desc}: round-robin bin cardinalities differ by more than one: {cs}"))
    if "opt" in u:
        for t in bounds(a, p, bins, u["opt"][0], u["opt"][1]):
            js.append(("py", None, f"{t}; items {UN.short(p['vals'], 200)}"))
    elif len(p["vals"]) <= 10 and k >= 2:
        js.append(("opt_value", [1, 0, k, p["vals"]], lambda r: "; ".join(bounds(a, p, bins, r, None)) + f"; items {p['vals']}" if bounds(a, p, bins, r, None) else None))
        if a == "greedy":
            js.append(("opt_value", [0, 0, k, p["vals"]], lambda r: "; ".join(bounds(a, p, bins, None, -r)) + f"; items {p['vals']}" if bounds(a, p, bins, None, -r) else None))
    return js


def nontrivial(u, impl, model):
    v = u["params"]["vals"]
    return len(v) >= 4 and u["params"]["k"] >= 2 and len(set(v)) >= 2


def shrinkable(u):
    return "opt" not in u
