"""C03 - bin-packing results are feasible packings of exactly the input items."""
import itertools
from harness import units as UN, gen
from harness.pcommon import pack_unit, j_true, malformed

ID = "C03"
ALGOS = ["ff", "ffd", "bf", "bfd", "bc"]
RULE = ("bounded-exhaustive: every item list of length 1..4 over {0,1,2,3,5} with bin size in {5,6} (rotating subset in the quick tier) "
        "x 5 packers; structured random packing instances (thresholds C/2, C/3 +-1, exact fills, zeros, perfect packings) with n <= 9 "
        "(bin completion n <= 8), formats list/array/dict/names+valueof (all packers), "
        "a dense stream of repeated-value inputs for bin completion (12 000 quick / 120 000 thorough), dyadic fractions v/2^j for the fit heuristics, output types pst/sums/bincount/partition. Non-trivial: >= 3 items and the "
        "implementation returns >= 2 bins. Distinct by (port, params).")
EXPLANATION = ("prtpy.pack outputs compared with the Gallina model (canonical form: multiset of (sum, multiset of values)) and judged by the "
               "verified checkers is_packing_b / nonempty_b; theorems C03_* prove the predicate for the model for all inputs.")
ASSUMPTIONS = ["integers below 2^53; bin completion: bin size <= 2^30 (float expression numbins + sum/binsize modelled by cross-multiplication)"]
OPEN_STATEMENTS = []


def units(rng, tier):
    us = []
    lists = list(gen.small_lists([0, 1, 2, 3, 5], 4))
    if tier == "quick":
        lists = rng.sample(lists, 90)
    for vals in lists:
        for C in (5, 6):
            for a in ALGOS:
                us.append(pack_unit(a, C, vals, family="exhaustive"))
    n = 260 if tier == "quick" else 2600
    for _ in range(n):
        C, vals, fam = gen.packing_instance(rng, nmax=9)
        for a in ALGOS:
            v = vals[:8] if a == "bc" else vals
            fmt = rng.choice(gen.FORMATS)
            out = rng.choice(["pst", "pst", "pst", "sums", "bincount", "partition", "pas"])
            us.append(pack_unit(a, C, v, rng, fmt=fmt, out=out, family=fam))
            if out != "pst" and rng.random() < 0.5:
                us.append(pack_unit(a, C, v, rng, fmt=fmt if fmt in ("list", "array") else "list", out="pst", family=fam))
    # exactly representable fractions for the fit heuristics: values v/2^j, bin size C/2^j
    for _ in range(60 if tier == "quick" else 600):
        C, vals, fam = gen.packing_instance(rng, nmax=8)
        for a in ("ff", "ffd", "bf", "bfd"):
            us.append(pack_unit(a, C, vals, rng, fmt=rng.choice(["list", "dict_str"]), out="pst", family="dyadic/" + fam, scale=2 ** rng.randint(1, 6)))
    # bin completion's search only runs when best-fit-decreasing misses the volume bound, and its branch bookkeeping only matters
    # inputs on which bin completion's search runs and has several alternative completions per node (near-perfect packings of
    # mid-sized values, screened with the model): branches that share or lose items show here
    from harness.pcommon import hard_bc_instances
    for C, v in hard_bc_instances(rng, 8000 if tier == "quick" else 80000, 900 if tier == "quick" else 9000):
        us.append(pack_unit("bc", C, v, family="bc-search-runs(screened)", out=rng.choice(["pst", "pst", "sums"])))
    # with repeated values: a dense stream of exactly such inputs (few distinct values, 5..9 items)
    for _ in range(12000 if tier == "quick" else 120000):
        C = rng.choice([10, 12, 20, 30])
        pool = [rng.randint(1, C) for _ in range(rng.randint(2, 5))]
        vals = [rng.choice(pool) for _ in range(rng.randint(5, 9))]
        us.append(pack_unit("bc", C, vals, family="bc-repeated-values"))
    # larger inputs (model handles hundreds of items)
    for _ in range(12 if tier == "quick" else 120):
        C = rng.choice([100, 1000])
        vals = [rng.randint(1, C) for _ in range(rng.randint(40, 150))]
        for a in ("ff", "ffd", "bf", "bfd"):
            us.append(pack_unit(a, C, vals, rng, fmt=rng.choice(["list", "dict_int"]), family="large"))
    return us


def judge_requests(u, impl, model):
    p = u["params"]
    if "exc" in impl:
        return [("py", None, f"unexpected exception {impl['exc']} on a valid packing request")]
    if p["out"] == "sums" and isinstance(impl.get("sums"), list):
        # the sums-only manager follows the same search: its sums must be sums of a feasible packing of the same items
        sm = impl["sums"]
        if any((not isinstance(x, int)) or x > p["C"] for x in sm) or sum(sm) != sum(p["vals"]) or (any(p["vals"]) and any(x == 0 for x in sm) and p["algo"] != "bc"):
            return [("py", None, f"{p['algo']} (sums only, C={p['C']}, items {p['vals']}) reports sums {sm}: a sum above the bin size, or the sums do not total the items ({sum(p['vals'])})")]
        return []
    if p["out"] not in ("pst", "pas"):
        return []
    m = malformed(impl)
    if m:
        return [("py", None, m)]
    bins = impl["bins"]
    vm = UN.valmap(p)
    ids, vals = UN.ids_of(p), p["vals"]
    js = []
    if p["algo"] == "bc":
        # bin completion may omit only zero-valued items
        keep = [(i, v) for i, v in zip(ids, vals) if v != 0]
        ids2, vals2 = [i for i, _ in keep], [v for _, v in keep]
        bins2 = [[s, [x for x in l if vm.get(x) != 0]] for s, l in bins]
        q = dict(p)
        q["vals"], q["ids"] = vals2, ids2
        bi = UN.bins_in(q, bins2)
        js.append(("chk_packing", [p["C"], ids2, vals2, bi], j_true(f"not a feasible packing of the non-zero items {vals} (C={p['C']}): {bins}")))
        if vals2:
            js.append(("chk_nonempty", [bi], j_true(f"empty bin in {bins}")))
    else:
        bi = UN.bins_in(p, bins)
        js.append(("chk_packing", [p["C"], ids, vals, bi], j_true(f"not a feasible packing of {vals} (C={p['C']}): {bins}")))
        if vals:
            js.append(("chk_nonempty", [bi], j_true(f"empty bin in {bins}")))
    return js


def extra_checks(rng, tier, us, oc):
    """the reported number of bins equals the number of returned bins (same call, different output type)"""
    by = {}
    for i, u in enumerate(us):
        p = u["params"]
        key = (p["algo"], p["C"], tuple(p["vals"]), p.get("scale", 1))
        by.setdefault(key, {}).setdefault(p["out"], (i, oc.impl[i]))
    out = []
    for key, d in by.items():
        if "bincount" in d and ("pst" in d or "pas" in d):
            i1, r1 = d["bincount"]
            i2, r2 = d.get("pst", d.get("pas"))
            if "num" in r1 and "bins" in r2 and r1["num"] != len(r2["bins"]):
                out.append({"text": f"{key[0]}: BinCount reports {r1['num']} bins but the packing has {len(r2['bins'])} (items {list(key[2])}, C={key[1]})",
                            "units": [us[i1], us[i2]], "kind": "failing-input"})
                break
    return out


def nontrivial(u, impl, model):
    return len(u["params"]["vals"]) >= 3 and (len(impl.get("bins", [])) >= 2 or impl.get("num", 0) >= 2 or len(impl.get("sums", [])) >= 2 or len(impl.get("lists", [])) >= 2)


def shrinkable(u):
    return u["params"].get("scale", 1) == 1
