"""C19 - unsatisfiable or malformed requests are refused with an error, never answered."""
from harness import units as UN, gen
from harness.pcommon import pack_unit

ID = "C19"
RULE = ("packing requests with one or more oversize items at EVERY position of structured random item lists (n <= 8) x 5 packers x formats "
        "list/array/dict/names+valueof x every output type, including bin size 0 or negative with an item above it; CBLDM calls with exactly one invalid argument (numbins in {1,3,4}, a negative item at "
        "every position, time_limit in {0,-1}, partition_difference in {0,-3,1.5,2.0}) and otherwise valid inputs, plus valid control calls; "
        "numitems on the sums-only manager. Non-trivial: the list has >= 2 items. Distinct by (port, params).")
EXPLANATION = ("exceptions raised by prtpy.pack / prtpy.partition compared with the model's Err value (theorems C19_*: Err ValueError iff an oversize item exists, "
               "CBLDM validation iff one of the listed conditions) and judged directly: the refusal must be ValueError (NotImplementedError for numitems).")
ASSUMPTIONS = ["items are integers; CBLDM with a non-empty item list"]
OUTS = ["pst", "partition", "pas", "sums", "largest", "smallest", "extreme", "sorted", "difference", "bincount"]


def units(rng, tier):
    us = []
    for _ in range(70 if tier == "quick" else 700):
        C, vals, fam = gen.packing_instance(rng, nmax=7)
        for pos in range(len(vals) + 1):
            v = list(vals)
            big = C + rng.choice([1, 1, 2, C, 10 * C])
            v.insert(pos, big)
            if rng.random() < 0.3:
                v.insert(rng.randrange(len(v) + 1), big)        # multiplicity
            a = rng.choice(["ff", "ffd", "bf", "bfd", "bc"])
            u = pack_unit(a, C, v, rng, fmt=rng.choice(gen.FORMATS + ["list_np", "dict_np"]), out=rng.choice(OUTS), cmp="eq", family="oversize")
            us.append(u)
    # an oversize item next to NEGATIVE-valued items (nonsense for packing, but the refusal must not depend on the other items: the
    # total may well be below the bin size)
    for _ in range(40 if tier == "quick" else 400):
        C = rng.choice([5, 10, 12, 20])
        big = C + rng.choice([1, 2, C])
        v = [big] + [-rng.randint(1, big) for _ in range(rng.randint(1, 2))] + [rng.randint(0, C) for _ in range(rng.randint(0, 3))]
        rng.shuffle(v)
        a = rng.choice(["ff", "ffd", "bf", "bfd"])
        us.append(pack_unit(a, C, v, rng, fmt=rng.choice(["list", "dict_str", "names_valueof"]), out=rng.choice(OUTS), cmp="eq", family="oversize/with-negative-items"))
    # several oversize items whose NAMES are of different, mutually incomparable types (str, int, tuple, float keys in one dict)
    for _ in range(40 if tier == "quick" else 400):
        C, vals, fam = gen.packing_instance(rng, nmax=6)
        v = list(vals)
        for _j in range(rng.randint(2, 3)):
            v.insert(rng.randrange(len(v) + 1), C + rng.choice([1, 2, C]))
        a = rng.choice(["ff", "ffd", "bf", "bfd", "bc", "bc"])
        us.append(pack_unit(a, C, v, rng, fmt="dict_mixed", out=rng.choice(OUTS), cmp="eq", family="oversize/mixed-type-names"))
    # degenerate bin sizes: binsize 0 (only zero-valued items fit) or negative, with at least one item above it
    for _ in range(40 if tier == "quick" else 400):
        C = rng.choice([0, 0, 0, -1, -5])
        v = [0] * rng.randint(0, 3) + [rng.randint(1, 9) for _ in range(rng.randint(1, 3))]
        if C < 0 and rng.random() < 0.3:
            v = [0] * rng.randint(1, 3)          # a zero-valued item exceeds a negative bin size too
        rng.shuffle(v)
        a = rng.choice(["ff", "ffd", "bf", "bfd", "bc", "bc"])
        us.append(pack_unit(a, C, v, rng, fmt=rng.choice(gen.FORMATS), out=rng.choice(OUTS), cmp="eq", family="oversize/degenerate-binsize"))
    # integers beyond 2^53 that exceed the bin size by one unit: the refusal must rest on exact integer comparison
    for _ in range(40 if tier == "quick" else 400):
        C = rng.choice([2 ** 53, 10 ** 16, 2 ** 60, 10 ** 18 + 1, 2 ** 53 + 2])
        v = [rng.randint(1, 9) for _ in range(rng.randint(0, 4))]
        v.insert(rng.randrange(len(v) + 1), C + rng.choice([1, 1, 2, 3]))
        a = rng.choice(["ff", "ffd", "bf", "bfd", "bc"])
        us.append(pack_unit(a, C, v, rng, fmt=rng.choice(["list", "dict_str", "names_valueof"]), out=rng.choice(OUTS), cmp="eq", family="oversize-by-one-beyond-2^53"))
    # CBLDM argument validation
    for _ in range(90 if tier == "quick" else 900):
        vals, fam = gen.values(rng, nmax=6)
        base = {"k": 2, "vals": vals, "fmt": rng.choice(["list", "dict_str"])}
        if base["fmt"] != "list":
            base["ids"] = gen.ids_for(rng, len(vals))
        kind = rng.choice(["k", "neg", "tl", "d", "dfloat", "valid"])
        p = dict(base)
        if kind == "k":
            p["k"] = rng.choice([1, 3, 4, 0])
        elif kind == "neg":
            v = list(vals)
            v[rng.randrange(len(v))] = -rng.randint(1, 9)
            p["vals"] = v
        elif kind == "tl":
            p["time_limit"] = rng.choice([0, -1, -0.5])
        elif kind == "d":
            p["d"] = rng.choice([0, -3, -1])
        elif kind == "dfloat":
            p["d"] = rng.choice([1, 2, 3])
            p["d_float"] = True
            p["d_frac"] = rng.choice([0.0, 0.5])
        else:
            p["d"] = rng.choice([1, 2, 5])
        us.append({"kind": "cbldm_args", "params": p, "cmp": "excmatch", "family": "cbldm/" + kind, "invalid": kind != "valid"})
    # the same invalid arguments with an EMPTY item collection: validation comes first, so the refusal is still ValueError
    for fmt in ("list", "dict_str"):
        for kind, extra in (("k", {"k": 3}), ("k", {"k": 1}), ("k", {"k": 0}), ("tl", {"time_limit": 0}), ("tl", {"time_limit": -1}), ("d", {"d": 0}), ("d", {"d": -3}),
                            ("dfloat", {"d": 1, "d_float": True, "d_frac": 0.5})):
            p = {"k": 2, "vals": [], "fmt": fmt}
            if fmt != "list":
                p["ids"] = []
            p.update(extra)
            us.append({"kind": "cbldm_args", "params": p, "cmp": "excmatch", "family": "cbldm/empty+" + kind, "invalid": True})
    for keep in (0, 1):
        for i in range(3):
            us.append({"kind": "numitems", "params": {"keep": keep, "k": 3, "i": i}, "cmp": "eq", "family": "numitems"})
    return us


def judge_requests(u, impl, model):
    p = u["params"]
    if u["kind"] == "pack":
        if impl.get("exc") != "ValueError":
            return [("py", None, f"packing request with an oversize item (C={p['C']}, items {p['vals']}, format {p['fmt']}, output {p['out']}) was not refused with ValueError: {UN.short(impl)}")]
        return []
    if u["kind"] == "cbldm_args":
        if u["invalid"] and impl.get("exc") != "ValueError":
            return [("py", None, f"invalid CBLDM call ({u['family']}: {p}) was not refused with ValueError: {UN.short(impl)}")]
        if not u["invalid"] and "exc" in impl:
            return [("py", None, f"valid CBLDM call refused: {impl['exc']} {p}")]
        return []
    if u["kind"] == "numitems":
        if not p["keep"] and impl.get("exc") != "NotImplementedError":
            return [("py", None, f"sums-only manager answered numitems: {UN.short(impl)}")]
        if p["keep"] and "exc" in impl:
            return [("py", None, f"contents manager refused numitems: {impl['exc']}")]
    return []


def nontrivial(u, impl, model):
    return len(u["params"].get("vals", [1, 2])) >= 2


def shrinkable(u):
    return False
