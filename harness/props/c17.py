"""C17 - ILP options (copies, weights, constraints) are honoured; sums come out ascending."""
from fractions import Fraction
from harness import units as UN, gen, runner

ID = "C17"
RULE = ("integer_programming.optimal called with a bins-manager, mip.Model.optimize wrapped (no source change) to capture the formulation and the solver's answer: "
        "item lists of 1..5 items with values <= 200, 1..4 bins, copies as one number (1, 2) or per item (0/1/2; at most 7 placed copies), weights absent / equal / "
        "unequal positive, the five objectives, additional constraints smallest == c / largest <= c / smallest >= c around the attainable range and infeasible ones, "
        "both managers; a stream with the reported solver status replaced by a non-optimal one. Non-trivial: >= 3 placed copies, >= 2 bins, and at least one option "
        "(copies, weights or constraint) in use. Distinct by (port, params).")
EXPLANATION = ("the captured formulation (variables, objective, every constraint in order) compared with formulate of Model/ILP.v; the returned bins compared with decode of the "
               "solver's own answer; judged independently: each item placed exactly copies times, sums are totals, (weighted) sums non-decreasing in bin index, every additional "
               "constraint holds, the objective over the weighted sums equals the minimum over ALL arrangements that satisfy the constraints (enumerated from the verified "
               "reach_unsorted oracle), ValueError exactly when no arrangement exists or the status is not OPTIMAL; equal weights give the same objective value as no weights. "
               "Suspected optimality failures are re-solved with preprocessing off to tell solver faults from prtpy faults.")
ASSUMPTIONS = ["values <= 200, at most 7 placed copies, 1-4 bins; CBC is outside the model: Section hypothesis solver_spec in Proofs/ILPProofs.v"]
EXTRA_TRUSTED = ["python-mip/CBC: assumed to return a feasible point of minimum objective when it reports OPTIMAL (Section hypothesis solver_spec, not an axiom)",
                 "oracle glue: filtering reach_unsorted by the ascending/additional constraints and taking the minimum with exact Fractions (harness/props/c17.py)"]
CASE_TIMEOUT = 120
OBJS = [[0, 0], [1, 0], [2, 0], [3, 1], [3, 2], [4, 1], [4, 2], [4, 3]]
STATS = {"solver_faults": 0, "optimality_checked": 0, "infeasible_checked": 0}


def U(p, fam):
    return {"kind": "ilp_full", "params": p, "cmp": "form", "family": fam}


def expand(p):
    n = len(p["vals"])
    c = p.get("copies", 1)
    c = [c] * n if isinstance(c, int) else c
    return c


def units(rng, tier):
    us = []
    for _ in range(600 if tier == "quick" else 6000):
        n = rng.randint(1, 5)
        fam = rng.choice(["small", "medium", "big200", "zeros", "repeats"])
        if fam == "small":
            vals = [rng.randint(1, 9) for _ in range(n)]
        elif fam == "medium":
            vals = [rng.randint(1, 60) for _ in range(n)]
        elif fam == "big200":
            vals = [rng.randint(100, 200) for _ in range(n)]
        elif fam == "zeros":
            vals = [rng.choice([0, rng.randint(1, 20)]) for _ in range(n)]
        else:
            x = rng.randint(1, 30)
            vals = [rng.choice([x, x, rng.randint(1, 30)]) for _ in range(n)]
        k = rng.choice([1, 2, 2, 3, 3, 4])
        p = {"k": k, "objective": rng.choice(OBJS), "keep": rng.random() < 0.7}
        p.update(gen.with_format(rng, vals, rng.choice(["list", "dict_str", "dict_int"])))
        tags = []
        r = rng.random()
        if r < 0.25 and 2 * n <= 7:
            p["copies"] = 2
            tags.append("copies=2")
        elif r < 0.55:
            c = [rng.choice([0, 1, 1, 2]) for _ in range(n)]
            while sum(c) > 7:
                c[rng.randrange(n)] = 1
            p["copies"] = c
            tags.append("copies-list")
        r = rng.random()
        if r < 0.2:
            p["weights"] = [rng.choice([1, 2, 3, 5])] * k
            tags.append("weights-equal")
        elif r < 0.5 and k >= 2:
            p["weights"] = [rng.randint(1, 4) for _ in range(k)]
            tags.append("weights")
        if rng.random() < 0.4:
            tot = sum(v * c for v, c in zip(vals, expand(p)))
            t = rng.choice([0, 1, 2])
            c = rng.choice([0, tot // k, tot // k + 1, max(vals), tot, rng.randint(0, tot + 2), tot + 5])
            p["extras"] = [[t, c]]
            if rng.random() < 0.2:
                p["extras"].append([rng.choice([1, 2]), rng.randint(0, tot + 1)])
            tags.append("extras")
        us.append(U(p, "+".join(tags) or "plain"))
        if "weights" not in p and "extras" not in p and rng.random() < 0.35:
            q = dict(p)
            q["weights"] = [rng.choice([2, 3, 7])] * k
            u = U(q, "equal-weights-sibling")
            u["sibling_of"] = len(us) - 1
            us.append(u)
        if rng.random() < 0.12:
            q = dict(p)
            q["force_status"] = rng.choice(["FEASIBLE", "NO_SOLUTION_FOUND", "INFEASIBLE", "UNBOUNDED", "ERROR"])
            us.append(U(q, "status-not-optimal"))
    return us


def weighted(sums, ws):
    return [Fraction(s, w) for s, w in zip(sums, ws)]


def wobj(o, ok, wsums):
    s = sorted(wsums)
    if o == 0:
        return -s[0]
    if o == 1:
        return s[-1]
    if o == 2:
        return s[-1] - s[0]
    if o == 3:
        return -sum(s[:ok])
    return sum(s[-ok:]) if ok > 0 else sum(s)


def extras_ok(ex, wsums):
    for t, c in ex:
        if t == 0 and wsums[0] != c:
            return False
        if t == 1 and wsums[-1] > c:
            return False
        if t == 2 and wsums[0] < c:
            return False
    return True


def describe(p):
    return (f"ilp(items={p['vals']}, numbins={p['k']}, copies={p.get('copies', 1)}, weights={p.get('weights')}, objective={p['objective']}, "
            f"constraints={p.get('extras', [])}{', status forced to ' + p['force_status'] if p.get('force_status') else ''})")


def judge_requests(u, impl, model):
    """solver-independent judgements only; everything that presupposes a correct solver answer goes through extra_checks,
    where a suspect is re-solved with preprocessing off before it is blamed on prtpy"""
    p = u["params"]
    desc = describe(p)
    cap = impl.get("cap") or {}
    if p.get("force_status"):
        if impl.get("exc") != "ValueError":
            return [("py", None, f"{desc}: solver status was not OPTIMAL but the call {'returned ' + UN.short(impl.get('bins'), 150) if 'bins' in impl else 'raised ' + str(impl.get('exc'))} instead of raising ValueError")]
        return []
    if "exc" in impl:
        if impl["exc"] != "ValueError":
            return [("py", None, f"{desc} raised {impl['exc']}")]
        if cap.get("status") == "OPTIMAL":
            return [("py", None, f"{desc} raised ValueError although the solver reported OPTIMAL")]
        return []          # infeasibility is judged against the oracle in extra_checks
    bins = impl["bins"]
    k = p["k"]
    ws = p.get("weights") or [1] * k
    js = []
    # the returned bins are the decoding of the solver's own answer, whatever that answer is
    x = cap.get("x")
    if cap.get("status") != "OPTIMAL":
        js.append(("py", None, f"{desc}: returned bins although the solver status was {cap.get('status')}"))
    elif isinstance(x, list) and all(isinstance(v, int) for v in x):
        o, ok = p["objective"]
        js.append(("ilp_run", [1 if p["keep"] else 0, o, ok, k, UN.ids_of(p), p["vals"], expand(p), ws, [x]],
                   lambda r: None if isinstance(r, dict) and r.get("ok") == bins else f"{desc}: returned bins {UN.short(bins, 200)} are not the decoding of the solver's answer {x}: model decode gives {UN.short(r, 200)}"))
    return js


def defects(p, r):
    """requirements on a returned result that presuppose a correct solver answer"""
    desc = describe(p)
    bins = r["bins"]
    k = p["k"]
    ws = p.get("weights") or [1] * k
    copies = expand(p)
    ids = UN.ids_of(p)
    vm = UN.valmap(p)
    out = []
    if not isinstance(bins, list) or len(bins) != k:
        return [f"{desc} returned {UN.short(bins)}: not {k} bins"]
    sums = [s for s, _ in bins]
    if p["keep"]:
        cnt = {}
        for s, l in bins:
            for x in l:
                cnt[x] = cnt.get(x, 0) + 1
            if s != sum(vm.get(x, 0) for x in l):
                out.append(f"{desc}: bin sum {s} but items worth {sum(vm.get(x, 0) for x in l)}")
        if p["fmt"] in ("list", "array", "tuple"):      # name = value: count per value
            want = {}
            for v, c in zip(p["vals"], copies):
                want[v] = want.get(v, 0) + c
            want = {v: c for v, c in want.items() if c}
        else:
            want = {i: c for i, c in zip(ids, copies) if c}
        if cnt != want:
            out.append(f"{desc}: each item must be placed exactly `copies` times; placed {cnt}, requested {want}; bins {UN.short(bins, 200)}")
    elif sum(sums) != sum(v * c for v, c in zip(p["vals"], copies)):
        out.append(f"{desc}: sums {sums} do not add up to the total of the requested copies")
    wsums = weighted(sums, ws)
    if any(wsums[i] > wsums[i + 1] for i in range(k - 1)):
        out.append(f"{desc}: (weighted) sums are not in non-decreasing order: sums {sums}, weights {ws}")
    if not extras_ok(p.get("extras", []), wsums):
        out.append(f"{desc}: additional constraint violated by the returned sums {sums} (weighted {[str(x) for x in wsums]})")
    return out


def oracle_best(p, vectors):
    k = p["k"]
    ws = p.get("weights") or [1] * k
    o, ok = p["objective"]
    best = None
    for s in vectors:
        w = weighted(s, ws)
        if any(w[i] > w[i + 1] for i in range(k - 1)):
            continue
        if not extras_ok(p.get("extras", []), w):
            continue
        v = wobj(o, ok, w)
        if best is None or v < best:
            best = v
    return best


def impl_value(p, r):
    k = p["k"]
    ws = p.get("weights") or [1] * k
    o, ok = p["objective"]
    return wobj(o, ok, weighted([s for s, _ in r["bins"]], ws))


def extra_checks(rng, tier, us, oc):
    out = []
    idx = [i for i, u in enumerate(us) if not u["params"].get("force_status")]
    reqs = []
    for i in idx:
        p = us[i]["params"]
        ev = []
        for v, c in zip(p["vals"], expand(p)):
            ev += [v] * c
        reqs.append(runner.model_line("reach_unsorted", [p["k"], ev]))
    reps = runner.run_model(reqs)
    best = {}
    suspects = []
    for i, vectors in zip(idx, reps):
        p = us[i]["params"]
        r = oc.impl[i]
        b = oracle_best(p, vectors)
        best[i] = b
        if b is None:
            STATS["infeasible_checked"] += 1
            if r.get("exc") != "ValueError":
                suspects.append((i, b))
        else:
            STATS["optimality_checked"] += 1
            if "bins" not in r or defects(p, r) or impl_value(p, r) != b:
                suspects.append((i, b))
    faulty = set()       # answers the solver got wrong (right with preprocessing off): not prtpy's fault, excluded below
    if suspects:
        cases = []
        for i, b in suspects:
            q = dict(us[i]["params"])
            q["preprocess_off"] = True
            cases.append({"port": "ilp_full", "args": q})
        again = runner.run_impl(cases, timeout=CASE_TIMEOUT)
        for (i, b), r2 in zip(suspects, again):
            p = us[i]["params"]
            r = oc.impl[i]
            good2 = (r2.get("exc") == "ValueError") if b is None else ("bins" in r2 and not defects(p, r2) and impl_value(p, r2) == b)
            if good2:
                STATS["solver_faults"] += 1
                faulty.add(i)
                continue
            if b is None:
                t = f"{describe(p)}: no arrangement satisfies the constraints, a ValueError is required, but the call {'returned ' + UN.short(r.get('bins'), 160) if 'bins' in r else 'raised ' + str(r.get('exc'))}"
            else:
                if "bins" in r and defects(p, r):
                    t = defects(p, r)[0]
                else:
                    got = ("objective " + str(impl_value(p, r)) + " with bins " + UN.short(r["bins"], 160)) if "bins" in r else ("raised " + str(r.get("exc")))
                    t = f"{describe(p)}: optimum over the arrangements satisfying the constraints is {b}, the call gave {got}"
            out.append({"text": t, "units": [us[i]], "kind": "failing-input"})
    # equal weights never change the result
    for j, u in enumerate(us):
        if "sibling_of" in u and j not in faulty and u["sibling_of"] not in faulty:
            i = u["sibling_of"]
            ri, rj = oc.impl[i], oc.impl[j]
            if ("bins" in ri) != ("bins" in rj):
                out.append({"text": f"equal weights changed the outcome: {describe(us[i]['params'])} -> {UN.short(ri, 120)}; with weights {u['params']['weights']} -> {UN.short(rj, 120)}",
                            "units": [us[i], u], "kind": "failing-input"})
            elif "bins" in ri:
                o, ok = u["params"]["objective"]
                vi = UN.obj_value(o, ok, [s for s, _ in ri["bins"]])
                vj = UN.obj_value(o, ok, [s for s, _ in rj["bins"]])
                if vi != vj:
                    out.append({"text": f"equal weights {u['params']['weights']} changed the objective value from {vi} to {vj}: {describe(us[i]['params'])}",
                                "units": [us[i], u], "kind": "failing-input"})
    return out[:3]


def extra_evidence():
    return {"ilp": dict(STATS)}


def nontrivial(u, impl, model):
    p = u["params"]
    return sum(expand(p)) >= 3 and p["k"] >= 2 and any(key in p for key in ("copies", "weights", "extras", "force_status"))


def shrinkable(u):
    return False
