"""C20 - built-in objectives compute their documented quantity on every sum vector."""
import itertools
from fractions import Fraction
from harness import units as UN

ID = "C20"
RULE = ("bounded-exhaustive: every vector of length 1..4 over {0..4} (and a rotating part of length 5), objectives "
        "x k in 1..6 x {list,tuple,array}, sorted fast path on every ascending vector; random vectors up to 2^50; "
        "weighted objective with positive integer weights. Non-trivial: >= 2 sums, not all equal. Distinct by (port, params).")
EXPLANATION = "value_to_minimize compared with the Gallina model `value` (theorems C20_*) and judged against an independent re-implementation of the documented definitions."
ASSUMPTIONS = ["sums are integers below 2^53 (exact in float64)"]


def U(kind, params, family, cmp="eq"):
    return {"kind": kind, "params": params, "cmp": cmp, "family": family}


def units_for_vector(s, rng, kinds, family):
    out = []
    srt = list(s) == sorted(s)
    for o in (0, 1, 2):
        for kind in kinds:
            out.append(U("objective_value", {"o": o, "ok": 0, "sums": list(s), "sorted": 0, "kind": kind}, family))
            if srt:
                out.append(U("objective_value", {"o": o, "ok": 0, "sums": list(s), "sorted": 1, "kind": kind}, family + "/sorted"))
    for o in (3, 4):
        for k in rng.sample(range(1, 7), 2):
            kind = rng.choice(kinds)
            out.append(U("objective_value", {"o": o, "ok": k, "sums": list(s), "sorted": 0, "kind": kind}, family))
            if srt:
                out.append(U("objective_value", {"o": o, "ok": k, "sums": list(s), "sorted": 1, "kind": kind}, family + "/sorted"))
    return out


def units(rng, tier):
    us = []
    maxlen = 4 if tier == "quick" else 5
    for n in range(1, maxlen + 1):
        vecs = list(itertools.product(range(0, 5 if n < 4 else 4), repeat=n))
        if tier == "quick" and n == 4:
            vecs = rng.sample(vecs, 120)
        for s in vecs:
            us.extend(units_for_vector(s, rng, [rng.choice(["list", "tuple", "array"])], f"exhaustive-n{n}"))
    nr = 150 if tier == "quick" else 1500
    for _ in range(nr):
        n = rng.randint(1, 9)
        hi = rng.choice([3, 10, 1000, 2 ** 30, 2 ** 50])
        s = [rng.randint(0, hi) for _ in range(n)]
        if rng.random() < 0.4:
            s.sort()
        us.extend(units_for_vector(s, rng, ["list", "tuple", "array"], "random"))
    # long sum vectors (10..120 entries; the sizes at which an implementation might switch strategy), every objective, k from 1 to beyond the length
    for _ in range(60 if tier == "quick" else 600):
        n = rng.choice([10, 16, 17, 31, 32, 33, 34, 40, 63, 64, 65, 100, 120])
        hi = rng.choice([10, 1000, 2 ** 40])
        s = [rng.randint(0, hi) for _ in range(n)]
        if rng.random() < 0.3:
            s.sort()
        srt = s == sorted(s)
        kind = rng.choice(["list", "tuple", "array"])
        for o in (0, 1, 2):
            us.append(U("objective_value", {"o": o, "ok": 0, "sums": list(s), "sorted": 0, "kind": kind}, "long-vectors"))
        for o in (3, 4):
            for k in {1, 2, rng.randint(1, max(1, n // 4)), rng.randint(1, n), n, n + 3}:
                us.append(U("objective_value", {"o": o, "ok": k, "sums": list(s), "sorted": 0, "kind": kind}, "long-vectors"))
                if srt:
                    us.append(U("objective_value", {"o": o, "ok": k, "sums": list(s), "sorted": 1, "kind": kind}, "long-vectors/sorted"))
    # huge integers (around 2^62, 2^63, 2^64, 10^30): the documented quantity is an exact integer; fixed-width arithmetic wraps around or rounds here
    for _ in range(60 if tier == "quick" else 600):
        n = rng.randint(2, 6)
        base = rng.choice([2 ** 62, 2 ** 62, 2 ** 63, 2 ** 63 - 1, 2 ** 64, 10 ** 30, 2 ** 61])
        s = [base + rng.randint(-5, 5) if rng.random() < 0.7 else rng.randint(0, 9) for _ in range(n)]
        if rng.random() < 0.3:
            s.sort()
        us.extend(units_for_vector(s, rng, [rng.choice(["list", "tuple"])], "huge-integers"))
    # weighted objective
    nw = 200 if tier == "quick" else 2000
    for _ in range(nw):
        n = rng.randint(1, 6)
        hi = rng.choice([5, 50, 10 ** 6])
        s = [rng.randint(0, hi) for _ in range(n)]
        w = [rng.randint(1, rng.choice([3, 9, 1000])) for _ in range(n)]
        us.append(U("weighted_value", {"weights": w, "sums": s, "sorted": 0, "kind": rng.choice(["list", "tuple", "array"])}, "weighted"))
        if rng.random() < 0.15:
            us.append(U("weighted_value", {"weights": w, "sums": sorted(s), "sorted": 1}, "weighted/sorted-refused"))
        # fractional positive weights (exactly representable: multiples of 1/2, 1/4, 1/8), often normalised so that the largest is 1
        sc = rng.choice([2, 4, 8])
        wf = [rng.randint(1, 3 * sc) for _ in range(n)]
        if rng.random() < 0.5:
            wf[rng.randrange(n)] = sc
            wf = [min(x, sc) for x in wf]
        us.append(U("weighted_value", {"weights": wf, "wscale": sc, "sums": s, "sorted": 0, "kind": rng.choice(["list", "tuple", "array"])}, "weighted/fractional"))
    # one objective OBJECT evaluated on a sequence of vectors of different lengths (k larger and smaller than the number of sums,
    # sorted and unsorted): the value must be the documented function of the vector alone, whatever was evaluated before
    for _ in range(300 if tier == "quick" else 3000):
        o = rng.choice([0, 1, 2, 3, 3, 4, 4, 4])
        ok = rng.randint(1, 6)
        seq = []
        for _j in range(rng.randint(2, 6)):
            n = rng.randint(1, 6)
            sv = [rng.randint(0, 30) for _ in range(n)]
            srt = rng.random() < 0.4
            seq.append([sorted(sv) if srt else sv, 1 if srt else 0, rng.choice(["list", "tuple", "array"])])
        hp = {"o": o, "ok": ok, "seq": seq, "sums": seq[0][0]}
        if rng.random() < 0.5:
            hp["decoy_k"] = rng.choice([k for k in range(1, 7) if k != ok])     # a second object of the same class, another k, built afterwards
        us.append(U("objective_history", hp, "one-object-many-vectors", cmp=None))
    # ... and ONE weighted-objective object, its weights handed over as a list, a tuple or a numpy array, evaluated several times
    # (a weight vector that is consumed, converted lazily or normalised in place by the first evaluation shows at the second)
    for _ in range(150 if tier == "quick" else 1500):
        n = rng.randint(1, 5)
        sc = rng.choice([1, 1, 2, 4])
        w = [rng.randint(1, 9) for _ in range(n)]
        seq = [[[rng.randint(0, 40) for _ in range(n)], 0, rng.choice(["list", "tuple", "array"])] for _j in range(rng.randint(2, 5))]
        us.append(U("objective_history", {"weights": w, "wscale": sc, "wkind": rng.choice(["list", "tuple", "array", "array"]), "seq": seq, "sums": seq[0][0]},
                    "one-weighted-object-many-vectors", cmp=None))
    # the same, with ONE mutable vector (list or numpy array) updated in place between the evaluations, as a search that keeps running sums does
    for _ in range(300 if tier == "quick" else 3000):
        o = rng.choice([0, 1, 2, 3, 3, 4, 4, 4])
        ok = rng.randint(1, 6)
        n = rng.randint(2, 6)
        kind = rng.choice(["list", "array"])
        cur = [rng.randint(0, 30) for _ in range(n)]
        seq = []
        for _j in range(rng.randint(2, 6)):
            seq.append([list(cur), 0, kind])
            cur[rng.randrange(n)] += rng.randint(1, 12)
        us.append(U("objective_history", {"o": o, "ok": ok, "seq": seq, "sums": seq[0][0], "inplace": True}, "one-object-one-vector-updated-in-place", cmp=None))
    return us


def judge_requests(u, impl, model):
    p = u["params"]
    if u["kind"] == "objective_history":
        if "exc" in impl:
            return [("py", None, f"objective history raised {impl['exc']}")]
        js = []
        if "weights" in p:
            for j, ((sums, srt, kind), got) in enumerate(zip(p["seq"], impl["values"])):
                m = min(Fraction(sv * p.get("wscale", 1), w) for sv, w in zip(sums, p["weights"]))
                exp = -(m.numerator / m.denominator)
                if not (isinstance(got, str) and not got.startswith("exc:") and float.fromhex(got) == exp):
                    js.append(("py", None, f"weighted objective (weights {p['weights']}/{p.get('wscale', 1)} given as {p.get('wkind')}): evaluation #{j} of ONE objective object, on sums {sums}, "
                                           f"returned {got if isinstance(got, str) and got.startswith('exc:') else float.fromhex(got)}; the documented value is {exp}"))
                    break
            return js
        for j, ((sums, srt, kind), got) in enumerate(zip(p["seq"], impl["values"])):
            js.append(("value", [p["o"], p["ok"], sums, srt],
                       lambda r, j=j, sums=sums, got=got: None if r == got else f"objective {UN.OBJ_NAMES[p['o']]}(k={p['ok']}): evaluation #{j} of ONE objective object, on sums {sums}, returned {got}; the documented value is {r} (vectors evaluated before it: {[q[0] for q in p['seq'][:j]]})"))
        return js
    if "exc" in impl:
        if u["kind"] == "weighted_value" and p["sorted"] and impl["exc"] == "ValueError":
            return []
        return [("py", None, f"unexpected exception {impl['exc']}")]
    if u["kind"] == "objective_value":
        if p["sorted"] and list(p["sums"]) != sorted(p["sums"]):
            return []
        exp = UN.obj_value(p["o"], p.get("ok", 0), p["sums"])
        if impl.get("num") != exp:
            return [("py", None, f"objective {UN.OBJ_NAMES[p['o']]}(k={p.get('ok')}) on {p['sums']} (sorted={p['sorted']}): got {impl.get('num')}, documented value {exp}")]
        return []
    if u["kind"] == "weighted_value":
        if p["sorted"]:
            return [("py", None, "weighted objective accepted the sorted fast path")]
        m = min(Fraction(s * p.get("wscale", 1), w) for s, w in zip(p["sums"], p["weights"]))
        exp = -(m.numerator / m.denominator)
        got = float.fromhex(impl["float"])
        if got != exp:
            return [("py", None, f"weighted objective on {p['sums']}/{p['weights']}: got {got!r}, documented value {exp!r}")]
    return []


def nontrivial(u, impl, model):
    s = u["params"]["sums"]
    return len(s) >= 2 and len(set(s)) >= 2


def shrinkable(u):
    return False
