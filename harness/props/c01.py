"""C01 - every partitioner returns a true partition into the requested number of bins."""
from harness import units as UN, gen
from harness.pcommon import part_unit, j_true, malformed

ID = "C01"
ALGOS = ["greedy", "roundrobin", "bidir", "multifit", "kk", "cg", "ckk", "snp", "rnp", "dp", "ilp", "cbldm"]
RULE = ("11 partitioners x formats list/array/dict(str,int)/names+valueof: bounded-exhaustive item lists of length <= 3 over {0,1,2,3,5} x k in 1..5 "
        "(rotating subset in the quick tier; complete greedy with every one of its 16 switch vectors x 5 objectives on a rotating subset), structured random "
        "lists (zeros, all-equal, k > n, values up to 2^48) with n <= 9 (exact searches n <= 8, dp/ilp n <= 7). Non-trivial: >= 3 items, >= 2 bins, not all "
        "values equal. Distinct by (port, params).")
EXPLANATION = ("prtpy.partition(..., PartitionAndSumsTuple) compared with the model (multiset of (sum, multiset of values); dp: objective value; ilp: judged only) "
               "and judged by the verified checker is_partition_b (multifit: at most k bins). Theorems C01_*: the model returns a partition for ALL inputs.")
ASSUMPTIONS = ["non-negative integer values, total below 2^53; ILP: values <= 200"]
CASE_TIMEOUT = 120


def cg_kwargs(rng):
    o = rng.choice([[0, 0], [1, 0], [2, 0], [3, rng.randint(1, 3)], [4, rng.randint(1, 3)]])
    flags = [rng.randint(0, 1) for _ in range(4)]
    return {"objective": o, "flags": flags}


def mk(rng, a, k, vals, fam, fmt=None):
    fmt = fmt or rng.choice(gen.FORMATS)
    kw = {}
    cmp = "bins"
    if a == "cg":
        kw = cg_kwargs(rng)
    elif a == "dp":
        kw = {"objective": rng.choice([[0, 0], [1, 0], [2, 0], [3, 2], [4, 2]])}
        cmp = "value"
    elif a == "ilp":
        kw = {"objective": rng.choice([[0, 0], [1, 0], [2, 0]])}
        cmp = None
    elif a == "multifit":
        if rng.random() < 0.3:
            kw = {"iterations": rng.choice([0, 1, 2, 3, 5, 17])}
    elif a == "cbldm":
        k = 2
        if rng.random() < 0.5:
            kw = {"partition_difference": rng.choice([1, 2, 3])}
    return part_unit(a, k, vals, rng, fmt=fmt, cmp=cmp, family=fam, **kw)


def units(rng, tier):
    us = []
    lists = list(gen.small_lists([0, 1, 2, 3, 5], 3))
    if tier == "quick":
        lists = rng.sample(lists, 40)
    for vals in lists:
        for k in range(1, 6):
            for a in ALGOS:
                if a == "ilp" and (tier == "quick" and rng.random() < 0.9):
                    continue
                if a == "rnp" and k >= 6:
                    continue
                us.append(mk(rng, a, k, vals, "exhaustive", fmt="list" if rng.random() < 0.6 else None))
    # all 16 switch vectors x 5 objectives of complete greedy on a rotating subset
    for f in range(16):
        for o in ([0, 0], [1, 0], [2, 0], [3, 2], [4, 2]):
            vals, fam = gen.values(rng, nmax=6)
            k = rng.randint(1, 4)
            us.append(part_unit("cg", k, vals, rng, fmt=rng.choice(gen.FORMATS), cmp="bins", family="cg-switches",
                                objective=o, flags=[(f >> i) & 1 for i in range(4)]))
    n = 110 if tier == "quick" else 1500
    for _ in range(n):
        vals, fam = gen.values(rng, nmax=9)
        k = rng.choice([1, 2, 2, 3, 3, 4, 5, len(vals) + 1, 7])
        for a in ALGOS:
            v = vals
            kk = k
            if a in ("cg", "ckk", "snp", "rnp"):
                v = vals[:8]
                if max(v) > 2 ** 30:
                    v = v[:6]
            if a in ("dp", "ilp"):
                v = vals[:6]
                kk = min(k, 4)
                if a == "dp" and max(v) > 2 ** 30:
                    v = v[:5]
            if a == "ilp":
                if tier == "quick" and rng.random() < 0.8:
                    continue
                v = [min(x, 200) for x in v]
            if a == "rnp" and kk > 5:
                kk = rng.choice([3, 4, 5])
            if a in ("ckk", "snp", "rnp") and kk > 5:
                v = v[:6]
                kk = min(kk, 7)      # all_combinations enumerates k! permutations
            us.append(mk(rng, a, kk, v, fam))
    # multifit, dense: its capacity search accepts a capacity by COUNTING the bins of a first-fit-decreasing probe and then packs with
    # first-fit at the final capacity - any mismatch between the probe and the final packing shows as one bin too many on a few inputs
    for _ in range(2500 if tier == "quick" else 30000):
        vals = [rng.randint(0 if rng.random() < 0.1 else 1, rng.choice([20, 30, 30, 100])) for _ in range(rng.randint(3, 12))]
        kw = {"iterations": rng.choice([1, 2, 3, 5])} if rng.random() < 0.25 else {}
        us.append(part_unit("multifit", rng.choice([2, 2, 3, 3, 4, 5]), vals, rng, fmt="list", cmp="sums", family="multifit-dense", **kw))
    # the recursive searches with many bins: rnp with 5 bins (its odd branch recurses into the 4-way search) and snp with 4-5 bins
    # on 8-9 small values with repeats - the bookkeeping of prior bins / best-so-far across recursion levels only shows here
    for _ in range(500 if tier == "quick" else 6000):
        a, k = rng.choice([("rnp", 5), ("rnp", 5), ("rnp", 3), ("snp", 4), ("snp", 5)])
        vals = [rng.randint(0 if rng.random() < 0.15 else 1, rng.choice([7, 7, 10, 12])) for _ in range(rng.randint(8, 9))]
        us.append(part_unit(a, k, vals, rng, fmt=rng.choice(["list", "list", "dict_str"]), cmp="sums", family="recursive-many-bins"))
    # positive items that cancel EXACTLY in the differencing methods (k copies of each value: the merged tuple reaches difference 0 early)
    # next to two or more zero-valued items, whose own tuples have all sums 0 without being empty - "a bin with sum 0 is empty" is false here
    for _ in range(150 if tier == "quick" else 2000):
        k = rng.choice([2, 2, 3, 3, 4])
        base = [rng.randint(1, 15) for _ in range(rng.randint(1, 3))]
        vals = [x for x in base for _c in range(k)] + [0] * rng.randint(2, 4)
        if rng.random() < 0.3:
            vals += [rng.randint(1, 15)]
        rng.shuffle(vals)
        a = rng.choice(["kk", "kk", "snp", "rnp", "ckk", "greedy", "cg"])
        us.append(part_unit(a, k, vals[:9] if a in ("snp", "rnp", "ckk", "cg") else vals, rng, fmt=rng.choice(["list", "dict_str", "names_valueof"]),
                            cmp="sums" if a in ("kk", "snp", "rnp", "ckk") else "bins", family="cancelling-positives+zeros"))
    # large instances for the polynomial heuristics: many items, many bins (around 16 / 32 / 64, where an implementation might switch strategy)
    for _ in range(8 if tier == "quick" else 80):
        nn = rng.choice([40, 64, 65, 100, 129, 200])
        hi = rng.choice([20, 1000, 2 ** 30])
        vals = [rng.randint(0 if rng.random() < 0.1 else 1, hi) for _ in range(nn)]
        for a in ("greedy", "roundrobin", "bidir", "kk", "multifit"):
            us.append(part_unit(a, rng.choice([2, 5, 16, 31, 32, 33, 40, 64, 65]), vals, rng, fmt=rng.choice(["list", "dict_str", "array"]), cmp="sums" if a in ("kk", "multifit") else "bins", family="large"))
    # inputs longer than the interpreter's recursion limit for the recursive searches: the call may fail (RecursionError: it does not run
    # to completion, so nothing is claimed), but if it returns, what it returns must be a partition - never an internal placeholder
    for nitems in ([1100] if tier == "quick" else [1100, 1500, 2500]):
        vals = [rng.randint(1, 9) for _ in range(nitems)]
        us.append(part_unit("cbldm", 2, vals, rng, fmt="list", cmp=None, family="deep-recursion"))
    return us


def judge_requests(u, impl, model):
    p = u["params"]
    a = p["algo"]
    if impl.get("exc") == "RecursionError" and len(p["vals"]) >= 900:      # the deep-recursion family (also when replayed from the corpus)
        return []
    if "exc" in impl:
        return [("py", None, f"{a}(numbins={p['k']}, items={UN.short(p['vals'],150)}, format {p['fmt']}, {p.get('objective','')}{p.get('flags','')}) did not complete: {impl['exc']}")]
    m = malformed(impl)
    if m:
        return [("py", None, f"{a}: {m}")]
    bins = impl["bins"]
    k = p["k"]
    if a == "multifit":
        if len(bins) > k:
            return [("py", None, f"multifit returned {len(bins)} bins > requested {k} for {p['vals']}")]
        k = len(bins)
    return [("chk_partition", [k, UN.ids_of(p), p["vals"], UN.bins_in(p, bins)],
             j_true(f"{a}(numbins={p['k']}, items={UN.short(p['vals'],150)}, format {p['fmt']}) is not a partition into {k} bins: {UN.short(bins,250)}"))]


def known_finding(u, impl, model, mismatch, judged, known):
    p = u["params"]
    if p["algo"] == "rnp" and impl.get("exc") == "IndexError" and model is not None and model.get("exc") == "IndexError":
        for f in known["findings"]:
            if f["id"] == "rnp-float-index":
                return f["line"]
    return None


def nontrivial(u, impl, model):
    v = u["params"]["vals"]
    return len(v) >= 3 and u["params"]["k"] >= 2 and len(set(v)) >= 2


def shrinkable(u):
    return True


def demonstrate_known(known, evaluate):
    import sys
    from harness.pcommon import rnp_demo
    return rnp_demo(known, evaluate, sys.modules[__name__], ID)
