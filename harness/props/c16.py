"""C16 - bins-manager operations keep sums and contents consistent, copies independent."""
import itertools
from harness import units as UN, gen, runner

ID = "C16"
RULE = ("sequences of the eight documented operations (new, add item, copy, sort, add empty bins, remove bins, concatenate, combine) on the real "
        "BinnerKeepingSums / BinnerKeepingContents over a pool of live arrays, respecting the hand-over discipline (an array given to add_empty/remove/"
        "concatenate is never used again): bounded-exhaustive sequences of length <= 3 after a fixed prologue (rotating subset in the quick tier) and random "
        "sequences of length 4..40 with arbitrary items, indices and sizes (zero-valued items, repeated names excluded); after EVERY operation every live "
        "array is observed. A second, undisciplined stream (stale arrays reused) only validates the aliasing model and never raises an alarm. "
        "Non-trivial: >= 4 operations of >= 3 different kinds, >= 2 live arrays at the end. Distinct by (port, params).")
EXPLANATION = ("observations of all live arrays after every operation compared exactly with the object-heap model (Model/BinnerHeap.v) and judged against the documented "
               "effects (Spec/AbsBins.v pure_step, evaluated by the extracted model): each operation has exactly its documented effect, nothing else changes, "
               "sums equal the totals of the recorded items (checked directly on the implementation's arrays), sorting yields non-decreasing sums. "
               "Theorem C16_heap_refines_pure: the heap model shows exactly the documented effects for ALL disciplined sequences.")
ASSUMPTIONS = ["integer item values below 2^53", "hand-over discipline as stated in the property"]
ALIAS = {"agree": 0, "disagree": 0, "examples": []}


_n = [0]


def U(ops, family, cmp="live", disciplined=True):
    # the items handed to the managers are integers, equal-length tuples, strings or identity-equality objects, in rotation (the model only sees their ids)
    _n[0] += 1
    p = {"ops": ops}
    if _n[0] % 4:
        p["names"] = ["tuple", "str", "obj"][_n[0] % 4 - 1]       # obj: instances of a user class, equal only to themselves
    return {"kind": "binner_ops", "params": p, "cmp": cmp, "family": family, "disciplined": disciplined}


class Sim:
    """python-side bookkeeping of which arrays are live, their manager and number of bins (to generate valid indices)"""
    def __init__(self, rng):
        self.rng = rng
        self.h = []          # (keep, nbins, live)
        self.names = iter(rng.sample(range(1, 10 ** 6), 400))
        self.ops = []

    def live(self, keep=None, minbins=0):
        return [i for i, (k, n, l) in enumerate(self.h) if l and (keep is None or k == keep) and n >= minbins]

    def new(self, keep, n):
        self.ops.append([0, 1 if keep else 0, n]); self.h.append((keep, n, True))

    def step(self, kinds=None, stale=False):
        rng = self.rng
        kind = rng.choice(kinds or [0, 1, 1, 1, 1, 2, 3, 3, 4, 5, 6, 7, 7])
        pool = (lambda **kw: [i for i in range(len(self.h)) if self.h[i][1] >= kw.get("minbins", 0) and (kw.get("keep") is None or self.h[i][0] == kw.get("keep"))]) if stale else self.live
        if kind == 0 or not pool():
            self.new(rng.random() < 0.6, rng.randint(0, 4)); return
        if kind == 1:
            c = pool(minbins=1)
            if not c:
                return
            h = rng.choice(c)
            self.ops.append([1, h, next(self.names), rng.choice([0, 1, 2, 3, 5, 7, 11, 2 ** 40]), rng.randrange(self.h[h][1])])
        elif kind == 2:
            h = rng.choice(pool()); self.ops.append([2, h]); self.h.append((self.h[h][0], self.h[h][1], True))
        elif kind == 3:
            h = rng.choice(pool()); self.ops.append([3, h])
        elif kind == 4:
            h = rng.choice(pool()); n = rng.randint(0, 3)
            self.ops.append([4, h, n]); k, nb, _ = self.h[h]; self.h[h] = (k, nb, False); self.h.append((k, nb + n, True))
        elif kind == 5:
            h = rng.choice(pool()); k, nb, _ = self.h[h]; n = rng.randint(0, nb)
            self.ops.append([5, h, n]); self.h[h] = (k, nb, False); self.h.append((k, nb - n, True))
        elif kind == 6:
            h1 = rng.choice(pool()); c = [x for x in pool(keep=self.h[h1][0]) if x != h1]
            if not c:
                return
            h2 = rng.choice(c)
            self.ops.append([6, h1, h2]); k, n1, _ = self.h[h1]; _, n2, _ = self.h[h2]
            self.h[h1] = (k, n1, False); self.h[h2] = (k, n2, False); self.h.append((k, n1 + n2, True))
        elif kind == 7:
            c = pool(minbins=1)
            if not c:
                return
            # one combine in five pairs an array with ITSELF (two of its bins, or one bin with itself: documented effect bins[i] += bins[i])
            h1 = rng.choice(c); c2 = [x for x in pool(keep=self.h[h1][0], minbins=1) if x != h1]
            if rng.random() < 0.2:
                c2 = [h1]
            if not c2:
                return
            h2 = rng.choice(c2)
            self.ops.append([7, h1, rng.randrange(self.h[h1][1]), h2, rng.randrange(self.h[h2][1])])


def units(rng, tier):
    us = []
    # ---- bounded-exhaustive: all disciplined sequences of length <= 3 after a prologue with two 2-bin arrays per manager holding items
    for keep in (1, 0):
        pro = [[0, keep, 2], [0, keep, 2], [1, 0, 11, 5, 0], [1, 0, 12, 3, 1], [1, 1, 13, 4, 1], [1, 1, 14, 1, 0]]
        hs0 = {0: 2, 1: 2}
        # simple explicit enumeration
        def succ(hs, total, nm):
            out = []
            for h, nb in hs.items():
                if nb > 0:
                    out.append(([1, h, nm, 2, nb - 1], dict(hs), total))
                out.append(([3, h], dict(hs), total))
                c = dict(hs); c[total] = nb
                out.append(([2, h], c, total + 1))
                c = dict(hs); del c[h]; c[total] = nb + 1
                out.append(([4, h, 1], c, total + 1))
                if nb > 0:
                    c = dict(hs); del c[h]; c[total] = nb - 1
                    out.append(([5, h, 1], c, total + 1))
                for h2, nb2 in hs.items():
                    if h2 != h:
                        c = dict(hs); del c[h]; del c[h2]; c[total] = nb + nb2
                        out.append(([6, h, h2], c, total + 1))
                        if nb > 0 and nb2 > 0:
                            out.append(([7, h, 0, h2, nb2 - 1], dict(hs), total))
                if nb > 0:
                    out.append(([7, h, 0, h, nb - 1], dict(hs), total))      # an array combined with itself
                    if nb > 1:
                        out.append(([7, h, 0, h, 0], dict(hs), total))       # a bin combined with itself
            return out
        frontier = [([], hs0, 2)]
        allseq = []
        for depth in range(3):
            nxt = []
            for seq, hs, total in frontier:
                for o, hs2, t2 in succ(hs, total, 20 + depth):
                    nxt.append((seq + [o], hs2, t2))
            allseq.extend(s for s, _, _ in nxt)
            frontier = nxt
        if tier == "quick":
            allseq = rng.sample(allseq, min(len(allseq), 350))
        for s in allseq:
            us.append(U(pro + s, "exhaustive-len<=3/" + ("contents" if keep else "sums")))
    # ---- random disciplined sequences
    for _ in range(500 if tier == "quick" else 6000):
        sim = Sim(rng)
        sim.new(rng.random() < 0.6, rng.randint(1, 4))
        for _ in range(rng.randint(4, 40)):
            sim.step()
        us.append(U(sim.ops, "random-disciplined"))
    # ---- wide arrays (30..70 bins: the sizes at which an implementation might switch to a vectorised path): fill, sort, copy, combine
    for _ in range(25 if tier == "quick" else 300):
        sim = Sim(rng)
        nb = rng.choice([30, 31, 32, 33, 34, 40, 48, 64, 65, 70])
        sim.new(rng.random() < 0.7, nb)
        for _ in range(rng.randint(nb // 2, 2 * nb)):
            sim.step(kinds=[1, 1, 1, 1, 1, 1, 3, 7])          # mostly add items, sometimes sort / combine
        for _ in range(rng.randint(2, 8)):
            sim.step(kinds=[1, 2, 3, 3, 4, 5, 7])
        us.append(U(sim.ops, "wide-arrays"))
    # ---- undisciplined: stale arrays reused (validates the aliasing model only)
    for _ in range(150 if tier == "quick" else 1500):
        sim = Sim(rng)
        sim.new(rng.random() < 0.6, rng.randint(1, 4))
        for _ in range(rng.randint(4, 25)):
            sim.step(stale=True)
        us.append(U(sim.ops, "undisciplined-aliasing", cmp=None, disciplined=False))
        us[-1]["need_model"] = True
    return us


def judge_requests(u, impl, model):
    p = u["params"]
    ops = p["ops"]
    if not u.get("disciplined", True):
        # model validation only: recorded in the evidence, never an alarm
        agree = (model is not None and impl.get("obs") == model.get("obs"))
        ALIAS["agree" if agree else "disagree"] += 1
        if not agree and len(ALIAS["examples"]) < 3:
            ALIAS["examples"].append({"ops": ops, "impl": UN.short(impl, 300), "model": UN.short(model, 300)})
        return []
    if "exc" in impl:
        return [("py", None, f"operation sequence raised {impl['exc']}: {UN.short(ops, 300)}")]
    vm = {o[2]: o[3] for o in ops if o[0] == 1}

    def pred(r):
        # r = per step [disciplined?, [null | bins]...]
        for step, (ok, st) in enumerate(r):
            if not ok:
                return None if step == 0 else f"generator produced an undisciplined sequence at step {step} (harness bug): {ops[step]}"
            obs = impl["obs"][step]
            if len(obs) != len(st):
                return f"after operation {step} {ops[step]}: {len(obs)} arrays exist, documented effects give {len(st)} (sequence {UN.short(ops[:step + 1], 300)})"
            for h, want in enumerate(st):
                if want is None:
                    continue
                if obs[h] != want:
                    return f"after operation {step} {ops[step]}: live array #{h} shows {obs[h]}, the documented effect gives {want} (sequence {UN.short(ops[:step + 1], 400)})"
                for s, l in obs[h]:
                    if l and s != sum(vm[x] for x in l):
                        return f"after operation {step}: array #{h} has a bin with sum {s} but items {l} worth {sum(vm[x] for x in l)}"
            if ops[step][0] == 3:
                sums = [s for s, _ in obs[ops[step][1]]]
                if sums != sorted(sums):
                    return f"after sort (operation {step}) array #{ops[step][1]} has sums {sums}"
        return None
    return [("pure_run", [ops], pred)]


def extra_evidence():
    return {"aliasing_model_validation": dict(ALIAS)}


def nontrivial(u, impl, model):
    ops = u["params"]["ops"]
    return u.get("disciplined", True) and len(ops) >= 4 and len(set(o[0] for o in ops)) >= 3


def shrinkable(u):
    return False
