"""C07 - the answer does not depend on how the items are presented."""
from harness import units as UN, gen
from harness.pcommon import part_unit, pack_unit, malformed

ID = "C07"
RULE = ("every input is presented in five ways - plain list, numpy array, dict with string keys, dict with integer keys, list of names + value function (names are "
        "random distinct integers / zero-padded strings unrelated to the values) - to all partitioning algorithms (greedy, roundrobin, multifit, kk, cg with random "
        "switches/objective, ckk, snp, rnp, dp, ilp (rotating), cbldm), the five packers and the three covers; inputs: bounded-exhaustive small lists with repeats and "
        "structured random lists (n <= 9; packing/covering instances with thresholds). Non-trivial: >= 3 items, >= 2 distinct values, a named format. Distinct by (port, params).")
EXPLANATION = ("each call compared with the Gallina model run on (name, value) pairs; judged on the implementation's outputs: the five presentations give the same multiset of bin "
               "sums, and each named result is a partition / feasible packing / valid cover OF THE NAMES (verified checkers) whose values reproduce the reported sums. "
               "Theorems C07_*_names: projecting the named run to values is the run on plain values, for ALL inputs.")
ASSUMPTIONS = ["non-negative integers below 2^53; names are distinct"]
CASE_TIMEOUT = 120
PART = ["greedy", "roundrobin", "bidir", "multifit", "kk", "cg", "ckk", "snp", "rnp", "dp", "ilp", "cbldm"]
PACK = ["ff", "ffd", "bf", "bfd", "bc"]
COVER = ["cover_dec", "cover_23", "cover_34"]
_g = [0]


def group(rng, mk, ids, vals=None):
    _g[0] += 1
    us = []
    for fmt in gen.FORMATS:
        u = mk(fmt, ids)
        u["group"] = _g[0]
        us.append(u)
    # integer names drawn from the VALUES themselves: a rotation of the values when they are distinct (every name is some other
    # item's value), else names overlapping the value range - code that confuses a name with a value shows up only here
    if vals is not None and len(vals) >= 2:
        if len(set(vals)) == len(vals):
            ids2 = list(vals[1:]) + [vals[0]]
        else:
            ids2 = rng.sample(range(0, min(max(vals), 10 ** 6) + len(vals) + 2), len(vals))      # range() is lazy: no list is built
        u = mk("dict_int", ids2)
        u["group"] = _g[0]
        u["family"] = (u.get("family") or "") + "/names-from-values"
        us.append(u)
    # index names 0..n-1 in a random order (0 is a FALSY name; small integers collide with small values and with indices)
    if vals is not None and len(vals) >= 1:
        ids3 = list(range(len(vals)))
        rng.shuffle(ids3)
        u = mk("dict_int", ids3)
        u["group"] = _g[0]
        u["family"] = (u.get("family") or "") + "/index-names"
        us.append(u)
    return us


def units(rng, tier):
    us = []

    def part_group(a, k, vals, fam):
        kw = {}
        cmp = "bins"
        v = list(vals)
        if a == "cg":
            kw = {"objective": rng.choice([[0, 0], [1, 0], [2, 0], [3, 2], [4, 2]]), "flags": [rng.randint(0, 1) for _ in range(4)]}
        if a in ("dp", "ilp"):
            kw = {"objective": rng.choice([[0, 0], [1, 0], [2, 0]])}
            v = v[:6]
            k = min(k, 4)
            cmp = "value" if a == "dp" else None
        if a == "ilp":
            v = [min(x, 200) for x in v]
        if a in ("ckk", "snp", "rnp"):
            cmp = "sums"
            k = min(k, 5)
        if a == "cbldm":
            k = 2
            kw = rng.choice([{}, {"partition_difference": rng.choice([1, 2])}])
        ids = gen.ids_for(rng, len(v))
        return group(rng, lambda fmt, ids: part_unit(a, k, v, rng, fmt=fmt, cmp=cmp, family=fam, ids=ids, **kw), ids, v)

    lists = rng.sample(list(gen.small_lists([0, 1, 2, 3, 5], 4, minlen=2)), 12 if tier == "quick" else 200)
    for vals in lists:
        for a in PART:
            if a == "ilp" and rng.random() < 0.7:
                continue
            us += part_group(a, rng.choice([1, 2, 3, 4]), vals, "exhaustive")
    for _ in range(45 if tier == "quick" else 700):
        vals, fam = gen.values(rng, nmax=9, vmax=2 ** 40)
        k = rng.choice([1, 2, 2, 3, 3, 4, 5, len(vals) + 1])
        for a in PART:
            if a == "ilp" and rng.random() < (0.8 if tier == "quick" else 0.5):
                continue
            v = vals[:8] if a in ("cg", "ckk", "snp", "rnp") else vals
            kk = min(k, 5) if a in ("ckk", "snp", "rnp") else k
            us += part_group(a, kk, v, fam)
    for _ in range(50 if tier == "quick" else 700):
        C, vals, fam = gen.packing_instance(rng, nmax=9)
        for a in PACK:
            v = vals[:8] if a == "bc" else vals
            ids = gen.ids_for(rng, len(v))
            us += group(rng, lambda fmt, ids, a=a, v=v: pack_unit(a, C, v, rng, fmt=fmt, cmp="bins", family=fam, ids=ids), ids, v)
    # dense stream: integer names that are a rotation of the (distinct) values, for the algorithms that search (bin completion, ckk, cbldm):
    # a name mistaken for a value is then still a plausible number, so nothing crashes - only the sums go wrong
    for _ in range(1500 if tier == "quick" else 15000):
        C = rng.choice([20, 30, 50, 100])
        if rng.random() < 0.5:
            vals = rng.sample(range(1, C + 1), rng.randint(4, 8))
            ids = vals[1:] + [vals[0]]
        else:
            # mid-sized values (C/5 .. C/2): best-fit-decreasing misses the volume bound, so the search really runs
            lo, hi = max(1, C // 5), C // 2
            vals = rng.sample(range(lo, hi + 1), min(rng.randint(5, 8), hi + 1 - lo))
            ids = list(vals)
            rng.shuffle(ids)
        _g[0] += 1
        a = rng.choice(["bc", "bc", "bc", "bfd", "ckk", "cbldm", "cover_34"])
        kk = 2 if a == "cbldm" else rng.choice([2, 3])
        for fmt, idsx in (("list", None), ("dict_int", ids)):
            if a in ("ckk", "cbldm"):
                u = part_unit(a, kk, vals, rng, fmt=fmt, cmp="sums", family="names-rotated-values", ids=idsx)
            else:
                u = pack_unit(a, C, vals, rng, fmt=fmt, cmp="bins", family="names-rotated-values", ids=idsx)
            u["group"] = _g[0]
            if idsx is not None:
                u["family"] += "/names-from-values"
            us.append(u)
    # the EMPTY input in every presentation (an empty list, array, tuple, dict ...) for the packers and the covers
    for a in PACK + COVER:
        C = rng.choice([6, 10])
        us += group(rng, lambda fmt, ids, a=a, C=C: pack_unit(a, C, [], rng, fmt=fmt, cmp="bins", family="empty-input", ids=ids), [], [])
    # complete KK on layered values (see gen.layered; repair D11): every presentation must give the same sums
    for _ in range(20 if tier == "quick" else 300):
        kk, v = gen.layered(rng)
        ids = gen.ids_for(rng, len(v))
        us += group(rng, lambda fmt, ids, kk=kk, v=v: part_unit("ckk", kk, v, rng, fmt=fmt, cmp="sums", family="ckk-layered", ids=ids), ids, v)
    for _ in range(50 if tier == "quick" else 700):
        C, vals, fam = gen.covering_instance(rng, nmax=10)
        for a in COVER:
            ids = gen.ids_for(rng, len(vals))
            us += group(rng, lambda fmt, ids, a=a: pack_unit(a, C, vals, rng, fmt=fmt, cmp="bins", family=fam, ids=ids), ids, vals)
    return us


def is_named_bc(u):
    return False      # bc-named-items was repaired (see known_findings.json, fixed): bin completion is checked like every other algorithm


def judge_requests(u, impl, model):
    p = u["params"]
    a = p["algo"]
    desc = f"{a}({'numbins=' + str(p['k']) if 'k' in p else 'binsize=' + str(p['C'])}, values={UN.short(p['vals'], 120)}, presented as {p['fmt']})"
    if "exc" in impl:
        return [("py", None, f"{desc} did not complete: {impl['exc']}")]
    m = malformed(impl)
    if m:
        return [("py", None, f"{desc}: {m}")]
    bins = impl["bins"]
    ids, vals = UN.ids_of(p), p["vals"]
    bi = UN.bins_in(p, bins)
    if bi is None:
        return [("py", None, f"{desc}: result contains something that is not one of the given names: {UN.short(bins, 200)}")]
    if u["kind"] == "part":
        k = len(bins) if a == "multifit" else p["k"]
        return [("chk_partition", [k, ids, vals, bi], lambda r: None if r is True else f"{desc}: result {UN.short(bins, 200)} is not a partition of the names whose values reproduce the sums")]
    if a in COVER:
        return [("chk_cover", [p["C"], ids, vals, bi], lambda r: None if r is not None else f"{desc}: result {UN.short(bins, 200)} is not a valid cover by the names whose values reproduce the sums")]
    if a == "bc":
        keep = [(i, v) for i, v in zip(ids, vals) if v != 0]
        vm = UN.valmap(p)
        q = dict(p)
        q["ids"], q["vals"] = [i for i, _ in keep], [v for _, v in keep]
        bi = UN.bins_in(q, [[s, [x for x in l if vm.get(x) != 0]] for s, l in bins])
        return [("chk_packing", [p["C"], q["ids"], q["vals"], bi], lambda r: None if r is True else f"{desc}: result {UN.short(bins, 200)} is not a feasible packing of the names")]
    return [("chk_packing", [p["C"], ids, vals, bi], lambda r: None if r is True else f"{desc}: result {UN.short(bins, 200)} is not a feasible packing of the names whose values reproduce the sums")]


def known_finding(u, impl, model, mismatch, judged, known):
    if is_named_bc(u):
        for f in known["findings"]:
            if f["id"] == "bc-named-items":
                return f["line"]
    p = u["params"]
    if p["algo"] == "rnp" and impl.get("exc") == "IndexError" and model is not None and model.get("exc") == "IndexError" and not mismatch:
        for f in known["findings"]:
            if f["id"] == "rnp-float-index":
                return None      # not a C07 matter: the same error in every presentation (checked in extra_checks)
    return None


def extra_checks(rng, tier, us, oc):
    out, lines = [], []
    groups = {}
    for i, u in enumerate(us):
        groups.setdefault(u["group"], []).append(i)
    for g, idx in groups.items():
        res = {}
        for i in idx:
            u, r = us[i], oc.impl[i]
            if is_named_bc(u):
                continue            # known finding bc-named-items (reported by the per-unit path)
            tag = u["params"]["fmt"] + ("(names from values)" if "names-from-values" in (u.get("family") or "") else "") + ("(index names)" if "index-names" in (u.get("family") or "") else "")
            if "exc" in r:
                res[tag] = ("exc", r["exc"])
            elif isinstance(r.get("bins"), list):
                res[tag] = ("sums", sorted(s for s, _ in r["bins"]))
            else:
                res[tag] = ("other", UN.short(r, 100))
        if len(set(map(str, res.values()))) > 1:
            p = us[idx[0]]["params"]
            out.append({"text": f"{p['algo']}({'numbins=' + str(p['k']) if 'k' in p else 'binsize=' + str(p['C'])}, values={UN.short(p['vals'], 150)}, "
                                f"{p.get('objective', '')}{p.get('flags', '')}): the multiset of sums depends on the presentation: {res}",
                        "units": [us[i] for i in idx], "kind": "failing-input"})
    return out[:3]


def nontrivial(u, impl, model):
    p = u["params"]
    return len(p["vals"]) >= 3 and len(set(p["vals"])) >= 2 and p["fmt"] in ("dict_str", "dict_int", "names_valueof")


def shrinkable(u):
    return False
