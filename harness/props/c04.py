"""C04 - bin-completion uses the minimum possible number of bins."""
from harness import units as UN, gen
from harness.pcommon import pack_unit

ID = "C04"
LEVEL = "proof"
RULE = ("prtpy.pack(bin_completion) with output types Partition, Sums, BinCount (and PartitionAndSumsTuple): bounded-exhaustive multisets of length 1..6 over "
        "{1,2,3,4,5,6} with C in {6,7,10} (rotating subset in the quick tier); structured random packing instances (perfect packings, thresholds C/2 C/3 +-1, all-big, "
        "all-small, repeated values) with n <= 11; the three historic failing inputs of the property text. Every input is called with all output types. "
        "Non-trivial: >= 4 items and optimum >= 2 bins. Distinct by (port, params).")
EXPLANATION = ("bin count compared with the Gallina model's and judged against the verified oracle min_bins (proved optimum) and the model's FFD/BFD counts; counts of the "
               "same input under different output types compared with each other. Proved for all inputs (model): the count is the minimum over all feasible packings (bc_optimal), "
               "same decisions for all output types.")
ASSUMPTIONS = ["integer items 1 <= value <= binsize, integer bin size <= 2^30, list/array input (named input: known finding bc-named-items under C07)"]
OPEN_STATEMENTS = []
CASE_TIMEOUT = 120
OUTS = ["partition", "sums", "bincount", "pst"]
HISTORIC = [(20, [4, 4, 8, 9, 9, 8, 7, 3, 4, 3]), (50, [19, 14, 4, 14, 24, 17, 20, 15, 20]), (20, [5, 10, 4, 10, 8, 6, 4, 10, 5, 4, 4, 10]),
            (30, [12, 7, 7, 7, 7, 5, 15, 9, 5, 11, 5]), (100, [30, 30, 30, 30, 40, 40]), (10, [6, 6, 5, 5, 4, 4])]
_g = [0]


def group(rng, C, vals, fam):
    _g[0] += 1
    us = []
    for out in OUTS:
        u = pack_unit("bc", C, vals, rng, fmt=rng.choice(["list", "list", "array"]), out=out, cmp="count", family=fam)
        u["group"] = _g[0]
        us.append(u)
    return us


def units(rng, tier):
    us = []
    msets = list(gen.small_multisets([1, 2, 3, 4, 5, 6], 6))
    msets = rng.sample(msets, 60 if tier == "quick" else 900)
    for vals in msets:
        rng.shuffle(vals)
        for C in (6, 7, 10):
            if tier == "quick" and rng.random() < 0.5:
                continue
            us += group(rng, C, vals, "exhaustive-multisets")
    for C, vals in HISTORIC:
        us += group(rng, C, vals, "historic")
    # the search is only as good as its bounds: (1) the bound used for both early exits must never exceed the optimum
    # (judged directly on bin_completion_utils.lower_bound, with exact halves and thirds of the bin size well represented);
    for _ in range(700 if tier == "quick" else 8000):
        C = rng.choice([6, 10, 12, 20, 30, 50, 100])
        cands = [C // 2, C // 2, C // 3, C // 2 + 1, max(1, C // 2 - 1), C, 1, 2, (2 * C) // 3, max(1, C // 4)] + [rng.randint(1, C) for _ in range(4)]
        vals = [rng.choice(cands) for _ in range(rng.randint(2, 10))]
        us.append({"kind": "bc_util", "params": {"fn": "lb", "C": C, "items": vals, "vals": vals}, "cmp": None, "family": "lower-bound-admissible", "group": 0})
    # (1b) the building blocks of the search, called directly and compared with their Gallina models (the theorems C04_is_dominant_sound,
    # C04_find_bin_completions_complete are about these models): dominance test, completion generator, dominance filter, pair finder
    def desc(n, lo, hi):
        return sorted((rng.randint(lo, hi) for _ in range(n)), reverse=True)
    for _ in range(1500 if tier == "quick" else 15000):
        hi = rng.choice([3, 6, 9, 12])
        l1, l2 = desc(rng.randint(0, 3), 1, hi), desc(rng.randint(0, 4), 1, hi)
        if rng.random() < 0.4 and l1:
            # the second list is a refinement / perturbation of the first: close calls for the dominance test
            l2 = sorted([max(1, x - rng.choice([0, 0, 1])) for x in l1] + ([rng.randint(1, 3)] if rng.random() < 0.6 else []), reverse=True)
        us.append({"kind": "bc_util", "params": {"fn": "isdom", "l1": l1, "l2": l2, "items": l1 + l2, "vals": l1 + l2}, "cmp": "eq", "family": "blocks/is_dominant", "group": 0})
    for _ in range(4000 if tier == "quick" else 40000):
        C = rng.choice([10, 12, 20, 30, 60, 100])
        items = desc(rng.randint(2, 8), 1, max(1, (2 * C) // 3))
        if rng.random() < 0.5:
            items = sorted(set(items), reverse=True)          # distinct values: a unique smallest item
            if len(items) < 2:
                continue
        x = rng.randint(items[0], C) if rng.random() < 0.5 else rng.randint(max(items[0], C // 2), max(items[0], C - items[-1]))
        if rng.random() < 0.4:
            # much room beside x and many small items: completions of three and more items
            items = desc(rng.randint(4, 8), 1, max(2, C // 3))
            if rng.random() < 0.6:
                items = sorted(set(items), reverse=True)
            x = rng.randint(max(items[0], C // 3), max(items[0], (2 * C) // 3))
        us.append({"kind": "bc_util", "params": {"fn": "fbc", "x": x, "items": items, "C": C, "vals": items}, "cmp": "eq", "family": "blocks/find_bin_completions", "group": 0})
        ls = [desc(rng.randint(1, 3), 1, 9) for _ in range(rng.randint(1, 5))]
        ls.sort(key=lambda l: -sum(l))
        us.append({"kind": "bc_util", "params": {"fn": "cfd", "lists": ls, "items": [v for l in ls for v in l], "vals": []}, "cmp": "eq", "family": "blocks/check_for_dominance", "group": 0})
    # (2) inputs on which best-fit-decreasing is NOT optimal, found by screening random instances with the model: here the answer
    # depends on the search, its dominance tests and its bounds really being right
    from harness import runner
    cand = []
    for _ in range(12000 if tier == "quick" else 150000):
        C = rng.choice([10, 12, 20, 30, 50])
        pool = [C // 2, C // 2, C // 3] + [rng.randint(1, C) for _ in range(rng.randint(2, 5))]
        cand.append((C, [max(1, rng.choice(pool)) for _ in range(rng.randint(5, 10))]))
    lines = []
    for C, v in cand:
        lines.append(runner.model_line("bfd", [0, C, v, v]))
        lines.append(runner.model_line("min_bins", [C, v]))
    res = runner.run_model(lines)
    hard = [cv for i, cv in enumerate(cand) if isinstance(res[2 * i], dict) and "ok" in res[2 * i] and len(res[2 * i]["ok"]) > res[2 * i + 1]]
    for C, v in hard[:400 if tier == "quick" else 4000]:
        us += group(rng, C, v, "bfd-suboptimal(screened)")
    # (3) beyond the oracle's size: 9..13 items on which the MODEL's search improves on best-fit-decreasing (so the answer depends on
    # which branches are kept and which are pruned); the implementation's count is compared with the model's
    cand = []
    for _ in range(8000 if tier == "quick" else 60000):
        C = rng.choice([10, 20, 30, 50, 100])
        cand.append((C, [rng.randint(1, C) for _ in range(rng.randint(9, 13))]))
    lines = []
    for C, v in cand:
        lines.append(runner.model_line("bfd", [0, C, v, v]))
        lines.append(runner.model_line("bc", [0, C, 200000, v]))
    res = runner.run_model(lines)
    for i, (C, v) in enumerate(cand):
        a, b = res[2 * i], res[2 * i + 1]
        if isinstance(a, dict) and isinstance(b, dict) and "ok" in a and "ok" in b and len(a["ok"]) > len(b["ok"]):
            us += group(rng, C, v, "search-improves-on-bfd(screened,9-13 items)")
    # (4) the SEARCH itself, not only its answer: the sequence of (largest unpacked item, remaining items) at every call of
    # find_bin_completions - which bins are opened in which branch - recorded by wrapping the module attribute, compared exactly with
    # the traced model (Model/BinCompletionTrace.v, result proved equal to bin_completion).  A branch that is pruned, kept, reordered or
    # built from the wrong items shows up here on most inputs on which the search runs, long before it changes a final count.
    tr_cands = [cv for cv in hard[:150 if tier == "quick" else 1500]]
    for _ in range(500 if tier == "quick" else 5000):
        C = rng.choice([10, 12, 20, 30, 50, 100])
        n = rng.randint(5, 12)
        pool = [rng.randint(1, C) for _ in range(rng.randint(3, n))]
        tr_cands.append((C, [rng.choice(pool) for _ in range(n)]))
    for C, v in tr_cands:
        us.append({"kind": "bc_trace", "params": {"C": C, "vals": list(v), "keep": rng.random() < 0.7}, "cmp": "trace", "family": "search-trace", "group": 0})
    for _ in range(220 if tier == "quick" else 3000):
        C, vals, fam = gen.packing_instance(rng, nmax=11, family=rng.choice([None, None, "perfect", "thresholds"]))
        vals = [v for v in vals if v >= 1][:11]
        if not vals:
            continue
        us += group(rng, C, vals, fam)
    return us


def count_of(impl):
    if "bins" in impl:
        return len(impl["bins"])
    if "lists" in impl:
        return len(impl["lists"])
    if "sums" in impl:
        return len(impl["sums"])
    return impl.get("num")


def judge_requests(u, impl, model):
    p = u["params"]
    if u["kind"] == "bc_trace":
        if "exc" in impl:
            return [("py", None, f"bin_completion(binsize={p['C']}, items={p['vals']}) did not complete: {impl['exc']}")]
        n = len(impl["bins"])
        return [("min_bins", [p["C"], p["vals"]], lambda r: None if r == n else f"bin_completion(binsize={p['C']}, items={p['vals']}) uses {n} bins, the minimum is {r}")] if len(p["vals"]) <= 11 else []
    if u["kind"] == "bc_util" and p["fn"] != "lb":
        return []          # compared with the model only
    if u["kind"] == "bc_util":
        if "exc" in impl:
            return [("py", None, f"lower_bound({p['C']}, {p['items']}) raised {impl['exc']}")]
        lb = impl["num"]
        return [("min_bins", [p["C"], p["items"]], lambda r: None if lb <= r else f"bin completion's lower bound is not admissible: lower_bound(binsize={p['C']}, items={p['items']}) = {lb} but the items fit into {r} bins, so the search stops at a non-optimal packing")]
    desc = f"bin_completion(binsize={p['C']}, items={p['vals']}, output {p['out']})"
    if "exc" in impl:
        return [("py", None, f"{desc} did not complete: {impl['exc']}")]
    n = count_of(impl)
    js = []
    if len(p["vals"]) <= 11:
        js.append(("min_bins", [p["C"], p["vals"]], lambda r: None if r == n else f"{desc} uses {n} bins, the minimum is {r}"))
    js.append(("ffd", [0, p["C"], p["vals"], p["vals"]], lambda r: None if n <= len(r["ok"]) else f"{desc} uses {n} bins, first-fit-decreasing {len(r['ok'])}"))
    js.append(("bfd", [0, p["C"], p["vals"], p["vals"]], lambda r: None if n <= len(r["ok"]) else f"{desc} uses {n} bins, best-fit-decreasing {len(r['ok'])}"))
    return js


def extra_checks(rng, tier, us, oc):
    out = []
    groups = {}
    for i, u in enumerate(us):
        if u["kind"] == "pack":
            groups.setdefault(u["group"], []).append(i)
    for g, idx in groups.items():
        if any("exc" in oc.impl[i] for i in idx):
            continue
        cs = {us[i]["params"]["out"]: count_of(oc.impl[i]) for i in idx}
        if len(set(cs.values())) > 1:
            p = us[idx[0]]["params"]
            out.append({"text": f"bin_completion(binsize={p['C']}, items={p['vals']}): the number of bins depends on the output type: {cs}", "units": [us[i] for i in idx]})
    return out[:3]


def nontrivial(u, impl, model):
    if u["kind"] == "bc_trace":
        return len(impl.get("trace", [])) >= 2
    if u["kind"] == "bc_util":
        return len(u["params"]["items"]) >= 4
    return len(u["params"]["vals"]) >= 4 and (count_of(impl) or 0) >= 2


def shrinkable(u):
    return True
