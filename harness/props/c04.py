"""C04 - bin-completion uses the minimum possible number of bins."""
from harness import units as UN, gen
from harness.pcommon import pack_unit

ID = "C04"
LEVEL = "proof"
RULE = ("prtpy.pack(bin_completion) with output types Partition, Sums, BinCount (and PartitionAndSumsTuple): bounded-exhaustive multisets of length 1..6 over "
        "{1,2,3,4,5,6} with C in {6,7,10} (rotating subset in the quick tier); structured random packing instances (perfect packings, thresholds C/2 C/3 +-1, all-big, "
        "all-small, repeated values) with n <= 11; the three historic failing inputs of the property text. Every input is called with all output types. "
        "Non-trivial: >= 4 items and optimum >= 2 bins. Distinct by (port, params).")
EXPLANATION = ("bin count compared with the Gallina model's and judged against the verified oracle min_bins (proved optimum) and the model's FFD/BFD counts; counts of the "
               "same input under different output types compared with each other. Proved for all inputs: feasible packing, >= OPT, <= BFD, optimal when the volume bound is "
               "met, same decisions for all output types; general optimality is tested (open statement).")
ASSUMPTIONS = ["integer items 1 <= value <= binsize, integer bin size <= 2^30, list/array input (named input: known finding bc-named-items under C07)"]
OPEN_STATEMENTS = ["bc_optimal : length (bin_completion C items) = min_bins C items -- NOT proved (depends on the completeness of the completion generator); "
                   "tested against min_bins on every generated input (0 failures in 54 000 additional oracle comparisons at build time)"]
CASE_TIMEOUT = 120
OUTS = ["partition", "sums", "bincount", "pst"]
HISTORIC = [(20, [4, 4, 8, 9, 9, 8, 7, 3, 4, 3]), (50, [19, 14, 4, 14, 24, 17, 20, 15, 20]), (20, [5, 10, 4, 10, 8, 6, 4, 10, 5, 4, 4, 10]),
            (30, [12, 7, 7, 7, 7, 5, 15, 9, 5, 11, 5]), (100, [30, 30, 30, 30, 40, 40]), (10, [6, 6, 5, 5, 4, 4])]
_g = [0]


def group(rng, C, vals, fam):
    _g[0] += 1
    us = []
    for out in OUTS:
        u = pack_unit("bc", C, vals, rng, fmt=rng.choice(["list", "list", "array"]), out=out, cmp="count", family=fam)
        u["group"] = _g[0]
        us.append(u)
    return us


def units(rng, tier):
    us = []
    msets = list(gen.small_multisets([1, 2, 3, 4, 5, 6], 6))
    msets = rng.sample(msets, 60 if tier == "quick" else 900)
    for vals in msets:
        rng.shuffle(vals)
        for C in (6, 7, 10):
            if tier == "quick" and rng.random() < 0.5:
                continue
            us += group(rng, C, vals, "exhaustive-multisets")
    for C, vals in HISTORIC:
        us += group(rng, C, vals, "historic")
    for _ in range(220 if tier == "quick" else 3000):
        C, vals, fam = gen.packing_instance(rng, nmax=11, family=rng.choice([None, None, "perfect", "thresholds"]))
        vals = [v for v in vals if v >= 1][:11]
        if not vals:
            continue
        us += group(rng, C, vals, fam)
    return us


def count_of(impl):
    if "bins" in impl:
        return len(impl["bins"])
    if "lists" in impl:
        return len(impl["lists"])
    if "sums" in impl:
        return len(impl["sums"])
    return impl.get("num")


def judge_requests(u, impl, model):
    p = u["params"]
    desc = f"bin_completion(binsize={p['C']}, items={p['vals']}, output {p['out']})"
    if "exc" in impl:
        return [("py", None, f"{desc} did not complete: {impl['exc']}")]
    n = count_of(impl)
    js = []
    if len(p["vals"]) <= 11:
        js.append(("min_bins", [p["C"], p["vals"]], lambda r: None if r == n else f"{desc} uses {n} bins, the minimum is {r}"))
    js.append(("ffd", [0, p["C"], p["vals"], p["vals"]], lambda r: None if n <= len(r["ok"]) else f"{desc} uses {n} bins, first-fit-decreasing {len(r['ok'])}"))
    js.append(("bfd", [0, p["C"], p["vals"], p["vals"]], lambda r: None if n <= len(r["ok"]) else f"{desc} uses {n} bins, best-fit-decreasing {len(r['ok'])}"))
    return js


def extra_checks(rng, tier, us, oc):
    out = []
    groups = {}
    for i, u in enumerate(us):
        groups.setdefault(u["group"], []).append(i)
    for g, idx in groups.items():
        if any("exc" in oc.impl[i] for i in idx):
            continue
        cs = {us[i]["params"]["out"]: count_of(oc.impl[i]) for i in idx}
        if len(set(cs.values())) > 1:
            p = us[idx[0]]["params"]
            out.append({"text": f"bin_completion(binsize={p['C']}, items={p['vals']}): the number of bins depends on the output type: {cs}", "units": [us[i] for i in idx]})
    return out[:3]


def nontrivial(u, impl, model):
    return len(u["params"]["vals"]) >= 4 and (count_of(impl) or 0) >= 2


def shrinkable(u):
    return True
