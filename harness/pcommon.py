"""Helpers shared by the property modules."""
from harness import units as UN, gen


def part_unit(algo, k, vals, rng=None, fmt="list", out="pst", cmp="bins", family="", ids=None, **kw):
    p = {"algo": algo, "k": k, "vals": list(vals), "fmt": fmt, "out": out}
    if fmt not in ("list", "array", "tuple"):
        p["ids"] = ids if ids is not None else gen.ids_for(rng, len(vals))
    p.update(kw)
    return {"kind": "part", "params": p, "cmp": cmp, "family": family}


def pack_unit(algo, C, vals, rng=None, fmt="list", out="pst", cmp="bins", family="", ids=None, scale=1):
    p = {"algo": algo, "C": C, "vals": list(vals), "fmt": fmt, "out": out}
    if fmt not in ("list", "array", "tuple"):
        p["ids"] = ids if ids is not None else gen.ids_for(rng, len(vals))
    if scale != 1:
        p["scale"] = scale
    return {"kind": "pack", "params": p, "cmp": cmp, "family": family}


def exc_judge(impl, allowed=()):
    if "exc" in impl and impl["exc"] not in allowed:
        return [("py", None, f"unexpected exception {impl['exc']}")]
    return None


def j_true(what):
    return lambda r: None if r is True else f"{what} (checker returned {r})"


def malformed(impl, key="bins"):
    b = impl.get(key)
    if not isinstance(b, list):
        return f"malformed output {UN.short(impl)}"
    for x in b:
        if not isinstance(x[0], int) or any(not isinstance(y, int) for y in x[1]):
            return f"non-integer sum or unknown item in output {UN.short(impl)}"
    return None


def rnp_demo(known, evaluate, prop, pid):
    """replays the witnesses of the listed rnp findings on the tree under test: the KNOWN-FINDING line is
    printed only while the implementation still fails exactly like the faithful model (attribution rule)"""
    lines = []
    for f in known["findings"]:
        if pid not in f["properties"] or not f["id"].startswith("rnp-"):
            continue
        w = f["witness"]
        u = part_unit("rnp", w["numbins"], w["items"], fmt="list", cmp="value")
        oc = evaluate(prop, [u])
        r, m = oc.impl[0], oc.model[0]
        if f["id"] == "rnp-float-index":
            if r.get("exc") == "IndexError" and m is not None and m.get("exc") == "IndexError":
                lines.append(f["line"])
        elif f["id"] == "rnp-suboptimal":
            if "bins" in r and m is not None and isinstance(m.get("bins"), list):
                s = sorted(x for x, _ in r["bins"])
                if s == sorted(x for x, _ in m["bins"]) and s[-1] - s[0] == w["returned_difference"] > w["optimal_difference"]:
                    lines.append(f["line"])
    return lines


def hard_bc_instances(rng, ncand, limit):
    """packing instances on which bin completion's SEARCH runs and matters: planted (near-)perfect packings (3-5 full bins, each split into
    2-4 parts, at most two units shaved off) and threshold-rich random instances, screened with the model: kept when best-fit-decreasing
    misses the volume bound ceil(total / C).  Returns [(C, vals)]."""
    from harness import runner
    cand = []
    for _ in range(ncand):
        C = rng.choice([10, 12, 20, 20, 30, 50, 100])
        if rng.random() < 0.7:
            vals = []
            for _b in range(rng.randint(3, 5)):
                rest = C
                for _j in range(rng.randint(1, 3)):
                    if rest <= 2:
                        break
                    hi = max(1, min(rest - 1, (2 * C) // 3))
                    x = rng.randint(min(max(1, C // 8), hi), hi)
                    vals.append(x)
                    rest -= x
                if rest > 0:
                    vals.append(rest)
            for _j in range(rng.choice([0, 0, 1, 2])):
                i = rng.randrange(len(vals))
                if vals[i] > 1:
                    vals[i] -= 1
            vals = vals[:12]
        else:
            pool = [C // 2, C // 2, C // 3] + [rng.randint(1, C) for _ in range(rng.randint(2, 5))]
            vals = [max(1, rng.choice(pool)) for _ in range(rng.randint(5, 10))]
        rng.shuffle(vals)
        cand.append((C, vals))
    res = runner.run_model([runner.model_line("bfd", [0, C, v, v]) for C, v in cand])
    hard = [(C, v) for (C, v), r in zip(cand, res) if isinstance(r, dict) and "ok" in r and len(r["ok"]) > -(-sum(v) // C)]
    return hard[:limit]
