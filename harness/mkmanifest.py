#!/venv/bin/python
"""Regenerates /verif/MANIFEST.json from harness/props/*.py (claimed properties) and manifest_meta.json."""
import os, sys, json, importlib
VERIF = os.path.dirname(os.path.dirname(os.path.abspath(__file__)))
sys.path.insert(0, VERIF)
meta = json.load(open(os.path.join(VERIF, "harness", "manifest_meta.json")))
props = [json.loads(l) for l in open(os.path.join(VERIF, "properties.jsonl"))]
checks, na = [], []
for p in props:
    pid = p["id"]
    m = meta["checks"].get(pid)
    if m and os.path.exists(os.path.join(VERIF, "harness", "props", pid.lower() + ".py")) \
            and os.path.exists(os.path.join(VERIF, "coq", "theories", "Properties", pid + ".v")):
        checks.append({
            "property_id": pid,
            "quick_cmd": f"/verif/check {pid} --tier quick",
            "thorough_cmd": f"/verif/check {pid} --tier thorough",
            "evidence_file": f"/verif/evidence/{pid}.json",
            "replay_cmd_template": f"/verif/check {pid} --replay {{path}}",
            "engine": "coq-model+correspondence",
            "level_claimed": {"category": m.get("category", "proof"), "text": m["text"], "design_ref": m.get("design_ref", "DESIGN.md section 5, " + pid)},
            "level_note": m["note"],
            "technique": m["technique"],
        })
    else:
        na.append({"property_id": pid, "reason": meta["not_applicable"].get(pid, "check not built yet in this round (model exists; see DESIGN.md section 5)")})
man = {
    "version": 1,
    "setup_cmd": "/verif/build.sh all",
    "hooks": {"guard": "PRTPY_VERIF", "enable": "no source hooks are needed: the counting clock and the mip.Model capture replace module attributes from the harness",
              "baseline_off_cmd": "cd /repo && /venv/bin/python -m pytest -ra -q -p no:cacheprovider --timeout=900 --continue-on-collection-errors",
              "source_commits": [], "add_only": True},
    "engines": [{"name": "coq-model+correspondence", "path": "/verif/check",
                 "serves_properties": [c["property_id"] for c in checks],
                 "kind_free_text": "Coq 8.16.1 theorems over a hand-written Gallina model (coq/theories), extracted to OCaml and compared with prtpy at component ports; verified oracles judge implementation outputs"}],
    "checks": checks,
    "notes": meta.get("notes", ""),
    "not_applicable": na,
}
json.dump(man, open(os.path.join(VERIF, "MANIFEST.json"), "w"), indent=1)
print("claimed:", [c["property_id"] for c in checks], "not claimed:", [x["property_id"] for x in na])
