#!/venv/bin/python
"""Regenerates the seeded-change table inside DESIGN.md (between the seedtable markers) from seeded/*/meta.json."""
import os, re, subprocess
V = os.path.dirname(os.path.dirname(os.path.abspath(__file__)))
tbl = subprocess.run([os.path.join(V, "harness", "seedtable.py")], capture_output=True, text=True).stdout
p = os.path.join(V, "DESIGN.md")
s = open(p).read()
block = "<!-- seedtable -->\n" + tbl + "<!-- /seedtable -->"
if "<!-- seedtable -->" in s:
    s = re.sub(r"<!-- seedtable -->.*?<!-- /seedtable -->", lambda m: block, s, count=1, flags=re.S)
else:
    s = s.replace("SEEDTABLE", block)
open(p, "w").write(s)
print("table rows:", tbl.count("\n") - 2)
