"""Coq stage of a check: build the development (full .vo build through build.sh), then
re-compile Properties/<id>.v afresh and parse what `Print Assumptions` reports."""
import os, re, subprocess, time

VERIF = os.path.dirname(os.path.dirname(os.path.abspath(__file__)))
COQ = os.path.join(VERIF, "coq")
# axioms a property theorem may depend on (DESIGN section 6); anything else fails the check
AXIOM_WHITELIST = {
    # primitive floats / 63-bit integers used by the bit-exact multifit capacity model (kernel primitives)
    "PrimFloat.", "Uint63.", "PrimInt63.", "FloatAxioms.", "Uint63Axioms.", "PrimString.",
}
FORBIDDEN = re.compile(r"\b(Admitted|admit|Axiom|Parameter|Conjecture|Unset\s+Guard|bypass_check|Admit\s+Obligations|type-in-type)\b")


def project_files():
    """the .v files of the development = what _CoqProject lists (what `make` builds and the theorems depend on)"""
    out = []
    with open(os.path.join(COQ, "_CoqProject")) as f:
        for line in f:
            line = line.strip()
            if line.endswith(".v") and not line.startswith("-"):
                out.append(os.path.join(COQ, line))
    return out


def scan_forbidden():
    hits = []
    for path in project_files():
        if os.path.exists(path):
            if True:
                with open(path) as f:
                    text = f.read()
                # strip comments (non-nested approximation is enough: forbidden words in comments are flagged too,
                # except inside (* ... *) blocks which we remove greedily level by level)
                prev = None
                while prev != text:
                    prev = text
                    text = re.sub(r"\(\*[^()*]*(?:\*(?!\))[^()*]*|\((?!\*)[^()*]*|\)[^()*]*)*\*\)", " ", text)
                for m in FORBIDDEN.finditer(text):
                    hits.append(f"{os.path.relpath(path, COQ)}: {m.group(0)}")
    return hits


def run(pid, thorough=False):
    t0 = time.time()
    res = {"ok": False, "theorems": [], "axioms": {}, "obligations": 0, "discharged": 0, "log": ""}
    b = subprocess.run([os.path.join(VERIF, "build.sh"), "all"], capture_output=True, text=True)
    res["log"] += b.stdout[-3000:] + b.stderr[-3000:]
    if b.returncode != 0:
        res["failed"] = "build of the Coq development / extraction (make) failed: " + (b.stdout + b.stderr).strip()[-400:]
        return res
    hits = scan_forbidden()
    if hits:
        res["failed"] = "forbidden construct in the development: " + "; ".join(hits[:5])
        return res
    pfile = os.path.join(COQ, "theories", "Properties", pid + ".v")
    if not os.path.exists(pfile):
        res["failed"] = f"Properties/{pid}.v missing"
        return res
    with open(pfile) as f:
        src = f.read()
    thms = re.findall(r"^\s*Theorem\s+([A-Za-z0-9_']+)", src, flags=re.M)
    res["theorems"] = thms
    res["obligations"] = len(thms)
    # every proof in a property file must be `exact <lemma>` only
    bodies = re.findall(r"Proof\.(.*?)Qed\.", src, flags=re.S)
    for body in bodies:
        if not re.fullmatch(r"\s*(intros[^.]*\.\s*)?(exact|apply)\s+[^.]+(\.[A-Za-z_][^.]*)*\.\s*", body):
            res["failed"] = f"Properties/{pid}.v: proof body is not a bare `exact`: {body.strip()[:80]}"
            return res
    tmpd = os.path.join(VERIF, "work", "coqtmp", f"{pid}_{os.getpid()}")
    os.makedirs(tmpd, exist_ok=True)
    c = subprocess.run(["timeout", "900", "coqc", "-Q", "theories", "Prtpy", "-o", os.path.join(tmpd, pid + ".vo"),
                        f"theories/Properties/{pid}.v"], cwd=COQ, capture_output=True, text=True)
    import shutil
    shutil.rmtree(tmpd, ignore_errors=True)
    res["log"] += c.stdout[-6000:] + c.stderr[-3000:]
    if c.returncode != 0:
        m = re.search(r'File "([^"]+)", line (\d+)', c.stderr)
        res["failed"] = f"coqc Properties/{pid}.v failed" + (f" at line {m.group(2)}" if m else "") + ": " + c.stderr.strip()[-300:]
        # which theorem: the first Theorem after the failing line
        if m:
            line = int(m.group(2))
            upto = "\n".join(src.split("\n")[:line])
            prev = re.findall(r"^\s*Theorem\s+([A-Za-z0-9_']+)", upto, flags=re.M)
            if prev:
                res["failed"] = f"theorem {prev[-1]} (Properties/{pid}.v line {line}) no longer checks: " + c.stderr.strip()[-300:]
        return res
    # parse Print Assumptions output: blocks are either "Closed under the global context" or "Axioms:\n name : type..."
    out = c.stdout
    blocks = re.split(r"(?=Closed under the global context|Axioms:)", out)
    blocks = [b for b in blocks if b.startswith("Closed") or b.startswith("Axioms:")]
    prints = re.findall(r"Print\s+Assumptions\s+([A-Za-z0-9_'.]+)\s*\.", src)
    if sorted(prints) != sorted(thms) or len(blocks) != len(prints):
        res["failed"] = f"Properties/{pid}.v: every Theorem needs its own Print Assumptions (theorems {len(thms)}, prints {len(prints)}, reports {len(blocks)})"
        return res
    bad = []
    for name, blk in zip(prints, blocks):
        if blk.startswith("Closed"):
            res["axioms"][name] = []
        else:
            ax = re.findall(r"^([A-Za-z0-9_'.]+)\s*:", blk, flags=re.M)
            res["axioms"][name] = ax
            for a in ax:
                if not any(a.startswith(w) or ("." + w) in ("." + a) for w in AXIOM_WHITELIST):
                    bad.append(f"{name} depends on {a}")
    if bad:
        res["failed"] = "axiom outside the whitelist: " + "; ".join(bad[:5])
        return res
    res["discharged"] = len(thms)
    res["ok"] = True
    res["coq_s"] = round(time.time() - t0, 1)
    if thorough and os.environ.get("VERIF_COQCHK", "0") == "1":
        k = subprocess.run(["timeout", "3000", "coqchk", "-Q", "theories", "Prtpy", "-o", "-silent",
                            f"Prtpy.Properties.{pid}"], cwd=COQ, capture_output=True, text=True)
        res["coqchk"] = (k.stdout + k.stderr)[-2000:]
        if k.returncode != 0:
            res["ok"] = False
            res["failed"] = "coqchk failed: " + res["coqchk"][-300:]
    return res
