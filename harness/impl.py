"""Implementation side of the correspondence check: runs prtpy (imported from the tree
under test, $PRTPY_REPO, default /repo) on one case and returns a JSON-able result in the
same shape the model driver prints.  Executed inside worker processes (see runner.py)."""
import os, sys, math, signal, warnings, contextlib

REPO = os.environ.get("PRTPY_REPO", "/repo")
if sys.path[0] != REPO:
    sys.path.insert(0, REPO)
warnings.filterwarnings("ignore")
import numpy as np
import prtpy
assert os.path.realpath(prtpy.__file__).startswith(os.path.realpath(REPO) + os.sep), \
    f"prtpy imported from {prtpy.__file__}, expected under {REPO}"
from prtpy import out as OUT, obj as OBJ

M = sys.modules


def mod(name):
    if name not in M:          # modules prtpy/__init__.py does not import itself (balanced.py)
        import importlib
        importlib.import_module(name)
    return M[name]


class CaseTimeout(Exception):
    pass


def _alarm(signum, frame):
    raise CaseTimeout()


@contextlib.contextmanager
def silence_fd1():
    """CBC prints to the C-level stdout; keep the check's stdout clean."""
    sys.stdout.flush()
    saved = os.dup(1)
    dn = os.open(os.devnull, os.O_WRONLY)
    os.dup2(dn, 1)
    try:
        yield
    finally:
        os.dup2(saved, 1)
        os.close(saved)
        os.close(dn)


# ---------------------------------------------------------------- items / names
def name_str(i):
    return "n%08d" % i


CREATED = []      # (kind, object handed to prtpy, independent snapshot) - consulted by the history port (C15)


def _register(kind, obj):
    import copy
    CREATED.append((kind, obj, obj.copy() if isinstance(obj, np.ndarray) else copy.deepcopy(obj)))
    return obj


def unchanged_arguments():
    """None if every registered argument object still equals its snapshot, else a description"""
    for kind, obj, snap in CREATED:
        if isinstance(obj, np.ndarray):
            same = obj.shape == snap.shape and obj.dtype == snap.dtype and bool(np.array_equal(obj, snap))
        elif isinstance(obj, dict):
            same = list(obj.items()) == list(snap.items())      # order of keys included
        else:
            same = type(obj) is type(snap) and obj == snap
        if not same:
            return f"{kind} argument changed from {snap!r} to {obj!r}"
    return None


def make_items(vals, ids, fmt):
    """returns (items, valueof_or_None, decode) ; decode maps a Python item back to its id"""
    items, valueof, decode = _make_items(vals, ids, fmt)
    _register(fmt, items)
    return items, valueof, decode


def _make_items(vals, ids, fmt):
    if fmt == "list":
        return list(vals), None, lambda x: _int(x)
    if fmt == "tuple":
        return tuple(vals), None, lambda x: _int(x)
    if fmt == "array":
        # the narrowest of a few fixed-width integer types that holds every value, chosen deterministically from the values
        # (repair D12: arithmetic on the elements of an int16 / int32 / uint8 array used to overflow silently)
        dt = np.int64
        if len(vals) and min(vals) >= 0:
            pick = (sum(vals) + len(vals)) % 4
            mx = max(vals)
            if pick == 1 and mx < 2 ** 31:
                dt = np.int32
            elif pick == 2 and mx < 2 ** 15:
                dt = np.int16
            elif pick == 3 and mx < 2 ** 8:
                dt = np.uint8
        return np.array(vals, dtype=dt), None, lambda x: _int(x)
    if fmt in ("list_np", "dict_np"):
        # the values are numpy integer SCALARS (what `list(array)` or a dict built from array elements gives), not Python ints;
        # int64 only, and only where no int64 arithmetic on them can wrap (else plain ints)
        ok = all(isinstance(v, int) and abs(v) < 2 ** 53 for v in vals) and sum(abs(v) for v in vals) < 2 ** 61
        vs = [np.int64(v) for v in vals] if ok else list(vals)
        if fmt == "list_np":
            return vs, None, lambda x: _int(x)
        return {name_str(i): v for i, v in zip(ids, vs)}, None, lambda x: int(x[1:])
    if fmt == "dict_str":
        d = {name_str(i): v for i, v in zip(ids, vals)}
        return d, None, lambda x: int(x[1:])
    if fmt == "dict_int":
        d = {int(i): v for i, v in zip(ids, vals)}
        return d, None, lambda x: _int(x)
    if fmt == "dict_exotic":
        # unusual but legitimate dict keys, one homogeneous family per call: tuples, negative integers, half-integers, strings
        # among which the EMPTY string (a falsy name)
        fam = (int(ids[0]) if len(ids) else 0) % 4
        def nm(j, i):
            if fam == 0:
                return (int(i), "t")
            if fam == 1:
                return -int(i) - 1
            if fam == 2:
                return int(i) + 0.5
            return "" if j == 0 else name_str(i)
        names = [nm(j, i) for j, i in enumerate(ids)]
        back = {n: int(i) for n, i in zip(names, ids)}
        d = {n: v for n, v in zip(names, vals)}
        return d, None, lambda x, back=back: back[x]
    if fmt == "dict_mixed":
        # keys of DIFFERENT types in one dict (str, int, tuple, float): they cannot be compared with each other
        def nm(j, i):
            return [name_str(i), int(i), (int(i), "t"), int(i) + 0.5][j % 4]
        names = [nm(j, i) for j, i in enumerate(ids)]
        back = {n: int(i) for n, i in zip(names, ids)}
        return {n: v for n, v in zip(names, vals)}, None, lambda x, back=back: back[x]
    if fmt == "names_valueof":
        d = _register("valueof-dict", {name_str(i): v for i, v in zip(ids, vals)})
        return [name_str(i) for i in ids], (lambda x, d=d: d[x]), lambda x: int(x[1:])
    if fmt == "dict_valueof":
        # a dict AND an explicit value function: the caller's valueof must win over the dict's own values (decoys in reverse order)
        mx = max([abs(v) for v in vals if isinstance(v, int)] + [0])
        decoy = {name_str(i): (mx - v + 1 if isinstance(v, int) else 0) for i, v in zip(ids, vals)}
        d = _register("valueof-dict", {name_str(i): v for i, v in zip(ids, vals)})
        return decoy, (lambda x, d=d: d[x]), lambda x: int(x[1:])
    if fmt == "records_valueof":
        # UNHASHABLE item objects: [name, value] records (lists) with a value function - some algorithms refuse them (they count items
        # with a Counter); used by the history port only, where a refused call must still leave the caller's list alone
        return [[name_str(i), v] for i, v in zip(ids, vals)], (lambda r: r[1]), lambda r: int(r[0][1:])
    if fmt == "scaled":   # exactly representable fractions: values / 2^j, handled by caller
        raise ValueError("scaled handled by caller")
    raise ValueError(fmt)


def _int(x):
    """exact integer of a Python/numpy number; non-integers are reported as a marker string"""
    if isinstance(x, (bool, np.bool_)):
        return int(x)
    if isinstance(x, (int, np.integer)):
        return int(x)
    f = float(x)
    if math.isinf(f) or math.isnan(f):
        return "nonfinite:" + repr(f)
    if f.is_integer():
        return int(f)
    return "nonint:" + repr(f)


def _num(x, scale=1):
    """exact integer of x*scale (for dyadic-fraction inputs)"""
    f = float(x) * scale
    if f.is_integer():
        return int(f)
    return "nonint:" + repr(f)


def enc_bins(sums, lists, decode, scale=1):
    return [[_num(s, scale), [decode(x) for x in l]] for s, l in zip(list(sums), list(lists))]


def enc_exc(e):
    return {"exc": type(e).__name__}


# ---------------------------------------------------------------- algorithms
PART_ALGOS = {
    "greedy": lambda: prtpy.partitioning.greedy,
    "roundrobin": lambda: prtpy.partitioning.roundrobin,
    "bidir": lambda: mod("prtpy.partitioning.balanced").bidirectional_balanced,
    "multifit": lambda: prtpy.partitioning.multifit,
    "kk": lambda: prtpy.partitioning.kk,
    "cg": lambda: prtpy.partitioning.cg,
    "ckk": lambda: prtpy.partitioning.ckk,
    "snp": lambda: prtpy.partitioning.snp,
    "rnp": lambda: prtpy.partitioning.rnp,
    "dp": lambda: prtpy.partitioning.dp,
    "ilp": lambda: prtpy.partitioning.ilp,
    "cbldm": lambda: prtpy.partitioning.cbldm,
}
PACK_ALGOS = {
    "ff": lambda: mod("prtpy.packing.first_fit").online,
    "ffd": lambda: mod("prtpy.packing.first_fit").decreasing,
    "bf": lambda: mod("prtpy.packing.best_fit").online,
    "bfd": lambda: mod("prtpy.packing.best_fit").decreasing,
    "bc": lambda: mod("prtpy.packing.bin_completion").bin_completion,
    "cover_dec": lambda: prtpy.covering.decreasing,
    "cover_23": lambda: prtpy.covering.twothirds,
    "cover_34": lambda: prtpy.covering.threequarters,
}
OUTTYPES = {
    "pst": lambda: OUT.PartitionAndSumsTuple, "partition": lambda: OUT.Partition,
    "pas": lambda: OUT.PartitionAndSums, "sums": lambda: OUT.Sums,
    "largest": lambda: OUT.LargestSum, "smallest": lambda: OUT.SmallestSum,
    "extreme": lambda: OUT.ExtremeSums, "sorted": lambda: OUT.SortedSums,
    "difference": lambda: OUT.Difference, "bincount": lambda: OUT.BinCount,
}


def objective(o, ok=0):
    return [OBJ.MaximizeSmallestSum, OBJ.MinimizeLargestSum, OBJ.MinimizeDifference,
            None, None][o] if o < 3 else (OBJ.MaximizeKSmallestSums(ok) if o == 3 else OBJ.MinimizeKLargestSums(ok))


def enc_output(outname, res, decode, scale=1):
    """encode the value returned by partition()/pack() for output type outname"""
    if outname == "pst":
        return {"bins": enc_bins(res[0], res[1], decode, scale)}
    if outname == "partition":
        return {"lists": [[decode(x) for x in l] for l in res]}
    if outname == "pas":
        return {"bins": enc_bins(res.sums, res.lists, decode, scale)}
    if outname in ("sums", "sorted"):
        return {"sums": [_num(s, scale) for s in res]}
    if outname in ("largest", "smallest", "difference"):
        return {"num": _num(res, scale)}
    if outname == "extreme":
        return {"sums": [_num(res[0], scale), _num(res[1], scale)]}
    if outname == "bincount":
        return {"num": int(res)}
    raise ValueError(outname)


def kwargs_of(a):
    kw = {}
    if "objective" in a:
        kw["objective"] = objective(*a["objective"])
    if "flags" in a:
        f = a["flags"]
        kw.update(use_lower_bound=bool(f[0]), use_fast_lower_bound=bool(f[1]),
                  use_heuristic_3=bool(f[2]), use_set_of_seen_states=bool(f[3]))
    for key in ("partition_difference", "time_limit", "copies", "weights", "iterations"):
        if key in a:
            kw[key] = a[key]
    return kw


@contextlib.contextmanager
def mip_patch(preprocess_off=False, capture=None):
    """wraps mip.Model.optimize (no source change): optionally switches CBC preprocessing off and/or
    hands the fully built model to `capture` before it is solved"""
    import mip
    orig = mip.Model.optimize

    def opt(self, *a, **kw):
        if preprocess_off:
            self.preprocess = 0
        if capture is not None:
            capture(self)
        return orig(self, *a, **kw)
    mip.Model.optimize = opt
    try:
        yield
    finally:
        mip.Model.optimize = orig


def p_partition(a):
    items, valueof, decode = make_items(a["vals"], a.get("ids", a["vals"]), a["fmt"])
    algo = PART_ALGOS[a["algo"]]()
    kw = kwargs_of(a)
    ctx = silence_fd1() if a["algo"] == "ilp" else contextlib.nullcontext()
    ctx2 = mip_patch(preprocess_off=True) if a.get("preprocess_off") else contextlib.nullcontext()
    with ctx, ctx2:
        res = prtpy.partition(algorithm=algo, numbins=a["k"], items=items, valueof=valueof,
                              outputtype=OUTTYPES[a["out"]](), **kw)
    return enc_output(a["out"], res, decode)


def p_pack(a):
    scale = a.get("scale", 1)          # values are vals/scale, binsize C/scale (scale = 2^j)
    vals = a["vals"]
    if scale != 1:
        assert a["fmt"] in ("list", "dict_str", "names_valueof")
        fvals = [v / scale for v in vals]
        C = a["C"] / scale
    else:
        fvals, C = vals, a["C"]
    if a["fmt"] == "list" and scale != 1:
        items, valueof = list(fvals), None
        decode = lambda x: _num(x, scale)
    else:
        items, valueof, decode = make_items(fvals, a.get("ids", vals), a["fmt"])
    algo = PACK_ALGOS[a["algo"]]()
    res = prtpy.pack(algorithm=algo, binsize=C, items=items, valueof=valueof,
                     outputtype=OUTTYPES[a["out"]]())
    return enc_output(a["out"], res, decode, scale)


# ---------------------------------------------------------------- ILP: formulation capture
def p_ilp_full(a):
    """integer_programming.optimal called directly; mip.Model.optimize is wrapped to capture the formulation
    (normal form of harness/props/c17.py), the solver's answer and, on request, to replace the reported status"""
    import mip
    ipm = mod("prtpy.partitioning.integer_programming")
    items, valueof, decode = algo_items(a)
    items = list(items)
    cap = {}

    def norm(e):
        d = {}
        for v, c in e.expr.items():
            d[v.idx] = d.get(v.idx, 0.0) + c
        return [sorted([i, float(c).hex()] for i, c in d.items() if abs(c) >= 1e-12), float(e.const).hex(), e.sense]

    orig = mip.Model.optimize

    def opt(self, *args, **kw):
        if a.get("preprocess_off"):
            self.preprocess = 0
        cap["form"] = [len(self.vars), norm(self.objective)[:2], [norm(c.expr) for c in self.constrs],
                       bool(self.sense == mip.MINIMIZE), all(v.var_type == mip.INTEGER and v.lb == 0 for v in self.vars)]
        st = orig(self, *args, **kw)
        cap["status"] = st.name
        try:
            cap["x"] = [None if v.x is None else (int(round(v.x)) if abs(v.x - round(v.x)) < 1e-6 else "frac:%r" % v.x) for v in self.vars]
        except Exception:
            cap["x"] = None
        if a.get("force_status"):
            return getattr(mip.OptimizationStatus, a["force_status"])
        return st

    kw = {"objective": objective(*a["objective"])}
    if a.get("copies") is not None:
        kw["copies"] = a["copies"]
    if a.get("weights") is not None:
        kw["weights"] = list(a["weights"])
    if a.get("extras"):
        ex = a["extras"]

        def addc(sums):
            out = []
            for t, c in ex:
                out.append(sums[0] == c if t == 0 else (sums[-1] <= c if t == 1 else sums[0] >= c))
            return out
        kw["additional_constraints"] = addc
    keep = a.get("keep", True)
    mip.Model.optimize = opt
    res = {}
    try:
        with silence_fd1():
            b = ipm.optimal(binner_of(keep, valueof), a["k"], items, **kw)
        res["bins"] = enc_binsarray(b, keep, decode)
    except CaseTimeout:
        raise
    except Exception as e:
        res["exc"] = type(e).__name__
    finally:
        mip.Model.optimize = orig
    res["cap"] = cap
    return res


# ---------------------------------------------------------------- counting clock
class FakeTime:
    """time.perf_counter() replacement: the first call (start time) and the next n calls
    return 0.0, every later call returns a huge value, so the limit test fires at its
    (n+1)-th reading."""
    def __init__(self, n):
        self.n = n
        self.calls = 0

    def perf_counter(self):
        self.calls += 1
        return 0.0 if self.calls <= self.n + 1 else 1e9


def binner_of(keep, valueof=None):
    cls = prtpy.BinnerKeepingContents if keep else prtpy.BinnerKeepingSums
    return cls(valueof) if valueof is not None else cls()


def enc_binsarray(bins, keep, decode):
    if bins is None:
        return None
    if keep:
        return enc_bins(bins[0], bins[1], decode)
    return [[_int(s), []] for s in list(bins)]


def algo_items(a):
    """items for a direct algorithm call (binner, k, items): list of names + valueof"""
    fmt = a.get("fmt", "list")
    items, valueof, decode = make_items(a["vals"], a.get("ids", a["vals"]), fmt)
    if isinstance(items, dict):
        valueof = items.__getitem__
        items = items.keys()
    return items, valueof, decode


def p_cg_clock(a):
    """complete_greedy.anytime called directly with a counting clock; limit < 0: no limit"""
    cgm = mod("prtpy.partitioning.complete_greedy")
    items, valueof, decode = algo_items(a)
    keep = a["keep"]
    kw = kwargs_of(a)
    if "wobjective" in a:      # the weighted objective (no driver model: judged for validity only)
        kw["objective"] = OBJ.MaximizeSmallestWeightedSum(list(a["wobjective"]))
    real = cgm.time
    try:
        if a["limit"] >= 0:
            ft = FakeTime(a["limit"])
            cgm.time = ft
            kw["time_limit"] = 1
        else:
            ft = FakeTime(10 ** 12)
            cgm.time = ft
        b = cgm.anytime(binner_of(keep, valueof), a["k"], items, **kw)
    finally:
        cgm.time = real
    return {"best": enc_binsarray(b, keep, decode), "ticks": ft.calls - 1}


def p_cbldm_clock(a):
    cb = mod("prtpy.partitioning.cbldm")
    items, valueof, decode = algo_items(a)
    real = cb.time
    try:
        if a["limit"] >= 0:
            ft = FakeTime(a["limit"])
            tl = 1
        else:
            ft = FakeTime(10 ** 12)
            tl = np.inf
        cb.time = ft
        r = cb.cbldm(binner_of(a.get("keep", True), valueof), 2, items, time_limit=tl,
                     partition_difference=a["d"])
    finally:
        cb.time = real
    if isinstance(r[0], list) and len(r[0]) == 2 and r[0][1] == math.inf:
        return {"best": None, "ticks": ft.calls - 1}
    return {"best": enc_bins(r[0], r[1], decode), "ticks": ft.calls - 1}


def p_cbldm_args(a):
    """argument validation of cbldm through prtpy.partition"""
    items, valueof, decode = make_items(a["vals"], a.get("ids", a["vals"]), a.get("fmt", "list"))
    kw = {}
    if "time_limit" in a:
        kw["time_limit"] = a["time_limit"]
    if "d" in a:
        kw["partition_difference"] = a["d"] if not a.get("d_float") else float(a["d"]) + a.get("d_frac", 0.0)
    res = prtpy.partition(algorithm=prtpy.partitioning.cbldm, numbins=a["k"], items=items, valueof=valueof,
                          outputtype=OUT.PartitionAndSumsTuple, **kw)
    return {"bins": enc_bins(res[0], res[1], decode)}


def p_ckk_generator(a):
    gen = mod("prtpy.partitioning.complete_karmarkar_karp_sy").generator
    items, valueof, decode = algo_items(a)
    keep = a["keep"]
    kw = {}
    if a.get("best") is not None:
        kw["best_difference_so_far"] = a["best"]
    outl = []
    for part in gen(binner_of(keep, valueof), a["k"], items, **kw):
        if keep:
            outl.append(enc_bins(list(part[0]), [list(l) for l in part[1]], decode))
        else:
            outl.append([[_int(s), []] for s in list(part)])
    return {"yields": outl}


def p_algo_direct(a):
    """algorithm function called with a bins-manager (both managers), exact output"""
    name = a["algo"]
    f = PART_ALGOS[name]() if name in PART_ALGOS else PACK_ALGOS[name]()
    items, valueof, decode = algo_items(a)
    keep = a["keep"]
    kw = kwargs_of(a)
    first = a["k"] if "k" in a else a["C"]
    b = f(binner_of(keep, valueof), first, items, **kw)
    return {"bins": enc_binsarray(b, keep, decode)}


# ---------------------------------------------------------------- component ports
def seq_of(vals, kind):
    if kind == "tuple":
        return tuple(vals)
    if kind == "array":
        return np.array(vals, dtype=np.float64)
    if kind == "intarray":
        return np.array(vals, dtype=np.int64)
    return list(vals)


def p_objective_value(a):
    o = objective(a["o"], a.get("ok", 0))
    return {"num": _int(o.value_to_minimize(seq_of(a["sums"], a.get("kind", "list")),
                                            are_sums_in_ascending_order=bool(a["sorted"])))}


def p_objective_history(a):
    """ONE objective object evaluated on a sequence of sum vectors (of varying lengths): an objective must not remember anything"""
    if "weights" in a:
        # the weighted objective, its weight vector given as a list / tuple / numpy array (exactly representable fractions w / wscale)
        sc = a.get("wscale", 1)
        o = OBJ.MaximizeSmallestWeightedSum(seq_of([w / sc for w in a["weights"]] if sc != 1 else list(a["weights"]), a.get("wkind", "list")))
    else:
        o = objective(a["o"], a.get("ok", 0))
        if "decoy_k" in a:
            # ANOTHER object of the same class with a different k, built after the one under test: objects must not share state
            _other = objective(a["o"], a["decoy_k"])
    out = []
    buf = None      # with "inplace": ONE mutable vector object (list or array), updated in place between the evaluations
    for sums, srt, kind in a["seq"]:
        try:
            if a.get("inplace") and kind in ("list", "array"):
                if buf is None or len(buf) != len(sums) or (kind == "array") != isinstance(buf, np.ndarray):
                    buf = seq_of(sums, kind)
                else:
                    buf[:] = sums
                vec = buf
            else:
                vec = seq_of(sums, kind)
            v = o.value_to_minimize(vec, are_sums_in_ascending_order=bool(srt))
            out.append(float(v).hex() if "weights" in a else _int(v))
        except Exception as e:      # noqa
            out.append("exc:" + type(e).__name__)
    return {"values": out}


def p_weighted_value(a):
    sc = a.get("wscale", 1)       # weights are w/sc (sc a power of two: exactly representable fractions such as 0.25, 0.5, 1.5)
    o = OBJ.MaximizeSmallestWeightedSum([w / sc for w in a["weights"]] if sc != 1 else list(a["weights"]))
    v = o.value_to_minimize(seq_of(a["sums"], a.get("kind", "list")), are_sums_in_ascending_order=bool(a["sorted"]))
    return {"float": float(v).hex()}


def p_lower_bound(a):
    o = objective(a["o"], a.get("ok", 0))
    v = o.lower_bound(seq_of(a["sums"], a.get("kind", "list")), a["R"], are_sums_in_ascending_order=bool(a["sorted"]))
    if v == -np.inf:
        return {"num": None}
    return {"num": _int(v)}


def p_generate_tree(a):
    from prtpy.inclusion_exclusion_tree import InExclusionBinTree
    items, valueof, decode = algo_items(a)
    if valueof is None:
        valueof = lambda x: x
    lb = a["lbn"] / a["lbd"]
    ub = a["ubn"] / a["ubd"]
    t = InExclusionBinTree(items, valueof, upper_bound=ub, lower_bound=lb)
    for n_first in a.get("abandon", []):
        # earlier enumerations of the SAME tree object that are abandoned after n_first results (a consumer that breaks out of its loop,
        # as a search does once it is satisfied): the later, complete enumeration must not depend on them
        g = t.generate_tree()
        for _ in range(n_first):
            if next(g, None) is None:
                break
        g.close()
    return {"subsets": [[decode(x) for x in s] for s in t.generate_tree()]}


def dec_bins_in(b, keep, as_numpy):
    """bins given as [[sum, ids, vals], ...] -> a bins-array for the binner"""
    sums = [float(x[0]) for x in b]
    if as_numpy:
        sums = np.array(sums)
    if keep:
        return (sums, [list(x[1]) for x in b])
    return sums


def p_all_combinations(a):
    keep = a["keep"]
    # items are plain ints (name = value) or names with a valueof dict
    binner = binner_of(keep)
    b1 = dec_bins_in(a["b1"], keep, a.get("numpy", False))
    b2 = dec_bins_in(a["b2"], keep, a.get("numpy", False))
    res = []
    for c in binner.all_combinations(b1, b2):
        if keep:
            res.append([[_int(s), [_int(x) for x in l]] for s, l in zip(c[0], c[1])])
        else:
            res.append([[_int(s), []] for s in c])
    return {"combos": res}


def p_ckk_bound(a):
    ckkm = mod("prtpy.partitioning.complete_karmarkar_karp_sy")
    kkm = mod("prtpy.partitioning.karmarkar_karp_sy")
    binner = prtpy.BinnerKeepingSums()
    h = kkm.BinsSortedByMaxDiff(binner)
    for s in a["heaps"]:
        h.push(np.array(s, dtype=float))
    v = ckkm._possible_partition_difference_lower_bound(h, a["k"])
    if isinstance(v, float) and (math.isnan(v) or math.isinf(v)):
        return {"num": None}
    if isinstance(v, np.floating) and (np.isnan(v) or np.isinf(v)):
        return {"num": None}
    return {"num": _int(v)}


def p_find_diff(a):
    fd = mod("prtpy.partitioning.sequential_number_partitioning_sy").find_diff
    return {"list": [_int(x) for x in fd(list(a["l1"]), list(a["l2"]))]}


def p_bc_util(a):
    u = mod("prtpy.packing.bin_completion_utils")
    f = a["fn"]
    if f == "fbc":
        return {"lists": [list(map(_int, l)) for l in u.find_bin_completions(a["x"], list(a["items"]), a["C"])]}
    if f == "cfd":
        return {"lists": [list(map(_int, l)) for l in u.check_for_dominance([list(l) for l in a["lists"]])]}
    if f == "lb":
        return {"num": _int(u.lower_bound(a["C"], list(a["items"])))}
    if f == "isdom":
        return {"bool": bool(u.is_dominant(list(a["l1"]), list(a["l2"])))}
    if f == "undom":
        return {"lists": [list(map(_int, l)) for l in u.find_undominated_pairs(a["const"], a["y"], list(a["items"]), a["C"])]}
    raise ValueError(f)


def p_bc_trace(a):
    """bin_completion called with a bins-manager; the module attribute find_bin_completions (as imported into
    prtpy.packing.bin_completion) is wrapped to record, in order, (x, remaining items) of every call: the trace of the search"""
    bcm = mod("prtpy.packing.bin_completion")
    real = bcm.find_bin_completions
    tr = []

    def rec(x, items, binsize):
        tr.append([_int(x), [_int(i) for i in items]])
        return real(x, items, binsize)
    bcm.find_bin_completions = rec
    try:
        keep = a.get("keep", True)
        try:
            b = bcm.bin_completion(binner_of(keep), a["C"], list(a["vals"]))
            res = {"bins": enc_binsarray(b, keep, _int)}
        except CaseTimeout:
            raise
        except Exception as e:
            res = {"exc": type(e).__name__}
    finally:
        bcm.find_bin_completions = real
    res["trace"] = tr
    return res


def p_ckk_nodes(a):
    """complete KK (optimal) called with a bins-manager; the module attribute _possible_partition_difference_lower_bound is wrapped to
    count the heaps popped from the search stack (every popped heap is bounded exactly once)"""
    ckkm = mod("prtpy.partitioning.complete_karmarkar_karp_sy")
    real = ckkm._possible_partition_difference_lower_bound
    cnt = [0]

    def rec(heap, numbins):
        cnt[0] += 1
        return real(heap, numbins)
    items, valueof, decode = algo_items(a)
    keep = a.get("keep", True)
    ckkm._possible_partition_difference_lower_bound = rec
    try:
        b = PART_ALGOS["ckk"]()(binner_of(keep, valueof), a["k"], items)
    finally:
        ckkm._possible_partition_difference_lower_bound = real
    return {"num": cnt[0], "bins": enc_binsarray(b, keep, decode)}


def p_snp_trace(a):
    """snp / rnp called with a bins-manager; InExclusionBinTree.generate_tree (a lazy generator method, patched on the CLASS) is wrapped so
    that every sub-collection the consumer pulls is logged (as item values) at the moment it is yielded"""
    from prtpy.inclusion_exclusion_tree import InExclusionBinTree
    orig = InExclusionBinTree.generate_tree
    tr = []

    def traced(self):
        for subset in orig(self):
            tr.append([_int(self.valueof(x)) for x in subset])
            yield subset
    items, valueof, decode = algo_items(a)
    keep = a.get("keep", True)
    InExclusionBinTree.generate_tree = traced
    res = {}
    try:
        try:
            b = PART_ALGOS[a["algo"]]()(binner_of(keep, valueof), a["k"], items)
            res["bins"] = enc_binsarray(b, keep, decode)
        except CaseTimeout:
            raise
        except Exception as e:      # noqa
            res["exc"] = type(e).__name__
    finally:
        InExclusionBinTree.generate_tree = orig
    res["trace"] = tr
    return res


def p_binner_ops(a):
    """executes a sequence of bins-manager operations on the real managers; after every
    operation reports what every handle ever created shows"""
    ops = a["ops"]
    # the item objects handed to the managers: plain integers, or (with "names") equal-length tuples / strings standing for them
    style = a.get("names", "int")
    class _Job:
        # an item object with identity equality (the default for user classes): a copy of it is a DIFFERENT item
        __slots__ = ("tag",)
        def __init__(self, tag):
            self.tag = tag
    _objs, _ids = {}, {}
    def _obj(i):
        if i not in _objs:
            _objs[i] = _Job(i)
            _ids[id(_objs[i])] = i
        return _objs[i]
    enc = {"int": (lambda i: i), "tuple": (lambda i: (i, 0)), "str": (lambda i: name_str(i)), "obj": _obj}[style]
    def dec(x):
        # the recorded item must be the very kind of object that was handed over
        if style == "obj":
            return _ids[id(x)] if id(x) in _ids and _objs[_ids[id(x)]] is x else "corrupt:" + type(x).__name__ + (":copy-of-%r" % getattr(x, "tag", None))
        if style == "tuple":
            return int(x[0]) if isinstance(x, tuple) and len(x) == 2 and x[1] == 0 else "corrupt:" + repr(x)
        if style == "str":
            return int(x[1:]) if isinstance(x, str) else "corrupt:" + repr(x)
        return int(x) if isinstance(x, (int, np.integer)) and not isinstance(x, bool) else "corrupt:" + repr(x)
    vm = {}
    for o in ops:
        if o[0] == 1:
            vm[enc(o[2])] = o[3]
    valueof = lambda x: vm[x]
    bs = {True: prtpy.BinnerKeepingContents(valueof), False: prtpy.BinnerKeepingSums(valueof)}
    handles = []     # (keep, binsarray)

    def show(h):
        keep, b = h
        if keep:
            return [[_int(s), [dec(x) for x in l]] for s, l in zip(list(b[0]), list(b[1]))]
        return [[_int(s), []] for s in list(b)]

    obs = []
    for o in ops:
        t = o[0]
        if t == 0:
            keep = bool(o[1])
            handles.append((keep, bs[keep].new_bins(o[2])))
        elif t == 1:
            keep, b = handles[o[1]]
            bs[keep].add_item_to_bin(b, enc(o[2]), o[4])
        elif t == 2:
            keep, b = handles[o[1]]
            handles.append((keep, bs[keep].copy_bins(b)))
        elif t == 3:
            keep, b = handles[o[1]]
            bs[keep].sort_by_ascending_sum(b)
        elif t == 4:
            keep, b = handles[o[1]]
            handles.append((keep, bs[keep].add_empty_bins(b, o[2])))
        elif t == 5:
            keep, b = handles[o[1]]
            handles.append((keep, bs[keep].remove_bins(b, o[2])))
        elif t == 6:
            keep, b1 = handles[o[1]]
            _, b2 = handles[o[2]]
            handles.append((keep, bs[keep].concatenate_bins(b1, b2)))
        elif t == 7:
            keep, b1 = handles[o[1]]
            _, b2 = handles[o[3]]
            bs[keep].combine_bins(b1, o[2], b2, o[4])
        obs.append([show(h) for h in handles])
    return {"obs": obs}


def p_numitems(a):
    b = binner_of(bool(a["keep"]))
    bins = b.new_bins(a["k"])
    return {"num": int(b.numitems(bins, a["i"]))}


def p_history(a):
    """executes the calls one after the other in THIS interpreter; after each call reports its result and whether
    any argument object handed to prtpy (list, array, dict, the dict behind the value function) was modified"""
    out = []

    def env():
        """process-wide state that a library call has no business changing: numpy's error mode and print options, the recursion
        limit, the states of the global random generators"""
        import random as _r, hashlib as _h
        return {"np.geterr": dict(np.geterr()), "np.printoptions": {k: str(v) for k, v in np.get_printoptions().items()},
                "recursionlimit": sys.getrecursionlimit(),
                "random.state": _h.sha1(repr(_r.getstate()).encode()).hexdigest()[:12],
                "np.random.state": _h.sha1(repr(np.random.get_state()).encode()).hexdigest()[:12]}
    e0 = env()
    for c in a["calls"]:
        del CREATED[:]
        try:
            r = PORTS[c["port"]](c["args"])
        except CaseTimeout:
            raise
        except RecursionError:
            r = {"exc": "RecursionError"}
        except Exception as e:      # noqa
            r = enc_exc(e)
        e1 = env()
        changed = {k: [e0[k], e1[k]] for k in e0 if e0[k] != e1[k]}
        e0 = e1
        out.append({"result": r, "args_changed": unchanged_arguments(), "env_changed": changed or None})
    return {"history": out}


PORTS = {
    "numitems": p_numitems, "ilp_full": p_ilp_full, "history": p_history, "bc_trace": p_bc_trace, "ckk_nodes": p_ckk_nodes, "objective_history": p_objective_history, "snp_trace": p_snp_trace,
    "binner_ops": p_binner_ops,
    "partition": p_partition, "pack": p_pack, "cg_clock": p_cg_clock, "cbldm_clock": p_cbldm_clock,
    "cbldm_args": p_cbldm_args, "ckk_generator": p_ckk_generator, "algo_direct": p_algo_direct,
    "objective_value": p_objective_value, "weighted_value": p_weighted_value, "lower_bound": p_lower_bound,
    "generate_tree": p_generate_tree, "all_combinations": p_all_combinations, "ckk_bound": p_ckk_bound,
    "find_diff": p_find_diff, "bc_util": p_bc_util,
}


def register(name, fn):
    PORTS[name] = fn


def run_case(case, timeout=60):
    """case = {"port": ..., "args": {...}} -> result dict (or {"exc": name})"""
    signal.signal(signal.SIGALRM, _alarm)
    signal.setitimer(signal.ITIMER_REAL, timeout)
    try:
        return PORTS[case["port"]](case["args"])
    except CaseTimeout:
        return {"exc": "Timeout"}
    except RecursionError:
        return {"exc": "RecursionError"}
    except Exception as e:      # noqa
        return enc_exc(e)
    finally:
        signal.setitimer(signal.ITIMER_REAL, 0)
