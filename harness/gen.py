"""Input generators shared by the property modules.  Every random choice comes from the
rng handed in (one PRNG per check, seeded by VERIF_SEED)."""
import itertools

FORMATS = ["list", "array", "tuple", "dict_str", "dict_int", "names_valueof", "dict_exotic", "dict_valueof"]


def ids_for(rng, n):
    """distinct non-negative integer names unrelated to the values"""
    return rng.sample(range(10 ** 7), n)


def values(rng, n=None, family=None, nmax=9, allow_zero=True, vmax=None):
    """returns (vals, family name)"""
    fams = ["small", "medium", "allequal", "twoclusters", "pow2", "onehuge", "big50", "repeats", "nearperfect", "scalednoise"]
    if allow_zero:
        fams += ["zeros", "zeros"]
    family = family or rng.choice(fams)
    if n is None:
        n = rng.randint(1, nmax)
    lo = 0 if allow_zero and family == "zeros" else 1
    if family == "small":
        v = [rng.randint(lo, 5) for _ in range(n)]
    elif family == "medium":
        v = [rng.randint(lo, 60) for _ in range(n)]
    elif family == "allequal":
        x = rng.randint(1, 30)
        v = [x] * n
    elif family == "twoclusters":
        a, b = rng.randint(1, 10), rng.randint(40, 100)
        v = [rng.choice([a, a + 1, b, b - 1]) for _ in range(n)]
    elif family == "pow2":
        v = [2 ** rng.randint(0, 8) for _ in range(n)]
    elif family == "onehuge":
        v = [rng.randint(1, 9) for _ in range(n)]
        v[rng.randrange(n)] = rng.randint(100, 1000)
    elif family == "big50":
        v = [rng.randint(2 ** 40, 2 ** 48) for _ in range(n)]
    elif family == "repeats":
        pool = [rng.randint(1, 20) for _ in range(max(1, n // 3))]
        v = [rng.choice(pool) for _ in range(n)]
    elif family == "nearperfect":
        # a planted perfect partition into 2..4 bins, then maybe one value nudged
        k = rng.randint(2, 4)
        target = rng.randint(10, 60)
        v = []
        for _ in range(k):
            rest = target
            while rest > 0 and len(v) < 14:
                x = rng.randint(1, rest)
                v.append(x)
                rest -= x
        if rng.random() < 0.5 and v:
            v[rng.randrange(len(v))] += rng.choice([1, 2])
        v = v[:max(n, 2)] if n < len(v) else v
    elif family == "scalednoise":
        # large values that differ only in their low digits (a small near-perfect instance times 10^5..10^9 plus noise):
        # float tolerances, relative comparisons and lost low-order digits show up here and nowhere else
        k = rng.randint(2, 4)
        target = rng.randint(6, 20)
        v = []
        for _ in range(k):
            rest = target
            while rest > 0 and len(v) < 12:
                x = rng.randint(1, rest)
                v.append(x)
                rest -= x
        M = rng.choice([10 ** 5, 10 ** 6, 10 ** 7, 10 ** 9])
        v = [x * M + rng.randint(0, 9) for x in v]
        v = v[:max(n, 3)] if n < len(v) else v
    elif family == "zeros":
        v = [rng.choice([0, 0, rng.randint(1, 9)]) for _ in range(n)]
    else:
        raise ValueError(family)
    if vmax is not None:
        v = [min(x, vmax) for x in v]
    rng.shuffle(v)
    return v, family


def layered(rng, k=None):
    """values in LAYERS of k items each (layer j = base_j + the same offsets) plus one small extra: the shape on which the complete
    Karmarkar-Karp search combines two non-singleton partial partitions with tied sums.  Before repair D11 the contents-keeping and
    the sums-only manager explored different trees exactly there: for 4 bins the offsets (0, g, 2g, 2g+h) with 0 < h < g and the
    extra item 2g (e.g. [4,5,7,9,10,10,12,14,15]); for 5 bins three offset pairs found by search.  Returns (k, values)."""
    r = rng.random()
    if k == 4 or (k is None and r < 0.6):
        g = rng.randint(2, 5)
        h = rng.randint(1, g - 1)
        offs = [0, g, 2 * g, 2 * g + h]
        b2 = rng.randint(3, 12)
        b1 = b2 + rng.randint(4, 14)
        vals = [b1 + o for o in offs] + [b2 + o for o in offs] + [2 * g]
        k = 4
    elif k == 5 or (k is None and r < 0.8):
        a, b, e = rng.choice([([1, 2, 3, 4, 5], [2, 3, 5, 5, 6], 3), ([2, 4, 5, 6, 6], [1, 2, 3, 4, 5], 3), ([1, 4, 5, 6, 6], [1, 2, 4, 5, 6], 4)])
        b2 = rng.randint(3, 8)
        b1 = b2 + rng.randint(4, 11)
        vals = [b1 + x for x in a] + [b2 + x for x in b] + [e]
        k = 5
    else:
        k = k or rng.choice([3, 4, 5])
        offs = sorted(rng.randint(0, 7) for _ in range(k))
        b2 = rng.randint(3, 9)
        b1 = b2 + rng.randint(4, 12)
        vals = [b1 + o for o in offs] + [b2 + o + rng.choice([0, 0, 1]) for o in offs] + [rng.randint(1, 8) for _ in range(rng.choice([0, 1, 1]))]
    rng.shuffle(vals)
    return k, vals


def small_lists(alphabet, maxlen, minlen=1):
    for n in range(minlen, maxlen + 1):
        for t in itertools.product(alphabet, repeat=n):
            yield list(t)


def small_multisets(alphabet, maxlen, minlen=1):
    for n in range(minlen, maxlen + 1):
        for t in itertools.combinations_with_replacement(alphabet, n):
            yield list(t)


def with_format(rng, vals, fmt=None):
    """params fragment {vals, ids, fmt}"""
    fmt = fmt or rng.choice(FORMATS)
    if fmt in ("list", "array", "tuple"):
        return {"vals": list(vals), "fmt": fmt}
    return {"vals": list(vals), "ids": ids_for(rng, len(vals)), "fmt": fmt}


def packing_instance(rng, nmax=9, family=None):
    """(C, vals, family) with 0 <= v <= C"""
    fams = ["random", "thresholds", "exactfill", "allsmall", "allbig", "zeros", "perfect", "scalednoise"]
    family = family or rng.choice(fams)
    C = rng.choice([6, 9, 10, 12, 20, 30, 60, 100, 1000])
    n = rng.randint(1, nmax)
    if family == "scalednoise":
        # a small instance with exact fills, times 10^5..10^8, every number nudged by a few units: sums that were exactly C are now
        # C-3..C+3 - relative differences of 1e-5..1e-8, where a float tolerance or a rounded threshold gives a different answer
        C0, v0, _ = packing_instance(rng, nmax=nmax, family=rng.choice(["exactfill", "perfect", "thresholds"]))
        M = rng.choice([10 ** 5, 10 ** 6, 10 ** 7, 10 ** 8])
        C = C0 * M + rng.randint(-2, 2)
        v = [min(C, max(1, x * M + rng.randint(-3, 3))) if x > 0 else 0 for x in v0]
        return C, v, family
    if family == "random":
        v = [rng.randint(1, C) for _ in range(n)]
    elif family == "thresholds":
        cands = [C // 2, C // 2 + 1, max(1, C // 2 - 1), C // 3, C // 3 + 1, max(1, C // 3 - 1), C, 1, max(1, C - 1), (2 * C) // 3]
        v = [rng.choice(cands) for _ in range(n)]
    elif family == "exactfill":
        v = []
        while len(v) < n:
            rest = C
            while rest > 0 and len(v) < n:
                x = rng.randint(1, rest)
                v.append(x)
                rest -= x
    elif family == "allsmall":
        v = [rng.randint(1, max(1, C // 4)) for _ in range(n)]
    elif family == "allbig":
        v = [rng.randint(C // 2 + 1, C) for _ in range(n)]
    elif family == "zeros":
        v = [rng.choice([0, rng.randint(1, C)]) for _ in range(n)]
    elif family == "perfect":
        m = rng.randint(1, 4)
        v = []
        for _ in range(m):
            rest = C
            parts = rng.randint(1, 4)
            for j in range(parts - 1):
                if rest <= 1:
                    break
                x = rng.randint(1, rest - 1)
                v.append(x)
                rest -= x
            v.append(rest)
    rng.shuffle(v)
    return C, v, family


def covering_instance(rng, nmax=10, family=None):
    """(C, vals, family) with positive values (items larger than C allowed)"""
    fams = ["random", "thresholds", "allsmall", "allbig", "oversize", "toosmall", "planted", "scalednoise"]
    family = family or rng.choice(fams)
    C = rng.choice([6, 7, 9, 9, 10, 12, 15, 20, 21, 25, 30, 60, 99, 100, 1000, 1001])     # odd sizes too: C/2 and C/3 are then not integers
    n = rng.randint(1, nmax)
    if family == "scalednoise":
        C0, v0, _ = covering_instance(rng, nmax=nmax, family=rng.choice(["planted", "thresholds", "random"]))
        M = rng.choice([10 ** 5, 10 ** 6, 10 ** 7, 10 ** 8])
        C = C0 * M + rng.randint(-2, 2)
        v = [max(1, x * M + rng.randint(-3, 3)) for x in v0]
        return C, v, family
    if family == "random":
        v = [rng.randint(1, C) for _ in range(n)]
    elif family == "thresholds":
        cands = [C // 2, C // 2 + 1, max(1, C // 2 - 1), max(1, C // 3), C // 3 + 1, max(1, C // 3 - 1), C, 1, 2, max(1, C - 1)]
        v = [rng.choice(cands) for _ in range(n)]
    elif family == "allsmall":
        v = [rng.randint(1, max(1, C // 3 - 1)) for _ in range(n)]
    elif family == "allbig":
        v = [rng.randint((C + 1) // 2, C) for _ in range(n)]
    elif family == "oversize":
        v = [rng.randint(1, 2 * C) for _ in range(n)]
    elif family == "toosmall":
        v = [1] * rng.randint(1, max(1, min(n, C - 1)))
    elif family == "planted":
        m = rng.randint(1, 3)
        v = []
        for _ in range(m):
            rest = C
            for j in range(rng.randint(0, 3)):
                if rest <= 1:
                    break
                x = rng.randint(1, rest - 1)
                v.append(x)
                rest -= x
            v.append(rest)
    rng.shuffle(v)
    return C, v, family
