"""Writes /verif/evidence/<id>.json (schema: /root/.vp/EVIDENCE.schema.json) from what the run actually did."""
import os, json, collections, hashlib

VERIF = os.path.dirname(os.path.dirname(os.path.abspath(__file__)))

TRUSTED_BASE = [
    "Coq 8.16.1 kernel (coqc); vm_compute only inside Example/witness lemmas; no native_compute",
    "axioms reported by Print Assumptions for every property theorem: listed under coverage.axioms (goal: none)",
    "hand-written Gallina model of prtpy (coq/theories/Model): tied to /repo only by this differential correspondence check",
    "extraction with ExtrOcamlBasic only (bool, option, list, prod, unit, sumbool); Z/positive/nat stay inductive; ocamlfind ocamlopt 4.13.1",
    "OCaml driver glue (ocaml/driver.ml): line parser, int<->Z conversion, printers",
    "Python harness: generators, canonical forms, port adapters (harness/*.py), counting clock, mip.Model capture",
    "CPython 3.12 / numpy: float64 exact on integers below 2^53, stable sorted(), first-minimum min(); assumption floor_fl_div (DESIGN 3.1)",
]


def size_bucket(n):
    for b in (0, 1, 2, 3, 5, 8, 12, 20, 50, 100, 1000):
        if n <= b:
            return f"<={b}"
    return ">1000"


def write(pid, tier, seed, prop, us, oc, coq, violations, known_lines, wall, extra, cum=None):
    fam = collections.Counter(u.get("family", u["kind"]) for u in us)
    kinds = collections.Counter(u["kind"] for u in us)
    sizes = collections.Counter(size_bucket(len(u["params"].get("vals", u["params"].get("sums", u["params"].get("items", []))))) for u in us)
    ks = collections.Counter(str(u["params"].get("k", u["params"].get("C", "-")))[:6] for u in us)
    errs = collections.Counter((r.get("exc") if isinstance(r, dict) else None) or "ok" for r in oc.impl)
    nontriv = set()
    for i, u in enumerate(us):
        try:
            if prop.nontrivial(u, oc.impl[i], oc.model[i]):
                nontriv.add(hashlib.sha1(json.dumps([u["kind"], u["params"]], sort_keys=True).encode()).hexdigest())
        except Exception:
            pass
    samples = []
    step = max(1, len(us) // 6)
    for i in range(0, len(us), step):
        samples.append({"unit": {"kind": us[i]["kind"], "family": us[i].get("family"), "params": us[i]["params"]},
                        "impl_output": oc.impl[i], "model_output": oc.model[i]})
        if len(samples) >= 6:
            break
    for t in coq.get("theorems", [])[:3]:
        samples.append({"obligation": f"Theorem {t} in coq/theories/Properties/{pid}.v", "axioms": coq.get("axioms", {}).get(t, [])})
    level = getattr(prop, "LEVEL", "proof")
    data = {
        "property_id": pid, "tier": tier, "seed": seed, "level": level,
        "coverage": {
            "obligations": coq.get("obligations", 0), "discharged": coq.get("discharged", 0),
            "checker_cmd": f"/verif/build.sh all && cd /verif/coq && coqc -Q theories Prtpy theories/Properties/{pid}.v",
            "trusted_base": TRUSTED_BASE + list(getattr(prop, "EXTRA_TRUSTED", [])),
            "theorems": coq.get("theorems", []), "axioms": coq.get("axioms", {}),
            "open_statements": list(getattr(prop, "OPEN_STATEMENTS", [])),
            "evaluations": len(us) + sum(x.get("evaluations", 0) for x in extra if isinstance(x, dict)),
            "distinct_nontrivial": len(nontriv),
            "rule": getattr(prop, "RULE", ""),
            "samples": samples,
            "ports": dict(kinds), "families": dict(fam), "input_sizes": dict(sizes), "k_or_C": dict(ks.most_common(12)),
            "impl_result_kinds": dict(errs),
            "correspondence_disagreements": len(oc.mismatch), "judged_failures": len(oc.judged),
            "disagreements_checked": len([u for u in us if u.get("cmp") is not None]),
            "known_findings_reported": sorted(set(known_lines)),
            "timing": getattr(oc, "times", {}), "coq_s": coq.get("coq_s"),
            "vm_compute_cross_check": getattr(oc, "vm", None),
            "anchored_statement_coverage": {f: (f"{a}/{b} ({100 * a // b}%)" if b else "n/a") for f, (a, b) in getattr(oc, "anchor_coverage", {}).items() if isinstance(getattr(oc, "anchor_coverage", {}).get(f), list)},
            "prtpy_under_test": os.environ.get("PRTPY_REPO", "/repo"),
            "explanation": getattr(prop, "EXPLANATION", ""),
        },
        "assumptions": list(getattr(prop, "ASSUMPTIONS", [])),
        "wall_s": round(wall, 2),
        "violations": len(violations),
    }
    if cum and cum.get("rounds", 1) > 1:
        # thorough tier: several rounds with fresh sub-seeds; samples/ports/histograms above describe the LAST round, these the whole run
        data["coverage"]["rounds"] = cum["rounds"]
        data["coverage"]["evaluations"] = cum["evaluations"]
        data["coverage"]["distinct_nontrivial"] = len(cum["nontrivial"])
        data["coverage"]["families"] = cum["families"]
        data["coverage"]["correspondence_disagreements"] = cum["mismatch"]
        data["coverage"]["judged_failures"] = cum["judged"]
        data["coverage"]["vm_compute_cross_checked_total"] = cum["vm_checked"]
    if hasattr(prop, "extra_evidence"):
        data["coverage"].update(prop.extra_evidence())
    # evidence/ describes runs against /repo itself; runs against another tree (PRTPY_REPO, used for seeded changes) go elsewhere
    edir = os.path.join(VERIF, "evidence") if os.path.realpath(os.environ.get("PRTPY_REPO", "/repo")) == "/repo" else os.path.join(VERIF, "work", "evidence_other_tree")
    os.makedirs(edir, exist_ok=True)
    path = os.path.join(edir, pid + ".json")
    with open(path, "w") as f:
        json.dump(data, f, indent=1, sort_keys=True, default=str)
    return path
