(* Line-protocol driver around the extracted Gallina model.
   One request per line:  <cmd> <nested list of ints>
   One reply per line:    a JSON value (ints, lists, strings, null).
   Trusted glue: parsing, int<->Z/nat conversion, printing.  No model logic here. *)
open BinNums
open Datatypes

(* ---------- conversions ---------- *)
let rec pos_of_int (n : int) : positive =
  if n = 1 then Coq_xH
  else if n land 1 = 0 then Coq_xO (pos_of_int (n lsr 1))
  else Coq_xI (pos_of_int (n lsr 1))
let z_of_int (n : int) : coq_Z =
  if n = 0 then Z0 else if n > 0 then Zpos (pos_of_int n) else Zneg (pos_of_int (-n))
let rec int_of_pos (p : positive) : int =
  match p with Coq_xH -> 1 | Coq_xO q -> 2 * int_of_pos q | Coq_xI q -> 2 * int_of_pos q + 1
let int_of_z (z : coq_Z) : int =
  match z with Z0 -> 0 | Zpos p -> int_of_pos p | Zneg p -> - (int_of_pos p)
(* arbitrary precision: decimal strings <-> Z, through the extracted BinInt.Z operations (native ints hold 62 bits only) *)
let z_of_decimal (t : string) : coq_Z =
  let neg = Stdlib.String.length t > 0 && t.[0] = '-' in
  let ten = z_of_int 10 in
  let acc = ref Z0 in
  Stdlib.String.iteri (fun i c -> if not (i = 0 && neg) then
    acc := BinInt.Z.add (BinInt.Z.mul !acc ten) (z_of_int (Stdlib.Char.code c - 48))) t;
  if neg then BinInt.Z.opp !acc else !acc
let rec pos_bits (p : positive) : int = match p with Coq_xH -> 1 | Coq_xO q | Coq_xI q -> 1 + pos_bits q
let decimal_of_z (z : coq_Z) : string =
  let small p = pos_bits p <= 60 in
  match z with
  | Z0 -> "0"
  | Zpos p when small p -> string_of_int (int_of_pos p)
  | Zneg p when small p -> string_of_int (- (int_of_pos p))
  | _ ->
    let neg = (match z with Zneg _ -> true | _ -> false) in
    let chunk = z_of_int 1000000000000000 in      (* 10^15 *)
    let rec go (a : coq_Z) (acc : string list) : string list =
      if a = Z0 then acc else
      let (q, r) = BinInt.Z.div_eucl a chunk in
      let d = string_of_int (int_of_z r) in
      if q = Z0 then d :: acc else go q ((Stdlib.String.make (15 - Stdlib.String.length d) '0' ^ d) :: acc) in
    (if neg then "-" else "") ^ Stdlib.String.concat "" (go (BinInt.Z.abs z) [])
let rec nat_of_int (n : int) : nat = if n <= 0 then O else S (nat_of_int (n - 1))
let int_of_nat (n : nat) : int =
  let rec go acc = function O -> acc | S m -> go (acc + 1) m in go 0 n

(* ---------- input values ---------- *)
type v = I of int | B of string | L of v list      (* B: a decimal integer too long for a native int *)

exception Parse of string

let parse (s : string) : v =
  let n = Stdlib.String.length s in
  let pos = ref 0 in
  let peek () = if !pos < n then s.[!pos] else '\000' in
  let skip () = while !pos < n && (s.[!pos] = ' ' || s.[!pos] = '\t') do incr pos done in
  let rec value () : v =
    skip ();
    match peek () with
    | '[' ->
        incr pos; skip ();
        if peek () = ']' then (incr pos; L [])
        else begin
          let items = ref [ value () ] in
          skip ();
          while peek () = ',' do incr pos; items := value () :: !items; skip () done;
          if peek () <> ']' then raise (Parse "expected ]");
          incr pos; L (Stdlib.List.rev !items)
        end
    | c when c = '-' || (c >= '0' && c <= '9') ->
        let start = !pos in
        incr pos;
        while !pos < n && s.[!pos] >= '0' && s.[!pos] <= '9' do incr pos done;
        let tok = Stdlib.String.sub s start (!pos - start) in
        if Stdlib.String.length tok <= 18 then I (int_of_string tok) else B tok
    | _ -> raise (Parse ("unexpected char at " ^ string_of_int !pos))
  in
  let r = value () in r

let int_ = function I n -> n | B _ -> raise (Parse "native int expected") | L _ -> raise (Parse "int expected")
let list_ = function L l -> l | I _ | B _ -> raise (Parse "list expected")
let bool_ x = int_ x <> 0
let zval = function I n -> z_of_int n | B t -> z_of_decimal t | L _ -> raise (Parse "int expected")
let zlist x = Stdlib.List.map zval (list_ x)
let zlistlist x = Stdlib.List.map zlist (list_ x)
let z_ x = zval x
let nat_ x = nat_of_int (int_ x)
let items names values : (coq_Z * coq_Z) list =
  Stdlib.List.map2 (fun a b -> (zval a, zval b)) (list_ names) (list_ values)
(* bins given as [[sum, names, values], ...] *)
let bins_in x : (coq_Z * coq_Z) Binner.bins =
  Stdlib.List.map (fun b -> match list_ b with
      | [s; ns; vs] -> (z_ s, items ns vs)
      | _ -> raise (Parse "bin expected")) (list_ x)
let optnat x = let n = int_ x in if n < 0 then None else Some (nat_of_int n)
let optz x = match x with L [] -> None | L [y] -> Some (z_ y) | _ -> raise (Parse "optz")

(* ---------- output ---------- *)
let pz z = decimal_of_z z
let pnat n = string_of_int (int_of_nat n)
let plist f l = "[" ^ Stdlib.String.concat "," (Stdlib.List.map f l) ^ "]"
let pitem (x : coq_Z * coq_Z) = pz (fst x)          (* items are printed by name *)
let pbin (b : (coq_Z * coq_Z) Binner.bin) = "[" ^ pz (fst b) ^ "," ^ plist pitem (snd b) ^ "]"
let pbins b = plist pbin b
let pzbin (b : coq_Z Binner.bin) = "[" ^ pz (fst b) ^ "," ^ plist pz (snd b) ^ "]"
let pzbins b = plist pzbin b
let perr (e : Prelude.err) = match e with
  | Prelude.ValueError -> "ValueError" | Prelude.TypeError -> "TypeError"
  | Prelude.IndexError -> "IndexError" | Prelude.NotImplementedError -> "NotImplementedError"
  | Prelude.ZeroDivisionError -> "ZeroDivisionError" | Prelude.OtherError -> "OtherError"
let pres f (r : 'a Prelude.result) = match r with
  | Prelude.Ok x -> "{\"ok\":" ^ f x ^ "}"
  | Prelude.Err e -> "{\"err\":\"" ^ perr e ^ "\"}"
let popt f = function None -> "null" | Some x -> f x
let pbool b = if b then "true" else "false"

let vof = Extract.vof
let nof = Extract.nof

let objective o kk : Objectives.objective =
  match o with
  | 0 -> Objectives.MaxSmallest | 1 -> Objectives.MinLargest | 2 -> Objectives.MinDiff
  | 3 -> Objectives.MaxKSmallest (nat_of_int kk) | 4 -> Objectives.MinKLargest (nat_of_int kk)
  | _ -> raise (Parse "objective")

let op_of (x : v) : (coq_Z * coq_Z) BinnerHeap.op =
  match list_ x with
  | [I 0; keep; n] -> BinnerHeap.OpNew (bool_ keep, nat_ n)
  | [I 1; h; nm; vl; i] -> BinnerHeap.OpAdd (nat_ h, (z_ nm, z_ vl), nat_ i)
  | [I 2; h] -> BinnerHeap.OpCopy (nat_ h)
  | [I 3; h] -> BinnerHeap.OpSort (nat_ h)
  | [I 4; h; n] -> BinnerHeap.OpAddEmpty (nat_ h, nat_ n)
  | [I 5; h; n] -> BinnerHeap.OpRemove (nat_ h, nat_ n)
  | [I 6; h1; h2] -> BinnerHeap.OpConcat (nat_ h1, nat_ h2)
  | [I 7; h1; i1; h2; i2] -> BinnerHeap.OpCombine (nat_ h1, nat_ i1, nat_ h2, nat_ i2)
  | _ -> raise (Parse "op expected")

let run (cmd : string) (a : v list) : string =
  match cmd, a with
  | "greedy", [keep; k; ns; vs] -> pbins (Greedy.greedy vof (bool_ keep) (nat_ k) (items ns vs))
  | "roundrobin", [keep; k; ns; vs] -> pbins (Greedy.roundrobin vof (bool_ keep) (nat_ k) (items ns vs))
  | "bidir", [keep; k; ns; vs] -> pbins (Balanced.bidirectional_balanced vof (bool_ keep) (nat_ k) (items ns vs))
  | "ff", [keep; c; ns; vs] -> pres pbins (Packing.first_fit vof (bool_ keep) (z_ c) (items ns vs))
  | "ffd", [keep; c; ns; vs] -> pres pbins (Packing.first_fit_decreasing vof (bool_ keep) (z_ c) (items ns vs))
  | "bf", [keep; c; ns; vs] -> pres pbins (Packing.best_fit vof (bool_ keep) (z_ c) (items ns vs))
  | "bfd", [keep; c; ns; vs] -> pres pbins (Packing.best_fit_decreasing vof (bool_ keep) (z_ c) (items ns vs))
  | "cover_dec", [keep; c; ns; vs] -> pbins (Covering.cover_decreasing vof (bool_ keep) (z_ c) (items ns vs))
  | "cover_23", [keep; c; ns; vs] -> pbins (Covering.cover_twothirds vof (bool_ keep) (z_ c) (items ns vs))
  | "cover_34", [keep; c; ns; vs] -> pbins (Covering.cover_threequarters vof (bool_ keep) (z_ c) (items ns vs))
  | "multifit", [keep; it; k; ns; vs] -> pres pbins (Multifit.multifit vof (bool_ keep) (nat_ it) (nat_ k) (items ns vs))
  | "multifit_trace", [it; k; vs] ->
      pres (fun (tr, cap) ->
          "[" ^ plist (fun ((m, e), n) -> "[" ^ pz m ^ "," ^ pz e ^ "," ^ pnat n ^ "]") tr ^ ",[" ^ pz (fst cap) ^ "," ^ pz (snd cap) ^ "]]")
        (Multifit.multifit_trace (nat_ it) (nat_ k) (zlist vs))
  (* ---- output types: the documented function of the list of sums ---- *)
  | "derive", [o; s] ->
      let ot = match int_ o with
        | 0 -> Output.OSums | 1 -> Output.OLargest | 2 -> Output.OSmallest | 3 -> Output.OExtreme
        | 4 -> Output.OSorted | 5 -> Output.ODifference | 6 -> Output.OBinCount | _ -> raise (Parse "outtype") in
      (match (Output.derive ot (zlist s) : (coq_Z * coq_Z) Output.output) with
       | Output.OutSums l -> "{\"sums\":" ^ plist pz l ^ "}"
       | Output.OutNum z -> "{\"num\":" ^ pz z ^ "}"
       | Output.OutPair (lo, hi) -> "{\"sums\":[" ^ pz lo ^ "," ^ pz hi ^ "]}"
       | Output.OutCount n -> "{\"num\":" ^ pnat n ^ "}"
       | _ -> raise (Parse "derive"))
  (* ---- ILP: formulation handed to the solver, decoding of its answer ---- *)
  | "ilp_formulate", [vs; k; copies; ws; o; ok; extras] ->
      let ex = Stdlib.List.map (fun e -> match list_ e with
          | [I 0; c] -> ILP.SmallestEq (z_ c) | [I 1; c] -> ILP.LargestLe (z_ c) | [I 2; c] -> ILP.SmallestGe (z_ c)
          | _ -> raise (Parse "extra")) (list_ extras) in
      let ((nv, obj), cons) = ILP.normalize (ILP.formulate (zlist vs) (nat_ k) (zlist copies) (zlist ws) (objective (int_ o) (int_ ok)) ex) in
      let prat (n, d) = "[" ^ pz n ^ "," ^ pz d ^ "]" in
      let pexpr (ts, c) = "[" ^ plist (fun (v, r) -> "[" ^ pnat v ^ "," ^ prat r ^ "]") ts ^ "," ^ prat c ^ "]" in
      let psense = function ILP.SLe -> "\"<\"" | ILP.SGe -> "\">\"" | ILP.SEq -> "\"=\"" in
      "[" ^ pnat nv ^ "," ^ pexpr obj ^ "," ^ plist (fun (e, sn) -> "[" ^ pexpr e ^ "," ^ psense sn ^ "]") cons ^ "]"
  | "ilp_decode", [keep; k; ns; vs; ws; asg] ->
      pbins (ILP.decode vof (bool_ keep) (nat_ k) (items ns vs) (zlist ws) (zlist asg))
  | "ilp_run", [keep; o; ok; k; ns; vs; copies; ws; answer] ->
      let ans = match answer with L [] -> None | L [a] -> Some (zlist a) | _ -> raise (Parse "answer") in
      pres pbins (ILP.ilp vof (bool_ keep) ans (objective (int_ o) (int_ ok)) (nat_ k) (items ns vs) (zlist copies) (zlist ws))
  | "ilp_feasible", [vs; k; copies; ws; extras; asg] ->
      let ex = Stdlib.List.map (fun e -> match list_ e with
          | [I 0; c] -> ILP.SmallestEq (z_ c) | [I 1; c] -> ILP.LargestLe (z_ c) | [I 2; c] -> ILP.SmallestGe (z_ c)
          | _ -> raise (Parse "extra")) (list_ extras) in
      pbool (ILP.feasible_b (zlist vs) (nat_ k) (zlist copies) (zlist ws) ex (zlist asg))
  | "ilp_objective", [vs; k; ws; o; ok; asg] ->
      let (n, d) = ILP.objective_value (zlist vs) (nat_ k) (zlist ws) (objective (int_ o) (int_ ok)) (zlist asg) in
      "[" ^ pz n ^ "," ^ pz d ^ "]"
  | "kk", [keep; k; ns; vs] -> pres pbins (KK.kk vof (bool_ keep) (nat_ k) (items ns vs))
  | "ckk", [keep; k; ns; vs] -> pres pbins (KK.ckk vof nof (bool_ keep) (nat_ k) (items ns vs))
  | "ckk_nodes", [keep; k; ns; vs] ->
      pnat (KK.ckk_run vof nof (bool_ keep) true None (nat_ k) (items ns vs)).KK.ckk_nodes
  | "ckkgen", [keep; k; ns; vs; best] ->
      plist pbins (KK.ckk_generator vof nof (bool_ keep) (nat_ k) (items ns vs) (optz best))
  | "allcomb", [keep; b1; b2] -> plist pbins (KK.all_combinations nof (bool_ keep) (bins_in b1) (bins_in b2))
  | "ckkbound", [k; heaps] ->
      let h = Stdlib.List.map (fun s -> (Z0, Stdlib.List.map (fun x -> (x, ([] : (coq_Z * coq_Z) list))) (zlist s))) (list_ heaps) in
      popt pz (KK.ckk_bound (nat_ k) h)
  | "snp", [keep; k; ns; vs] -> pres pbins (SNP.snp vof nof (bool_ keep) (nat_ k) (items ns vs))
  | "rnp", [keep; k; ns; vs] -> pres pbins (SNP.rnp vof nof (bool_ keep) (nat_ k) (items ns vs))
  | "snp_trace", [keep; k; ns; vs] ->
      let (r, tr) = SNPTrace.snp_tr vof nof (bool_ keep) (nat_ k) (items ns vs) in
      "[" ^ pres pbins r ^ "," ^ plist (plist pz) tr ^ "]"
  | "rnp_trace", [keep; k; ns; vs] ->
      let (r, tr) = SNPTrace.rnp_tr vof nof (bool_ keep) (nat_ k) (items ns vs) in
      "[" ^ pres pbins r ^ "," ^ plist (plist pz) tr ^ "]"
  | "finddiff", [n1; v1; n2; v2] -> plist pitem (SNP.find_diff nof (items n1 v1) (items n2 v2))
  | "cg", [keep; o; ok; f1; f2; f3; f4; limit; k; ns; vs] ->
      let flags = { CG.use_lower_bound = bool_ f1; CG.use_fast_lower_bound = bool_ f2;
                    CG.use_heuristic_3 = bool_ f3; CG.use_set_of_seen_states = bool_ f4 } in
      let st = CG.cg_run vof (bool_ keep) (objective (int_ o) (int_ ok)) flags (optnat limit) (nat_ k) (items ns vs) in
      "[" ^ popt pbins st.CG.cg_best ^ "," ^ pnat st.CG.cg_ticks ^ "," ^ popt pbins st.CG.cg_first ^ "]"
  | "dp", [keep; o; ok; k; ns; vs] ->
      pres pbins (DP.dp vof (bool_ keep) (objective (int_ o) (int_ ok)) (nat_ k) (items ns vs))
  | "cbldm", [k; ns; vs; tlpos; d; disint; limit] ->
      pres (fun (o, t) -> "[" ^ (match o with CBLDM.CbPlaceholder -> "null" | CBLDM.CbBins b -> pbins b) ^ "," ^ pnat t ^ "]")
        (CBLDM.cbldm vof (nat_ k) (items ns vs) (bool_ tlpos) (z_ d) (bool_ disint) (optnat limit))
  | "inex", [lbn; lbd; ubn; ubd; ns; vs] ->
      plist (plist pitem) (InExTree.generate_tree vof (z_ lbn, z_ lbd) (z_ ubn, z_ ubd) (items ns vs))
  | "bc", [keep; c; fuel; vs] -> pres pzbins (BinCompletion.bin_completion (bool_ keep) (z_ c) (nat_ fuel) (zlist vs))
  | "bcn", [keep; c; fuel; ns; vs] ->
      pres pbins (BinCompletionNamed.bin_completion_named vof (bool_ keep) (z_ c) (nat_ fuel) (items ns vs))
  | "bc_trace", [keep; c; fuel; vs] ->
      let (r, tr) = BinCompletionTrace.bin_completion_tr (bool_ keep) (z_ c) (nat_ fuel) (zlist vs) in
      "[" ^ pres pzbins r ^ "," ^ plist (fun (x, its) -> "[" ^ pz x ^ "," ^ plist pz its ^ "]") tr ^ "]"
  | "fbc", [x; its; c] -> plist (plist pz) (BinCompletion.find_bin_completions (z_ x) (zlist its) (z_ c))
  | "cfd", [ls] -> plist (plist pz) (BinCompletion.check_for_dominance (zlistlist ls))
  | "isdom", [l1; l2] -> pbool (BinCompletion.is_dominant (zlist l1) (zlist l2))
  | "undom", [const; y; its; c] ->
      let l = zlist its in
      plist (plist pz) (BinCompletion.undominated_pairs (nat_of_int (Stdlib.List.length l)) (z_ const) (z_ y) (z_ c) l)
  | "value", [o; ok; s; sorted] -> pz (Objectives.value (objective (int_ o) (int_ ok)) (zlist s) (bool_ sorted))
  | "lb", [o; ok; s; r; sorted] ->
      popt pz (Objectives.lower_bound (objective (int_ o) (int_ ok)) (zlist s) (z_ r) (bool_ sorted))
  | "wvalue", [ws; s; sorted] ->
      pres (fun (n, d) -> "[" ^ pz n ^ "," ^ pz d ^ "]") (Objectives.value_weighted (zlist ws) (zlist s) (bool_ sorted))
  (* ---- verified oracles and checkers ---- *)
  | "reach", [k; vs] -> plist (plist pz) (Reach.reach (nat_ k) (zlist vs))
  | "reach_count", [k; vs] -> string_of_int (Stdlib.List.length (Reach.reach (nat_ k) (zlist vs)))
  | "opt_value", [o; ok; k; vs] -> popt pz (Reach.opt_value (objective (int_ o) (int_ ok)) (nat_ k) (zlist vs))
  | "min_bins", [c; vs] -> pnat (Reach.min_bins (z_ c) (zlist vs))
  | "max_cover", [c; vs] -> pnat (Reach.max_cover (z_ c) (zlist vs))
  | "opt_balanced2", [d; vs] -> popt pz (Reach.opt_balanced2 (z_ d) (zlist vs))
  | "reach_unsorted", [k; vs] -> plist (plist pz) (Reach.reach_unsorted (nat_ k) (zlist vs))
  | "chk_partition", [k; ns; vs; b] -> pbool (Checkers.is_partition_b (nat_ k) (items ns vs) (bins_in b))
  | "chk_packing", [c; ns; vs; b] -> pbool (Checkers.is_packing_b (z_ c) (items ns vs) (bins_in b))
  | "chk_nonempty", [b] -> pbool (Checkers.nonempty_b (bins_in b))
  | "chk_cover", [c; ns; vs; b] -> popt pz (Checkers.is_cover_b (z_ c) (items ns vs) (bins_in b))
  | "chk_anyfit", [c; b] -> pbool (Checkers.anyfit_b (z_ c) (bins_in b))
  | "chk_ascending", [s] -> pbool (Checkers.ascending_b (zlist s))
  | "chk_wf", [b] -> pbool (Checkers.wf_b (bins_in b))
  (* ---- bins-manager operation sequences (C16) ---- *)
  | "numitems", [keep; k; i] ->
      pres pnat (Binner.numitems (bool_ keep) (Binner.new_bins (nat_ k) : (coq_Z * coq_Z) Binner.bins) (nat_ i))
  | "heap_run", [ops] ->
      let ops = Stdlib.List.map op_of (list_ ops) in
      let st = ref BinnerHeap.empty_state in
      let obs = Stdlib.List.map (fun o -> st := BinnerHeap.step vof !st o; plist pbins (BinnerHeap.observe !st)) ops in
      "[" ^ Stdlib.String.concat "," obs ^ "]"
  | "pure_run", [ops] ->
      let ops = Stdlib.List.map op_of (list_ ops) in
      let st = ref [] in
      let obs = Stdlib.List.map (fun o ->
          let ok = AbsBins.disciplined_b !st o in
          st := AbsBins.pure_step vof !st o;
          "[" ^ pbool ok ^ "," ^ plist (fun e -> match e with None -> "null" | Some (_, b) -> pbins b) !st ^ "]") ops in
      "[" ^ Stdlib.String.concat "," obs ^ "]"
  | _ -> raise (Parse ("unknown command " ^ cmd))

let () =
  try
    while true do
      let line = input_line stdin in
      let line = Stdlib.String.trim line in
      if line <> "" then begin
        let sp = try Stdlib.String.index line ' ' with Not_found -> Stdlib.String.length line in
        let cmd = Stdlib.String.sub line 0 sp in
        let rest = Stdlib.String.sub line sp (Stdlib.String.length line - sp) in
        let out =
          try run cmd (list_ (parse rest))
          with
          | Parse m -> "{\"driver_error\":\"parse: " ^ m ^ "\"}"
          | Stack_overflow -> "{\"driver_error\":\"stack overflow\"}"
          | Invalid_argument m -> "{\"driver_error\":\"invalid: " ^ m ^ "\"}"
          | Failure m -> "{\"driver_error\":\"failure: " ^ m ^ "\"}"
        in
        print_string out; print_newline ()
      end
    done
  with End_of_file -> ()
