#!/bin/bash
# Build the Coq development (full .vo build), extract the model, compile the OCaml driver.
# Usage: build.sh [all|coq|driver]   -- serialised with flock so concurrent checks do not collide.
set -e
cd "$(dirname "$0")"
what="${1:-all}"
exec 9>/verif/.lock
flock 9
if [ "$what" = all ] || [ "$what" = coq ]; then
  cd coq
  if [ ! -f Makefile ] || [ _CoqProject -nt Makefile ]; then
    coq_makefile -f _CoqProject -o Makefile >/dev/null
  fi
  timeout 3000 make -j"${VERIF_JOBS:-12}" 2>&1 | grep -v "^COQDEP\|^COQC \|^make\[" || true
  # make's status:
  timeout 3000 make -j"${VERIF_JOBS:-12}" >/dev/null 2>&1
  cd ..
fi
if [ "$what" = all ] || [ "$what" = driver ]; then
  mkdir -p ocaml/gen
  stamp=ocaml/gen/.stamp
  newest=$(find coq/theories/Base coq/theories/Model coq/theories/Spec coq/theories/Oracle coq/theories/Extract.v ocaml/driver.ml -name '*.v' -newer $stamp 2>/dev/null | head -1)
  if [ ! -x ocaml/driver ] || [ ! -f $stamp ] || [ -n "$newest" ] || [ ocaml/driver.ml -nt ocaml/driver ]; then
    ( cd ocaml/gen && rm -f *.ml *.mli *.cm* *.o && \
      timeout 600 coqc -Q ../../coq/theories Prtpy -o ./Extract.vo ../../coq/theories/Extract.v >/dev/null )
    ( cd ocaml && \
      order=$(cd gen && ocamlfind ocamldep -sort *.mli *.ml) && \
      files=$(for f in $order; do echo gen/$f; done) && \
      timeout 600 ocamlfind ocamlopt -O3 -unboxed-types 2>/dev/null -I gen $files driver.ml -o driver 2>/dev/null || \
      timeout 600 ocamlfind ocamlopt -w -a -I gen $files driver.ml -o driver )
    touch $stamp
  fi
fi
