(** What a partition / packing / cover is, and what "optimal" means.
    Specifications only; they mention no model function except [value] (the documented
    objective functions, themselves characterised in Properties/C20). *)
From Prtpy Require Import Base.Prelude Model.Binner Model.Objectives.

(** ---- value level: assignments of values to k bins ---- *)

(** an assignment gives the bin index of each value, in order *)
Definition valid_asg (k : nat) (asg : list nat) : Prop := Forall (fun i => (i < k)%nat) asg.

Definition loads (k : nat) (vs : list Z) (asg : list nat) : list Z :=
  fold_left (fun s p => update (snd p) (fun x => x + fst p) s) (combine vs asg) (repeat 0 k).

(** s is the vector of bin sums of some way of putting every value into one of k bins *)
Definition Attainable (k : nat) (vs : list Z) (s : list Z) : Prop :=
  exists asg, length asg = length vs /\ valid_asg k asg /\ loads k vs asg = s.

(** v is the optimum of objective o over all partitions of vs into k bins *)
Definition Opt (o : objective) (k : nat) (vs : list Z) (v : Z) : Prop :=
  (exists s, Attainable k vs s /\ value o s false = v) /\
  (forall s, Attainable k vs s -> v <= value o s false).

(** ---- item level: a bins-array is a partition of the items ---- *)
Section Items.
  Context {A : Type} (valueof : A -> Z).

  (** every item exactly once, right number of bins, recorded sums are the totals *)
  Definition is_partition (k : nat) (items : list A) (b : bins A) : Prop :=
    Permutation (contents b) items /\ length b = k /\ wf valueof b.

  Definition feasible (C : Z) (b : bins A) : Prop := Forall (fun bn => fst bn <= C) b.
  Definition all_nonempty (b : bins A) : Prop := Forall (fun bn => snd bn <> []) b.

  (** a feasible packing of exactly the items *)
  Definition is_packing (C : Z) (items : list A) (b : bins A) : Prop :=
    Permutation (contents b) items /\ feasible C b /\ wf valueof b.

  (** any-fit: for any two bins, the earlier bin's sum plus the first item of the later
      bin exceeds the capacity (the later bin is never empty) *)
  Fixpoint anyfit (C : Z) (b : bins A) : Prop :=
    match b with
    | [] => True
    | bn :: t => Forall (fun later => match snd later with
                                      | x :: _ => C < fst bn + valueof x
                                      | [] => False
                                      end) t /\ anyfit C t
    end.

  (** a cover: every bin reaches C, items used at most once, leftover is [rest] *)
  Definition is_cover (C : Z) (items : list A) (b : bins A) (rest : list A) : Prop :=
    Forall (fun bn => C <= fst bn) b /\ wf valueof b /\ Permutation (contents b ++ rest) items.
End Items.

(** ---- packing / covering optima at value level ---- *)

(** the values can be packed into n bins of capacity C *)
Definition Packable (C : Z) (vs : list Z) (n : nat) : Prop :=
  exists s, Attainable n vs s /\ Forall (fun x => x <= C) s.

Definition MinBins (C : Z) (vs : list Z) (n : nat) : Prop :=
  Packable C vs n /\ forall m, Packable C vs m -> (n <= m)%nat.

(** n bins can be covered (unused values may be put anywhere once n >= 1) *)
Definition Coverable (C : Z) (vs : list Z) (n : nat) : Prop :=
  n = O \/ exists s, Attainable n vs s /\ Forall (fun x => C <= x) s.

Definition MaxCover (C : Z) (vs : list Z) (n : nat) : Prop :=
  Coverable C vs n /\ forall m, Coverable C vs m -> (m <= n)%nat.

(** two-way balanced optimum: a subset (marked true) against its complement *)
Fixpoint side_sum (vs : list Z) (mask : list bool) : Z :=
  match vs, mask with
  | v :: vt, b :: mt => (if b then v else 0) + side_sum vt mt
  | _, _ => 0
  end.
Fixpoint side_count (mask : list bool) : Z :=
  match mask with [] => 0 | b :: t => (if b then 1 else 0) + side_count t end.

Definition balanced_split (d : Z) (vs : list Z) (mask : list bool) : Prop :=
  length mask = length vs /\ Z.abs (2 * side_count mask - Z.of_nat (length vs)) <= d.
Definition split_diff (vs : list Z) (mask : list bool) : Z := Z.abs (2 * side_sum vs mask - zsum vs).

Definition OptBalanced (d : Z) (vs : list Z) (v : Z) : Prop :=
  (exists mask, balanced_split d vs mask /\ split_diff vs mask = v) /\
  (forall mask, balanced_split d vs mask -> v <= split_diff vs mask).
