(** The documented effect of each bins-manager operation on abstract bins-arrays
    (property C16): a state is, per handle ever created, either dead or a live pair
    (manager kind, bins-array).  An array handed to add_empty_bins / remove_bins /
    concatenate_bins dies (the hand-over discipline of the property); every other live
    array is untouched by an operation that does not name it. *)
From Prtpy Require Import Base.Prelude Model.Binner Model.BinnerHeap.

Section AbsBins.
  Context {A : Type} (valueof : A -> Z).

  Definition pentry : Type := option (bool * bins A).     (* None: dead; Some (keep, bins) *)
  Definition pstate : Type := list pentry.

  Definition plive (st : pstate) (h : nat) : option (bool * bins A) :=
    match nth_opt st h with Some (Some e) => Some e | _ => None end.
  Definition kill (h : nat) (st : pstate) : pstate := update h (fun _ => None) st.

  (** pre-condition of an operation: handles live, indices and sizes in range, same
      manager on both sides of a binary operation; concatenate takes two distinct arrays
      (both die), combine may pair an array with itself (bins[i] += bins[j], also i = j) *)
  Definition disciplined (st : pstate) (o : op (A := A)) : Prop :=
    match o with
    | OpNew _ _ => True
    | OpAdd h _ i => exists k b, plive st h = Some (k, b) /\ (i < length b)%nat
    | OpCopy h | OpSort h => exists e, plive st h = Some e
    | OpAddEmpty h _ => exists e, plive st h = Some e
    | OpRemove h n => exists k b, plive st h = Some (k, b) /\ (n <= length b)%nat
    | OpConcat h1 h2 => h1 <> h2 /\ exists k b1 b2, plive st h1 = Some (k, b1) /\ plive st h2 = Some (k, b2)
    | OpCombine h1 i1 h2 i2 => exists k b1 b2, plive st h1 = Some (k, b1) /\ plive st h2 = Some (k, b2)
                                                           /\ (i1 < length b1)%nat /\ (i2 < length b2)%nat
    end.

  Definition disciplined_b (st : pstate) (o : op (A := A)) : bool :=
    match o with
    | OpNew _ _ => true
    | OpAdd h _ i => match plive st h with Some (_, b) => Nat.ltb i (length b) | None => false end
    | OpCopy h | OpSort h | OpAddEmpty h _ => match plive st h with Some _ => true | None => false end
    | OpRemove h n => match plive st h with Some (_, b) => Nat.leb n (length b) | None => false end
    | OpConcat h1 h2 => negb (Nat.eqb h1 h2) &&
                        match plive st h1, plive st h2 with
                        | Some (k1, _), Some (k2, _) => Bool.eqb k1 k2
                        | _, _ => false
                        end
    | OpCombine h1 i1 h2 i2 => match plive st h1, plive st h2 with
                               | Some (k1, b1), Some (k2, b2) => Bool.eqb k1 k2 && Nat.ltb i1 (length b1) && Nat.ltb i2 (length b2)
                               | _, _ => false
                               end
    end.

  (** the documented effect *)
  Definition pure_step (st : pstate) (o : op (A := A)) : pstate :=
    match o with
    | OpNew keep n => st ++ [Some (keep, new_bins n)]
    | OpAdd h x i => match plive st h with
                     | Some (k, b) => update h (fun _ => Some (k, add_item valueof k b x i)) st
                     | None => st
                     end
    | OpCopy h => match plive st h with Some e => st ++ [Some e] | None => st end
    | OpSort h => match plive st h with
                  | Some (k, b) => update h (fun _ => Some (k, sort_bins b)) st
                  | None => st
                  end
    | OpAddEmpty h n => match plive st h with
                        | Some (k, b) => kill h st ++ [Some (k, add_empty_bins b n)]
                        | None => st
                        end
    | OpRemove h n => match plive st h with
                      | Some (k, b) => kill h st ++ [Some (k, remove_bins b n)]
                      | None => st
                      end
    | OpConcat h1 h2 => match plive st h1, plive st h2 with
                        | Some (k, b1), Some (_, b2) => kill h2 (kill h1 st) ++ [Some (k, concatenate_bins b1 b2)]
                        | _, _ => st
                        end
    | OpCombine h1 i1 h2 i2 => match plive st h1, plive st h2 with
                               | Some (k, b1), Some (_, b2) => update h1 (fun _ => Some (k, combine_bins b1 i1 b2 i2)) st
                               | _, _ => st
                               end
    end.

  (** the boolean test of a whole sequence, as the harness evaluates it step by step *)
  Fixpoint disciplined_run_b (st : pstate) (ops : list (op (A := A))) : bool :=
    match ops with
    | [] => true
    | o :: t => disciplined_b st o && disciplined_run_b (pure_step st o) t
    end.

  (** a sequence of operations each of which respects the discipline in the state it meets *)
  Fixpoint disciplined_run (st : pstate) (ops : list (op (A := A))) : Prop :=
    match ops with
    | [] => True
    | o :: t => disciplined st o /\ disciplined_run (pure_step st o) t
    end.

  Definition pure_run (ops : list (op (A := A))) : pstate := fold_left pure_step ops [].
End AbsBins.
