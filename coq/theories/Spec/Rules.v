(** Textbook definitions of the simple heuristics, at the level of values, written as
    directly as possible from the documentation / cited sources and with all the freedom
    the text leaves (property C14).  A bin is the list of values it received, in order.
    Relations are used where the text leaves a choice (which least-loaded bin, which of
    several equally full bins); functions where it leaves none. *)
From Prtpy Require Import Base.Prelude.
From Coq Require Import Sorting.Sorted.

Definition vbins := list (list Z).
Definition vsums (b : vbins) : list Z := map zsum b.

Definition nonincreasing (l : list Z) : Prop := StronglySorted (fun a b => b <= a) l.

(** put v at the end of bin i *)
Definition put (i : nat) (v : Z) (b : vbins) : vbins := update i (fun l => l ++ [v]) b.

(** ---- LPT (greedy number partitioning): "sort the numbers in non-increasing order;
    put each in turn into a bin with the smallest sum so far" ---- *)
Definition least_loaded (i : nat) (b : vbins) : Prop :=
  (i < length b)%nat /\ Forall (fun s => nth i (vsums b) 0 <= s) (vsums b).

Inductive list_scheduling : list Z -> vbins -> vbins -> Prop :=
| ls_nil b : list_scheduling [] b b
| ls_cons v t b i b' : least_loaded i b -> list_scheduling t (put i v b) b' -> list_scheduling (v :: t) b b'.

Definition lpt_rule (k : nat) (vs : list Z) (b : vbins) : Prop :=
  exists l, Permutation l vs /\ nonincreasing l /\ list_scheduling l (repeat [] k) b.

(** ---- round-robin: "sort in non-increasing order; deal cyclically": bin j receives the
    elements at positions j, j+k, j+2k, ... of the sorted sequence ---- *)
Fixpoint every_kth (k : nat) (skip : nat) (l : list Z) : list Z :=
  match l with
  | [] => []
  | x :: t => match skip with
              | O => x :: every_kth k (k - 1) t
              | S s => every_kth k s t
              end
  end.
Definition deal (k : nat) (l : list Z) : vbins := map (fun j => every_kth k j l) (range k).

Definition rr_rule (k : nat) (vs : list Z) (b : vbins) : Prop :=
  exists l, Permutation l vs /\ nonincreasing l /\ b = deal k l.

(** ---- first-fit: "place each item, in the given order, into the first (lowest-index)
    bin in which it fits; if none, open a new bin" ---- *)
Definition fits (C v : Z) (l : list Z) : Prop := zsum l + v <= C.

Inductive ff_step (C v : Z) : vbins -> vbins -> Prop :=
| ff_existing b i : (i < length b)%nat -> fits C v (nth i b []) ->
                    (forall j, (j < i)%nat -> ~ fits C v (nth j b [])) -> ff_step C v b (put i v b)
| ff_new b : Forall (fun l => ~ fits C v l) b -> ff_step C v b (b ++ [[v]]).

Inductive run_steps (step : Z -> vbins -> vbins -> Prop) : list Z -> vbins -> vbins -> Prop :=
| rs_nil b : run_steps step [] b b
| rs_cons v t b b1 b2 : step v b b1 -> run_steps step t b1 b2 -> run_steps step (v :: t) b b2.

Definition ff_rule (C : Z) (vs : list Z) (b : vbins) : Prop := run_steps (ff_step C) vs [] b.
Definition ffd_rule (C : Z) (vs : list Z) (b : vbins) : Prop :=
  exists l, Permutation l vs /\ nonincreasing l /\ ff_rule C l b.

(** ---- best-fit: "place each item into the fullest bin in which it still fits (any of
    them if several are equally full); if none, open a new bin" ---- *)
Inductive bf_step (C v : Z) : vbins -> vbins -> Prop :=
| bf_existing b i : (i < length b)%nat -> fits C v (nth i b []) ->
                    (forall j, (j < length b)%nat -> fits C v (nth j b []) -> zsum (nth j b []) <= zsum (nth i b [])) ->
                    bf_step C v b (put i v b)
| bf_new b : Forall (fun l => ~ fits C v l) b -> bf_step C v b (b ++ [[v]]).

Definition bf_rule (C : Z) (vs : list Z) (b : vbins) : Prop := run_steps (bf_step C) vs [] b.
Definition bfd_rule (C : Z) (vs : list Z) (b : vbins) : Prop :=
  exists l, Permutation l vs /\ nonincreasing l /\ bf_rule C l b.

(** ---- covering ---- *)

(** next-fit-decreasing cover: "go over the items in non-increasing order, put them in
    the current bin; when its sum reaches C close it and start a new one"; the last,
    unfilled bin is discarded.  [nf C l cur] returns the closed bins. *)
Fixpoint next_fill (C : Z) (l : list Z) (cur : list Z) : vbins * list Z :=
  match l with
  | [] => ([], cur)
  | v :: t => if C <=? zsum (cur ++ [v])
              then let '(bs, last) := next_fill C t [] in ((cur ++ [v]) :: bs, last)
              else next_fill C t (cur ++ [v])
  end.
Definition nfd_cover_rule (C : Z) (vs : list Z) (b : vbins) : Prop :=
  exists l, Permutation l vs /\ nonincreasing l /\ b = fst (next_fill C l []).

(** bidirectional filling (Csirik-Frenk-Labbe-Zhang, "simple" 2/3 algorithm): "start a
    bin with the largest remaining item, then add the smallest remaining items one by
    one until the bin is covered".  The remaining items are a segment of the sorted
    sequence: [front] in non-increasing order, taken from the left for the largest and
    from the right for the smallest.  Fuel = number of items. *)
Fixpoint fill_from_right (fuel : nat) (C : Z) (cur : list Z) (rem : list Z) : list Z * list Z :=
  match fuel with
  | O => (cur, rem)
  | S f => if zsum cur <? C
           then match rev rem with
                | [] => (cur, rem)
                | y :: r => fill_from_right f C (cur ++ [y]) (rev r)
                end
           else (cur, rem)
  end.
Fixpoint bidirectional (fuel : nat) (C : Z) (rem : list Z) : vbins :=
  match fuel with
  | O => []
  | S f => match rem with
           | [] => []
           | x :: t => let '(cur, rem') := fill_from_right (length t) C [x] t in
                       if C <=? zsum cur then cur :: bidirectional f C rem' else []
           end
  end.
Definition twothirds_rule (C : Z) (vs : list Z) (b : vbins) : Prop :=
  exists l, Permutation l vs /\ nonincreasing l /\ b = bidirectional (length l) C l.

(** three-class filling (Csirik et al., 3/4 algorithm): X = items >= C/2, Y = items in
    [C/3, C/2), Z = items < C/3, each in non-increasing order.  While Z is non-empty and
    X or Y is non-empty: start a bin with the largest X item, or with the two largest Y
    items if they weigh more, then add smallest Z items until covered.  When Z runs out,
    the remaining X then Y items are packed by next-fill continuing in the current bin;
    when X and Y run out, the remaining Z items likewise. *)
Definition next_fill_from (C : Z) (cur : list Z) (l : list Z) : vbins * list Z := next_fill C l cur.

Fixpoint three_class (fuel : nat) (C : Z) (cur : list Z) (X Y Zs : list Z) : vbins :=
  match fuel with
  | O => []
  | S f =>
      match Zs with
      | [] => let '(b1, cur1) := next_fill_from C cur X in
              let '(b2, _) := next_fill_from C cur1 Y in b1 ++ b2
      | _ :: _ =>
          match X, Y with
          | [], [] => fst (next_fill_from C cur Zs)
          | _, _ =>
              let '(start, X', Y') :=
                if zsum (firstn 2 Y) <=? zsum (firstn 1 X) then (firstn 1 X, skipn 1 X, Y)
                else (firstn 2 Y, X, skipn 2 Y) in
              let '(cur1, Zs') := fill_from_right (length Zs) C (cur ++ start) Zs in
              if C <=? zsum cur1 then cur1 :: three_class f C [] X' Y' Zs'
              else three_class f C cur1 X' Y' Zs'
          end
      end
  end.
Definition threequarters_rule (C : Z) (vs : list Z) (b : vbins) : Prop :=
  exists l, Permutation l vs /\ nonincreasing l /\
            b = three_class (S (length l)) C []
                  (filter (fun v => C <=? 2 * v) l)
                  (filter (fun v => (C <=? 3 * v) && (2 * v <? C)) l)
                  (filter (fun v => 3 * v <? C) l).
