(** Boolean checkers used by the harness to judge *implementation* outputs.
    Items are (name, value) pairs with distinct names; equality of items is equality of
    names.  Each checker is proved equivalent to its Spec predicate in Proofs/CheckersSpec.v. *)
From Prtpy Require Import Base.Prelude Model.Binner.

Definition citem : Type := (Z * Z)%type.
Definition cval (x : citem) : Z := snd x.
Definition cname (x : citem) : Z := fst x.

Fixpoint remove_name (n : Z) (l : list citem) : option (list citem) :=
  match l with
  | [] => None
  | y :: t => if n =? cname y then Some t
              else match remove_name n t with Some r => Some (y :: r) | None => None end
  end.

(** l1 is a sub-multiset (by name) of l2; returns what is left of l2 *)
Fixpoint sub_items (l1 l2 : list citem) : option (list citem) :=
  match l1 with
  | [] => Some l2
  | x :: t => match remove_name (cname x) l2 with
              | Some r => sub_items t r
              | None => None
              end
  end.

Definition same_items_b (l1 l2 : list citem) : bool :=
  match sub_items l1 l2 with Some [] => true | _ => false end.

Definition wf_b (b : bins citem) : bool :=
  forallb (fun bn => fst bn =? zsum (map cval (snd bn))) b.

Definition is_partition_b (k : nat) (items : list citem) (b : bins citem) : bool :=
  same_items_b (contents b) items && Nat.eqb (length b) k && wf_b b.

Definition is_packing_b (C : Z) (items : list citem) (b : bins citem) : bool :=
  same_items_b (contents b) items && forallb (fun bn => fst bn <=? C) b && wf_b b.

Definition nonempty_b (b : bins citem) : bool :=
  forallb (fun bn => match snd bn with [] => false | _ => true end) b.

(** cover: bins full, items used at most once; returns the total value left unused *)
Definition is_cover_b (C : Z) (items : list citem) (b : bins citem) : option Z :=
  if forallb (fun bn => C <=? fst bn) b && wf_b b then
    match sub_items (contents b) items with
    | Some rest => Some (zsum (map cval rest))
    | None => None
    end
  else None.

(** any-fit: for i < j, sum of bin i + first item of bin j > C *)
Fixpoint anyfit_b (C : Z) (b : bins citem) : bool :=
  match b with
  | [] => true
  | bn :: t => forallb (fun later => match snd later with
                                     | x :: _ => C <? fst bn + cval x
                                     | [] => false
                                     end) t && anyfit_b C t
  end.

Fixpoint ascending_b (l : list Z) : bool :=
  match l with
  | [] => true
  | x :: t => match t with [] => true | y :: _ => (x <=? y) && ascending_b t end
  end.
