(** Executable oracles: all sorted load vectors reachable by assigning values to k
    bins (the textbook DP over sorted states), and the optima derived from it.
    Specifications are proved in Proofs/OracleSpec.v. *)
From Coq Require Import Sorting.Mergesort Orders.
From Prtpy Require Import Base.Prelude Model.Objectives.

(** lexicographic order on lists of integers, as a total boolean order *)
Fixpoint lex_leb (a b : list Z) : bool :=
  match a, b with
  | [], _ => true
  | _ :: _, [] => false
  | x :: s, y :: t => if x <? y then true else if y <? x then false else lex_leb s t
  end.

Module LexOrder <: TotalLeBool.
  Definition t := list Z.
  Definition leb := lex_leb.
  Theorem leb_total : forall a1 a2, leb a1 a2 = true \/ leb a2 a1 = true.
  Proof.
    unfold leb. induction a1 as [|x s IH]; intros [|y t]; simpl; auto.
    destruct (x <? y) eqn:E1; destruct (y <? x) eqn:E2; auto; try lia.
  Qed.
End LexOrder.
Module LexSort := Sort LexOrder.

Fixpoint zl_eqb (a b : list Z) : bool :=
  match a, b with
  | [], [] => true
  | x :: s, y :: t => (x =? y) && zl_eqb s t
  | _, _ => false
  end.

(** remove adjacent duplicates *)
Fixpoint dedup_adj (l : list (list Z)) : list (list Z) :=
  match l with
  | [] => []
  | x :: t => match t with
              | [] => [x]
              | y :: _ => if zl_eqb x y then dedup_adj t else x :: dedup_adj t
              end
  end.

Definition normalize (l : list (list Z)) : list (list Z) := dedup_adj (LexSort.sort l).

(** insert into an ascending list *)
Fixpoint ins (x : Z) (l : list Z) : list Z :=
  match l with
  | [] => [x]
  | y :: t => if x <=? y then x :: l else y :: ins x t
  end.

(** all ways of adding v to one entry of the ascending vector s, each re-sorted *)
Fixpoint add_each (v : Z) (pre : list Z) (s : list Z) : list (list Z) :=
  match s with
  | [] => []
  | x :: t => fold_right ins (ins (x + v) t) pre :: add_each v (pre ++ [x]) t
  end.

Definition reach_step (v : Z) (states : list (list Z)) : list (list Z) :=
  normalize (flat_map (add_each v []) states).

(** all sorted load vectors of assignments of vs to k bins *)
Definition reach (k : nat) (vs : list Z) : list (list Z) :=
  fold_left (fun st v => reach_step v st) vs [repeat 0 k].

Fixpoint min_over (f : list Z -> Z) (best : Z) (l : list (list Z)) : Z :=
  match l with [] => best | s :: t => min_over f (Z.min best (f s)) t end.

(** optimum of objective o (None only for k = 0 with no state, never for k >= 1) *)
Definition opt_value (o : objective) (k : nat) (vs : list Z) : option Z :=
  match reach k vs with
  | [] => None
  | s :: t => Some (min_over (fun x => value o x false) (value o s false) t)
  end.

(** ---- bin packing: sorted load vectors of feasible packings, bins opened on demand ---- *)
Fixpoint add_each_cap (C v : Z) (pre : list Z) (s : list Z) : list (list Z) :=
  match s with
  | [] => []
  | x :: t => (if x + v <=? C then [fold_right ins (ins (x + v) t) pre] else [])
              ++ add_each_cap C v (pre ++ [x]) t
  end.

Definition pack_step (C v : Z) (states : list (list Z)) : list (list Z) :=
  normalize (flat_map (fun s => ins v s :: add_each_cap C v [] s) states).

Definition pack_states (C : Z) (vs : list Z) : list (list Z) :=
  fold_left (fun st v => pack_step C v st) vs [[]].

Fixpoint min_len (best : nat) (l : list (list Z)) : nat :=
  match l with [] => best | s :: t => min_len (Nat.min best (length s)) t end.

(** minimum number of bins of capacity C for the non-zero values (all assumed <= C) *)
Definition min_bins (C : Z) (vs : list Z) : nat :=
  match pack_states C (filter (fun v => negb (v =? 0)) vs) with
  | [] => O
  | s :: t => min_len (length s) t
  end.

(** ---- bin covering: largest n such that some n-partition has every sum >= C ---- *)
Definition coverable_b (C : Z) (vs : list Z) (n : nat) : bool :=
  match n with
  | O => true
  | _ => existsb (fun s => forallb (fun x => C <=? x) s) (reach n vs)
  end.

Fixpoint max_cover_from (fuel : nat) (C : Z) (vs : list Z) (n : nat) : nat :=
  match fuel with
  | O => n
  | S f => if coverable_b C vs (S n) then max_cover_from f C vs (S n) else n
  end.

(** at most length vs bins can be covered when C > 0 *)
Definition max_cover (C : Z) (vs : list Z) : nat := max_cover_from (length vs) C vs O.

(** ---- balanced two-way: reachable (sum, count) of one side ---- *)
Definition pair_leb (a b : Z * Z) : bool :=
  if fst a <? fst b then true else if fst b <? fst a then false else snd a <=? snd b.
Fixpoint ins_pair (x : Z * Z) (l : list (Z * Z)) : list (Z * Z) :=
  match l with
  | [] => [x]
  | y :: t => if (fst x =? fst y) && (snd x =? snd y) then l
              else if pair_leb x y then x :: l else y :: ins_pair x t
  end.
Definition side_states (vs : list Z) : list (Z * Z) :=
  fold_left (fun st v => fold_left (fun acc p => ins_pair (fst p + v, snd p + 1) acc) st st) vs [(0, 0)].

Definition opt_balanced2 (d : Z) (vs : list Z) : option Z :=
  let n := Z.of_nat (length vs) in
  let t := zsum vs in
  match map (fun p => Z.abs (2 * fst p - t))
            (filter (fun p => Z.abs (2 * snd p - n) <=? d) (side_states vs)) with
  | [] => None
  | x :: l => Some (zmin_list x l)
  end.

(** ---- weighted max-min over unsorted load vectors (ILP with weights; small k only) ---- *)
Fixpoint add_each_unsorted (v : Z) (pre s : list Z) : list (list Z) :=
  match s with
  | [] => []
  | x :: t => (pre ++ (x + v) :: t) :: add_each_unsorted v (pre ++ [x]) t
  end.
Definition reach_unsorted (k : nat) (vs : list Z) : list (list Z) :=
  fold_left (fun st v => normalize (flat_map (add_each_unsorted v []) st)) vs [repeat 0 k].
