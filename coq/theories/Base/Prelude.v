(** Base definitions shared by every model: results, sums, list update, stable sorts.
    No proofs here (see Proofs/BaseLemmas.v). *)
From Coq Require Export ZArith List Bool Lia Permutation.
Export ListNotations.
Open Scope Z_scope.

Inductive err := ValueError | TypeError | IndexError | NotImplementedError | ZeroDivisionError | OtherError.

Inductive result (T : Type) : Type :=
| Ok (t : T)
| Err (e : err).
Arguments Ok {T} t.
Arguments Err {T} e.

Definition rbind {T U} (r : result T) (f : T -> result U) : result U :=
  match r with Ok t => f t | Err e => Err e end.

Definition rmap {T U} (f : T -> U) (r : result T) : result U :=
  match r with Ok t => Ok (f t) | Err e => Err e end.

Definition zsum (l : list Z) : Z := fold_right Z.add 0 l.

Fixpoint zmax_list (d : Z) (l : list Z) : Z :=
  match l with [] => d | x :: t => zmax_list (Z.max d x) t end.
Fixpoint zmin_list (d : Z) (l : list Z) : Z :=
  match l with [] => d | x :: t => zmin_list (Z.min d x) t end.

(** Python's max(l)/min(l) on a non-empty list; 0 on the empty list (never used there). *)
Definition zmax (l : list Z) : Z := match l with [] => 0 | x :: t => zmax_list x t end.
Definition zmin (l : list Z) : Z := match l with [] => 0 | x :: t => zmin_list x t end.

Fixpoint update {T} (i : nat) (f : T -> T) (l : list T) : list T :=
  match l, i with
  | [], _ => []
  | x :: t, O => f x :: t
  | x :: t, S j => x :: update j f t
  end.

(** first index of a minimum: Python's min(range(k), key=l.__getitem__) *)
Fixpoint argmin_aux (l : list Z) (i besti : nat) (bestv : Z) : nat :=
  match l with
  | [] => besti
  | x :: t => if x <? bestv then argmin_aux t (S i) i x else argmin_aux t (S i) besti bestv
  end.
Definition argmin (l : list Z) : nat :=
  match l with [] => O | x :: t => argmin_aux t 1%nat O x end.

Section Sort.
  Context {T : Type} (key : T -> Z).
  (** Stable ascending insertion sort.  [sort_asc (x :: l) = insert_asc x (sort_asc l)]:
      x precedes every element of l in the input, so it is placed before the first
      element whose key is >= its own (equal keys keep input order), exactly like
      Python's sorted(l, key=key). *)
  Fixpoint insert_asc (x : T) (l : list T) : list T :=
    match l with
    | [] => [x]
    | y :: t => if key x <=? key y then x :: y :: t else y :: insert_asc x t
    end.
  Definition sort_asc (l : list T) : list T := fold_right insert_asc [] l.
End Sort.

(** Python's sorted(l, key=key, reverse=True): stable, descending. *)
Definition sort_desc {T} (key : T -> Z) (l : list T) : list T := sort_asc (fun x => - key x) l.

(** split off the last element *)
Definition unsnoc {T} (l : list T) : option (list T * T) :=
  match rev l with [] => None | y :: r => Some (rev r, y) end.

Fixpoint range_from (i : nat) (n : nat) : list nat :=
  match n with O => [] | S m => i :: range_from (S i) m end.
Definition range (n : nat) := range_from O n.

Fixpoint nth_opt {T} (l : list T) (i : nat) : option T :=
  match l, i with
  | [], _ => None
  | x :: _, O => Some x
  | _ :: t, S j => nth_opt t j
  end.

Definition last_opt {T} (l : list T) : option T :=
  match rev l with [] => None | y :: _ => Some y end.

(** floor division helpers: Python's // on integers is Z.div (floor) *)
Definition cdiv (a b : Z) : Z := - ((- a) / b).   (* ceiling division, b > 0 *)
