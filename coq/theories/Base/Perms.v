(** itertools.permutations(range(n)) in its documented lexicographic order. *)
From Prtpy Require Import Base.Prelude.

Fixpoint remove_nat (x : nat) (l : list nat) : list nat :=
  match l with
  | [] => []
  | y :: t => if Nat.eqb x y then t else y :: remove_nat x t
  end.

Fixpoint perms_fuel (fuel : nat) (l : list nat) : list (list nat) :=
  match fuel with
  | O => [[]]
  | S f =>
      match l with
      | [] => [[]]
      | _ => flat_map (fun x => map (cons x) (perms_fuel f (remove_nat x l))) l
      end
  end.

Definition perms (n : nat) : list (list nat) := perms_fuel n (range n).
