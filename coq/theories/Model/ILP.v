(** Model of prtpy/partitioning/integer_programming.py (function [optimal]).

    The external MIP solver (CBC through python-mip) is NOT modelled.  What is modelled is
    what prtpy itself does:
      (1) the FORMULATION handed to the solver  ([formulate]), and
      (2) the DECODING of the solver's answer into bins ([decode], [ilp_result]).

    Conventions
    - variable numbering: counts[iitem][ibin] is variable  iitem * k + ibin  (creation order
      of the dict comprehension: for each item, for each bin; python-mip's Var.idx).
    - rationals are pairs (num, den) of Z, den <> 0 (den > 0 whenever weights > 0);
      nothing is ever reduced.  value/weight is the pair (value, weight).
      (python-mip computes  expr / w  as  expr * (1.0 / w)  in floats; compare with a tolerance.)
    - a linear expression is (terms, const): terms in the order in which python-mip inserts
      them into its dict; duplicates are allowed here (python-mip merges them: see
      [normalize]).
    - a constraint (e, s) means   e  s  0   (everything moved to the left-hand side, exactly
      like python-mip's LinExpr: `a >= b` is stored as the expression a - b with sense ">";
      the CBC right-hand side is  - const).
    - an assignment is a list Z: the value of each variable, same numbering.
      int(var.x) on the solver's float answer is taken to be the exact integer (the solver
      is assumed to return integral values for INTEGER variables; a float such as 0.9999999
      would be truncated to 0 by the Python code: not modelled).
    - additional_constraints is an arbitrary Python callable; the model covers the three
      shapes [extra] used in the documentation/tests.
    No proofs here (see Proofs/ILPProofs.v). *)
From Prtpy Require Import Base.Prelude Model.Binner Model.Objectives.

(** ---------- exact rationals as pairs ---------- *)
Definition rat : Type := (Z * Z)%type.
Definition radd (a b : rat) : rat := (fst a * snd b + fst b * snd a, snd a * snd b).
Definition rneg (a : rat) : rat := (- fst a, snd a).
Definition rsub (a b : rat) : rat := radd a (rneg b).
Definition rmulz (a : rat) (z : Z) : rat := (fst a * z, snd a).
(** sign of a rational (any non-zero denominator) *)
Definition rsgn (a : rat) : Z := Z.sgn (fst a) * Z.sgn (snd a).
Definition rleb (a b : rat) : bool := rsgn (rsub a b) <=? 0.
Definition reqb (a b : rat) : bool := rsgn (rsub a b) =? 0.

(** ---------- linear expressions and constraints ---------- *)
Definition linexpr : Type := (list (nat * rat) * rat)%type.
(** [SLe]: expr <= 0, [SGe]: expr >= 0, [SEq]: expr == 0
    (python-mip senses "<", ">", "=").  Not named Le/Ge/Eq to avoid shadowing [comparison]. *)
Inductive sense := SLe | SGe | SEq.
Definition constr : Type := (linexpr * sense)%type.

Definition lzero : linexpr := ([], (0, 1)).
Definition ladd (e1 e2 : linexpr) : linexpr := (fst e1 ++ fst e2, radd (snd e1) (snd e2)).
Definition lneg (e : linexpr) : linexpr :=
  (map (fun t => (fst t, rneg (snd t))) (fst e), rneg (snd e)).
Definition lsub (e1 e2 : linexpr) : linexpr := ladd e1 (lneg e2).
Definition laddc (e : linexpr) (c : rat) : linexpr := (fst e, radd (snd e) c).
(** Python's sum(list of expressions): ((0 + e1) + e2) + ... *)
Definition lsum (l : list linexpr) : linexpr := fold_left ladd l lzero.

Definition var (iitem ibin k : nat) : nat := (iitem * k + ibin)%nat.

Fixpoint enumerate_from {T} (i : nat) (l : list T) : list (nat * T) :=
  match l with [] => [] | x :: t => (i, x) :: enumerate_from (S i) t end.
Definition enumerate {T} (l : list T) : list (nat * T) := enumerate_from O l.

(** bin_sums[ibin] = sum([counts[iitem][ibin] * value(items[iitem]) for iitem in iitems]) / weights[ibin] *)
Definition bin_sum_expr (vs ws : list Z) (k ibin : nat) : linexpr :=
  (map (fun p => (var (fst p) ibin k, (snd p, nth ibin ws 1))) (enumerate vs), (0, 1)).

(** l[-j:] in Python: for j = 0 this is the whole list *)
Definition py_suffix_gen {T} (j : nat) (l : list T) : list T :=
  match j with O => l | _ => skipn (length l - j)%nat l end.

(** objective.value_to_minimize(bin_sums, are_sums_in_ascending_order=True) on expressions *)
Definition objective_expr (o : objective) (es : list linexpr) : linexpr :=
  match o with
  | MaxSmallest => lneg (nth O es lzero)
  | MinLargest => last es lzero
  | MinDiff => lsub (last es lzero) (nth O es lzero)
  | MaxKSmallest j => lneg (lsum (firstn j es))
  | MinKLargest j => lsum (py_suffix_gen j es)
  end.

(** the additional constraints  sums[0] == c,  sums[-1] <= c,  sums[0] >= c
    on the (weighted) sum expressions *)
Inductive extra := SmallestEq (c : Z) | LargestLe (c : Z) | SmallestGe (c : Z).

Definition extra_constr (es : list linexpr) (x : extra) : constr :=
  match x with
  | SmallestEq c => (laddc (nth O es lzero) (- c, 1), SEq)
  | LargestLe c => (laddc (last es lzero) (- c, 1), SLe)
  | SmallestGe c => (laddc (nth O es lzero) (- c, 1), SGe)
  end.

Definition sum_exprs (vs ws : list Z) (k : nat) : list linexpr :=
  map (bin_sum_expr vs ws k) (range k).

(** counts_are_non_negative = [counts[iitem][ibin] >= 0 for ibin in ibins for iitem in iitems] *)
Definition nonneg_constrs (n k : nat) : list constr :=
  flat_map (fun ibin => map (fun iitem => (([(var iitem ibin k, (1, 1))], (0, 1)), SGe)) (range n))
           (range k).

(** each_item_in_one_bin = [sum([counts[iitem][ibin] for ibin in ibins]) == copies[iitem] for iitem in iitems] *)
Definition copies_constrs (n k : nat) (copies : list Z) : list constr :=
  map (fun iitem => ((map (fun ibin => (var iitem ibin k, (1, 1))) (range k),
                      (- nth iitem copies 0, 1)), SEq)) (range n).

(** bin_sums_in_ascending_order = [bin_sums[ibin+1] >= bin_sums[ibin] for ibin in range(numbins-1)] *)
Definition asc_constrs (es : list linexpr) (k : nat) : list constr :=
  map (fun ibin => (lsub (nth (S ibin) es lzero) (nth ibin es lzero), SGe)) (range (k - 1)).

Definition constraints (vs : list Z) (k : nat) (copies ws : list Z) (ex : list extra) : list constr :=
  let es := sum_exprs vs ws k in
  nonneg_constrs (length vs) k ++ copies_constrs (length vs) k copies ++ asc_constrs es k
    ++ map (extra_constr es) ex.

(** (number of variables, objective to MINIMIZE, constraints in the order they are added) *)
Definition formulate (vs : list Z) (k : nat) (copies ws : list Z) (o : objective) (ex : list extra)
  : nat * linexpr * list constr :=
  ((length vs * k)%nat, objective_expr o (sum_exprs vs ws k), constraints vs k copies ws ex).

(** ---------- normal form (what python-mip / CBC hold): terms merged per variable,
    sorted by variable index, zero coefficients dropped ---------- *)
Fixpoint nadd (v : nat) (c : rat) (l : list (nat * rat)) : list (nat * rat) :=
  match l with
  | [] => [(v, c)]
  | (v', c') :: t =>
      if Nat.eqb v v' then (v', radd c' c) :: t
      else if Nat.ltb v v' then (v, c) :: l
      else (v', c') :: nadd v c t
  end.
Definition norm_terms (ts : list (nat * rat)) : list (nat * rat) :=
  filter (fun t => negb (fst (snd t) =? 0)) (fold_left (fun acc t => nadd (fst t) (snd t) acc) ts []).
Definition norm_expr (e : linexpr) : linexpr := (norm_terms (fst e), snd e).
Definition normalize (f : nat * linexpr * list constr) : nat * linexpr * list constr :=
  (fst (fst f), norm_expr (snd (fst f)), map (fun c => (norm_expr (fst c), snd c)) (snd f)).

(** ---------- semantics of a formulation ---------- *)
Definition eval_terms (asg : list Z) (ts : list (nat * rat)) : rat :=
  fold_right (fun t acc => radd (rmulz (snd t) (nth (fst t) asg 0)) acc) (0, 1) ts.
Definition eval_expr (asg : list Z) (e : linexpr) : rat := radd (eval_terms asg (fst e)) (snd e).

Definition satisfies (asg : list Z) (c : constr) : bool :=
  let v := rsgn (eval_expr asg (fst c)) in
  match snd c with SLe => v <=? 0 | SGe => 0 <=? v | SEq => v =? 0 end.

(** asg is a feasible point of the program (integrality is built into [list Z]) *)
Definition feasible_b (vs : list Z) (k : nat) (copies ws : list Z) (ex : list extra) (asg : list Z) : bool :=
  Nat.eqb (length asg) (length vs * k) && forallb (satisfies asg) (constraints vs k copies ws ex).

(** value of the objective at asg (a rational) *)
Definition objective_value (vs : list Z) (k : nat) (ws : list Z) (o : objective) (asg : list Z) : rat :=
  eval_expr asg (objective_expr o (sum_exprs vs ws k)).

(** ---------- decoding ---------- *)
(** len(set(weights)) <= 1 *)
Definition all_equal (ws : list Z) : bool :=
  match ws with [] => true | w :: t => forallb (Z.eqb w) t end.

Section Decode.
  Context {A : Type} (valueof : A -> Z) (keep : bool).

  (** for _ in range(c): binner.add_item_to_bin(output, item, ibin) *)
  Fixpoint add_copies (c : nat) (b : bins A) (x : A) (ibin : nat) : bins A :=
    match c with O => b | S c' => add_copies c' (add_item valueof keep b x ibin) x ibin end.

  (** for ibin in ibins: for iitem in iitems: add int(counts[iitem][ibin].x) copies *)
  Definition decode_raw (k : nat) (items : list A) (asg : list Z) : bins A :=
    fold_left (fun b ibin =>
                 fold_left (fun b' p => add_copies (Z.to_nat (nth (var (fst p) ibin k) asg 0)) b' (snd p) ibin)
                           (enumerate items) b)
              (range k) (new_bins k).

  (** ... then sort_by_ascending_sum ONLY if all weights are equal *)
  Definition decode (k : nat) (items : list A) (ws : list Z) (asg : list Z) : bins A :=
    let b := decode_raw k items asg in
    if all_equal ws then sort_bins b else b.

  (** status != OPTIMAL raises ValueError *)
  Definition ilp_result (status_optimal : bool) (k : nat) (items : list A) (ws : list Z) (asg : list Z)
    : result (bins A) :=
    if status_optimal then Ok (decode k items ws asg) else Err ValueError.

  (** exceptions raised by the Python code before the solver is called, in evaluation order:
      weights[ibin] (IndexError) and  / weights[ibin] (ZeroDivisionError) while building bin_sums;
      then the objective: sums[0] / sums[-1] on an empty list (IndexError), or
      mip.minimize applied to a plain number (no items, no bins, or MaximizeKSmallestSums(0))
      which raises AttributeError ([OtherError]); then copies[iitem] (IndexError). *)
  Fixpoint check_weights (k : nat) (ws : list Z) : option err :=
    match k with
    | O => None
    | S k' => match ws with
              | [] => Some IndexError
              | w :: t => if w =? 0 then Some ZeroDivisionError else check_weights k' t
              end
    end.

  Definition ilp_precheck (k n : nat) (copies ws : list Z) (o : objective) : option err :=
    match check_weights k ws with
    | Some e => Some e
    | None =>
        let number_objective :=
          match o with
          | MaxSmallest | MinLargest | MinDiff => if Nat.eqb k 0 then Some IndexError
                                                 else if Nat.eqb n 0 then Some OtherError else None
          | MaxKSmallest j => if Nat.eqb k 0 || Nat.eqb n 0 || Nat.eqb j 0 then Some OtherError else None
          | MinKLargest _ => if Nat.eqb k 0 || Nat.eqb n 0 then Some OtherError else None
          end in
        match number_objective with
        | Some e => Some e
        | None => if Nat.ltb (length copies) n then Some IndexError else None
        end
    end.

  (** the whole function, given the solver's answer: None = status is not OPTIMAL,
      Some asg = OPTIMAL with variable values asg *)
  Definition ilp (answer : option (list Z)) (o : objective) (k : nat) (items : list A)
             (copies ws : list Z) : result (bins A) :=
    match ilp_precheck k (length items) copies ws o with
    | Some e => Err e
    | None => match answer with
              | None => Err ValueError
              | Some asg => Ok (decode k items ws asg)
              end
    end.
End Decode.
