(** Models of prtpy/packing/greedy_covering.py and cflz_covering.py.
    State of every covering loop: the closed (full) bins in order, and the current
    last bin.  The Python keeps the current bin as the last element of the array and
    finally drops it with remove_bins(bins, 1). *)
From Prtpy Require Import Base.Prelude Model.Binner.

Section Covering.
  Context {A : Type} (valueof : A -> Z) (keep : bool).

  Definition cstate : Type := (bins A * bin A)%type.

  (** add_item_to_bin(bins, item, -1); if sums[-1] >= binsize: add_empty_bins(bins, 1) *)
  Definition cover_add (C : Z) (st : cstate) (x : A) : cstate :=
    let cur := add_to_bin valueof keep x (snd st) in
    if fst cur >=? C then (fst st ++ [cur], empty_bin) else (fst st, cur).

  (** decreasing_subroutine *)
  Definition dec_sub (C : Z) (st : cstate) (items : list A) : cstate :=
    fold_left (cover_add C) items st.

  Definition cover_decreasing (C : Z) (items : list A) : bins A :=
    fst (dec_sub C ([], empty_bin) (sort_desc valueof items)).

  (** twothirds: one step consumes one item: the largest remaining one when the
      current bin was just opened ([fresh]), otherwise the smallest remaining one. *)
  Fixpoint tt_loop (fuel : nat) (C : Z) (st : cstate) (fresh : bool) (rem : list A) : cstate :=
    match fuel with
    | O => st
    | S f =>
        match rem with
        | [] => st
        | x :: t =>
            if fresh then
              let cur := add_to_bin valueof keep x (snd st) in
              if fst cur >=? C then tt_loop f C (fst st ++ [cur], empty_bin) true t
              else tt_loop f C (fst st, cur) false t
            else
              match unsnoc rem with
              | None => st
              | Some (r, y) =>
                  let cur := add_to_bin valueof keep y (snd st) in
                  if fst cur >=? C then tt_loop f C (fst st ++ [cur], empty_bin) true r
                  else tt_loop f C (fst st, cur) false r
              end
        end
    end.

  Definition cover_twothirds (C : Z) (items : list A) : bins A :=
    fst (tt_loop (length items) C ([], empty_bin) true (sort_desc valueof items)).

  (** threequarters.  Class thresholds binsize/2, binsize/3 by cross-multiplication. *)

  Definition is_big (C : Z) (x : A) : bool := C <=? 2 * valueof x.
  Definition is_medium (C : Z) (x : A) : bool := (C <=? 3 * valueof x) && (2 * valueof x <? C).
  Definition is_small (C : Z) (x : A) : bool := 3 * valueof x <? C.

  (** fill the current bin with the smallest small items (taken from the end) while
      small items remain and the bin is not full *)
  Fixpoint fill_small (fuel : nat) (C : Z) (cur : bin A) (small : list A) : bin A * list A :=
    match fuel with
    | O => (cur, small)
    | S f =>
        if fst cur <? C then
          match unsnoc small with
          | None => (cur, small)
          | Some (r, y) => fill_small f C (add_to_bin valueof keep y cur) r
          end
        else (cur, small)
    end.

  Fixpoint tq_loop (fuel : nat) (C : Z) (st : cstate) (big medium small : list A) : cstate :=
    match fuel with
    | O => st
    | S f =>
        match small with
        | [] => dec_sub C (dec_sub C st big) medium
        | _ :: _ =>
            match big, medium with
            | [], [] => dec_sub C st small
            | _, _ =>
                let b1 := firstn 1 big in
                let m2 := firstn 2 medium in
                let '(cur0, big', medium') :=
                  if zsum (map valueof b1) >=? zsum (map valueof m2)
                  then (fold_left (fun c x => add_to_bin valueof keep x c) b1 (snd st), skipn 1 big, medium)
                  else (fold_left (fun c x => add_to_bin valueof keep x c) m2 (snd st), big, skipn 2 medium) in
                let '(cur1, small') := fill_small (length small) C cur0 small in
                if fst cur1 >=? C then tq_loop f C (fst st ++ [cur1], empty_bin) big' medium' small'
                else tq_loop f C (fst st, cur1) big' medium' small'
            end
        end
    end.

  Definition cover_threequarters (C : Z) (items : list A) : bins A :=
    let s := sort_desc valueof items in
    fst (tq_loop (S (length items)) C ([], empty_bin)
           (filter (is_big C) s) (filter (is_medium C) s) (filter (is_small C) s)).
End Covering.
