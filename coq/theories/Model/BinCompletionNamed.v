(** Bin completion on named items (prtpy/packing/bin_completion.py, the block that follows the
    oversize check and the removal of zero-valued items):

      values = [valueof(item) for item in items]
      if any(value != item ...):
          value_bins = bin_completion(type(binner)(), binsize, values)    # the search of Model/BinCompletion.v
          if not isinstance(binner, BinnerKeepingContents): return value_bins
          names_of_value[value] = the items with that value, in input order
          for each bin of value_bins, for each value in it, in order:
              add_item_to_bin(named_bins, names_of_value[value].pop(0), ibin)

    The dictionary of queues [names_of_value] is modelled by ONE pool: the list of the items that are
    not used yet, in input order; [names_of_value[v].pop(0)] is "take the first item of the pool whose
    value is v" (the items of one value keep their input order inside the pool, so this is the head of
    the queue of v).
    When no unused item has the value v (Python: KeyError / IndexError from pop) the model skips that
    value and goes on.  This cannot happen on a result of the search when values are >= 0: the value
    bins hold exactly the values of the items (Proofs/BCNamedProofs.v, [bc_named_packing]).
    The sums of the named bins are recomputed by add_item_to_bin from 0, as in the Python code.
    When every item is equal to its value the Python code does not take this branch; the renaming is
    then the identity (the first unused item with value v is v), so the model needs no case split.
    Definitions only; proofs are in Proofs/BCNamedProofs.v. *)
From Prtpy Require Import Base.Prelude Model.Binner Model.BinCompletion.

Section Named.
  Context {A : Type} (valueof : A -> Z).

  (** names_of_value[v].pop(0): the first unused item whose value is v, and the pool without it *)
  Fixpoint take_first (v : Z) (pool : list A) : option (A * list A) :=
    match pool with
    | [] => None
    | x :: t =>
        if valueof x =? v then Some (x, t)
        else match take_first v t with
             | Some (y, t') => Some (y, x :: t')
             | None => None
             end
    end.

  (** the names for the values of one bin, in the order of the values; returns the pool that is left *)
  Fixpoint relabel_list (vs : list Z) (pool : list A) : list A * list A :=
    match vs with
    | [] => ([], pool)
    | v :: t =>
        match take_first v pool with
        | Some (x, pool') => let '(xs, p) := relabel_list t pool' in (x :: xs, p)
        | None => relabel_list t pool       (* no unused name with this value: skipped *)
        end
    end.

  (** a new bin filled by add_item_to_bin, one name after the other *)
  Definition named_bin (xs : list A) : bin A :=
    fold_left (fun bb x => add_to_bin valueof true x bb) xs empty_bin.

  Fixpoint relabel_bins (vb : bins Z) (pool : list A) : bins A :=
    match vb with
    | [] => []
    | bn :: t => let '(xs, pool') := relabel_list (snd bn) pool in
                 named_bin xs :: relabel_bins t pool'
    end.

  Definition relabel (items : list A) (vb : bins Z) : bins A := relabel_bins vb items.

  Definition nonzero_item (x : A) : bool := negb (valueof x =? 0).

  (** bin_completion(binner, binsize, items) with named items.
      keep = true: BinnerKeepingContents; keep = false: BinnerKeepingSums (the value-level sums are
      returned as they are; a sums-only bins-array has no contents). *)
  Definition bin_completion_named (keep : bool) (C : Z) (fuel : nat) (items : list A) : result (bins A) :=
    if existsb (fun x => C <? valueof x) items then Err ValueError
    else
      let nz := filter nonzero_item items in
      match bin_completion keep C fuel (map valueof nz) with
      | Err e => Err e
      | Ok vb => Ok (if keep then relabel nz vb else map (fun b => (fst b, @nil A)) vb)
      end.
End Named.
