(** Model of prtpy/partitioning/multifit.py.

    multifit.py runs a binary search on the bin capacity in IEEE binary64 floats and
    calls first-fit (prtpy/packing/first_fit.py, Model/Packing.v) on the items sorted by
    descending value.  The floats are modelled EXACTLY, without PrimFloat (the model is
    extracted with ExtrOcamlBasic only): a finite non-negative double is a dyadic
    rational [(m, e) : Z * Z] meaning m * 2^e with m >= 0.

    Domain on which the float model is faithful (documented assumptions):
    - item values are non-negative integers whose total is < 2^53 (so every sum that
      first-fit forms, the maximum value and 2 * total are exactly representable /
      exact Python ints);
    - numbins >= 1 is an int < 2^53;
    - no overflow / underflow / subnormal handling: every non-zero magnitude that occurs is
      in [2^-60, 2^60] roughly (S/k, 2S/k, their midpoints), far inside the normal range of
      binary64, so "round to 53 significant bits, unbounded exponent" is IEEE rounding;
    - negative numerators are not handled ([rnd53] returns 0 for num <= 0; only num = 0
      occurs on the domain).

    First-fit compares [sum + value <= binsize] where sum + value is an exactly represented
    integer and binsize a double; this is [sum + value <= floor binsize] over Z, so first-fit
    is run with the integer capacity [ffloor binsize].  Likewise [value > binsize] is
    [value > ffloor binsize].

    No proofs here (see Proofs/MultifitProofs.v). *)
From Prtpy Require Import Base.Prelude Model.Binner Model.Packing.

(** a non-negative dyadic rational m * 2^e *)
Definition dyadic : Type := (Z * Z)%type.

(** (n, d) with n / d = (num / den) / 2^e *)
Definition dy_scale (num den e : Z) : Z * Z :=
  if 0 <=? e then (num, den * 2 ^ e) else (num * 2 ^ (- e), den).

(** round-to-nearest, ties-to-even, of the non-negative rational n / d (d > 0) to an integer *)
Definition rne (n d : Z) : Z :=
  let q := n / d in
  let r := n mod d in
  if 2 * r <? d then q
  else if d <? 2 * r then q + 1
  else if Z.even q then q else q + 1.

(** round-to-nearest-even of the non-negative rational num / den (den > 0) to 53 significant
    bits.  With e0 = log2 num - log2 den - 53 the scaled value x / 2^e0 lies in (2^52, 2^54):
    if its floor is below 2^53 the 53-bit significand lives at exponent e0, else at e0 + 1.
    The significand returned is in [2^52, 2^53] (2^53 when rounding carries; (2^53, e) and
    (2^52, e+1) denote the same double). *)
Definition rnd53 (num den : Z) : dyadic :=
  if num <=? 0 then (0, 0)
  else
    let e0 := Z.log2 num - Z.log2 den - 53 in
    let nd := dy_scale num den e0 in
    if fst nd / snd nd <? 2 ^ 53 then (rne (fst nd) (snd nd), e0)
    else (rne (fst nd) (2 * snd nd), e0 + 1).

(** int / int true division of Python (correctly rounded) *)
Definition fdiv_int (a b : Z) : dyadic := rnd53 a b.

(** an integer as a double (exact when |z| < 2^53; the model is only used there) *)
Definition fof_Z (z : Z) : dyadic := (z, 0).

(** exact sum of two dyadics as (m, e) with e the smaller exponent *)
Definition dy_add (x y : dyadic) : dyadic :=
  let e := Z.min (snd x) (snd y) in
  (fst x * 2 ^ (snd x - e) + fst y * 2 ^ (snd y - e), e).

(** round a dyadic to 53 bits *)
Definition dy_round (x : dyadic) : dyadic :=
  if 0 <=? snd x then rnd53 (fst x * 2 ^ snd x) 1 else rnd53 (fst x) (2 ^ (- snd x)).

(** float addition: exact sum, then one rounding *)
Definition fadd (x y : dyadic) : dyadic := dy_round (dy_add x y).

(** division by 2 is exact (no underflow on the domain) *)
Definition fhalf (x : dyadic) : dyadic := (fst x, snd x - 1).

Definition fleb (x y : dyadic) : bool :=
  let e := Z.min (snd x) (snd y) in
  fst x * 2 ^ (snd x - e) <=? fst y * 2 ^ (snd y - e).
Definition fltb (x y : dyadic) : bool := negb (fleb y x).

(** Python's max(x, y): y if y > x else x *)
Definition fmax (x y : dyadic) : dyadic := if fltb x y then y else x.

Definition ffloor (x : dyadic) : Z :=
  if 0 <=? snd x then fst x * 2 ^ snd x else fst x / 2 ^ (- snd x).

Local Notation idZ := (fun v : Z => v).

(** lower_bound = max(S/k, M), upper_bound = max(2*S/k, M) *)
Definition mf_lower0 (k S M : Z) : dyadic := fmax (fdiv_int S k) (fof_Z M).
Definition mf_upper0 (k S M : Z) : dyadic := fmax (fdiv_int (2 * S) k) (fof_Z M).

(** binsize = (lower_bound + upper_bound) / 2 *)
Definition mf_mid (lo up : dyadic) : dyadic := fhalf (fadd lo up).

(** prtpy.pack(algorithm=first_fit, binsize, items=sorted_items, outputtype=BinCount):
    a sums-only first-fit run on the (sorted) values; the bin count is the length.
    An item larger than binsize makes first-fit raise ValueError, which propagates. *)
Definition mf_probe (svs : list Z) (binsize : dyadic) : result nat :=
  rmap (@length (bin Z)) (first_fit idZ false (ffloor binsize) svs).

(** the binary search; returns the final upper_bound *)
Fixpoint mf_loop (it : nat) (k : nat) (svs : list Z) (lo up : dyadic) : result dyadic :=
  match it with
  | O => Ok up
  | S it' =>
      let mid := mf_mid lo up in
      match mf_probe svs mid with
      | Err e => Err e
      | Ok n => if (n <=? k)%nat then mf_loop it' k svs lo mid else mf_loop it' k svs mid up
      end
  end.

(** same search, also recording (binsize, ffd_num_of_bins) of every iteration *)
Fixpoint mf_loop_trace (it : nat) (k : nat) (svs : list Z) (lo up : dyadic)
  : result (list (dyadic * nat) * dyadic) :=
  match it with
  | O => Ok ([], up)
  | S it' =>
      let mid := mf_mid lo up in
      match mf_probe svs mid with
      | Err e => Err e
      | Ok n =>
          rmap (fun r => ((mid, n) :: fst r, snd r))
               (if (n <=? k)%nat then mf_loop_trace it' k svs lo mid
                else mf_loop_trace it' k svs mid up)
      end
  end.

(** the final upper_bound on the list of values.
    max() of an empty sequence raises ValueError; numbins = 0 raises ZeroDivisionError
    (sum and max are evaluated before the division). *)
Definition multifit_capacity (iterations k : nat) (vs : list Z) : result dyadic :=
  match vs with
  | [] => Err ValueError
  | _ =>
      match k with
      | O => Err ZeroDivisionError
      | _ =>
          let S := zsum vs in
          let M := zmax vs in
          let kz := Z.of_nat k in
          mf_loop iterations k (sort_desc idZ vs) (mf_lower0 kz S M) (mf_upper0 kz S M)
      end
  end.

Definition multifit_trace (iterations k : nat) (vs : list Z) : result (list (dyadic * nat) * dyadic) :=
  match vs with
  | [] => Err ValueError
  | _ =>
      match k with
      | O => Err ZeroDivisionError
      | _ =>
          let S := zsum vs in
          let M := zmax vs in
          let kz := Z.of_nat k in
          mf_loop_trace iterations k (sort_desc idZ vs) (mf_lower0 kz S M) (mf_upper0 kz S M)
      end
  end.

Section Multifit.
  Context {A : Type} (valueof : A -> Z) (keep : bool).

  (** return first_fit.online(binner, binsize=upper_bound, items=sorted_items) *)
  Definition multifit (iterations k : nat) (items : list A) : result (bins A) :=
    rbind (multifit_capacity iterations k (map valueof items))
          (fun cap => first_fit valueof keep (ffloor cap) (sort_desc valueof items)).
End Multifit.
