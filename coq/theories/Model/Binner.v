(** Pure model of prtpy/binners.py: a bins-array is a list of (sum, contents).
    [keep = true]  models BinnerKeepingContents,
    [keep = false] models BinnerKeepingSums (contents stay []).
    Aliasing/object identity is modelled separately in Model/BinnerHeap.v. *)
From Prtpy Require Import Base.Prelude.

Section Binner.
  Context {A : Type} (valueof : A -> Z) (keep : bool).

  Definition bin : Type := (Z * list A)%type.
  Definition bins : Type := list bin.

  Definition empty_bin : bin := (0, []).
  Definition new_bins (k : nat) : bins := repeat empty_bin k.

  Definition add_to_bin (x : A) (b : bin) : bin :=
    (fst b + valueof x, if keep then snd b ++ [x] else snd b).

  (** add_item_to_bin(bins, item, bin_index) with 0 <= bin_index < numbins *)
  Definition add_item (b : bins) (x : A) (i : nat) : bins := update i (add_to_bin x) b.
  (** add_item_to_bin(bins, item, -1) *)
  Definition add_item_last (b : bins) (x : A) : bins := update (length b - 1)%nat (add_to_bin x) b.

  Definition sums (b : bins) : list Z := map fst b.
  Definition lists (b : bins) : list (list A) := map snd b.
  Definition contents (b : bins) : list A := concat (lists b).

  (** sort_by_ascending_sum: stable (sorted(range(n), key=sums[i]) for the contents
      manager; ndarray.sort() for the sums manager, where contents are all [] so
      stability is unobservable). *)
  Definition sort_bins (b : bins) : bins := sort_asc fst b.

  Definition add_empty_bins (b : bins) (n : nat) : bins := b ++ new_bins n.
  Definition remove_bins (b : bins) (n : nat) : bins := firstn (length b - n)%nat b.
  Definition concatenate_bins (b1 b2 : bins) : bins := b1 ++ b2.

  Definition combine_bin (b1 b2 : bin) : bin := (fst b1 + fst b2, snd b1 ++ snd b2).
  (** combine_bins(bins1, i1, bins2, i2): bins1[i1] += bins2[i2] *)
  Definition combine_bins (b1 : bins) (i1 : nat) (b2 : bins) (i2 : nat) : bins :=
    match nth_opt b2 i2 with
    | Some x => update i1 (fun y => combine_bin y x) b1
    | None => b1
    end.

  Definition numbins (b : bins) : nat := length b.
  Definition numitems (b : bins) (i : nat) : result nat :=
    if keep then match nth_opt b i with Some x => Ok (length (snd x)) | None => Err IndexError end
    else Err NotImplementedError.

  (** each recorded sum is the total value of the recorded items *)
  Definition wf_bin (b : bin) : Prop := fst b = zsum (map valueof (snd b)).
  Definition wf (b : bins) : Prop := Forall wf_bin b.
End Binner.

Arguments bin A : clear implicits.
Arguments bins A : clear implicits.

(** forget the contents: what the sums-only manager holds *)
Definition erase {A} (b : bins A) : bins A := map (fun x => (fst x, @nil A)) b.
(** project named bins to value bins *)
Definition map_bins {A B} (f : A -> B) (b : bins A) : bins B := map (fun x => (fst x, map f (snd x))) b.
