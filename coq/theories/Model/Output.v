(** Model of prtpy/outputtypes.py and of the adaptors prtpy/partitioning/adaptors.py
    (partition) and prtpy/packing/adaptors.py (pack).  Definitions only; the proofs are
    in Proofs/EraseProofs.v.

    An output type does two things:
      - create_binner: decides which bins-array manager the algorithm runs with
        (BinnerKeepingSums for the seven classes derived from Sums, BinnerKeepingContents
        for Partition and its subclasses);
      - extract_output_from_binsarray: maps the bins-array returned by the algorithm to
        the value handed to the caller.

    Faithfulness notes.
      - PartitionAndSumsTuple and PartitionAndSums return the same data (sums and lists),
        once as a tuple and once as a Struct; both are [OPartitionAndSums] / [OutBins].
      - max/min of an empty list of sums raise ValueError in Python; [zmax]/[zmin] return
        0 there (Base/Prelude.v).  An empty bins-array is only produced with numbins = 0.
      - Sums.extract_output_from_binsarray probes bins[0][0] to tell a (sums, lists) pair
        from a bare sums array.  The adaptors only ever hand it the bare sums array of
        BinnerKeepingSums, where the probe fails and the array itself is used; [extract]
        on a sums-family type reads [sums b] in both cases.
      - The adaptors also normalise the input (dict -> keys with valueof = items.__getitem__,
        list of numbers -> valueof = identity); this is the choice of [valueof] and is not
        modelled here. *)
From Prtpy Require Import Base.Prelude Model.Binner.

Inductive outtype :=
| OSums | OLargest | OSmallest | OExtreme | OSorted | ODifference | OBinCount
| OPartition | OPartitionAndSums.

(** create_binner: [true] = BinnerKeepingContents, [false] = BinnerKeepingSums *)
Definition keeps (o : outtype) : bool :=
  match o with
  | OPartition | OPartitionAndSums => true
  | _ => false
  end.

(** the classes derived from Sums *)
Definition sums_family (o : outtype) : bool := negb (keeps o).

Inductive output (A : Type) : Type :=
| OutSums (l : list Z)
| OutNum (z : Z)
| OutPair (lo hi : Z)
| OutCount (n : nat)
| OutLists (l : list (list A))
| OutBins (b : bins A).
Arguments OutSums {A} l.
Arguments OutNum {A} z.
Arguments OutPair {A} lo hi.
Arguments OutCount {A} n.
Arguments OutLists {A} l.
Arguments OutBins {A} b.

Section Output.
  Context {A : Type}.

  (** extract_output_from_binsarray *)
  Definition extract (o : outtype) (b : bins A) : output A :=
    match o with
    | OSums => OutSums (sums b)                                   (* list(sums) *)
    | OLargest => OutNum (zmax (sums b))                          (* max(sums) *)
    | OSmallest => OutNum (zmin (sums b))                         (* min(sums) *)
    | OExtreme => OutPair (zmin (sums b)) (zmax (sums b))         (* (min(sums), max(sums)) *)
    | OSorted => OutSums (sort_asc (fun x => x) (sums b))         (* sorted(sums) *)
    | ODifference => OutNum (zmax (sums b) - zmin (sums b))       (* max(sums)-min(sums) *)
    | OBinCount => OutCount (length (sums b))                     (* len(sums) *)
    | OPartition => OutLists (lists b)                            (* lists *)
    | OPartitionAndSums => OutBins b                              (* (sums, lists) *)
    end.

  (** extract_output_from_sums: the documented meaning of each sums-family output type as
      a function of the list of bin sums alone.  The Partition family has no such method
      (AttributeError); the value given for it here is a placeholder that no theorem uses. *)
  Definition derive (o : outtype) (s : list Z) : output A :=
    match o with
    | OSums => OutSums s
    | OLargest => OutNum (zmax s)
    | OSmallest => OutNum (zmin s)
    | OExtreme => OutPair (zmin s) (zmax s)
    | OSorted => OutSums (sort_asc (fun x => x) s)
    | ODifference => OutNum (zmax s - zmin s)
    | OBinCount => OutCount (length s)
    | OPartition | OPartitionAndSums => OutSums s
    end.

  (** binner = outputtype.create_binner(valueof); bins = algorithm(binner, ...);
      return outputtype.extract_output_from_binsarray(bins)
      for an algorithm abstracted as a function of the binner kind. *)
  Definition run_output (o : outtype) (alg : bool -> bins A) : output A :=
    extract o (alg (keeps o)).

  (** the same when the algorithm may raise *)
  Definition run_output_r (o : outtype) (alg : bool -> result (bins A)) : result (output A) :=
    rmap (extract o) (alg (keeps o)).

  (** the same when the algorithm may return None (complete_greedy under a time limit) *)
  Definition run_output_o (o : outtype) (alg : bool -> option (bins A)) : option (output A) :=
    option_map (extract o) (alg (keeps o)).

  (** partitioning/adaptors.py: partition(algorithm, numbins, items, valueof, outputtype) *)
  Definition run_partition (o : outtype) (alg : (A -> Z) -> bool -> nat -> list A -> bins A)
             (valueof : A -> Z) (numbins : nat) (items : list A) : output A :=
    run_output o (fun keep => alg valueof keep numbins items).
  Definition run_partition_r (o : outtype) (alg : (A -> Z) -> bool -> nat -> list A -> result (bins A))
             (valueof : A -> Z) (numbins : nat) (items : list A) : result (output A) :=
    run_output_r o (fun keep => alg valueof keep numbins items).

  (** packing/adaptors.py: pack(algorithm, binsize, items, valueof, outputtype) *)
  Definition run_pack (o : outtype) (alg : (A -> Z) -> bool -> Z -> list A -> bins A)
             (valueof : A -> Z) (binsize : Z) (items : list A) : output A :=
    run_output o (fun keep => alg valueof keep binsize items).
  Definition run_pack_r (o : outtype) (alg : (A -> Z) -> bool -> Z -> list A -> result (bins A))
             (valueof : A -> Z) (binsize : Z) (items : list A) : result (output A) :=
    run_output_r o (fun keep => alg valueof keep binsize items).
End Output.
