(** Models of sequential_number_partitioning_sy.py (snp) and
    recursive_number_partitioning_sy.py (rnp). *)
From Prtpy Require Import Base.Prelude Model.Binner Model.KK Model.InExTree.

Section SNP.
  Context {A : Type} (valueof : A -> Z) (nameof : A -> Z) (keep : bool).

  Definition item_eqb (x y : A) : bool := nameof x =? nameof y.

  Definition count_occ_b (x : A) (l : list A) : nat := length (filter (item_eqb x) l).

  (** find_diff(l1, l2) = list((Counter(l1) - Counter(l2)).elements()): for each distinct
      element of l1 in order of first occurrence, max(0, count1 - count2) copies. *)
  Fixpoint distinct_in_order (l : list A) (seen : list A) : list A :=
    match l with
    | [] => []
    | x :: t => if existsb (item_eqb x) seen then distinct_in_order t seen
                else x :: distinct_in_order t (x :: seen)
    end.
  Definition find_diff (l1 l2 : list A) : list A :=
    flat_map (fun x => repeat x (count_occ_b x l1 - count_occ_b x l2)%nat) (distinct_in_order l1 []).

  Definition spread (s : list Z) : Z := zmax s - zmin s.
  Definition bins_spread (b : bins A) : Z := spread (sums b).

  Definition bin_of (l : list A) : bin A := fold_left (fun b x => add_to_bin valueof keep x b) l empty_bin.

  Fixpoint snp_rec (kc : nat) (prior : bins A) (items : list A) (best : bins A) : bins A :=
    match kc with
    | O => best
    | S O => best
    | S (S O) =>
        match ckk valueof nameof keep 2 items with
        | Ok two =>
            if spread (sums two ++ sums prior) <? bins_spread best then two ++ prior else best
        | Err _ => best
        end
    | S kc' =>
        let kz := Z.of_nat kc in
        let t := vsum valueof items in
        let fix dfs (rest : list A) (cur : list A) (best : bins A) : bins A :=
          if (t <? kz * vsum valueof cur)
             || (kz * (vsum valueof cur + vsum valueof rest) <? t - (kz - 1) * bins_spread best)
          then best
          else match rest with
               | [] => snp_rec kc' (prior ++ [bin_of cur]) (find_diff items cur) best
               | x :: r => dfs r cur (dfs r (cur ++ [x]) best)
               end in
        dfs (sort_desc valueof items) [] best
    end.

  Definition snp (k : nat) (items : list A) : result (bins A) :=
    match kk valueof keep k items with
    | Err e => Err e
    | Ok best => if bins_spread best =? 0 then Ok best else Ok (snp_rec k [] items best)
    end.

  (** ---- RNP (kept faithful to the pinned code, known findings D3 included) ----
      [isfloat]: current_numbins is a Python float (it came from current_numbins/2);
      using it as a bin index raises IndexError. *)
  Fixpoint rnp_rec (fuel : nat) (kc : nat) (isfloat : bool) (prior : bins A) (items : list A)
           (best : bins A) : result (bins A) :=
    match fuel with
    | O => Err OtherError
    | S f =>
        if Nat.eqb kc 2 then ckk valueof nameof keep 2 items
        else if Nat.odd kc then
          let kz := Z.of_nat kc in
          let t := vsum valueof items in
          let d0 := bins_spread best in
          let fix dfs (rest : list A) (cur : list A) (best : bins A) : result (bins A) :=
            if (t <? kz * vsum valueof cur)
               || (kz * (vsum valueof cur + vsum valueof rest) <? t - (kz - 1) * d0)
            then Ok best
            else match rest with
                 | [] =>
                     if isfloat && negb (Nat.eqb (length cur) 0) then Err IndexError
                     else
                       let prior' := prior ++ [bin_of cur] in
                       match rnp_rec f (kc - 1) isfloat prior' (find_diff items cur) best with
                       | Err e => Err e
                       | Ok nb =>
                           if spread (sums nb ++ sums prior') <? bins_spread best
                           then Ok (prior' ++ nb) else Ok best
                       end
                 | x :: r =>
                     match dfs r (cur ++ [x]) best with
                     | Err e => Err e
                     | Ok best1 => dfs r cur best1
                     end
                 end in
          dfs (sort_desc valueof items) [] best
        else
          let d0 := bins_spread best in
          let parts := ckk_generator valueof nameof true 2 items (Some (- d0)) in
          fold_left
            (fun acc part =>
               match acc with
               | Err e => Err e
               | Ok best =>
                   let l1 := snd (nth 0 part empty_bin) in
                   let l2 := snd (nth 1 part empty_bin) in
                   match rnp_rec f (Nat.div kc 2) true prior l1 best with
                   | Err e => Err e
                   | Ok nb1 =>
                       match rnp_rec f (Nat.div kc 2) true prior l2 best with
                       | Err e => Err e
                       | Ok nb2 =>
                           if spread (sums nb1 ++ sums nb2) <? d0 then Ok (nb1 ++ nb2) else Ok best
                       end
                   end
               end)
            parts (Ok best)
    end.

  Definition rnp (k : nat) (items : list A) : result (bins A) :=
    match kk valueof keep k items with
    | Err e => Err e
    | Ok best => if bins_spread best =? 0 then Ok best
                 else rnp_rec (S k) k false [] items best
    end.
End SNP.
