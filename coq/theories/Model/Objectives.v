(** Model of prtpy/objectives.py. *)
From Prtpy Require Import Base.Prelude.

Inductive objective :=
| MaxSmallest            (* MaximizeSmallestSum  : value = - min *)
| MinLargest             (* MinimizeLargestSum   : value = max *)
| MinDiff                (* MinimizeDifference   : value = max - min *)
| MaxKSmallest (k : nat) (* MaximizeKSmallestSums(k) : value = - sum of k smallest *)
| MinKLargest (k : nat). (* MinimizeKLargestSums(k)  : value = sum of k largest *)

Definition head0 (s : list Z) : Z := hd 0 s.
Definition last0 (s : list Z) : Z := last s 0.

(** sorted_sums[-k:] in Python: for k = 0 this is the whole list *)
Definition py_suffix (k : nat) (s : list Z) : list Z :=
  match k with O => s | _ => skipn (length s - k)%nat s end.

(** value_to_minimize(sums, are_sums_in_ascending_order = sorted) *)
Definition value (o : objective) (s : list Z) (sorted : bool) : Z :=
  match o with
  | MaxSmallest => if sorted then - head0 s else - zmin s
  | MinLargest => if sorted then last0 s else zmax s
  | MinDiff => if sorted then last0 s - head0 s else zmax s - zmin s
  | MaxKSmallest k => - zsum (firstn k (if sorted then s else sort_asc (fun x => x) s))
  | MinKLargest k => zsum (py_suffix k (if sorted then s else sort_asc (fun x => x) s))
  end.

(** water-filling loop of MaximizeTheSmallestSum.lower_bound; np.floor(a/i) is a / i
    (floor division) on the exact-integer domain (assumption floor_fl_div, DESIGN 3.1) *)
Fixpoint waterfill (i : Z) (acc : Z) (rest : list Z) : Z :=
  match rest with
  | [] => acc / i
  | s :: r => if acc <=? i * s then acc / i else waterfill (i + 1) (acc + s) r
  end.

Definition lb_maxmin (s : list Z) (R : Z) (sorted : bool) : Z :=
  match (if sorted then s else sort_asc (fun x => x) s) with
  | [] => 0
  | s0 :: rest => - waterfill 1 (R + s0) rest
  end.

Definition lb_minmax (s : list Z) (R : Z) (sorted : bool) : Z :=
  Z.max (if sorted then last0 s else zmax s) (cdiv (zsum s + R) (Z.of_nat (length s))).

(** lower_bound(sums, sum_of_remaining_items, sorted); None is -inf (base class) *)
Definition lower_bound (o : objective) (s : list Z) (R : Z) (sorted : bool) : option Z :=
  match o with
  | MaxSmallest => Some (lb_maxmin s R sorted)
  | MinLargest => Some (lb_minmax s R sorted)
  | MinDiff => Some (lb_maxmin s R sorted + lb_minmax s R sorted)
  | _ => None
  end.

(** MaximizeSmallestWeightedSum(weights).value_to_minimize(sums, sorted):
    the minimum of s_i / w_i over zip(sums, weights) as an exact fraction (num, den),
    den > 0; compared by cross-multiplication.  The Python value is -(num/den). *)
Fixpoint wmin_aux (best : Z * Z) (l : list (Z * Z)) : Z * Z :=
  match l with
  | [] => best
  | (s, w) :: t =>
      (* s/w < bn/bd  <->  s*bd < bn*w   (w, bd > 0) *)
      if s * snd best <? fst best * w then wmin_aux (s, w) t else wmin_aux best t
  end.

Definition value_weighted (ws : list Z) (s : list Z) (sorted : bool) : result (Z * Z) :=
  if sorted then Err ValueError
  else match combine s ws with
       | [] => Err ValueError     (* min() of an empty sequence *)
       | p :: t => Ok (wmin_aux p t)
       end.
