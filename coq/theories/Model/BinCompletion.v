(** Model of prtpy/packing/bin_completion.py and bin_completion_utils.py, after the
    repairs D4 (loop), D5 (multiset dominance), D6 (BFD through the caller's manager).
    The algorithm computes on the items themselves (x + item <= binsize, sum(items)),
    so it is modelled on plain numeric items: A = Z, valueof = id.  (Named items are a
    known finding, DESIGN section 7.)
    Float expressions numbins + sum/binsize >= best are modelled by cross-multiplication,
    exact for binsize <= 2^30 and totals < 2^52. *)
From Prtpy Require Import Base.Prelude Model.Binner Model.Packing Model.CG.

Definition zid (x : Z) : Z := x.

Fixpoint remove_first (x : Z) (l : list Z) : list Z :=
  match l with
  | [] => []
  | y :: t => if x =? y then t else y :: remove_first x t
  end.

(** list_without_items(original, to_remove) *)
Definition list_without (original to_remove : list Z) : list Z :=
  fold_left (fun acc x => remove_first x acc) to_remove original.

Fixpoint mem_list (x : list Z) (l : list (list Z)) : bool :=
  match l with [] => false | y :: t => zlist_eqb x y || mem_list x t end.

Fixpoint remove_first_list (x : list Z) (l : list (list Z)) : list (list Z) :=
  match l with
  | [] => []
  | y :: t => if zlist_eqb x y then t else y :: remove_first_list x t
  end.

(** unique_list *)
Fixpoint unique_list_aux (l : list (list Z)) (seen : list (list Z)) : list (list Z) :=
  match l with
  | [] => []
  | x :: t => if mem_list x seen then unique_list_aux t seen else x :: unique_list_aux t (x :: seen)
  end.
Definition unique_list (l : list (list Z)) := unique_list_aux l [].

(** itertools.combinations(l, i) in its lexicographic (by position) order *)
Fixpoint combos (i : nat) (l : list Z) : list (list Z) :=
  match i, l with
  | O, _ => [[]]
  | S _, [] => []
  | S j, x :: t => map (cons x) (combos j t) ++ combos i t
  end.

(** multiset containment: not (Counter(l2) - Counter(l1)) *)
Fixpoint sub_multiset (l2 l1 : list Z) : bool :=
  match l2 with
  | [] => true
  | x :: t => if existsb (Z.eqb x) l1 then sub_multiset t (remove_first x l1) else false
  end.

(** exists an arrangement of the elements of l into the slots with the given
    remaining capacities (find_all_bin_arrangements + check_fits) *)
Fixpoint place_in_slots (x : Z) (caps : list Z) : list (list Z) :=
  match caps with
  | [] => []
  | c :: t => (if x <=? c then [(c - x) :: t] else []) ++ map (cons c) (place_in_slots x t)
  end.
Fixpoint fits_some (l : list Z) (caps : list Z) : bool :=
  match l with
  | [] => true
  | x :: t => existsb (fits_some t) (place_in_slots x caps)
  end.

Definition is_dominant (l1 l2 : list Z) : bool :=
  match l2 with
  | [] => true
  | h2 :: _ =>
      match l1 with
      | [] => false
      | h1 :: _ =>
          if sub_multiset l2 l1 then true
          else if h1 <? h2 then false
          else fits_some l2 l1
      end
  end.

(** check_for_dominance: returns the list of dominated completions *)
Fixpoint cfd_inner (l1 : list Z) (rest : list (list Z)) (dominated : list (list Z)) : list (list Z) :=
  match rest with
  | [] => dominated
  | l2 :: t =>
      if mem_list l2 dominated then cfd_inner l1 t dominated
      else if is_dominant l1 l2 then cfd_inner l1 t (dominated ++ [l2])
      else if is_dominant l2 l1 then dominated ++ [l1]      (* break *)
      else cfd_inner l1 t dominated
  end.
Fixpoint cfd_outer (l : list (list Z)) (dominated : list (list Z)) : list (list Z) :=
  match l with
  | [] => dominated
  | [_] => dominated          (* i ranges over len-1 *)
  | l1 :: t => if mem_list l1 dominated then cfd_outer t dominated
               else cfd_outer t (cfd_inner l1 t dominated)
  end.
Definition check_for_dominance (completions : list (list Z)) : list (list Z) :=
  match completions with
  | [] | [_] => completions
  | _ => sort_desc zsum (fold_left (fun acc d => remove_first_list d acc) (cfd_outer completions []) completions)
  end.

Fixpoint undominated_pairs (fuel : nat) (const y C : Z) (l : list Z) : list (list Z) :=
  match fuel with
  | O => []
  | S f =>
      match l with
      | [] => []
      | a :: t =>
          match unsnoc t with
          | None => []
          | Some (mid, b) =>
              let s := a + b in
              if C <? const + s then undominated_pairs f const y C t
              else if s <=? y then undominated_pairs f const y C (a :: mid)
              else [a; b] :: undominated_pairs f const y C mid
          end
      end
  end.

Fixpoint first_fitting (x C : Z) (items : list Z) : Z :=
  match items with
  | [] => 0
  | i :: t => if x + i <=? C then i else first_fitting x C t
  end.

Definition completions_for_fc (x y C : Z) (items : list Z) (fc : list Z) : list (list Z) :=
  let const := x + zsum fc in
  let left := list_without items fc in
  let pairs := undominated_pairs (length left) const y C left in
  match pairs with
  | [] => match fc with [] => [] | _ => [fc] end
  | _ => let ext := map (fun p => sort_desc zid (p ++ fc)) pairs in ext ++ ext
  end.

Definition find_bin_completions (x : Z) (items : list Z) (C : Z) : list (list Z) :=
  match items with
  | [] => []
  | _ =>
      let y := first_fitting x C items in
      if y =? 0 then []
      else
        let found :=
          [y] :: flat_map (fun i => flat_map (completions_for_fc x y C items)
                                      (filter (fun s => x + zsum s <=? C) (combos i items)))
                          (range (S (length items))) in
        check_for_dominance (unique_list (sort_desc zsum found))
  end.

Section BC.
  Variable keep : bool.
  Variable C : Z.

  Definition zbins := bins Z.
  Definition add_all (b : bin Z) (l : list Z) : bin Z :=
    fold_left (fun bb x => add_to_bin zid keep x bb) l b.

  Record branch := mk_branch { br_items : list Z; br_bins : zbins }.

  (** numbins + sum(items)/binsize >= best *)
  Definition plb_ge (nb : nat) (items : list Z) (bestn : nat) : bool :=
    (Z.of_nat bestn - Z.of_nat nb) * C <=? zsum items.

  Fixpoint bc_inner (fuel : nat) (bestn : nat) (items : list Z) (b : zbins) (newbr : list branch)
    : list Z * zbins * list branch :=
    match fuel with
    | O => (items, b, newbr)
    | S f =>
        match items with
        | [] => (items, b, newbr)
        | x :: updated =>
            let cur := add_to_bin zid keep x empty_bin in
            let comps := find_bin_completions x updated C in
            let '(cur', updated', newbr') :=
              match comps with
              | [] => (cur, updated, newbr)
              | c0 :: others =>
                  let brs := flat_map (fun c =>
                                let ni := list_without updated c in
                                let nb := b ++ [add_all cur c] in
                                if plb_ge (length nb) ni bestn then [] else [mk_branch ni nb]) others in
                  (add_all cur c0, fold_left (fun acc i => remove_first i acc) c0 updated, newbr ++ brs)
              end in
            let b' := b ++ [cur'] in
            if plb_ge (length b') updated' bestn then (updated', b', newbr')
            else bc_inner f bestn updated' b' newbr'
        end
    end.

  Fixpoint bc_outer (fuel : nat) (lb : Z) (queue : list branch) (best : zbins) : result zbins :=
    match fuel with
    | O => Err OtherError      (* out of fuel: never on the inputs the harness generates *)
    | S f =>
        match queue with
        | [] => Ok best
        | cb :: q =>
            let '(items', b', newbr) := bc_inner (length (br_items cb)) (length best) (br_items cb) (br_bins cb) [] in
            let best' := match items' with
                         | [] => if Nat.ltb (length b') (length best) then b' else best
                         | _ => best
                         end in
            if Z.of_nat (length best') =? lb then Ok best' else bc_outer f lb (q ++ newbr) best'
        end
    end.

  Definition bin_completion (fuel : nat) (items : list Z) : result zbins :=
    if existsb (fun v => C <? v) items then Err ValueError
    else
      let items := filter (fun v => negb (v =? 0)) items in
      match best_fit_decreasing zid keep C items with
      | Err e => Err e
      | Ok bfd =>
          let lb := if C =? 0 then 0 else cdiv (zsum items) C in
          if Z.of_nat (length bfd) =? lb then Ok bfd
          else bc_outer fuel lb [mk_branch (sort_desc zid items) []] bfd
      end.
End BC.
