(** Model of prtpy/inclusion_exclusion_tree.py: depth-first inclusion/exclusion
    enumeration over the items in non-increasing value order.  Bounds are fractions
    (num, den), den > 0, compared by cross-multiplication (the Python compares integer
    totals with float bounds such as t/k). *)
From Prtpy Require Import Base.Prelude.

Section InEx.
  Context {A : Type} (valueof : A -> Z).

  Definition vsum (l : list A) : Z := zsum (map valueof l).

  Definition above (s : Z) (ub : Z * Z) : bool := fst ub <? s * snd ub.     (* s > ub *)
  Definition below (s : Z) (lb : Z * Z) : bool := s * snd lb <? fst lb.     (* s < lb *)

  Fixpoint inex_dfs (lb ub : Z * Z) (rest : list A) (cur : list A) : list (list A) :=
    if above (vsum cur) ub || below (vsum cur + vsum rest) lb then []
    else match rest with
         | [] => [cur]
         | x :: r => inex_dfs lb ub r (cur ++ [x]) ++ inex_dfs lb ub r cur
         end.

  Definition generate_tree (lb ub : Z * Z) (items : list A) : list (list A) :=
    inex_dfs lb ub (sort_desc valueof items) [].
End InEx.
