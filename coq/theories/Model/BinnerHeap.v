(** Heap-level model of prtpy/binners.py: numpy buffers, array views, Python list objects
    with identity, so that the shallow copies made by add_empty_bins / remove_bins /
    concatenate_bins alias exactly as in CPython + numpy (DESIGN 3.3, validated in 3.12):

      np.zeros(n), np.array(x), np.append(a, b)   allocate a fresh buffer;
      a[0:m]                                      is a VIEW on the same buffer;
      a[i] += v, a.sort(), a[:] = ...             write through the view;
      [[] for _ in range(n)]                      fresh outer list, fresh inner lists;
      list(map(list, lists))                      fresh outer, fresh copies of the inner lists;
      lists1 + lists2, lists[0:m]                 fresh outer list SHARING the inner lists;
      lists[i].append(x), lists1[i] += lists2[j]  mutate the inner list in place;
      lists[:] = ...                              permutes the elements of the outer list in place.

    A handle is what the Python code holds as "bins": an array view (sums-only manager) or a
    pair (array view, outer list) (contents manager).  Handles are never removed from the
    state; [abs] reads what a handle currently shows. *)
From Prtpy Require Import Base.Prelude Model.Binner.

Section Heap.
  Context {A : Type} (valueof : A -> Z).

  Record view := mk_view { v_buf : nat; v_len : nat }.     (* views always start at offset 0 *)
  Record handle := mk_handle { h_view : view; h_outer : option nat }.   (* None: sums-only *)

  Record hstate := mk_hstate {
    bufs : list (list Z);        (* numpy buffers *)
    inners : list (list A);      (* inner Python lists (bin contents) *)
    outers : list (list nat);    (* outer Python lists: ids of inner lists *)
    handles : list handle }.

  Definition empty_state : hstate := mk_hstate [] [] [] [].

  Definition buf_of (st : hstate) (b : nat) : list Z := nth b (bufs st) [].
  Definition view_vals (st : hstate) (v : view) : list Z := firstn (v_len v) (buf_of st (v_buf v)).
  Definition inner_of (st : hstate) (i : nat) : list A := nth i (inners st) [].
  Definition outer_of (st : hstate) (o : nat) : list nat := nth o (outers st) [].

  (** what a handle shows: the bins-array at the pure level *)
  Definition abs_handle (st : hstate) (h : handle) : bins A :=
    match h_outer h with
    | None => map (fun s => (s, [])) (view_vals st (h_view h))
    | Some o => combine (view_vals st (h_view h)) (map (inner_of st) (outer_of st o))
    end.
  Definition abs (st : hstate) (hi : nat) : option (bins A) :=
    match nth_opt (handles st) hi with Some h => Some (abs_handle st h) | None => None end.

  (** write l into the first positions of buffer b (through a view) *)
  Fixpoint overwrite (l old : list Z) : list Z :=
    match l, old with
    | [], _ => old
    | x :: t, _ :: o => x :: overwrite t o
    | x :: t, [] => x :: overwrite t []
    end.
  Definition set_buf (st : hstate) (b : nat) (f : list Z -> list Z) : hstate :=
    mk_hstate (update b f (bufs st)) (inners st) (outers st) (handles st).
  Definition set_inner (st : hstate) (i : nat) (f : list A -> list A) : hstate :=
    mk_hstate (bufs st) (update i f (inners st)) (outers st) (handles st).
  Definition set_outer (st : hstate) (o : nat) (f : list nat -> list nat) : hstate :=
    mk_hstate (bufs st) (inners st) (update o f (outers st)) (handles st).
  Definition add_handle (st : hstate) (h : handle) : hstate :=
    mk_hstate (bufs st) (inners st) (outers st) (handles st ++ [h]).
  Definition alloc_buf (st : hstate) (l : list Z) : hstate * nat :=
    (mk_hstate (bufs st ++ [l]) (inners st) (outers st) (handles st), length (bufs st)).
  Definition alloc_inner (st : hstate) (l : list A) : hstate * nat :=
    (mk_hstate (bufs st) (inners st ++ [l]) (outers st) (handles st), length (inners st)).
  Definition alloc_outer (st : hstate) (l : list nat) : hstate * nat :=
    (mk_hstate (bufs st) (inners st) (outers st ++ [l]) (handles st), length (outers st)).

  Fixpoint alloc_inners (st : hstate) (ls : list (list A)) : hstate * list nat :=
    match ls with
    | [] => (st, [])
    | l :: t => let '(st1, i) := alloc_inner st l in
                let '(st2, is) := alloc_inners st1 t in (st2, i :: is)
    end.

  Inductive op :=
  | OpNew (keep : bool) (n : nat)                 (* new_bins(n) *)
  | OpAdd (h : nat) (x : A) (i : nat)             (* add_item_to_bin(bins, x, i), 0 <= i < numbins *)
  | OpCopy (h : nat)                              (* copy_bins *)
  | OpSort (h : nat)                              (* sort_by_ascending_sum *)
  | OpAddEmpty (h : nat) (n : nat)                (* add_empty_bins *)
  | OpRemove (h : nat) (n : nat)                  (* remove_bins *)
  | OpConcat (h1 h2 : nat)                        (* concatenate_bins *)
  | OpCombine (h1 : nat) (i1 : nat) (h2 : nat) (i2 : nat).   (* combine_bins *)

  Definition new_handle (st : hstate) (keep : bool) (n : nat) : hstate * handle :=
    let '(st1, b) := alloc_buf st (repeat 0 n) in
    if keep then
      let '(st2, is) := alloc_inners st1 (repeat [] n) in
      let '(st3, o) := alloc_outer st2 is in
      (st3, mk_handle (mk_view b n) (Some o))
    else (st1, mk_handle (mk_view b n) None).

  (** stable argsort of the view by value, applied to both components *)
  Definition sorted_perm (vals : list Z) : list nat :=
    map fst (sort_asc (fun p : nat * Z => snd p) (combine (range (length vals)) vals)).

  Definition step (st : hstate) (o : op) : hstate :=
    match o with
    | OpNew keep n => let '(st1, h) := new_handle st keep n in add_handle st1 h
    | OpAdd hi x i =>
        match nth_opt (handles st) hi with
        | None => st
        | Some h =>
            if Nat.ltb i (v_len (h_view h)) then
              let st1 := set_buf st (v_buf (h_view h)) (update i (fun s => s + valueof x)) in
              match h_outer h with
              | None => st1
              | Some ou => match nth_opt (outer_of st1 ou) i with
                           | Some inn => set_inner st1 inn (fun l => l ++ [x])
                           | None => st1
                           end
              end
            else st
        end
    | OpCopy hi =>
        match nth_opt (handles st) hi with
        | None => st
        | Some h =>
            let vals := view_vals st (h_view h) in
            let '(st1, b) := alloc_buf st vals in
            match h_outer h with
            | None => add_handle st1 (mk_handle (mk_view b (length vals)) None)
            | Some ou =>
                let '(st2, is) := alloc_inners st1 (map (inner_of st1) (outer_of st1 ou)) in
                let '(st3, o2) := alloc_outer st2 is in
                add_handle st3 (mk_handle (mk_view b (length vals)) (Some o2))
            end
        end
    | OpSort hi =>
        match nth_opt (handles st) hi with
        | None => st
        | Some h =>
            let vals := view_vals st (h_view h) in
            match h_outer h with
            | None => set_buf st (v_buf (h_view h)) (overwrite (sort_asc (fun x => x) vals))
            | Some ou =>
                let perm := sorted_perm vals in
                let st1 := set_buf st (v_buf (h_view h)) (overwrite (map (fun i => nth i vals 0) perm)) in
                let old := outer_of st1 ou in
                (* lists[:] = [lists[i] for i in perm]: numbins = len(sums) entries *)
                set_outer st1 ou (fun _ => map (fun i => nth i old O) perm)
            end
        end
    | OpAddEmpty hi n =>
        match nth_opt (handles st) hi with
        | None => st
        | Some h =>
            (* concatenate_bins(bins, new_bins(n)) *)
            let '(st1, hn) := new_handle st (match h_outer h with Some _ => true | None => false end) n in
            let vals := view_vals st1 (h_view h) ++ view_vals st1 (h_view hn) in
            let '(st2, b) := alloc_buf st1 vals in
            match h_outer h, h_outer hn with
            | Some o1, Some o2 =>
                let '(st3, o3) := alloc_outer st2 (outer_of st2 o1 ++ outer_of st2 o2) in
                add_handle st3 (mk_handle (mk_view b (length vals)) (Some o3))
            | _, _ => add_handle st2 (mk_handle (mk_view b (length vals)) None)
            end
        end
    | OpRemove hi n =>
        match nth_opt (handles st) hi with
        | None => st
        | Some h =>
            let m := (v_len (h_view h) - n)%nat in
            match h_outer h with
            | None => add_handle st (mk_handle (mk_view (v_buf (h_view h)) m) None)
            | Some ou =>
                let old := outer_of st ou in
                let '(st1, o2) := alloc_outer st (firstn (length old - n) old) in
                add_handle st1 (mk_handle (mk_view (v_buf (h_view h)) m) (Some o2))
            end
        end
    | OpConcat h1i h2i =>
        match nth_opt (handles st) h1i, nth_opt (handles st) h2i with
        | Some h1, Some h2 =>
            let vals := view_vals st (h_view h1) ++ view_vals st (h_view h2) in
            let '(st1, b) := alloc_buf st vals in
            match h_outer h1, h_outer h2 with
            | Some o1, Some o2 =>
                let '(st2, o3) := alloc_outer st1 (outer_of st1 o1 ++ outer_of st1 o2) in
                add_handle st2 (mk_handle (mk_view b (length vals)) (Some o3))
            | None, None => add_handle st1 (mk_handle (mk_view b (length vals)) None)
            | _, _ => st        (* mixing managers is not a documented use *)
            end
        | _, _ => st
        end
    | OpCombine h1i i1 h2i i2 =>
        match nth_opt (handles st) h1i, nth_opt (handles st) h2i with
        | Some h1, Some h2 =>
            if Nat.ltb i1 (v_len (h_view h1)) && Nat.ltb i2 (v_len (h_view h2)) then
              let add := nth i2 (view_vals st (h_view h2)) 0 in
              let st1 := set_buf st (v_buf (h_view h1)) (update i1 (fun s => s + add)) in
              match h_outer h1, h_outer h2 with
              | Some o1, Some o2 =>
                  match nth_opt (outer_of st1 o1) i1, nth_opt (outer_of st1 o2) i2 with
                  | Some in1, Some in2 =>
                      let ext := inner_of st1 in2 in
                      set_inner st1 in1 (fun l => l ++ ext)
                  | _, _ => st1
                  end
              | None, None => st1
              | _, _ => st
              end
            else st
        | _, _ => st
        end
    end.

  Definition run (ops : list op) : hstate := fold_left step ops empty_state.
  Definition observe (st : hstate) : list (bins A) := map (abs_handle st) (handles st).
End Heap.
