(** Models of prtpy/partitioning/greedy.py and roundrobin.py. *)
From Prtpy Require Import Base.Prelude Model.Binner.

Section Greedy.
  Context {A : Type} (valueof : A -> Z) (keep : bool).

  (** for item in sorted(items, key=valueof, reverse=True):
        i = min(range(numbins), key=sums.__getitem__); add_item_to_bin(bins, item, i) *)
  Definition greedy_step (b : bins A) (x : A) : bins A :=
    add_item valueof keep b x (argmin (sums b)).

  Definition greedy (k : nat) (items : list A) : bins A :=
    fold_left greedy_step (sort_desc valueof items) (new_bins k).

  (** ibin cycles 0,1,...,k-1,0,... over the sorted items *)
  Fixpoint rr_loop (k : nat) (items : list A) (ibin : nat) (b : bins A) : bins A :=
    match items with
    | [] => b
    | x :: t => rr_loop k t (Nat.modulo (S ibin) k) (add_item valueof keep b x ibin)
    end.

  Definition roundrobin (k : nat) (items : list A) : bins A :=
    rr_loop k (sort_desc valueof items) O (new_bins k).
End Greedy.
