(** Models of prtpy/partitioning/karmarkar_karp_sy.py (BinsSortedByMaxDiff, kk) and
    complete_karmarkar_karp_sy.py (optimal, generator, the pruning bound).

    Heap: Python keeps entries (-diff, count, bins) in a heapq; count is unique and
    increasing in push order, and within one heap every entry was pushed later than all
    entries already in it (clones share the counter, but a heap only ever contains
    entries pushed along its own lineage).  So heappop is "remove the entry with the
    smallest -diff, oldest first among equals": a list kept sorted by -diff with FIFO
    insertion among equal keys.  The internal heap layout is unobservable
    (iterator() is only used for max and sum). *)
From Prtpy Require Import Base.Prelude Base.Perms Model.Binner.

Section KK.
  Context {A : Type} (valueof : A -> Z) (nameof : A -> Z) (keep : bool).

  Definition hentry : Type := (Z * bins A)%type.   (* (-diff, bins) *)
  Definition heap : Type := list hentry.

  Definition bins_diff (b : bins A) : Z := last (sums b) 0 - hd 0 (sums b).

  (** insert after every entry whose key is <= the new key *)
  Fixpoint heap_insert (e : hentry) (h : heap) : heap :=
    match h with
    | [] => [e]
    | y :: t => if fst e <? fst y then e :: y :: t else y :: heap_insert e t
    end.

  (** push: sort_by_ascending_sum(bins); key = -(sums[-1] - sums[0]) *)
  Definition heap_push (h : heap) (b : bins A) : heap :=
    let sb := sort_bins b in heap_insert (- bins_diff sb, sb) h.

  Definition singleton_bins (k : nat) (x : A) : bins A :=
    add_item valueof keep (new_bins k) x (k - 1)%nat.

  Definition initial_heap (k : nat) (items : list A) : heap :=
    fold_left (fun h x => heap_push h (singleton_bins k x)) (sort_desc valueof items) [].

  (** for i in range(k): combine_bins(bins1, k-i-1, bins2, i) *)
  Fixpoint zip_combine (b1 b2 : bins A) : bins A :=
    match b1, b2 with
    | x :: t1, y :: t2 => combine_bin x y :: zip_combine t1 t2
    | _, _ => b1
    end.
  Definition kk_combine (b1 b2 : bins A) : bins A := zip_combine b1 (rev b2).

  Fixpoint kk_loop (fuel : nat) (h : heap) : heap :=
    match fuel with
    | O => h
    | S f =>
        match h with
        | e1 :: e2 :: rest => kk_loop f (heap_push rest (kk_combine (snd e1) (snd e2)))
        | _ => h
        end
    end.

  Definition kk (k : nat) (items : list A) : result (bins A) :=
    match kk_loop (length items - 1)%nat (initial_heap k items) with
    | e :: _ => Ok (snd e)
    | [] => Err IndexError
    end.

  (** ---- all_combinations ---- *)
  Definition sort_names (l : list A) : list A := sort_asc nameof l.

  Definition combo_of_perm (b1 b2 : bins A) (perm : list nat) : bins A :=
    let picked := map (fun i => match nth_opt b1 i with Some x => x | None => empty_bin end) perm in
    let raw := zip_combine picked b2 in
    sort_bins (map (fun x => (fst x, if keep then sort_names (snd x) else snd x)) raw).

  (** lexicographic order on tuples of names (Python's tuple comparison) *)
  Fixpoint lex_le (a b : list Z) : bool :=
    match a, b with
    | [], _ => true
    | _ :: _, [] => false
    | x :: s, y :: t => if x <? y then true else if y <? x then false else lex_le s t
    end.
  Fixpoint lex_insert (x : list Z) (l : list (list Z)) : list (list Z) :=
    match l with
    | [] => [x]
    | y :: t => if lex_le x y then x :: y :: t else y :: lex_insert x t
    end.
  Definition lex_sort (l : list (list Z)) : list (list Z) := fold_right lex_insert [] l.

  (** de-duplication key: tuple(sorted(map(tuple, lists))) for the contents manager (after
      the repair "fix: all_combinations yielded the same combination twice ..."),
      tuple(sorted sums) for the sums manager *)
  Definition combo_key (b : bins A) : list (list Z) :=
    if keep then lex_sort (map (fun x => map nameof (snd x)) b) else map (fun x => [fst x]) b.

  Fixpoint list_eqb {T} (eqb : T -> T -> bool) (l1 l2 : list T) : bool :=
    match l1, l2 with
    | [], [] => true
    | x :: t1, y :: t2 => eqb x y && list_eqb eqb t1 t2
    | _, _ => false
    end.
  Definition key_eqb : list (list Z) -> list (list Z) -> bool := list_eqb (list_eqb Z.eqb).

  Fixpoint dedup_combos (seen : list (list (list Z))) (l : list (bins A)) : list (bins A) :=
    match l with
    | [] => []
    | b :: t =>
        let key := combo_key b in
        if existsb (key_eqb key) seen then dedup_combos seen t
        else b :: dedup_combos (key :: seen) t
    end.

  Definition all_combinations (b1 b2 : bins A) : list (bins A) :=
    dedup_combos [] (map (combo_of_perm b1 b2) (perms (length b1))).

  (** De-duplication of the children of a search node by their SUMS (repair "fix: complete Karmarkar-Karp explored different
      trees with the two bins-managers"): in complete_karmarkar_karp_sy.py the loop over binner.all_combinations(bins1, bins2)
      skips a combination whose tuple of (ascending) sums was already seen at this node, so the search tree depends on the
      sums only, whichever bins-manager is used. *)
  Fixpoint dedup_sums (seen : list (list Z)) (l : list (bins A)) : list (bins A) :=
    match l with
    | [] => []
    | b :: t =>
        let key := sums b in
        if existsb (list_eqb Z.eqb key) seen then dedup_sums seen t
        else b :: dedup_sums (key :: seen) t
    end.

  Definition ckk_children (b1 b2 : bins A) : list (bins A) := dedup_sums [] (all_combinations b1 b2).

  (** ---- CKK ---- *)
  Definition heap_flat_sums (h : heap) : list Z := flat_map (fun e => sums (snd e)) h.

  (** _possible_partition_difference_lower_bound; with numbins = 1 the Python divides a
      float by zero, gets nan/inf and never prunes: None *)
  Definition ckk_bound (k : nat) (h : heap) : option Z :=
    match k with
    | O | S O => None
    | _ => let fl := heap_flat_sums h in
           let mx := zmax fl in
           Some (- (mx - (zsum fl - mx) / (Z.of_nat k - 1)))
    end.

  (** [mode_best = true]: search for the best (best_difference_so_far is updated);
      [false]: bounded mode of the generator (all partitions better than the given bound). *)
  Record ckk_state := mk_ckk {
    ckk_best : option Z;            (* best_difference_so_far (a non-positive number); None = -inf *)
    ckk_part : option (bins A);     (* best_partition_so_far *)
    ckk_yields : list (bins A);     (* what the generator yielded, most recent first *)
    ckk_stop : bool;                (* a perfect partition was found *)
    ckk_nodes : nat }.              (* heaps popped from the stack *)

  Definition le_best (lb : Z) (best : option Z) : bool :=
    match best with None => false | Some b => lb <=? b end.
  Definition gt_best (d : Z) (best : option Z) : bool :=
    match best with None => true | Some b => b <? d end.

  Definition topdiff (h : heap) : Z := match h with e :: _ => fst e | [] => 0 end.

  Fixpoint ckk_explore (fuel : nat) (mode_best : bool) (k : nat) (h : heap) (st : ckk_state) : ckk_state :=
    if ckk_stop st then st else
    let st := mk_ckk (ckk_best st) (ckk_part st) (ckk_yields st) false (S (ckk_nodes st)) in
    if match ckk_bound k h with Some lb => le_best lb (ckk_best st) | None => false end then st else
    match h with
    | [] => st
    | [e] =>
        let d := fst e in
        if gt_best d (ckk_best st) then
          mk_ckk (if mode_best then Some d else ckk_best st) (Some (snd e))
                 (snd e :: ckk_yields st) (d =? 0) (ckk_nodes st)
        else st
    | e1 :: e2 :: rest =>
        match fuel with
        | O => st
        | S f =>
            let children := map (heap_push rest) (ckk_children (snd e1) (snd e2)) in
            let sorted := sort_asc topdiff children in
            fold_left (fun s c => ckk_explore f mode_best k c s) (rev sorted) st
        end
    end.

  Definition ckk_run (mode_best : bool) (init_best : option Z) (k : nat) (items : list A) : ckk_state :=
    ckk_explore (length items) mode_best k (initial_heap k items)
                (mk_ckk init_best None [] false O).

  (** complete_karmarkar_karp_sy.optimal *)
  Definition ckk (k : nat) (items : list A) : result (bins A) :=
    match ckk_part (ckk_run true None k items) with
    | Some b => Ok (sort_bins b)
    | None => Err OtherError     (* UnboundLocalError: no leaf reached *)
    end.

  (** complete_karmarkar_karp_sy.generator: the sequence of yielded partitions.
      init_best = None is the default -inf. *)
  Definition ckk_generator (k : nat) (items : list A) (init_best : option Z) : list (bins A) :=
    rev (ckk_yields (ckk_run (match init_best with None => true | Some _ => false end) init_best k items)).
End KK.
