(** Model of prtpy/partitioning/cbldm.py.  The algorithm always works with a
    contents-keeping manager; a sub-partition is a bins-array of two bins.
    [limit = Some n]: the time test at the top of part() fires at its (n+1)-th call. *)
From Prtpy Require Import Base.Prelude Model.Binner.

Section CBLDM.
  Context {A : Type} (valueof : A -> Z).

  Definition sub := bins A.   (* exactly two bins *)

  Definition bin_at (b : bins A) (i : nat) : bin A := nth i b empty_bin.
  Definition sum_diff (b : sub) : Z := Z.abs (fst (bin_at b 0) - fst (bin_at b 1)).
  Definition len_diff (b : sub) : Z :=
    Z.abs (Z.of_nat (length (snd (bin_at b 0))) - Z.of_nat (length (snd (bin_at b 1)))).

  Record cb_state := mk_cb {
    cb_best : option sub;       (* None = the placeholder ([0,inf],[0,inf]) *)
    cb_delta : option Z;        (* sum_delta; None = +inf *)
    cb_opt : bool;
    cb_ticks : nat }.

  Definition lt_delta (v : Z) (d : option Z) : bool := match d with None => true | Some x => v <? x end.
  Definition ge_delta (v : Z) (d : option Z) : bool := match d with None => false | Some x => x <=? v end.

  Variable numitems : nat.
  Variable len_delta : Z.
  Variable limit : option nat.

  Definition pair_bins (x y : bin A) : sub := [x; y].

  Fixpoint cb_part (fuel : nat) (subs : list sub) (st : cb_state) : cb_state :=
    let st := mk_cb (cb_best st) (cb_delta st) (cb_opt st) (S (cb_ticks st)) in
    if match limit with Some n => Nat.ltb n (cb_ticks st) | None => false end || cb_opt st then st else
    match subs with
    | [] => st
    | [p] =>
        if (len_diff p <=? len_delta) && lt_delta (sum_diff p) (cb_delta st)
        then mk_cb (Some p) (Some (sum_diff p)) (sum_diff p =? 0) (cb_ticks st)
        else st
    | _ =>
        let xs := map sum_diff subs in
        let ms := map len_diff subs in
        if ge_delta (2 * zmax_list 0 xs - zsum xs) (cb_delta st) then st
        else if len_delta <? 2 * zmax_list 0 ms - zsum ms then st
        else
          let subs' := if Nat.leb (length subs) (Nat.div (numitems + 1) 2)
                       then sort_asc (fun s => - sum_diff s) subs else subs in
          match fuel, subs' with
          | S f, a :: b :: rest =>
              let combined := sort_bins (pair_bins (combine_bin (combine_bin empty_bin (bin_at a 0)) (bin_at b 0))
                                                   (combine_bin (combine_bin empty_bin (bin_at a 1)) (bin_at b 1))) in
              let split := sort_bins (pair_bins (combine_bin (combine_bin empty_bin (bin_at a 1)) (bin_at b 0))
                                                (combine_bin (combine_bin empty_bin (bin_at a 0)) (bin_at b 1))) in
              let st1 := cb_part f (rest ++ [split]) st in
              cb_part f (rest ++ [combined]) st1
          | _, _ => st
          end
    end.
End CBLDM.

Inductive cbldm_out (A : Type) :=
| CbPlaceholder            (* ([0,inf],[0,inf]): no complete partition found yet *)
| CbBins (b : bins A).
Arguments CbPlaceholder {A}.
Arguments CbBins {A} b.

(** argument validation, in the order of the Python; [d_is_int = false] models a
    partition_difference that is not an int; [tl_positive = false] a time_limit <= 0 *)
Definition cbldm {A} (valueof : A -> Z) (k : nat) (items : list A) (tl_positive : bool)
           (d : Z) (d_is_int : bool) (limit : option nat) : result (cbldm_out A * nat) :=
  if negb (Nat.eqb k 2) then Err ValueError
  else if negb tl_positive then Err ValueError
  else if (d <? 1) || negb d_is_int then Err ValueError
  else
    let sorted := sort_desc valueof items in
    match last_opt sorted with
    | None => Err IndexError
    | Some l =>
        if valueof l <? 0 then Err ValueError
        else
          let subs := map (fun x => add_item valueof true (new_bins 2) x 1) sorted in
          let st := cb_part (length items) d limit (length items) subs (mk_cb None None false O) in
          Ok (match cb_best st with None => CbPlaceholder | Some b => CbBins b end, cb_ticks st)
    end.
