(** Model of prtpy/partitioning/dynamic_programming.py.
    [optimal] tests isinstance(binner, BinnerKeepingSums); BinnerKeepingContents is a
    subclass, so _optimal_partition is always the function that runs: states are
    *unsorted* sum tuples, one layer per item in input order, each state remembers the
    first record (prev, ibin) that produced it, the best final state is replayed.
    The Python iterates a set of records, whose order is unspecified; the model
    iterates in its own (list) order, so the record kept for a state and the minimum
    chosen among ties may differ: the correspondence compares the objective value and
    validity, not the tie-broken bins (DESIGN 3.6). *)
From Prtpy Require Import Base.Prelude Model.Binner Model.Objectives Model.CG.

Section DP.
  Context {A : Type} (valueof : A -> Z) (keep : bool).

  (** a record: (state, path) where path lists the bin index of each item so far, most recent first *)
  Definition drec : Type := (list Z * list nat)%type.

  Fixpoint dp_insert (r : drec) (l : list drec) : list drec :=
    match l with
    | [] => [r]
    | y :: t => if zlist_eqb (fst r) (fst y) then l else y :: dp_insert r t
    end.

  Definition dp_succ (k : nat) (v : Z) (r : drec) : list drec :=
    map (fun i => (update i (fun s => s + v) (fst r), i :: snd r)) (range k).

  Definition dp_layer (k : nat) (v : Z) (layer : list drec) : list drec :=
    fold_left (fun acc r => fold_left (fun acc' r' => dp_insert r' acc') (dp_succ k v r) acc) layer [].

  Definition dp_final (k : nat) (items : list A) : list drec :=
    fold_left (fun layer x => dp_layer k (valueof x) layer) items [(repeat 0 k, [])].

  Fixpoint dp_min (o : objective) (best : drec) (l : list drec) : drec :=
    match l with
    | [] => best
    | r :: t => if value o (fst r) false <? value o (fst best) false then dp_min o r t else dp_min o best t
    end.

  Fixpoint dp_replay (items : list A) (path : list nat) (b : bins A) : bins A :=
    match items, path with
    | x :: t, i :: p => dp_replay t p (add_item valueof keep b x i)
    | _, _ => b
    end.

  Definition dp (o : objective) (k : nat) (items : list A) : result (bins A) :=
    match dp_final k items with
    | [] => Err ValueError
    | r :: t => let best := dp_min o r t in
                Ok (dp_replay items (rev (snd best)) (new_bins k))
    end.
End DP.
