(** Models of prtpy/packing/first_fit.py and best_fit.py. *)
From Prtpy Require Import Base.Prelude Model.Binner.

Section Packing.
  Context {A : Type} (valueof : A -> Z) (keep : bool).

  (** scan bins from index 0, take the first with sum + value <= binsize, else open a new bin *)
  Fixpoint ff_place (C : Z) (x : A) (b : bins A) : bins A :=
    match b with
    | [] => [add_to_bin valueof keep x empty_bin]
    | bn :: t => if fst bn + valueof x <=? C then add_to_bin valueof keep x bn :: t
                 else bn :: ff_place C x t
    end.

  Fixpoint ff_loop (C : Z) (items : list A) (b : bins A) : result (bins A) :=
    match items with
    | [] => Ok b
    | x :: t => if valueof x >? C then Err ValueError else ff_loop C t (ff_place C x b)
    end.

  Definition first_fit (C : Z) (items : list A) : result (bins A) := ff_loop C items (new_bins 1).
  Definition first_fit_decreasing (C : Z) (items : list A) : result (bins A) :=
    first_fit C (sort_desc valueof items).

  (** best_bin = (-1,-1); for each bin: new_sum = sum + value;
      if new_sum <= binsize and new_sum > best_bin[1]: best_bin = (ibin, new_sum) *)
  Fixpoint bf_scan (C v : Z) (b : bins A) (i : nat) (best : option nat * Z) : option nat * Z :=
    match b with
    | [] => best
    | bn :: t =>
        let ns := fst bn + v in
        bf_scan C v t (S i) (if (ns <=? C) && (snd best <? ns) then (Some i, ns) else best)
    end.

  Definition bf_place (C : Z) (x : A) (b : bins A) : bins A :=
    match fst (bf_scan C (valueof x) b O (None, -1)) with
    | Some i => add_item valueof keep b x i
    | None => b ++ [add_to_bin valueof keep x empty_bin]
    end.

  Fixpoint bf_loop (C : Z) (items : list A) (b : bins A) : result (bins A) :=
    match items with
    | [] => Ok b
    | x :: t => if valueof x >? C then Err ValueError else bf_loop C t (bf_place C x b)
    end.

  Definition best_fit (C : Z) (items : list A) : result (bins A) := bf_loop C items (new_bins 1).
  Definition best_fit_decreasing (C : Z) (items : list A) : result (bins A) :=
    best_fit C (sort_desc valueof items).
End Packing.
