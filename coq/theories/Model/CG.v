(** Model of prtpy/partitioning/complete_greedy.py (anytime), after the repairs
    "fix: ... zero-valued items" (states keyed by (depth, sums)) and
    "fix: ... numbins=1 with the max-min fast bound".

    The explicit stack becomes recursion that reproduces the stack discipline
    (DESIGN 3.7): the children of a vertex are *generated* when the vertex is expanded
    (prune tests see the incumbent of that moment, seen_states is updated), and
    *explored* afterwards in pop order (reverse of push order).  One loop iteration of
    the Python = one call of [cg_visit]/[cg_explore] that gets past the stop flag; it
    reads the clock once ([cg_ticks]).  [limit = Some n]: the limit test fires at the
    (n+1)-th reading. *)
From Prtpy Require Import Base.Prelude Model.Binner Model.Objectives.

Section CG.
  Context {A : Type} (valueof : A -> Z) (keep : bool).

  Record cg_flags := mk_flags {
    use_lower_bound : bool;
    use_fast_lower_bound : bool;
    use_heuristic_3 : bool;
    use_set_of_seen_states : bool }.

  Record cg_state := mk_cg {
    cg_best : option (bins A);
    cg_bestv : option Z;                      (* None = +inf *)
    cg_seen : list (nat * list Z);            (* (depth, sums) *)
    cg_stop : bool;
    cg_ticks : nat;
    cg_first : option (bins A) }.             (* first complete solution found (for C11) *)

  Definition ge_bestv (v : Z) (bestv : option Z) : bool :=
    match bestv with None => false | Some b => b <=? v end.
  Definition lt_bestv (v : Z) (bestv : option Z) : bool :=
    match bestv with None => true | Some b => v <? b end.
  (** lower bound (None = -inf) >= best value (None = +inf) *)
  Definition lb_ge_bestv (lb : option Z) (bestv : option Z) : bool :=
    match lb with None => false | Some v => ge_bestv v bestv end.

  Definition objective_eqb (o1 o2 : objective) : bool :=
    match o1, o2 with
    | MaxSmallest, MaxSmallest | MinLargest, MinLargest | MinDiff, MinDiff => true
    | _, _ => false
    end.

  Fixpoint zlist_eqb (l1 l2 : list Z) : bool :=
    match l1, l2 with
    | [], [] => true
    | x :: t1, y :: t2 => (x =? y) && zlist_eqb t1 t2
    | _, _ => false
    end.
  Definition state_eqb (s1 s2 : nat * list Z) : bool :=
    Nat.eqb (fst s1) (fst s2) && zlist_eqb (snd s1) (snd s2).

  Variable o : objective.
  Variable flags : cg_flags.
  Variable limit : option nat.
  Variable k : nat.
  Variable glb : option Z.     (* global lower bound; None = -inf *)

  (** the check at the top of the while loop + pop *)
  Definition cg_enter (st : cg_state) : option cg_state :=
    if cg_stop st then None else
    let st1 := mk_cg (cg_best st) (cg_bestv st) (cg_seen st) false (S (cg_ticks st)) (cg_first st) in
    match limit with
    | Some n => if Nat.ltb n (cg_ticks st1)
                then None
                else Some st1
    | None => Some st1
    end.
  (** what the state becomes when cg_enter refuses: either already stopped, or the limit fired now *)
  Definition cg_halt (st : cg_state) : cg_state :=
    if cg_stop st then st
    else mk_cg (cg_best st) (cg_bestv st) (cg_seen st) true (S (cg_ticks st)) (cg_first st).

  (** a complete partition popped from the stack *)
  Definition cg_leaf (b : bins A) (st : cg_state) : cg_state :=
    match cg_enter st with
    | None => cg_halt st
    | Some st1 =>
        let v := value o (sums b) false in
        if lt_bestv v (cg_bestv st1) then
          mk_cg (Some b) (Some v) (cg_seen st1)
                (match glb with Some g => v <=? g | None => false end)
                (cg_ticks st1)
                (match cg_first st1 with None => Some b | f => f end)
        else st1
    end.

  (** generation of the children of a vertex: bin_index from k-1 down to 0.
      Returns the children in push order and the updated seen-set. *)
  Fixpoint cg_children (idxs : list nat) (b : bins A) (cur_sums : list Z) (x : A) (R : Z) (depth : nat)
           (prev : option Z) (bestv : option Z) (seen : list (nat * list Z))
    : list (bins A) * list (nat * list Z) :=
    match idxs with
    | [] => ([], seen)
    | bi :: rest =>
        let cs := nth bi cur_sums 0 in
        if match prev with Some p => cs =? p | None => false end
        then cg_children rest b cur_sums x R depth prev bestv seen
        else
          let prev' := Some cs in
          let fast : option Z :=
            if use_fast_lower_bound flags then
              match o with
              | MinLargest => Some (Z.max (cs + valueof x) (last0 cur_sums))
              | MaxSmallest =>
                  let ns := match bi with
                            | O => let a := head0 cur_sums + valueof x in
                                   if Nat.ltb 1 k then Z.min a (nth 1 cur_sums 0) else a
                            | _ => head0 cur_sums
                            end in
                  Some (- (ns + R))
              | _ => None
              end
            else None in
          if lb_ge_bestv fast bestv then cg_children rest b cur_sums x R depth prev' bestv seen
          else
            let nb := sort_bins (add_item valueof keep b x bi) in
            let ns := sums nb in
            if use_lower_bound flags && lb_ge_bestv (lower_bound o ns R true) bestv
            then cg_children rest b cur_sums x R depth prev' bestv seen
            else if use_set_of_seen_states flags then
              if existsb (state_eqb (S depth, ns)) seen
              then cg_children rest b cur_sums x R depth prev' bestv seen
              else let '(cs', seen') := cg_children rest b cur_sums x R depth prev' bestv ((S depth, ns) :: seen) in
                   (nb :: cs', seen')
            else let '(cs', seen') := cg_children rest b cur_sums x R depth prev' bestv seen in
                 (nb :: cs', seen')
    end.

  Fixpoint cg_explore (rest : list A) (depth : nat) (b : bins A) (st : cg_state) : cg_state :=
    match rest with
    | [] => cg_leaf b st
    | x :: t =>
        match cg_enter st with
        | None => cg_halt st
        | Some st1 =>
            let cur := sums b in
            if use_heuristic_3 flags && objective_eqb o MinLargest
               && (zsum (map valueof rest) + head0 cur <=? last0 cur)
            then
              cg_leaf (sort_bins (fold_left (fun bb y => add_item valueof keep bb y O) rest b)) st1
            else
              let '(children, seen') :=
                cg_children (rev (range k)) b cur x (zsum (map valueof t)) depth None (cg_bestv st1) (cg_seen st1) in
              let st2 := mk_cg (cg_best st1) (cg_bestv st1) seen' false (cg_ticks st1) (cg_first st1) in
              fold_left (fun s c => cg_explore t (S depth) c s) (rev children) st2
        end
    end.
End CG.

Definition cg_run {A} (valueof : A -> Z) (keep : bool) (o : objective) (flags : cg_flags)
           (limit : option nat) (k : nat) (items : list A) : @cg_state A :=
  let sorted := sort_desc valueof items in
  let glb := lower_bound o (repeat 0 k) (zsum (map valueof sorted)) true in
  cg_explore valueof keep o flags limit k glb sorted O (new_bins k)
             (mk_cg None None (if use_set_of_seen_states flags then [(O, repeat 0 k)] else []) false O None).

(** the value returned by anytime(): None when no complete partition was reached *)
Definition cg {A} (valueof : A -> Z) (keep : bool) (o : objective) (flags : cg_flags)
           (limit : option nat) (k : nat) (items : list A) : option (bins A) :=
  cg_best (cg_run valueof keep o flags limit k items).
