(** Bin completion with an observable trace of the search: the same functions as Model/BinCompletion.v with one more
    accumulator recording, in order, the arguments (x, remaining items) of every call of find_bin_completions - i.e. which
    bins were opened in which branch.  The implementation's trace is recorded by wrapping the module attribute
    find_bin_completions of prtpy.packing.bin_completion (no source change); comparing the two traces exposes a change in
    what the search explores or prunes long before it changes a final answer.  Proofs/BCTraceProofs.v: the result component is
    exactly bin_completion. *)
From Prtpy Require Import Base.Prelude Model.Binner Model.Packing Model.BinCompletion.

Section BCT.
  Variable keep : bool.
  Variable C : Z.

  Definition trace := list (Z * list Z).

  Fixpoint bc_inner_tr (fuel : nat) (bestn : nat) (items : list Z) (b : zbins) (newbr : list branch) (tr : trace)
    : list Z * zbins * list branch * trace :=
    match fuel with
    | O => (items, b, newbr, tr)
    | S f =>
        match items with
        | [] => (items, b, newbr, tr)
        | x :: updated =>
            let cur := add_to_bin zid keep x empty_bin in
            let comps := find_bin_completions x updated C in
            let tr' := tr ++ [(x, updated)] in
            let '(cur', updated', newbr') :=
              match comps with
              | [] => (cur, updated, newbr)
              | c0 :: others =>
                  let brs := flat_map (fun c =>
                                let ni := list_without updated c in
                                let nb := b ++ [add_all keep cur c] in
                                if plb_ge C (length nb) ni bestn then [] else [mk_branch ni nb]) others in
                  (add_all keep cur c0, fold_left (fun acc i => remove_first i acc) c0 updated, newbr ++ brs)
              end in
            let b' := b ++ [cur'] in
            if plb_ge C (length b') updated' bestn then (updated', b', newbr', tr')
            else bc_inner_tr f bestn updated' b' newbr' tr'
        end
    end.

  Fixpoint bc_outer_tr (fuel : nat) (lb : Z) (queue : list branch) (best : zbins) (tr : trace) : result zbins * trace :=
    match fuel with
    | O => (Err OtherError, tr)
    | S f =>
        match queue with
        | [] => (Ok best, tr)
        | cb :: q =>
            let '(items', b', newbr, tr') := bc_inner_tr (length (br_items cb)) (length best) (br_items cb) (br_bins cb) [] tr in
            let best' := match items' with
                         | [] => if Nat.ltb (length b') (length best) then b' else best
                         | _ => best
                         end in
            if Z.of_nat (length best') =? lb then (Ok best', tr') else bc_outer_tr f lb (q ++ newbr) best' tr'
        end
    end.

  Definition bin_completion_tr (fuel : nat) (items : list Z) : result zbins * trace :=
    if existsb (fun v => C <? v) items then (Err ValueError, [])
    else
      let items := filter (fun v => negb (v =? 0)) items in
      match best_fit_decreasing zid keep C items with
      | Err e => (Err e, [])
      | Ok bfd =>
          let lb := if C =? 0 then 0 else cdiv (zsum items) C in
          if Z.of_nat (length bfd) =? lb then (Ok bfd, [])
          else bc_outer_tr fuel lb [mk_branch (sort_desc zid items) []] bfd []
      end.
End BCT.
