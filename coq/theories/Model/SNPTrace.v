(** SNP (and RNP) with an observable trace of the search: the same functions as Model/SNP.v with one more accumulator
    recording, in order, every sub-collection that the consumer loop of rec_generate_sets receives from the
    inclusion/exclusion generator (every candidate "last bin" that is yielded and examined, at every recursion level,
    depth first), as the list of its item values in the generator's order (non-increasing values, stable).  The
    implementation's trace is recorded by wrapping the class attribute InExclusionBinTree.generate_tree with a generator
    that logs [valueof x for x in subset] each time the consumer pulls a subset (no source change).  The generator is lazy
    and the consumer mutates its lower bound between yields; the model reads the incumbent at the moment of each pruning
    test, so the two traces agree exactly.  Proofs/SNPTraceProofs.v: the result component is exactly snp / rnp. *)
From Prtpy Require Import Base.Prelude Model.Binner Model.KK Model.InExTree Model.SNP.

Section SNPT.
  Context {A : Type} (valueof : A -> Z) (nameof : A -> Z) (keep : bool).

  Definition strace := list (list Z).

  Fixpoint snp_rec_tr (kc : nat) (prior : bins A) (items : list A) (best : bins A) (tr : strace)
    : bins A * strace :=
    match kc with
    | O => (best, tr)
    | S O => (best, tr)
    | S (S O) =>
        match ckk valueof nameof keep 2 items with
        | Ok two =>
            if spread (sums two ++ sums prior) <? bins_spread best then (two ++ prior, tr) else (best, tr)
        | Err _ => (best, tr)
        end
    | S kc' =>
        let kz := Z.of_nat kc in
        let t := vsum valueof items in
        let fix dfs (rest : list A) (cur : list A) (best : bins A) (tr : strace) : bins A * strace :=
          if (t <? kz * vsum valueof cur)
             || (kz * (vsum valueof cur + vsum valueof rest) <? t - (kz - 1) * bins_spread best)
          then (best, tr)
          else match rest with
               | [] => snp_rec_tr kc' (prior ++ [bin_of valueof keep cur]) (find_diff nameof items cur) best
                         (tr ++ [map valueof cur])
               | x :: r => let p := dfs r (cur ++ [x]) best tr in dfs r cur (fst p) (snd p)
               end in
        dfs (sort_desc valueof items) [] best tr
    end.

  Definition snp_tr (k : nat) (items : list A) : result (bins A) * strace :=
    match kk valueof keep k items with
    | Err e => (Err e, [])
    | Ok best => if bins_spread best =? 0 then (Ok best, [])
                 else let p := snp_rec_tr k [] items best [] in (Ok (fst p), snd p)
    end.

  (** RNP: only the odd levels use the inclusion/exclusion generator.  When the run ends with an error the trace holds
      what had been yielded up to that point. *)
  Fixpoint rnp_rec_tr (fuel : nat) (kc : nat) (isfloat : bool) (prior : bins A) (items : list A)
           (best : bins A) (tr : strace) : result (bins A) * strace :=
    match fuel with
    | O => (Err OtherError, tr)
    | S f =>
        if Nat.eqb kc 2 then (ckk valueof nameof keep 2 items, tr)
        else if Nat.odd kc then
          let kz := Z.of_nat kc in
          let t := vsum valueof items in
          let d0 := bins_spread best in
          let fix dfs (rest : list A) (cur : list A) (best : bins A) (tr : strace) : result (bins A) * strace :=
            if (t <? kz * vsum valueof cur)
               || (kz * (vsum valueof cur + vsum valueof rest) <? t - (kz - 1) * d0)
            then (Ok best, tr)
            else match rest with
                 | [] =>
                     let tr1 := tr ++ [map valueof cur] in
                     if isfloat && negb (Nat.eqb (length cur) 0) then (Err IndexError, tr1)
                     else
                       let prior' := prior ++ [bin_of valueof keep cur] in
                       let p := rnp_rec_tr f (kc - 1) isfloat prior' (find_diff nameof items cur) best tr1 in
                       match fst p with
                       | Err e => (Err e, snd p)
                       | Ok nb =>
                           if spread (sums nb ++ sums prior') <? bins_spread best
                           then (Ok (prior' ++ nb), snd p) else (Ok best, snd p)
                       end
                 | x :: r =>
                     let p := dfs r (cur ++ [x]) best tr in
                     match fst p with
                     | Err e => (Err e, snd p)
                     | Ok best1 => dfs r cur best1 (snd p)
                     end
                 end in
          dfs (sort_desc valueof items) [] best tr
        else
          let d0 := bins_spread best in
          let parts := ckk_generator valueof nameof true 2 items (Some (- d0)) in
          fold_left
            (fun acc part =>
               match fst acc with
               | Err e => acc
               | Ok best =>
                   let l1 := snd (nth 0 part empty_bin) in
                   let l2 := snd (nth 1 part empty_bin) in
                   let p1 := rnp_rec_tr f (Nat.div kc 2) true prior l1 best (snd acc) in
                   match fst p1 with
                   | Err e => (Err e, snd p1)
                   | Ok nb1 =>
                       let p2 := rnp_rec_tr f (Nat.div kc 2) true prior l2 best (snd p1) in
                       match fst p2 with
                       | Err e => (Err e, snd p2)
                       | Ok nb2 =>
                           if spread (sums nb1 ++ sums nb2) <? d0 then (Ok (nb1 ++ nb2), snd p2) else (Ok best, snd p2)
                       end
                   end
               end)
            parts (Ok best, tr)
    end.

  Definition rnp_tr (k : nat) (items : list A) : result (bins A) * strace :=
    match kk valueof keep k items with
    | Err e => (Err e, [])
    | Ok best => if bins_spread best =? 0 then (Ok best, [])
                 else rnp_rec_tr (S k) k false [] items best []
    end.
End SNPT.
