(** Model of prtpy/partitioning/balanced.py (bidirectional balanced partition, ABCCBA order).
    The function is not exported in the prtpy.partitioning namespace but is reachable through
    prtpy.partition(algorithm=bidirectional_balanced, ...). *)
From Prtpy Require Import Base.Prelude Model.Binner.

Section Balanced.
  Context {A : Type} (valueof : A -> Z) (keep : bool).

  (** bin_index += current_direction
      if bin_index > numbins - 1: bin_index = numbins-1; current_direction = -1
      if bin_index < 0:           bin_index = 0;         current_direction = +1 *)
  Definition bidir_next (k : nat) (ibin : nat) (up : bool) : nat * bool :=
    if up then (if Nat.ltb (k - 1) (S ibin) then ((k - 1)%nat, false) else (S ibin, true))
    else (match ibin with O => (O, true) | S j => (j, false) end).

  Fixpoint bidir_loop (k : nat) (items : list A) (ibin : nat) (up : bool) (b : bins A) : bins A :=
    match items with
    | [] => b
    | x :: t => let '(i', up') := bidir_next k ibin up in
                bidir_loop k t i' up' (add_item valueof keep b x ibin)
    end.

  Definition bidirectional_balanced (k : nat) (items : list A) : bins A :=
    bidir_loop k (sort_desc valueof items) O true (new_bins k).
End Balanced.
