(** C08 - Partitioning heuristics meet their proven worst-case guarantees.
    PROVED for all inputs, in full: greedy (LPT) and Karmarkar-Karp largest sum <= (4/3 - 1/(3k)) OPT (lpt_ratio_43, kk_ratio_43);
    greedy's smallest sum >= (3k-1)/(4k-2) OPTmin (lpt_min_exact); the gap largest - smallest <= largest item for greedy, Karmarkar-Karp and
    round-robin; round-robin's sums are non-increasing in bin index and its cardinalities differ by at most one.
    PARTIAL: multifit largest <= (11/9 + 2^-it) OPT + 44/9 on the float model (11/9 = 1.2222...; 1/450 above the published constant) (the constant 1.22 of Coffman, Garey and Johnson is NOT proved:
    tested against the verified oracle opt_value and planted optima; the additive slack is the rounding of the float capacity search).
    Statements only; proofs in Proofs/{GreedyProofs,KKProofs,RatioProofs,KKRatio43Proofs,LPTMinExactProofs,MultifitRatioProofs,OracleSpec}.v. *)
From Prtpy Require Import Base.Prelude Model.Binner Model.Objectives Model.Greedy Model.KK Model.Multifit Spec.Partition Oracle.Reach Proofs.GreedyProofs Proofs.KKProofs Proofs.CKKOptimal Proofs.RatioProofs Proofs.MultifitProofs Proofs.OracleSpec Proofs.KKRatioProofs Proofs.LPTMinProofs Proofs.LPTMinFullProofs Proofs.MultifitRatioProofs Proofs.KKRatio43Proofs Proofs.LPTMinExactProofs Proofs.MultifitCapacityProofs.

(** greedy: 3k * largest <= (4k - 1) * OPT, i.e. largest <= (4/3 - 1/(3k)) OPT *)
Theorem C08_lpt_ratio_43 :
  forall (A : Type) (valueof : A -> Z) (keep : bool) (k : nat) (items : list A) (opt : Z),
  Opt MinLargest k (map valueof items) opt ->
  (1 <= k)%nat ->
  Forall (fun x : A => 0 <= valueof x) items ->
  3 * Z.of_nat k * zmax (sums (greedy valueof keep k items)) <= (4 * Z.of_nat k - 1) * opt.
Proof. exact @lpt_ratio_43. Qed.
Print Assumptions C08_lpt_ratio_43.

(** Karmarkar-Karp: 3k * largest <= (4k - 1) * OPT, i.e. largest <= (4/3 - 1/(3k)) OPT, for every k (Michiels, Korst, Aarts, van Leeuwen): the property's bound in full *)
Theorem C08_kk_ratio_43 :
  forall (A : Type) (valueof : A -> Z) (k : nat) (items : list A) (b : bins A) (opt : Z),
  (1 <= k)%nat ->
  items <> [] ->
  Forall (fun x : A => 0 <= valueof x) items ->
  kk valueof true k items = Ok b ->
  Opt MinLargest k (map valueof items) opt ->
  3 * Z.of_nat k * zmax (sums b) <= (4 * Z.of_nat k - 1) * opt.
Proof. exact @kk_ratio_43. Qed.
Print Assumptions C08_kk_ratio_43.

(** the key lemma: the largest sum is at most OPT, or largest - smallest <= OPT/3 *)
Theorem C08_kk_dichotomy_third :
  forall (A : Type) (valueof : A -> Z) (k : nat) (items : list A) (b : bins A) (opt : Z),
  (1 <= k)%nat ->
  items <> [] ->
  Forall (fun x : A => 0 <= valueof x) items ->
  kk valueof true k items = Ok b ->
  Opt MinLargest k (map valueof items) opt ->
  zmax (sums b) <= opt \/ zmax (sums b) - zmin (sums b) <= opt / 3.
Proof. exact @kk_dichotomy_third. Qed.
Print Assumptions C08_kk_dichotomy_third.

(** greedy (LPT): (4k - 2) * smallest >= (3k - 1) * OPTmin for every k (Csirik, Kellerer, Woeginger 1992): the property's bound in full (v is the optimal value of the objective MaxSmallest, i.e. minus the optimal smallest sum) *)
Theorem C08_lpt_min_exact :
  forall (A : Type) (valueof : A -> Z) (keep : bool) (k : nat) (items : list A) (v : Z),
  (1 <= k)%nat ->
  Forall (fun x : A => 0 <= valueof x) items ->
  Opt MaxSmallest k (map valueof items) v ->
  (3 * Z.of_nat k - 1) * - v <=
  (4 * Z.of_nat k - 2) * zmin (sums (greedy valueof keep k items)).
Proof. exact @lpt_min_exact. Qed.
Print Assumptions C08_lpt_min_exact.

(** largest - smallest <= largest item *)
Theorem C08_greedy_gap :
  forall (A : Type) (valueof : A -> Z) (k : nat) (items : list A),
  (1 <= k)%nat ->
  items <> [] ->
  Forall (fun x : A => 0 <= valueof x) items ->
  zmax (sums (greedy valueof true k items)) - zmin (sums (greedy valueof true k items)) <=
  zmax (map valueof items).
Proof. exact @greedy_gap. Qed.
Print Assumptions C08_greedy_gap.

Theorem C08_kk_gap :
  forall (A : Type) (valueof : A -> Z) (k : nat) (items : list A) (b : bins A),
  (1 <= k)%nat ->
  items <> [] ->
  Forall (fun x : A => 0 <= valueof x) items ->
  kk valueof true k items = Ok b -> zmax (sums b) - zmin (sums b) <= zmax (map valueof items).
Proof. exact @kk_gap. Qed.
Print Assumptions C08_kk_gap.

Theorem C08_roundrobin_gap :
  forall (A : Type) (valueof : A -> Z) (k : nat) (items : list A),
  (1 <= k)%nat ->
  items <> [] ->
  Forall (fun x : A => 0 <= valueof x) items ->
  zmax (sums (roundrobin valueof true k items)) -
  zmin (sums (roundrobin valueof true k items)) <= zmax (map valueof items).
Proof. exact @roundrobin_gap. Qed.
Print Assumptions C08_roundrobin_gap.

(** round-robin: sums non-increasing in bin index *)
Theorem C08_rr_monotone :
  forall (A : Type) (valueof : A -> Z) (k : nat) (items : list A),
  (1 <= k)%nat ->
  Forall (fun x : A => 0 <= valueof x) items ->
  forall i j : nat,
  (i < j < k)%nat ->
  nth j (sums (roundrobin valueof true k items)) 0 <=
  nth i (sums (roundrobin valueof true k items)) 0.
Proof. exact @rr_monotone. Qed.
Print Assumptions C08_rr_monotone.

(** round-robin: cardinalities differ by at most one *)
Theorem C08_rr_cardinality :
  forall (A : Type) (valueof : A -> Z) (k : nat) (items : list A),
  (1 <= k)%nat ->
  forall i j : nat,
  (i < j < k)%nat ->
  let c := map (fun bn : Z * list A => length (snd bn)) (roundrobin valueof true k items) in
  (nth j c 0 <= nth i c 0 <= nth j c 0 + 1)%nat.
Proof. exact @rr_cardinality. Qed.
Print Assumptions C08_rr_cardinality.

(** PARTIAL (weaker constant): multifit largest <= 2 OPT *)
Theorem C08_multifit_ratio_2_partial :
  forall (A : Type) (valueof : A -> Z) (it k : nat) (items : list A) (b : bins A) (opt : Z),
  items <> [] ->
  Forall (fun x : A => 0 <= valueof x) items ->
  (1 <= k)%nat ->
  zsum (map valueof items) <= 2 ^ 53 ->
  multifit valueof true it k items = Ok b ->
  Opt MinLargest k (map valueof items) opt -> zmax (sums b) <= 2 * opt.
Proof. exact @multifit_ratio_2. Qed.
Print Assumptions C08_multifit_ratio_2_partial.

(** PARTIAL (constant 11/9 = 1.2222 instead of 1.22, explicit rounding slack): 9 * 2^it * largest <= (11 * 2^it + 9) * OPT + 44 * 2^it, i.e. largest <= (11/9 + 2^-it) OPT + 44/9 (the slack comes from first-fit running at the integer part of the float capacity and from the rounding of the midpoints) *)
Theorem C08_multifit_ratio_119_partial :
  forall (A : Type) (valueof : A -> Z) (it k : nat) (items : list A) (b : bins A) (opt : Z),
  items <> [] ->
  Forall (fun x : A => 0 <= valueof x) items ->
  (1 <= k)%nat ->
  multifit valueof true it k items = Ok b ->
  Opt MinLargest k (map valueof items) opt ->
  zsum (map valueof items) <= 2 ^ 53 ->
  9 * 2 ^ Z.of_nat it * zmax (sums b) <=
  (11 * 2 ^ Z.of_nat it + 9) * opt + 44 * 2 ^ Z.of_nat it.
Proof. exact @multifit_ratio_119. Qed.
Print Assumptions C08_multifit_ratio_119_partial.

(** the capacity lemma behind it: first-fit-decreasing with an integer capacity c >= 11/9 T packs into k bins whenever a partition into k bins with sums <= T exists *)
Theorem C08_ffd_capacity_119 :
  forall (k : nat) (T c : Z) (vs : list Z),
  (1 <= k)%nat ->
  Forall (fun v : Z => 0 <= v) vs ->
  Packable T vs k ->
  11 * T <= 9 * c ->
  exists b : bins Z,
  Packing.first_fit idZ false c (sort_desc idZ vs) = Ok b /\ (length b <= k)%nat.
Proof. exact @ffd_capacity_119. Qed.
Print Assumptions C08_ffd_capacity_119.

(** the yardstick for the unproved constants: opt_value is the true optimum *)
Theorem C08_opt_value_oracle :
  forall (o : objective) (k : nat) (vs : list Z),
  (1 <= k)%nat -> exists v : Z, opt_value o k vs = Some v /\ Opt o k vs v.
Proof. exact @opt_value_spec. Qed.
Print Assumptions C08_opt_value_oracle.

