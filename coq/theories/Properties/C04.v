(** C04 - Bin-completion uses the minimum possible number of bins.
    PROVED IN FULL for the model of the repaired code (Proofs/BCOptimalProofs.v): bin completion returns a packing of the non-zero
    items with the MINIMUM number of bins any feasible packing can have (bc_optimal), by Korf's argument made precise for THIS
    generator: the dominance test is sound (is_dominant_sound, an exchange argument), every feasible completion of the bin of the
    largest item - of any size - is dominated by one of the completions returned (find_bin_completions_complete), and a branch is
    discarded only when it cannot beat the incumbent.  Hence never more bins than FFD or BFD (they are feasible packings:
    bc_le_any_packing); same decisions under the sums-only manager (bc_erase: same count for every output type).
    The theorem speaks about runs that return Ok (the model's fuel is 200 000 search steps in the harness).
    Statements only; proofs in Proofs/BCProofs.v, Proofs/BCOptimalProofs.v, Proofs/BCTraceProofs.v, Proofs/OracleSpec.v. *)
From Prtpy Require Import Base.Prelude Model.Binner Model.Packing Model.BinCompletion Spec.Partition Oracle.Reach Proofs.BCProofs Proofs.OracleSpec Model.BinCompletionTrace Proofs.BCTraceProofs Proofs.BCOptimalProofs.

(** THE PROPERTY: the number of bins is the minimum over all feasible packings *)
Theorem C04_bc_optimal :
  forall (C : Z) (fuel : nat) (items : list Z) (b : zbins),
  0 < C ->
  Forall (fun v : Z => 0 <= v <= C) items ->
  bin_completion true C fuel items = Ok b -> MinBins C (filter nonzero items) (length b).
Proof. exact bc_optimal_bounded. Qed.
Print Assumptions C04_bc_optimal.

(** never more bins than ANY feasible packing (in particular FFD's and BFD's) *)
Theorem C04_bc_le_any_packing :
  forall (C : Z) (fuel : nat) (items : list Z) (b : zbins) (m : nat),
  0 < C ->
  Forall (fun v : Z => 0 <= v) items ->
  bin_completion true C fuel items = Ok b ->
  Packable C (filter nonzero items) m -> (length b <= m)%nat.
Proof. exact bc_le_any_packing. Qed.
Print Assumptions C04_bc_le_any_packing.

(** completeness of the completion generator relative to dominance *)
Theorem C04_find_bin_completions_complete :
  forall (C x : Z) (items B : list Z),
  Forall (fun v : Z => 0 < v) items ->
  sub_multiset B items = true ->
  x + zsum B <= C ->
  find_bin_completions x items C = [] /\ B = [] \/
  (exists A : list Z, In A (find_bin_completions x items C) /\ Better C items A B).
Proof. exact find_bin_completions_complete. Qed.
Print Assumptions C04_find_bin_completions_complete.

(** soundness of the dominance test (exchange argument) *)
Theorem C04_is_dominant_sound :
  forall (C : Z) (M A B : list Z),
  Forall (fun v : Z => 0 < v) M ->
  sub_multiset A M = true ->
  sub_multiset B M = true -> is_dominant A B = true -> Better C M A B.
Proof. exact is_dominant_sound. Qed.
Print Assumptions C04_is_dominant_sound.

Theorem C04_bc_packing :
  forall (C : Z) (fuel : nat) (items : list Z) (b : zbins),
  Forall (fun v : Z => 0 <= v) items ->
  bin_completion true C fuel items = Ok b ->
  is_packing zid C (filter nonzero items) b /\ all_nonempty b.
Proof. exact bc_packing_strong. Qed.
Print Assumptions C04_bc_packing.

(** never fewer bins than the optimum (it is a feasible packing) *)
Theorem C04_bc_ge_opt :
  forall (C : Z) (fuel : nat) (items : list Z) (b : zbins) (n : nat),
  Forall (fun v : Z => 0 <= v) items ->
  bin_completion true C fuel items = Ok b ->
  MinBins C (filter nonzero items) n -> (n <= length b)%nat.
Proof. exact bc_ge_opt. Qed.
Print Assumptions C04_bc_ge_opt.

(** never more bins than best-fit-decreasing *)
Theorem C04_bc_le_bfd :
  forall (C : Z) (fuel : nat) (items : list Z) (b : zbins) (bfd : bins Z),
  bin_completion true C fuel items = Ok b ->
  best_fit_decreasing zid true C (filter nonzero items) = Ok bfd ->
  (length b <= length bfd)%nat.
Proof. exact bc_le_bfd. Qed.
Print Assumptions C04_bc_le_bfd.

(** the early exit returns BFD's packing exactly when BFD meets the volume bound *)
Theorem C04_bc_bfd_exit :
  forall (keep : bool) (C : Z) (fuel : nat) (items : list Z) (bfd : bins Z),
  ~ Exists (fun v : Z => C < v) items ->
  C <> 0 ->
  best_fit_decreasing zid keep C (filter nonzero items) = Ok bfd ->
  Z.of_nat (length bfd) = cdiv (zsum (filter nonzero items)) C ->
  bin_completion keep C fuel items = Ok bfd.
Proof. exact bc_bfd_exit. Qed.
Print Assumptions C04_bc_bfd_exit.

(** ceil(total/C) is a lower bound on the bins of any packing *)
Theorem C04_bc_lb_sound :
  forall (C : Z) (vs : list Z) (n : nat),
  0 < C -> Packable C vs n -> cdiv (zsum vs) C <= Z.of_nat n.
Proof. exact bc_lb_sound. Qed.
Print Assumptions C04_bc_lb_sound.

(** the sums-only manager takes the same decisions: same bins, contents forgotten *)
Theorem C04_bc_same_count_all_outputs :
  forall (C : Z) (fuel : nat) (items : list Z),
  rmap erase (bin_completion true C fuel items) = bin_completion false C fuel items.
Proof. exact bc_erase. Qed.
Print Assumptions C04_bc_same_count_all_outputs.

(** the yardstick: min_bins is the true optimum *)
Theorem C04_min_bins_oracle :
  forall (C : Z) (vs : list Z),
  0 < C ->
  Forall (fun v : Z => 0 <= v <= C) vs -> MinBins C (filter nonzero vs) (min_bins C vs).
Proof. exact min_bins_spec. Qed.
Print Assumptions C04_min_bins_oracle.

(** the traced search (whose trace is compared with the implementation's calls of find_bin_completions) returns exactly bin_completion's result *)
Theorem C04_trace_result :
  forall (keep : bool) (C : Z) (fuel : nat) (items : list Z),
  fst (bin_completion_tr keep C fuel items) = bin_completion keep C fuel items.
Proof. exact bc_tr_result. Qed.
Print Assumptions C04_trace_result.

