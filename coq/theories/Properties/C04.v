(** C04 - Bin-completion uses the minimum possible number of bins.
    PROVED for all inputs (model of the repaired code): the result is a feasible packing of the non-zero items with no empty bin,
    so it never has FEWER bins than the optimum (bc_ge_opt); it never has more bins than best-fit-decreasing (bc_le_bfd); when
    its count equals the volume bound ceil(total/C) it IS optimal (bc_exit_at_lb_optimal), which covers both early exits of the
    code (bc_bfd_exit); the sums-only run makes the same decisions (bc_erase: same count for every output type).
    NOT proved: optimality in general (PARTIAL).  It rests on Korf's dominance argument AND on the completeness of this code's
    completion generator; it is tested against the verified oracle min_bins (proved to be the optimum) on every generated input.
    Statements only; proofs in Proofs/BCProofs.v and Proofs/OracleSpec.v. *)
From Prtpy Require Import Base.Prelude Model.Binner Model.Packing Model.BinCompletion Spec.Partition Oracle.Reach Proofs.BCProofs Proofs.OracleSpec Model.BinCompletionTrace Proofs.BCTraceProofs.

Theorem C04_bc_packing :
  forall (C : Z) (fuel : nat) (items : list Z) (b : zbins),
  Forall (fun v : Z => 0 <= v) items ->
  bin_completion true C fuel items = Ok b ->
  is_packing zid C (filter nonzero items) b /\ all_nonempty b.
Proof. exact bc_packing_strong. Qed.
Print Assumptions C04_bc_packing.

(** never fewer bins than the optimum (it is a feasible packing) *)
Theorem C04_bc_ge_opt :
  forall (C : Z) (fuel : nat) (items : list Z) (b : zbins) (n : nat),
  Forall (fun v : Z => 0 <= v) items ->
  bin_completion true C fuel items = Ok b ->
  MinBins C (filter nonzero items) n -> (n <= length b)%nat.
Proof. exact bc_ge_opt. Qed.
Print Assumptions C04_bc_ge_opt.

(** never more bins than best-fit-decreasing *)
Theorem C04_bc_le_bfd :
  forall (C : Z) (fuel : nat) (items : list Z) (b : zbins) (bfd : bins Z),
  bin_completion true C fuel items = Ok b ->
  best_fit_decreasing zid true C (filter nonzero items) = Ok bfd ->
  (length b <= length bfd)%nat.
Proof. exact bc_le_bfd. Qed.
Print Assumptions C04_bc_le_bfd.

(** PARTIAL optimality: optimal whenever the count equals the volume lower bound *)
Theorem C04_bc_exit_at_lb_optimal_partial :
  forall (C : Z) (fuel : nat) (items : list Z) (b : zbins),
  0 < C ->
  Forall (fun v : Z => 0 <= v) items ->
  bin_completion true C fuel items = Ok b ->
  length b = Z.to_nat (cdiv (zsum (filter nonzero items)) C) ->
  MinBins C (filter nonzero items) (length b).
Proof. exact bc_exit_at_lb_optimal. Qed.
Print Assumptions C04_bc_exit_at_lb_optimal_partial.

(** the early exit returns BFD's packing exactly when BFD meets the volume bound *)
Theorem C04_bc_bfd_exit :
  forall (keep : bool) (C : Z) (fuel : nat) (items : list Z) (bfd : bins Z),
  ~ Exists (fun v : Z => C < v) items ->
  C <> 0 ->
  best_fit_decreasing zid keep C (filter nonzero items) = Ok bfd ->
  Z.of_nat (length bfd) = cdiv (zsum (filter nonzero items)) C ->
  bin_completion keep C fuel items = Ok bfd.
Proof. exact bc_bfd_exit. Qed.
Print Assumptions C04_bc_bfd_exit.

(** ceil(total/C) is a lower bound on the bins of any packing *)
Theorem C04_bc_lb_sound :
  forall (C : Z) (vs : list Z) (n : nat),
  0 < C -> Packable C vs n -> cdiv (zsum vs) C <= Z.of_nat n.
Proof. exact bc_lb_sound. Qed.
Print Assumptions C04_bc_lb_sound.

(** the sums-only manager takes the same decisions: same bins, contents forgotten *)
Theorem C04_bc_same_count_all_outputs :
  forall (C : Z) (fuel : nat) (items : list Z),
  rmap erase (bin_completion true C fuel items) = bin_completion false C fuel items.
Proof. exact bc_erase. Qed.
Print Assumptions C04_bc_same_count_all_outputs.

(** the yardstick: min_bins is the true optimum *)
Theorem C04_min_bins_oracle :
  forall (C : Z) (vs : list Z),
  0 < C ->
  Forall (fun v : Z => 0 <= v <= C) vs -> MinBins C (filter nonzero vs) (min_bins C vs).
Proof. exact min_bins_spec. Qed.
Print Assumptions C04_min_bins_oracle.

(** the traced search (whose trace is compared with the implementation's calls of find_bin_completions) returns exactly bin_completion's result *)
Theorem C04_trace_result :
  forall (keep : bool) (C : Z) (fuel : nat) (items : list Z),
  fst (bin_completion_tr keep C fuel items) = bin_completion keep C fuel items.
Proof. exact bc_tr_result. Qed.
Print Assumptions C04_trace_result.

