(** C15 - Calls are pure: inputs untouched, results repeatable, no state across calls.
    PARTIAL.  What a Gallina model can carry: every model algorithm is a Gallina FUNCTION of its arguments, so repeatability and
    independence of earlier calls hold by construction; what needs proof is the aliasing layer, where the Python code shares numpy
    buffers and inner lists between bins-arrays: on the object-heap model (Model/BinnerHeap.v) an operation changes only the arrays
    it names (frame), the source array of combine_bins and the argument of copy_bins are never altered, a copy is independent of
    its original, and the real heap shows exactly these effects for every disciplined history of operations (heap_refines_pure).
    NOT expressible in the model: interpreter-level state (module globals, caches, mutable default arguments, in-place changes of
    the caller's list/array/dict, solver state).  That part is decided by exploration with call histories in the harness.
    Statements only; proofs in Proofs/PurityProofs.v and Proofs/HeapProofs.v. *)
From Prtpy Require Import Base.Prelude Model.Binner Model.BinnerHeap Spec.AbsBins Proofs.HeapProofs Proofs.PurityProofs.

(** an operation changes only the arrays it names: every other live array is untouched *)
Theorem C15_frame :
  forall (A : Type) (valueof : A -> Z) (st : pstate) (o : op) (h : nat) (e : bool * bins A),
  plive st h = Some e -> ~ In h (targets o) -> plive (pure_step valueof st o) h = Some e.
Proof. exact @pure_step_frame. Qed.
Print Assumptions C15_frame.

(** combine_bins never alters its second array *)
Theorem C15_combine_source_untouched :
  forall (A : Type) (valueof : A -> Z) (st : pstate) (h1 i1 h2 i2 : nat) (e : bool * bins A),
  h1 <> h2 ->
  plive st h2 = Some e -> plive (pure_step valueof st (OpCombine h1 i1 h2 i2)) h2 = Some e.
Proof. exact @combine_source_untouched. Qed.
Print Assumptions C15_combine_source_untouched.

(** copy_bins leaves its argument untouched and yields an equal, separate array *)
Theorem C15_copy_independent :
  forall (A : Type) (valueof : A -> Z) (st : pstate) (h : nat) (e : bool * bins A),
  plive st h = Some e ->
  plive (pure_step valueof st (OpCopy h)) h = Some e /\
  plive (pure_step valueof st (OpCopy h)) (length st) = Some e /\ length st <> h.
Proof. exact @pure_copy_independent. Qed.
Print Assumptions C15_copy_independent.

(** the object heap (buffers, views, shared inner lists) shows exactly these effects after every disciplined history *)
Theorem C15_heap_shows_documented_effects :
  forall (A : Type) (valueof : A -> Z) (ops : list op),
  disciplined_run valueof [] ops ->
  forall (h : nat) (k : bool) (b : bins A),
  plive (pure_run valueof ops) h = Some (k, b) -> abs (run valueof ops) h = Some b.
Proof. exact @heap_refines_pure. Qed.
Print Assumptions C15_heap_shows_documented_effects.

