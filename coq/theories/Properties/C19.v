(** C19 - Unsatisfiable or malformed requests are refused with an error, never answered.
    Statements only; proofs in Proofs/PackingProofs.v, Proofs/CBLDMProofs.v, Proofs/MiscProofs.v
    (bin completion: Proofs/BCProofs.v, added to this file when available). *)
From Prtpy Require Import Base.Prelude Model.Binner Model.Packing Model.CBLDM Proofs.PackingProofs Proofs.CBLDMProofs Proofs.MiscProofs Model.BinCompletion Model.BinCompletionNamed Proofs.BCProofs Proofs.BCNamedProofs.

(** first-fit (both managers): an error is returned exactly when some item, at any position and with any multiplicity, exceeds the bin size *)
Theorem C19_ff_refuses_iff : forall (A : Type) (valueof : A -> Z) (keep : bool) (C : Z) (items : list A),
  (exists e : err, first_fit valueof keep C items = Err e) <-> Exists (fun x : A => C < valueof x) items.
Proof. exact @ff_error_iff_gen. Qed.
Print Assumptions C19_ff_refuses_iff.

Theorem C19_ff_refusal_is_ValueError : forall (A : Type) (valueof : A -> Z) (keep : bool) (C : Z) (items : list A) (e : err),
  first_fit valueof keep C items = Err e -> e = ValueError.
Proof. exact @ff_error_kind_gen. Qed.
Print Assumptions C19_ff_refusal_is_ValueError.

(** first-fit-decreasing (both managers): an error is returned exactly when some item, at any position and with any multiplicity, exceeds the bin size *)
Theorem C19_ffd_refuses_iff : forall (A : Type) (valueof : A -> Z) (keep : bool) (C : Z) (items : list A),
  (exists e : err, first_fit_decreasing valueof keep C items = Err e) <-> Exists (fun x : A => C < valueof x) items.
Proof. exact @ffd_error_iff_gen. Qed.
Print Assumptions C19_ffd_refuses_iff.

Theorem C19_ffd_refusal_is_ValueError : forall (A : Type) (valueof : A -> Z) (keep : bool) (C : Z) (items : list A) (e : err),
  first_fit_decreasing valueof keep C items = Err e -> e = ValueError.
Proof. exact @ffd_error_kind_gen. Qed.
Print Assumptions C19_ffd_refusal_is_ValueError.

(** best-fit (both managers): an error is returned exactly when some item, at any position and with any multiplicity, exceeds the bin size *)
Theorem C19_bf_refuses_iff : forall (A : Type) (valueof : A -> Z) (keep : bool) (C : Z) (items : list A),
  (exists e : err, best_fit valueof keep C items = Err e) <-> Exists (fun x : A => C < valueof x) items.
Proof. exact @bf_error_iff_gen. Qed.
Print Assumptions C19_bf_refuses_iff.

Theorem C19_bf_refusal_is_ValueError : forall (A : Type) (valueof : A -> Z) (keep : bool) (C : Z) (items : list A) (e : err),
  best_fit valueof keep C items = Err e -> e = ValueError.
Proof. exact @bf_error_kind_gen. Qed.
Print Assumptions C19_bf_refusal_is_ValueError.

(** best-fit-decreasing (both managers): an error is returned exactly when some item, at any position and with any multiplicity, exceeds the bin size *)
Theorem C19_bfd_refuses_iff : forall (A : Type) (valueof : A -> Z) (keep : bool) (C : Z) (items : list A),
  (exists e : err, best_fit_decreasing valueof keep C items = Err e) <-> Exists (fun x : A => C < valueof x) items.
Proof. exact @bfd_error_iff_gen. Qed.
Print Assumptions C19_bfd_refuses_iff.

Theorem C19_bfd_refusal_is_ValueError : forall (A : Type) (valueof : A -> Z) (keep : bool) (C : Z) (items : list A) (e : err),
  best_fit_decreasing valueof keep C items = Err e -> e = ValueError.
Proof. exact @bfd_error_kind_gen. Qed.
Print Assumptions C19_bfd_refusal_is_ValueError.

(** the balanced partitioner refuses exactly: numbins <> 2, time limit <= 0 (tl = false), cardinality bound < 1 or not an int (dint = false), a negative item *)
Theorem C19_cbldm_validates : forall (A : Type) (valueof : A -> Z) k items tl d dint limit, items <> [] ->
  ((exists e, cbldm valueof k items tl d dint limit = Err e) <->
   (k <> 2%nat \/ tl = false \/ d < 1 \/ dint = false \/ Exists (fun x => valueof x < 0) items)).
Proof. exact @cbldm_error_iff. Qed.
Print Assumptions C19_cbldm_validates.

Theorem C19_cbldm_refusal_is_ValueError : forall (A : Type) (valueof : A -> Z) k items tl d dint limit e,
  cbldm valueof k items tl d dint limit = Err e -> items <> [] -> e = ValueError.
Proof. exact @cbldm_error_kind. Qed.
Print Assumptions C19_cbldm_refusal_is_ValueError.

(** the sums-only manager refuses to count items *)
Theorem C19_sums_manager_refuses_numitems : forall (A : Type) (b : bins A) (i : nat), numitems false b i = Err NotImplementedError.
Proof. exact @numitems_sums_refused. Qed.
Print Assumptions C19_sums_manager_refuses_numitems.

(** bin completion (value level and on named items): ValueError iff some item exceeds the bin size *)
Theorem C19_bc_refuses_iff : forall (keep : bool) (C : Z) (fuel : nat) (items : list Z),
  bin_completion keep C fuel items = Err ValueError <-> Exists (fun v : Z => C < v) items.
Proof. exact bc_error_iff. Qed.
Print Assumptions C19_bc_refuses_iff.

Theorem C19_bc_named_refuses_iff : forall (A : Type) (valueof : A -> Z) (keep : bool) (C : Z) (fuel : nat) (items : list A),
  bin_completion_named valueof keep C fuel items = Err ValueError <-> Exists (fun x : A => C < valueof x) items.
Proof. exact @bc_named_error_iff. Qed.
Print Assumptions C19_bc_named_refuses_iff.
