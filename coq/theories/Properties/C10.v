(** C10 - Bin-covering heuristics meet their approximation guarantees.
    Proved: never more than OPT (all three); decreasing covers at least OPT/2 bins (stronger than the
    (OPT-1)/2 of the property).  two-thirds covers at least 2/3 (OPT-1) bins (full statement, Proofs/CoverRatioProofs.v).  three-quarters covers at least 3/4 OPT - 4 bins (full statement, Proofs/CoverRatio34Proofs.v)
    (tested against the verified max_cover oracle and planted instances; DESIGN section 8).
    Statements only; proofs in Proofs/CoveringProofs.v and Proofs/OracleSpec.v. *)
From Prtpy Require Import Base.Prelude Model.Binner Model.Covering Spec.Partition Oracle.Reach Proofs.CoveringProofs Proofs.OracleSpec Proofs.CoverRatioProofs Proofs.CoverRatio34Proofs.

(** decreasing: never reports more than OPT *)
Theorem C10_dec_le_opt : forall (A : Type) (valueof : A -> Z) (C : Z) (items : list A) (n : nat),
  0 < C -> Forall (fun x : A => 0 < valueof x) items ->
  MaxCover C (map valueof items) n -> (length (cover_decreasing valueof true C items) <= n)%nat.
Proof. exact @dec_le_opt. Qed.
Print Assumptions C10_dec_le_opt.

(** two-thirds: never reports more than OPT *)
Theorem C10_tt_le_opt : forall (A : Type) (valueof : A -> Z) (C : Z) (items : list A) (n : nat),
  0 < C -> Forall (fun x : A => 0 < valueof x) items ->
  MaxCover C (map valueof items) n -> (length (cover_twothirds valueof true C items) <= n)%nat.
Proof. exact @tt_le_opt. Qed.
Print Assumptions C10_tt_le_opt.

(** three-quarters: never reports more than OPT *)
Theorem C10_tq_le_opt : forall (A : Type) (valueof : A -> Z) (C : Z) (items : list A) (n : nat),
  0 < C -> Forall (fun x : A => 0 < valueof x) items ->
  MaxCover C (map valueof items) n -> (length (cover_threequarters valueof true C items) <= n)%nat.
Proof. exact @tq_le_opt. Qed.
Print Assumptions C10_tq_le_opt.

(** decreasing: OPT <= 2 * covered (hence covered >= (OPT-1)/2) *)
Theorem C10_dec_half : forall (A : Type) (valueof : A -> Z) (C : Z) (items : list A) (n : nat),
  0 < C -> Forall (fun x : A => 0 < valueof x) items ->
  MaxCover C (map valueof items) n -> (n <= 2 * length (cover_decreasing valueof true C items))%nat.
Proof. exact @dec_half_strong. Qed.
Print Assumptions C10_dec_half.

(** the yardstick used for the unproved ratios: max_cover is the true optimum *)
Theorem C10_max_cover_oracle : forall C vs, 0 < C -> Forall (fun v => 0 < v) vs -> MaxCover C vs (max_cover C vs).
Proof. exact max_cover_spec. Qed.
Print Assumptions C10_max_cover_oracle.

(** two-thirds: covered >= 2/3 (OPT - 1)  -- the guarantee of Csirik, Frenk, Labbe, Zhang (1999), proved in full *)
Theorem C10_twothirds_ratio : forall (A : Type) (valueof : A -> Z) (C : Z) (items : list A) (n : nat),
  0 < C -> Forall (fun x : A => 0 < valueof x) items ->
  MaxCover C (map valueof items) n -> (2 * (n - 1) <= 3 * length (cover_twothirds valueof true C items))%nat.
Proof. exact @twothirds_ratio. Qed.
Print Assumptions C10_twothirds_ratio.

(** ... in the sharper form 2 OPT <= 3 covered + 1 (attained: C = 12, items 5 5 5 5 2 2) *)
Theorem C10_twothirds_ratio_strong : forall (A : Type) (valueof : A -> Z) (C : Z) (items : list A) (n : nat),
  0 < C -> Forall (fun x : A => 0 < valueof x) items ->
  MaxCover C (map valueof items) n -> (2 * n <= 3 * length (cover_twothirds valueof true C items) + 1)%nat.
Proof. exact @twothirds_ratio_strong. Qed.
Print Assumptions C10_twothirds_ratio_strong.

(** three-quarters: covered >= 3/4 OPT - 4  -- the guarantee of Csirik, Frenk, Labbe, Zhang (1999), proved in full
    (in fact with the additive constant 11/4 instead of 4: threequarters_ratio_strong) *)
Theorem C10_threequarters_ratio : forall (A : Type) (valueof : A -> Z) (C : Z) (items : list A) (n : nat),
  0 < C -> Forall (fun x : A => 0 < valueof x) items ->
  MaxCover C (map valueof items) n -> (3 * n <= 4 * length (cover_threequarters valueof true C items) + 16)%nat.
Proof. exact @threequarters_ratio. Qed.
Print Assumptions C10_threequarters_ratio.

Theorem C10_threequarters_ratio_strong : forall (A : Type) (valueof : A -> Z) (C : Z) (items : list A) (n : nat),
  0 < C -> Forall (fun x : A => 0 < valueof x) items ->
  MaxCover C (map valueof items) n -> (3 * n <= 4 * length (cover_threequarters valueof true C items) + 11)%nat.
Proof. exact @threequarters_ratio_strong. Qed.
Print Assumptions C10_threequarters_ratio_strong.
