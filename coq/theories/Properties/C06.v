(** C06 - Reported sums and derived outputs always describe the returned bins.
    Model/Output.v models outputtypes.py and the two adaptors: an output type chooses the bins-manager (keeps o) and extracts the
    answer.  C06_X: for every sums-family output type o the cheap run (sums-only manager) returns derive o (sums of the FULL run):
    the documented function of the sums of the partition the contents manager returns - because the sums-only run makes exactly
    the same decisions (X_erase).  Proved for greedy, round-robin, multifit (erase), KK, complete greedy (every objective, switch
    vector and limit), DP, SNP, RNP, the four fit packers, bin completion, the three covers, CBLDM (always keeps contents), and
    complete KK for two bins; for complete KK with >= 3 bins the two managers search differently (Example in EraseProofs): proved
    there: both results optimal, equal difference and bin count (PARTIAL; equal sums tested).  wf_*: every reported sum is the total
    value of the items reported in that bin (from is_partition / is_packing / is_cover of C01/C03/C05).
    Statements only; proofs in Proofs/EraseProofs.v and the per-algorithm files. *)
From Prtpy Require Import Base.Prelude Model.Binner Model.Objectives Model.Greedy Model.Packing Model.Covering Model.KK Model.CG Model.DP Model.SNP Model.CBLDM Model.BinCompletion Model.Multifit Model.Output Spec.Partition Proofs.EraseProofs Proofs.MultifitProofs Proofs.CKKOptimal Model.Balanced Proofs.BalancedProofs Oracle.Checkers Proofs.CheckersSpec.

(** C06 - Reported sums and derived outputs always describe the returned bins. Model/Output.v models outputtypes.py and the two adaptors: an output type chooses the bins-manager (keeps o) and extracts the answer. C06_X: for every sums-family output type o the cheap run (sums-only manager) returns derive o (sums of the FULL run): the documented function of the sums of the partition the contents manager returns - because the sums-only run makes exactly the same decisions (X_erase). Proved for greedy, round-robin, multifit (erase), KK, complete greedy (every objective, switch vector and limit), DP, SNP, RNP, the four fit packers, bin completion, the three covers, CBLDM (always keeps contents), and complete KK for every number of bins (items with equal names must have equal values: names_ok; since the repair that de-duplicates the children of a search node by their sums the two managers explore the same tree: ckk_erase, ckk_generator_erase). wf_*: every reported sum is the total value of the items reported in that bin (from is_partition / is_packing / is_cover of C01/C03/C05). Statements only; proofs in Proofs/EraseProofs.v and the per-algorithm files. *) From Prtpy Require Import Base.Prelude Model.Binner Model.Objectives Model.Greedy Model.Packing Model.Covering Model.KK Model.CG Model.DP Model.SNP Model.CBLDM Model.BinCompletion Model.Multifit Model.Output Spec.Partition Proofs.EraseProofs Proofs.MultifitProofs Proofs.CKKOptimal Model.Balanced Proofs.BalancedProofs. (** if the sums-only run is the erasure of the full run, every cheap output is the documented function of the full run's sums *)
Theorem C06_schema :
  forall (A : Type) (alg : bool -> bins A),
  erase (alg true) = alg false ->
  forall o : outtype, keeps o = false -> run_output o alg = derive o (sums (alg true)).
Proof. exact @C06_schema. Qed.
Print Assumptions C06_schema.

(** ... stated on what the caller observes: the PartitionAndSums output determines every sums-family output *)
Theorem C06_schema_observed :
  forall (A : Type) (alg : bool -> bins A),
  erase (alg true) = alg false ->
  forall (o : outtype) (full : bins A),
  keeps o = false ->
  run_output OPartitionAndSums alg = OutBins full -> run_output o alg = derive o (sums full).
Proof. exact @C06_schema_observed. Qed.
Print Assumptions C06_schema_observed.

(** ... and the plain Partition output determines them through the item values *)
Theorem C06_schema_lists :
  forall (A : Type) (valueof : A -> Z) (alg : bool -> bins A),
  erase (alg true) = alg false ->
  wf valueof (alg true) ->
  forall (o : outtype) (ls : list (list A)),
  keeps o = false ->
  run_output OPartition alg = OutLists ls ->
  run_output o alg = derive o (map (fun l : list A => zsum (map valueof l)) ls).
Proof. exact @C06_schema_lists. Qed.
Print Assumptions C06_schema_lists.

Theorem C06_extract_derive :
  forall (A : Type) (o : outtype) (b : bins A),
  keeps o = false -> extract o b = derive o (sums b).
Proof. exact @extract_derive. Qed.
Print Assumptions C06_extract_derive.

(** each reported sum is the total value of the items reported in that bin *)
Theorem C06_wf_reported_sums :
  forall (A : Type) (valueof : A -> Z) (b : bins A),
  wf valueof b -> sums b = map (fun l : list A => zsum (map valueof l)) (lists b).
Proof. exact @wf_sums_lists. Qed.
Print Assumptions C06_wf_reported_sums.

Theorem C06_greedy :
  forall (A : Type) (valueof : A -> Z) (o : outtype) (k : nat) (items : list A),
  keeps o = false ->
  run_partition o greedy valueof k items = derive o (sums (greedy valueof true k items)).
Proof. exact @C06_greedy. Qed.
Print Assumptions C06_greedy.

Theorem C06_roundrobin :
  forall (A : Type) (valueof : A -> Z) (o : outtype) (k : nat) (items : list A),
  keeps o = false ->
  run_partition o roundrobin valueof k items =
  derive o (sums (roundrobin valueof true k items)).
Proof. exact @C06_roundrobin. Qed.
Print Assumptions C06_roundrobin.

Theorem C06_bidirectional_balanced :
  forall (A : Type) (valueof : A -> Z) (o : outtype) (k : nat) (items : list A),
  keeps o = false ->
  run_partition o bidirectional_balanced valueof k items =
  derive o (sums (bidirectional_balanced valueof true k items)).
Proof. exact @C06_bidirectional_balanced. Qed.
Print Assumptions C06_bidirectional_balanced.

Theorem C06_multifit_erase :
  forall (A : Type) (valueof : A -> Z) (it k : nat) (items : list A),
  rmap erase (multifit valueof true it k items) = multifit valueof false it k items.
Proof. exact @multifit_erase. Qed.
Print Assumptions C06_multifit_erase.

Theorem C06_kk :
  forall (A : Type) (valueof : A -> Z) (o : outtype) (k : nat) (items : list A),
  keeps o = false ->
  run_partition_r o kk valueof k items =
  rmap (fun b : bins A => derive o (sums b)) (kk valueof true k items).
Proof. exact @C06_kk. Qed.
Print Assumptions C06_kk.

Theorem C06_cg :
  forall (A : Type) (valueof : A -> Z) (o : outtype) (obj : objective)
  (flags : cg_flags) (limit : option nat) (k : nat) (items : list A),
  keeps o = false ->
  run_output_o o (fun keep : bool => cg valueof keep obj flags limit k items) =
  option_map (fun b : bins A => derive o (sums b)) (cg valueof true obj flags limit k items).
Proof. exact @C06_cg. Qed.
Print Assumptions C06_cg.

Theorem C06_dp :
  forall (A : Type) (valueof : A -> Z) (o : outtype) (obj : objective)
  (k : nat) (items : list A),
  keeps o = false ->
  run_output_r o (fun keep : bool => dp valueof keep obj k items) =
  rmap (fun b : bins A => derive o (sums b)) (dp valueof true obj k items).
Proof. exact @C06_dp. Qed.
Print Assumptions C06_dp.

Theorem C06_snp :
  forall (A : Type) (valueof nameof : A -> Z) (o : outtype) (k : nat) (items : list A),
  keeps o = false ->
  Forall (fun x : A => 0 <= valueof x) items ->
  names_ok valueof nameof items ->
  run_output_r o (fun keep : bool => snp valueof nameof keep k items) =
  rmap (fun b : bins A => derive o (sums b)) (snp valueof nameof true k items).
Proof. exact @C06_snp. Qed.
Print Assumptions C06_snp.

Theorem C06_rnp :
  forall (A : Type) (valueof nameof : A -> Z) (o : outtype) (k : nat) (items : list A),
  keeps o = false ->
  Forall (fun x : A => 0 <= valueof x) items ->
  names_ok valueof nameof items ->
  run_output_r o (fun keep : bool => rnp valueof nameof keep k items) =
  rmap (fun b : bins A => derive o (sums b)) (rnp valueof nameof true k items).
Proof. exact @C06_rnp. Qed.
Print Assumptions C06_rnp.

Theorem C06_cbldm :
  forall (A : Type) (valueof : A -> Z) (o : outtype) (k : nat) (items : list A)
  (tl : bool) (d : Z) (dint : bool) (limit : option nat) (b : bins A)
  (n : nat),
  keeps o = false ->
  cbldm valueof k items tl d dint limit = Ok (CbBins b, n) ->
  run_output o (fun _ : bool => b) = derive o (sums b) /\
  run_output OPartition (fun _ : bool => b) = OutLists (lists b).
Proof. exact @C06_cbldm. Qed.
Print Assumptions C06_cbldm.

Theorem C06_first_fit :
  forall (A : Type) (valueof : A -> Z) (o : outtype) (C : Z) (items : list A),
  keeps o = false ->
  run_pack_r o first_fit valueof C items =
  rmap (fun b : bins A => derive o (sums b)) (first_fit valueof true C items).
Proof. exact @C06_first_fit. Qed.
Print Assumptions C06_first_fit.

Theorem C06_first_fit_decreasing :
  forall (A : Type) (valueof : A -> Z) (o : outtype) (C : Z) (items : list A),
  keeps o = false ->
  run_pack_r o first_fit_decreasing valueof C items =
  rmap (fun b : bins A => derive o (sums b)) (first_fit_decreasing valueof true C items).
Proof. exact @C06_first_fit_decreasing. Qed.
Print Assumptions C06_first_fit_decreasing.

Theorem C06_best_fit :
  forall (A : Type) (valueof : A -> Z) (o : outtype) (C : Z) (items : list A),
  keeps o = false ->
  run_pack_r o best_fit valueof C items =
  rmap (fun b : bins A => derive o (sums b)) (best_fit valueof true C items).
Proof. exact @C06_best_fit. Qed.
Print Assumptions C06_best_fit.

Theorem C06_best_fit_decreasing :
  forall (A : Type) (valueof : A -> Z) (o : outtype) (C : Z) (items : list A),
  keeps o = false ->
  run_pack_r o best_fit_decreasing valueof C items =
  rmap (fun b : bins A => derive o (sums b)) (best_fit_decreasing valueof true C items).
Proof. exact @C06_best_fit_decreasing. Qed.
Print Assumptions C06_best_fit_decreasing.

Theorem C06_bin_completion :
  forall (o : outtype) (C : Z) (fuel : nat) (items : list Z),
  keeps o = false ->
  run_output_r o (fun keep : bool => bin_completion keep C fuel items) =
  rmap (fun b : bins Z => derive o (sums b)) (bin_completion true C fuel items).
Proof. exact @C06_bin_completion. Qed.
Print Assumptions C06_bin_completion.

Theorem C06_cover_decreasing :
  forall (A : Type) (valueof : A -> Z) (o : outtype) (C : Z) (items : list A),
  keeps o = false ->
  run_pack o cover_decreasing valueof C items =
  derive o (sums (cover_decreasing valueof true C items)).
Proof. exact @C06_cover_decreasing. Qed.
Print Assumptions C06_cover_decreasing.

Theorem C06_cover_twothirds :
  forall (A : Type) (valueof : A -> Z) (o : outtype) (C : Z) (items : list A),
  keeps o = false ->
  run_pack o cover_twothirds valueof C items =
  derive o (sums (cover_twothirds valueof true C items)).
Proof. exact @C06_cover_twothirds. Qed.
Print Assumptions C06_cover_twothirds.

Theorem C06_cover_threequarters :
  forall (A : Type) (valueof : A -> Z) (o : outtype) (C : Z) (items : list A),
  keeps o = false ->
  run_pack o cover_threequarters valueof C items =
  derive o (sums (cover_threequarters valueof true C items)).
Proof. exact @C06_cover_threequarters. Qed.
Print Assumptions C06_cover_threequarters.

(** complete KK, any number of bins: the two bins-managers explore the same search tree (the children of a node are de-duplicated by their sums), so the sums-only run is the erasure of the full run *)
Theorem C06_ckk_erase :
  forall (A : Type) (valueof nameof : A -> Z) (k : nat) (items : list A),
  names_ok valueof nameof items ->
  rmap erase (ckk valueof nameof true k items) = ckk valueof nameof false k items.
Proof. exact @ckk_erase. Qed.
Print Assumptions C06_ckk_erase.

Theorem C06_ckk_erase_sums :
  forall (A : Type) (valueof nameof : A -> Z) (k : nat) (items : list A),
  names_ok valueof nameof items ->
  rmap sums (ckk valueof nameof true k items) = rmap sums (ckk valueof nameof false k items).
Proof. exact @ckk_erase_sums. Qed.
Print Assumptions C06_ckk_erase_sums.

Theorem C06_ckk :
  forall (A : Type) (valueof nameof : A -> Z) (o : outtype) (k : nat) (items : list A),
  keeps o = false ->
  names_ok valueof nameof items ->
  run_output_r o (fun keep : bool => ckk valueof nameof keep k items) =
  rmap (fun b : bins A => derive o (sums b)) (ckk valueof nameof true k items).
Proof. exact @C06_ckk. Qed.
Print Assumptions C06_ckk.

(** the generator of complete KK yields the same partitions, in the same order, under both managers (every mode) *)
Theorem C06_ckk_generator_erase :
  forall (A : Type) (valueof nameof : A -> Z) (k : nat) (items : list A) (init : option Z),
  names_ok valueof nameof items ->
  map erase (ckk_generator valueof nameof true k items init) =
  ckk_generator valueof nameof false k items init.
Proof. exact @ckk_generator_erase. Qed.
Print Assumptions C06_ckk_generator_erase.

(** the bin count agrees whatever the names *)
Theorem C06_ckk_bincount :
  forall (A : Type) (valueof nameof : A -> Z) (k : nat) (items : list A),
  (1 <= k)%nat ->
  items <> [] ->
  run_output_r OBinCount (fun keep : bool => ckk valueof nameof keep k items) =
  rmap (fun b : bins A => derive OBinCount (sums b)) (ckk valueof nameof true k items).
Proof. exact @C06_ckk_bincount. Qed.
Print Assumptions C06_ckk_bincount.

(** the sums-only complete KK run is optimal too *)
Theorem C06_ckk_sums_manager_optimal :
  forall (A : Type) (valueof nameof : A -> Z) (k : nat) (items : list A) (b : bins A),
  (1 <= k)%nat ->
  items <> [] ->
  Forall (fun x : A => 0 <= valueof x) items ->
  ckk valueof nameof false k items = Ok b ->
  Opt MinDiff k (map valueof items) (value MinDiff (sums b) false).
Proof. exact @ckk_sums_optimal. Qed.
Print Assumptions C06_ckk_sums_manager_optimal.

(** the boolean checker that judges 'every reported sum is the total of the reported items' on the IMPLEMENTATION's output decides exactly wf *)
Theorem C06_checker_wf :
  forall b : bins citem, wf_b b = true <-> wf cval b.
Proof. exact @wf_b_spec. Qed.
Print Assumptions C06_checker_wf.

