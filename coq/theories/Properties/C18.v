(** C18 - Results respect problem symmetries; exact solvers agree beyond oracle size.
    Part 1 (X_perm): an algorithm that sorts its input returns the same bins for every order of the input.
    Part 2 (X_scale): multiplying all values (and the bin size) by c > 0 multiplies every returned sum by c.
    Part 3: exact algorithms: the optimal value is invariant under reordering and added zeros, scales with c, all exact algorithms
    report the same optimal value for the same objective (for EVERY size, not only oracle size), never worse than greedy.
    rnp is excluded (known finding rnp-suboptimal); multifit scaling by powers of two is checked on the implementation.
    Statements only; proofs in Proofs/MetaProofs.v and Proofs/AgreeProofs.v. *)
From Prtpy Require Import Base.Prelude Model.Binner Model.Objectives Model.Greedy Model.Packing Model.Covering Model.KK Model.CG Model.DP Model.SNP Model.CBLDM Spec.Partition Proofs.MetaProofs Proofs.AgreeProofs Model.Balanced Proofs.BalancedProofs .

Theorem C18_greedy_perm :
  forall (k : nat) (vs1 vs2 : list Z),
  Permutation vs1 vs2 -> greedy id true k vs1 = greedy id true k vs2.
Proof. exact greedy_perm. Qed.
Print Assumptions C18_greedy_perm.

Theorem C18_roundrobin_perm :
  forall (k : nat) (vs1 vs2 : list Z),
  Permutation vs1 vs2 -> roundrobin id true k vs1 = roundrobin id true k vs2.
Proof. exact roundrobin_perm. Qed.
Print Assumptions C18_roundrobin_perm.

Theorem C18_bidirectional_balanced_perm :
  forall (k : nat) (vs1 vs2 : list Z),
  Permutation vs1 vs2 ->
  bidirectional_balanced id true k vs1 = bidirectional_balanced id true k vs2.
Proof. exact bidirectional_balanced_perm. Qed.
Print Assumptions C18_bidirectional_balanced_perm.

Theorem C18_kk_perm :
  forall (k : nat) (vs1 vs2 : list Z),
  Permutation vs1 vs2 -> kk id true k vs1 = kk id true k vs2.
Proof. exact kk_perm. Qed.
Print Assumptions C18_kk_perm.

Theorem C18_ffd_perm :
  forall (C : Z) (vs1 vs2 : list Z),
  Permutation vs1 vs2 ->
  first_fit_decreasing id true C vs1 = first_fit_decreasing id true C vs2.
Proof. exact first_fit_decreasing_perm. Qed.
Print Assumptions C18_ffd_perm.

Theorem C18_bfd_perm :
  forall (C : Z) (vs1 vs2 : list Z),
  Permutation vs1 vs2 -> best_fit_decreasing id true C vs1 = best_fit_decreasing id true C vs2.
Proof. exact best_fit_decreasing_perm. Qed.
Print Assumptions C18_bfd_perm.

Theorem C18_cover_decreasing_perm :
  forall (C : Z) (vs1 vs2 : list Z),
  Permutation vs1 vs2 -> cover_decreasing id true C vs1 = cover_decreasing id true C vs2.
Proof. exact cover_decreasing_perm. Qed.
Print Assumptions C18_cover_decreasing_perm.

Theorem C18_cover_twothirds_perm :
  forall (C : Z) (vs1 vs2 : list Z),
  Permutation vs1 vs2 -> cover_twothirds id true C vs1 = cover_twothirds id true C vs2.
Proof. exact cover_twothirds_perm. Qed.
Print Assumptions C18_cover_twothirds_perm.

Theorem C18_cover_threequarters_perm :
  forall (C : Z) (vs1 vs2 : list Z),
  Permutation vs1 vs2 -> cover_threequarters id true C vs1 = cover_threequarters id true C vs2.
Proof. exact cover_threequarters_perm. Qed.
Print Assumptions C18_cover_threequarters_perm.

Theorem C18_greedy_scale :
  forall (c : Z) (k : nat) (vs : list Z),
  0 < c -> greedy id true k (map (Z.mul c) vs) = scale_bins c (greedy id true k vs).
Proof. exact greedy_scale. Qed.
Print Assumptions C18_greedy_scale.

Theorem C18_roundrobin_scale :
  forall (c : Z) (k : nat) (vs : list Z),
  0 < c -> roundrobin id true k (map (Z.mul c) vs) = scale_bins c (roundrobin id true k vs).
Proof. exact roundrobin_scale. Qed.
Print Assumptions C18_roundrobin_scale.

Theorem C18_bidirectional_balanced_scale :
  forall (c : Z) (k : nat) (vs : list Z),
  0 < c ->
  bidirectional_balanced id true k (map (Z.mul c) vs) =
  scale_bins c (bidirectional_balanced id true k vs).
Proof. exact bidirectional_balanced_scale. Qed.
Print Assumptions C18_bidirectional_balanced_scale.

Theorem C18_kk_scale :
  forall (c : Z) (k : nat) (vs : list Z),
  0 < c -> kk id true k (map (Z.mul c) vs) = rmap (scale_bins c) (kk id true k vs).
Proof. exact kk_scale. Qed.
Print Assumptions C18_kk_scale.

Theorem C18_ff_scale :
  forall (c C : Z) (vs : list Z),
  0 < c ->
  first_fit id true (c * C) (map (Z.mul c) vs) = rmap (scale_bins c) (first_fit id true C vs).
Proof. exact first_fit_scale. Qed.
Print Assumptions C18_ff_scale.

Theorem C18_ffd_scale :
  forall (c C : Z) (vs : list Z),
  0 < c ->
  first_fit_decreasing id true (c * C) (map (Z.mul c) vs) =
  rmap (scale_bins c) (first_fit_decreasing id true C vs).
Proof. exact first_fit_decreasing_scale. Qed.
Print Assumptions C18_ffd_scale.

Theorem C18_bf_scale :
  forall (c C : Z) (vs : list Z),
  0 < c ->
  best_fit id true (c * C) (map (Z.mul c) vs) = rmap (scale_bins c) (best_fit id true C vs).
Proof. exact best_fit_scale. Qed.
Print Assumptions C18_bf_scale.

Theorem C18_bfd_scale :
  forall (c C : Z) (vs : list Z),
  0 < c ->
  best_fit_decreasing id true (c * C) (map (Z.mul c) vs) =
  rmap (scale_bins c) (best_fit_decreasing id true C vs).
Proof. exact best_fit_decreasing_scale. Qed.
Print Assumptions C18_bfd_scale.

Theorem C18_cover_decreasing_scale :
  forall (c C : Z) (vs : list Z),
  0 < c ->
  cover_decreasing id true (c * C) (map (Z.mul c) vs) =
  scale_bins c (cover_decreasing id true C vs).
Proof. exact cover_decreasing_scale. Qed.
Print Assumptions C18_cover_decreasing_scale.

Theorem C18_cover_twothirds_scale :
  forall (c C : Z) (vs : list Z),
  0 < c ->
  cover_twothirds id true (c * C) (map (Z.mul c) vs) =
  scale_bins c (cover_twothirds id true C vs).
Proof. exact cover_twothirds_scale. Qed.
Print Assumptions C18_cover_twothirds_scale.

Theorem C18_cover_threequarters_scale :
  forall (c C : Z) (vs : list Z),
  0 < c ->
  cover_threequarters id true (c * C) (map (Z.mul c) vs) =
  scale_bins c (cover_threequarters id true C vs).
Proof. exact cover_threequarters_scale. Qed.
Print Assumptions C18_cover_threequarters_scale.

Theorem C18_Opt_perm :
  forall (o : objective) (k : nat) (vs vs' : list Z) (v : Z),
  Permutation vs vs' -> Opt o k vs v -> Opt o k vs' v.
Proof. exact Opt_perm. Qed.
Print Assumptions C18_Opt_perm.

Theorem C18_Opt_scale :
  forall (o : objective) (k : nat) (vs : list Z) (v c : Z),
  0 < c -> Opt o k vs v -> Opt o k (map (Z.mul c) vs) (c * v).
Proof. exact Opt_scale. Qed.
Print Assumptions C18_Opt_scale.

Theorem C18_Opt_zeros :
  forall (o : objective) (k : nat) (vs vs' : list Z) (v : Z) (n : nat),
  (1 <= k)%nat -> Permutation vs' (vs ++ repeat 0 n) -> Opt o k vs v <-> Opt o k vs' v.
Proof. exact Opt_insert_zeros. Qed.
Print Assumptions C18_Opt_zeros.

Theorem C18_dp_optimal_result :
  forall (o : objective) (k : nat) (vs : list Z) (b : bins Z),
  (1 <= k)%nat -> dp idv true o k vs = Ok b -> optimal_result o k vs b.
Proof. exact dp_optimal_result. Qed.
Print Assumptions C18_dp_optimal_result.

Theorem C18_cg_optimal_result :
  forall (o : objective) (flags : cg_flags) (k : nat) (vs : list Z) (b : bins Z),
  (1 <= k)%nat ->
  Forall (fun v : Z => 0 <= v) vs ->
  cg idv true o flags None k vs = Some b -> optimal_result o k vs b.
Proof. exact cg_optimal_result. Qed.
Print Assumptions C18_cg_optimal_result.

Theorem C18_ckk_optimal_result :
  forall (k : nat) (vs : list Z) (b : bins Z),
  (1 <= k)%nat ->
  vs <> [] ->
  Forall (fun v : Z => 0 <= v) vs ->
  ckk idv idv true k vs = Ok b -> optimal_result MinDiff k vs b.
Proof. exact ckk_optimal_result. Qed.
Print Assumptions C18_ckk_optimal_result.

Theorem C18_snp_optimal_result :
  forall (k : nat) (vs : list Z) (b : bins Z),
  (1 <= k)%nat ->
  vs <> [] ->
  Forall (fun v : Z => 0 <= v) vs ->
  snp idv idv true k vs = Ok b -> optimal_result MinDiff k vs b.
Proof. exact snp_optimal_result. Qed.
Print Assumptions C18_snp_optimal_result.

Theorem C18_optimal_results_agree :
  forall (o : objective) (k : nat) (vs : list Z) (b1 b2 : bins Z),
  optimal_result o k vs b1 ->
  optimal_result o k vs b2 -> value o (sums b1) false = value o (sums b2) false.
Proof. exact optimal_results_agree. Qed.
Print Assumptions C18_optimal_results_agree.

Theorem C18_optimal_results_perm :
  forall (o : objective) (k : nat) (vs vs' : list Z) (b b' : bins Z),
  Permutation vs vs' ->
  optimal_result o k vs b ->
  optimal_result o k vs' b' -> value o (sums b) false = value o (sums b') false.
Proof. exact optimal_results_perm. Qed.
Print Assumptions C18_optimal_results_perm.

Theorem C18_optimal_results_scale :
  forall (o : objective) (k : nat) (vs : list Z) (c : Z) (b b' : bins Z),
  0 < c ->
  optimal_result o k vs b ->
  optimal_result o k (map (Z.mul c) vs) b' ->
  value o (sums b') false = c * value o (sums b) false.
Proof. exact optimal_results_scale. Qed.
Print Assumptions C18_optimal_results_scale.

Theorem C18_optimal_results_zeros :
  forall (o : objective) (k : nat) (vs vs' : list Z) (n : nat) (b b' : bins Z),
  (1 <= k)%nat ->
  Permutation vs' (vs ++ repeat 0 n) ->
  optimal_result o k vs b ->
  optimal_result o k vs' b' -> value o (sums b) false = value o (sums b') false.
Proof. exact optimal_results_zeros. Qed.
Print Assumptions C18_optimal_results_zeros.

Theorem C18_optimal_result_le_greedy :
  forall (o : objective) (k : nat) (vs : list Z) (b : bins Z),
  (1 <= k)%nat ->
  optimal_result o k vs b ->
  value o (sums b) false <= value o (sums (greedy id true k vs)) false.
Proof. exact optimal_result_le_greedy. Qed.
Print Assumptions C18_optimal_result_le_greedy.

Theorem C18_cg_dp_agree :
  forall (o : objective) (flags : cg_flags) (k : nat) (vs : list Z) (b1 b2 : bins Z),
  (1 <= k)%nat ->
  Forall (fun v : Z => 0 <= v) vs ->
  cg idv true o flags None k vs = Some b1 ->
  dp idv true o k vs = Ok b2 -> value o (sums b1) false = value o (sums b2) false.
Proof. exact cg_dp_agree. Qed.
Print Assumptions C18_cg_dp_agree.

Theorem C18_cg_switches_agree :
  forall (o : objective) (f1 f2 : cg_flags) (k : nat) (vs : list Z) (b1 b2 : bins Z),
  (1 <= k)%nat ->
  Forall (fun v : Z => 0 <= v) vs ->
  cg idv true o f1 None k vs = Some b1 ->
  cg idv true o f2 None k vs = Some b2 -> value o (sums b1) false = value o (sums b2) false.
Proof. exact cg_switches_agree. Qed.
Print Assumptions C18_cg_switches_agree.

Theorem C18_ckk_snp_cg_agree :
  forall (flags : cg_flags) (k : nat) (vs : list Z) (b1 b2 b3 : bins Z),
  (1 <= k)%nat ->
  vs <> [] ->
  Forall (fun v : Z => 0 <= v) vs ->
  ckk idv idv true k vs = Ok b1 ->
  snp idv idv true k vs = Ok b2 ->
  cg idv true MinDiff flags None k vs = Some b3 ->
  value MinDiff (sums b1) false = value MinDiff (sums b2) false /\
  value MinDiff (sums b2) false = value MinDiff (sums b3) false.
Proof. exact ckk_snp_cg_agree. Qed.
Print Assumptions C18_ckk_snp_cg_agree.

Theorem C18_cbldm_perm_value :
  forall (vs1 vs2 : list Z) (d : Z) (b1 : bins Z) (t1 : nat) (b2 : bins Z) (t2 : nat),
  Permutation vs1 vs2 ->
  Forall (fun v : Z => 0 <= v) vs1 ->
  vs1 <> [] ->
  1 <= d ->
  cbldm id 2 vs1 true d true None = Ok (CbBins b1, t1) ->
  cbldm id 2 vs2 true d true None = Ok (CbBins b2, t2) -> sum_diff b1 = sum_diff b2.
Proof. exact cbldm_perm_value. Qed.
Print Assumptions C18_cbldm_perm_value.

Theorem C18_cbldm_scale_value :
  forall (vs : list Z) (c d : Z) (b1 : bins Z) (t1 : nat) (b2 : bins Z) (t2 : nat),
  0 < c ->
  Forall (fun v : Z => 0 <= v) vs ->
  vs <> [] ->
  1 <= d ->
  cbldm id 2 vs true d true None = Ok (CbBins b1, t1) ->
  cbldm id 2 (map (Z.mul c) vs) true d true None = Ok (CbBins b2, t2) ->
  sum_diff b2 = c * sum_diff b1.
Proof. exact cbldm_scale_value. Qed.
Print Assumptions C18_cbldm_scale_value.

