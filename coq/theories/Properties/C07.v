(** C07 - The answer does not depend on how the items are presented.
    Every model algorithm is polymorphic in the item type and reads values only through valueof.  X_names: running X on named
    items and projecting the bins to values IS the run on the plain values (same bins, same order, same contents as values) -
    for greedy, round-robin, multifit, KK, complete greedy (all switches, limits), DP, CBLDM, the four fit packers and the three
    covers.  Together with C01/C03/C05 on the named run this is the whole property.  Complete KK de-duplicates by sorted item
    NAMES, so its exact equation is false (Example ckk_names_exact_false: contents differ); proved instead: equal objective value
    for every k and equal sums for k = 2 (PARTIAL; sums for k >= 3, snp, rnp are tested).  Bin completion on named items (repaired code:
    value-level search, then relabelling) is modelled in Model/BinCompletionNamed.v and proved like the others.  Statements only; proofs in Proofs/{Greedy,Packing,Covering,DP,Names,Multifit}Proofs.v. *)
From Prtpy Require Import Base.Prelude Model.Binner Model.Objectives Model.Greedy Model.Packing Model.Covering Model.KK Model.CG Model.DP Model.CBLDM Model.Multifit Spec.Partition Proofs.GreedyProofs Proofs.PackingProofs Proofs.CoveringProofs Proofs.DPProofs Proofs.KKProofs Proofs.CKKOptimal Proofs.NamesProofs Proofs.CKKManagersProofs Proofs.MultifitProofs Model.BinCompletion Model.BinCompletionNamed Proofs.BCNamedProofs Model.Balanced Proofs.BalancedProofs Model.SNP Proofs.SNPNamesProofs.

Theorem C07_greedy_names :
  forall (A : Type) (valueof : A -> Z) (k : nat) (items : list A),
  map_bins valueof (greedy valueof true k items) =
  greedy (fun v : Z => v) true k (map valueof items).
Proof. exact @greedy_names. Qed.
Print Assumptions C07_greedy_names.

Theorem C07_roundrobin_names :
  forall (A : Type) (valueof : A -> Z) (k : nat) (items : list A),
  map_bins valueof (roundrobin valueof true k items) =
  roundrobin (fun v : Z => v) true k (map valueof items).
Proof. exact @roundrobin_names. Qed.
Print Assumptions C07_roundrobin_names.

Theorem C07_bidirectional_balanced_names :
  forall (A : Type) (valueof : A -> Z) (k : nat) (items : list A),
  map_bins valueof (bidirectional_balanced valueof true k items) =
  bidirectional_balanced (fun v : Z => v) true k (map valueof items).
Proof. exact @bidirectional_balanced_names. Qed.
Print Assumptions C07_bidirectional_balanced_names.

Theorem C07_multifit_names :
  forall (A : Type) (valueof : A -> Z) (it k : nat) (items : list A),
  rmap (map_bins valueof) (multifit valueof true it k items) =
  multifit (fun v : Z => v) true it k (map valueof items).
Proof. exact @multifit_names. Qed.
Print Assumptions C07_multifit_names.

Theorem C07_kk_names :
  forall (A : Type) (valueof : A -> Z) (keep : bool) (k : nat) (items : list A),
  rmap (map_bins valueof) (kk valueof keep k items) =
  kk (fun v : Z => v) keep k (map valueof items).
Proof. exact @kk_names. Qed.
Print Assumptions C07_kk_names.

Theorem C07_cg_names :
  forall (A : Type) (valueof : A -> Z) (keep : bool) (o : objective)
  (flags : cg_flags) (limit : option nat) (k : nat) (items : list A),
  option_map (map_bins valueof) (cg valueof keep o flags limit k items) =
  cg (fun v : Z => v) keep o flags limit k (map valueof items).
Proof. exact @cg_names. Qed.
Print Assumptions C07_cg_names.

Theorem C07_dp_names :
  forall (A : Type) (valueof : A -> Z) (o : objective) (k : nat) (items : list A),
  rmap (map_bins valueof) (dp valueof true o k items) =
  dp (fun v : Z => v) true o k (map valueof items).
Proof. exact @dp_names. Qed.
Print Assumptions C07_dp_names.

Theorem C07_cbldm_names :
  forall (A : Type) (valueof : A -> Z) (k : nat) (items : list A)
  (tl_positive : bool) (d : Z) (d_is_int : bool) (limit : option nat),
  rmap (fun r : cbldm_out A * nat => (map_cbldm_out valueof (fst r), snd r))
  (cbldm valueof k items tl_positive d d_is_int limit) =
  cbldm (fun v : Z => v) k (map valueof items) tl_positive d d_is_int limit.
Proof. exact @cbldm_names. Qed.
Print Assumptions C07_cbldm_names.

Theorem C07_ff_names :
  forall (A : Type) (valueof : A -> Z) (C : Z) (items : list A),
  rmap (map_bins valueof) (first_fit valueof true C items) =
  first_fit (fun v : Z => v) true C (map valueof items).
Proof. exact @ff_names. Qed.
Print Assumptions C07_ff_names.

Theorem C07_ffd_names :
  forall (A : Type) (valueof : A -> Z) (C : Z) (items : list A),
  rmap (map_bins valueof) (first_fit_decreasing valueof true C items) =
  first_fit_decreasing (fun v : Z => v) true C (map valueof items).
Proof. exact @ffd_names. Qed.
Print Assumptions C07_ffd_names.

Theorem C07_bf_names :
  forall (A : Type) (valueof : A -> Z) (C : Z) (items : list A),
  rmap (map_bins valueof) (best_fit valueof true C items) =
  best_fit (fun v : Z => v) true C (map valueof items).
Proof. exact @bf_names. Qed.
Print Assumptions C07_bf_names.

Theorem C07_bfd_names :
  forall (A : Type) (valueof : A -> Z) (C : Z) (items : list A),
  rmap (map_bins valueof) (best_fit_decreasing valueof true C items) =
  best_fit_decreasing (fun v : Z => v) true C (map valueof items).
Proof. exact @bfd_names. Qed.
Print Assumptions C07_bfd_names.

Theorem C07_cover_decreasing_names :
  forall (A : Type) (valueof : A -> Z) (C : Z) (items : list A),
  map_bins valueof (cover_decreasing valueof true C items) =
  cover_decreasing (fun v : Z => v) true C (map valueof items).
Proof. exact @dec_names. Qed.
Print Assumptions C07_cover_decreasing_names.

Theorem C07_cover_twothirds_names :
  forall (A : Type) (valueof : A -> Z) (C : Z) (items : list A),
  map_bins valueof (cover_twothirds valueof true C items) =
  cover_twothirds (fun v : Z => v) true C (map valueof items).
Proof. exact @tt_names. Qed.
Print Assumptions C07_cover_twothirds_names.

Theorem C07_cover_threequarters_names :
  forall (A : Type) (valueof : A -> Z) (C : Z) (items : list A),
  map_bins valueof (cover_threequarters valueof true C items) =
  cover_threequarters (fun v : Z => v) true C (map valueof items).
Proof. exact @tq_names. Qed.
Print Assumptions C07_cover_threequarters_names.

(** complete KK, any number of bins: named items and their plain values give the same sums (names must determine values) *)
Theorem C07_ckk_names_sums :
  forall (A : Type) (valueof nameof : A -> Z) (k : nat) (items : list A),
  names_ok valueof nameof items ->
  rmap sums (ckk valueof nameof true k items) =
  rmap sums (ckk (fun v : Z => v) (fun v : Z => v) true k (map valueof items)).
Proof. exact @ckk_names_sums. Qed.
Print Assumptions C07_ckk_names_sums.

(** ... more generally any two presentations of the same list of values *)
Theorem C07_ckk_names_sums_gen :
  forall (A B : Type) (valueof nameof : A -> Z) (valueof' nameof' : B -> Z)
  (k : nat) (items : list A) (items' : list B),
  map valueof items = map valueof' items' ->
  names_ok valueof nameof items ->
  names_ok valueof' nameof' items' ->
  rmap sums (ckk valueof nameof true k items) = rmap sums (ckk valueof' nameof' true k items').
Proof. exact @ckk_names_sums_gen. Qed.
Print Assumptions C07_ckk_names_sums_gen.

(** ... and the same for every partition yielded by the generator (every mode) *)
Theorem C07_ckk_generator_names_sums :
  forall (A : Type) (valueof nameof : A -> Z) (k : nat) (items : list A) (init : option Z),
  names_ok valueof nameof items ->
  map sums (ckk_generator valueof nameof true k items init) =
  map sums (ckk_generator (fun v : Z => v) (fun v : Z => v) true k (map valueof items) init).
Proof. exact @ckk_generator_names_sums. Qed.
Print Assumptions C07_ckk_generator_names_sums.

(** the sums-only manager never reads the names: exact equation, no hypothesis *)
Theorem C07_ckk_sums_manager_names :
  forall (A : Type) (valueof nameof : A -> Z) (nameof' : Z -> Z) (k : nat) (items : list A),
  rmap (map_bins valueof) (ckk valueof nameof false k items) =
  ckk (fun v : Z => v) nameof' false k (map valueof items).
Proof. exact @ckk_sums_manager_names. Qed.
Print Assumptions C07_ckk_sums_manager_names.

(** sequential number partitioning: two presentations of the same values give the same sums (every k; names determine values) *)
Theorem C07_snp_names_sums :
  forall (A B : Type) (valueof nameof : A -> Z) (valueof' nameof' : B -> Z)
  (k : nat) (items : list A) (items' : list B),
  map valueof items = map valueof' items' ->
  names_ok valueof nameof items ->
  names_ok valueof' nameof' items' ->
  rmap sums (snp valueof nameof true k items) = rmap sums (snp valueof' nameof' true k items').
Proof. exact @snp_names_sums_gen. Qed.
Print Assumptions C07_snp_names_sums.

(** recursive number partitioning: likewise (every k; where rnp raises, both presentations raise the same error) *)
Theorem C07_rnp_names_sums :
  forall (A B : Type) (valueof nameof : A -> Z) (valueof' nameof' : B -> Z)
  (k : nat) (items : list A) (items' : list B),
  map valueof items = map valueof' items' ->
  names_ok valueof nameof items ->
  names_ok valueof' nameof' items' ->
  rmap sums (rnp valueof nameof true k items) = rmap sums (rnp valueof' nameof' true k items').
Proof. exact @rnp_names_sums_gen. Qed.
Print Assumptions C07_rnp_names_sums.

(** bin completion on named items (search on the values, names put back): projects to the value-level run *)
Theorem C07_bin_completion_names :
  forall (A : Type) (valueof : A -> Z) (C : Z) (fuel : nat) (items : list A),
  Forall (fun x : A => 0 <= valueof x) items ->
  rmap (map_bins valueof) (bin_completion_named valueof true C fuel items) =
  bin_completion true C fuel (map valueof items).
Proof. exact @bc_named_names. Qed.
Print Assumptions C07_bin_completion_names.

(** ... and is a feasible packing of the NAMES *)
Theorem C07_bin_completion_named_packing :
  forall (A : Type) (valueof : A -> Z) (C : Z) (fuel : nat) (items : list A) (b : bins A),
  Forall (fun x : A => 0 <= valueof x) items ->
  bin_completion_named valueof true C fuel items = Ok b ->
  is_packing valueof C (filter (nonzero_item valueof) items) b /\ all_nonempty b.
Proof. exact @bc_named_packing. Qed.
Print Assumptions C07_bin_completion_named_packing.

