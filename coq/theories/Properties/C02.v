(** C02 - Exact partitioners attain the true optimum of their objective.
    Opt o k vs v: v is attained by some assignment of the values to k bins and no assignment has a smaller objective value.
    dp: every objective.  cg: every objective and every one of the 16 switch vectors, both bins-managers.
    ckk, snp: difference objective; premise names_ok / injective nameof = names determine values (plain numbers or distinct names).
    rnp: REFUTED for 4 bins on the faithful model (known finding rnp-suboptimal, Proofs/Findings.v); 2 bins reduce to ckk.
    ilp: optimal relative to the solver hypothesis (Properties/C17); judged per input against the verified oracle here.
    opt_value (the oracle used to judge prtpy's outputs) is proved to be the optimum.
    Statements only; proofs in Proofs/{DPProofs,CKKOptimal,CGOptimal,SNPProofs,Glue,KKProofs,OracleSpec,Findings}.v. *)
From Prtpy Require Import Base.Prelude Model.Binner Model.Objectives Model.KK Model.CG Model.DP Model.SNP Spec.Partition Oracle.Reach Proofs.DPProofs Proofs.KKProofs Proofs.CKKOptimal Proofs.CGOptimal Proofs.SNPProofs Proofs.Glue Proofs.OracleSpec Proofs.Findings Model.SNPTrace Proofs.SNPTraceProofs.

(** C02 - Exact partitioners attain the true optimum of their objective. Opt o k vs v: v is attained by some assignment of the values to k bins and no assignment has a smaller objective value. dp: every objective. cg: every objective and every one of the 16 switch vectors, both bins-managers. ckk, snp: difference objective; premise names_ok / injective nameof = names determine values (plain numbers or distinct names). rnp: REFUTED for 4 bins on the faithful model (known finding rnp-suboptimal, Proofs/Findings.v); 2 bins reduce to ckk. ilp: optimal relative to the solver hypothesis (Properties/C17); judged per input against the verified oracle here. opt_value (the oracle used to judge prtpy's outputs) is proved to be the optimum. Statements only; proofs in Proofs/{DPProofs,CKKOptimal,CGOptimal,SNPProofs,Glue,KKProofs,OracleSpec,Findings}.v. *) From Prtpy Require Import Base.Prelude Model.Binner Model.Objectives Model.KK Model.CG Model.DP Model.SNP Spec.Partition Oracle.Reach Proofs.DPProofs Proofs.KKProofs Proofs.CKKOptimal Proofs.CGOptimal Proofs.SNPProofs Proofs.Glue Proofs.OracleSpec Proofs.Findings Model.SNPTrace Proofs.SNPTraceProofs. (** dynamic programming is optimal for every objective *)
Theorem C02_dp_optimal :
  forall (A : Type) (valueof : A -> Z) (o : objective) (k : nat) (items : list A) (b : bins A),
  (1 <= k)%nat ->
  dp valueof true o k items = Ok b -> Opt o k (map valueof items) (value o (sums b) false).
Proof. exact @dp_optimal. Qed.
Print Assumptions C02_dp_optimal.

(** complete greedy (contents manager), no time limit: optimal for every objective under every combination of the four pruning switches *)
Theorem C02_cg_optimal :
  forall (A : Type) (valueof : A -> Z) (o : objective) (flags : cg_flags)
  (k : nat) (items : list A) (b : bins A),
  (1 <= k)%nat ->
  Forall (fun x : A => 0 <= valueof x) items ->
  cg valueof true o flags None k items = Some b ->
  Opt o k (map valueof items) (value o (sums b) false).
Proof. exact @cg_optimal. Qed.
Print Assumptions C02_cg_optimal.

(** the same with the sums-only manager *)
Theorem C02_cg_optimal_sums :
  forall (A : Type) (valueof : A -> Z) (o : objective) (flags : cg_flags)
  (k : nat) (items : list A) (b : bins A),
  (1 <= k)%nat ->
  Forall (fun x : A => 0 <= valueof x) items ->
  cg valueof false o flags None k items = Some b ->
  Opt o k (map valueof items) (value o (sums b) false).
Proof. exact @cg_optimal_sums. Qed.
Print Assumptions C02_cg_optimal_sums.

(** complete Karmarkar-Karp is optimal for the difference objective *)
Theorem C02_ckk_optimal :
  forall (A : Type) (valueof nameof : A -> Z) (k : nat) (items : list A) (b : bins A),
  (1 <= k)%nat ->
  items <> [] ->
  Forall (fun x : A => 0 <= valueof x) items ->
  names_ok valueof nameof items ->
  ckk valueof nameof true k items = Ok b ->
  Opt MinDiff k (map valueof items) (value MinDiff (sums b) false).
Proof. exact @ckk_optimal. Qed.
Print Assumptions C02_ckk_optimal.

(** plain numeric input (name = value) *)
Theorem C02_ckk_optimal_values :
  forall (A : Type) (valueof : A -> Z) (k : nat) (items : list A) (b : bins A),
  (1 <= k)%nat ->
  items <> [] ->
  Forall (fun x : A => 0 <= valueof x) items ->
  ckk valueof valueof true k items = Ok b ->
  Opt MinDiff k (map valueof items) (value MinDiff (sums b) false).
Proof. exact @ckk_optimal_values. Qed.
Print Assumptions C02_ckk_optimal_values.

(** CKK's pruning bound never exceeds the difference of any partition below the node *)
Theorem C02_ckk_bound_admissible :
  forall (A : Type) (valueof nameof : A -> Z) (k : nat) (its : list A)
  (h : heap) (e : hentry) (lb : Z),
  heap_full valueof k its h ->
  Forall (fun x : A => 0 <= valueof x) its ->
  expands nameof h [e] -> ckk_bound k h = Some lb -> fst e <= lb.
Proof. exact @ckk_bound_admissible. Qed.
Print Assumptions C02_ckk_bound_admissible.

(** ... [expands] is the search tree of the algorithm (children de-duplicated by names, then by sums); the bound is admissible for every leaf of the tree of ALL pairings of the bins as well *)
Theorem C02_ckk_bound_admissible_all :
  forall (A : Type) (valueof nameof : A -> Z) (k : nat) (its : list A)
  (h : heap) (e : hentry) (lb : Z),
  heap_full valueof k its h ->
  Forall (fun x : A => 0 <= valueof x) its ->
  expands_all nameof h [e] -> ckk_bound k h = Some lb -> fst e <= lb.
Proof. exact @ckk_bound_admissible_all. Qed.
Print Assumptions C02_ckk_bound_admissible_all.

(** sequential number partitioning is optimal for the difference objective *)
Theorem C02_snp_optimal :
  forall (A : Type) (valueof nameof : A -> Z),
  (forall x y : A, nameof x = nameof y -> x = y) ->
  forall (k : nat) (items : list A) (b : bins A),
  (1 <= k)%nat ->
  items <> [] ->
  Forall (fun x : A => 0 <= valueof x) items ->
  snp valueof nameof true k items = Ok b ->
  Opt MinDiff k (map valueof items) (value MinDiff (sums b) false).
Proof. exact @snp_optimal. Qed.
Print Assumptions C02_snp_optimal.

Theorem C02_snp_optimal_values :
  forall (k : nat) (vs : list Z) (b : bins Z),
  (1 <= k)%nat ->
  vs <> [] ->
  Forall (fun x : Z => 0 <= x) vs ->
  snp (fun x : Z => x) (fun x : Z => x) true k vs = Ok b ->
  Opt MinDiff k vs (value MinDiff (sums b) false).
Proof. exact @snp_optimal_values. Qed.
Print Assumptions C02_snp_optimal_values.

(** recursive number partitioning with 2 bins: KK if perfect, otherwise complete KK (hence optimal) *)
Theorem C02_rnp_two_bins_is_ckk :
  forall (A : Type) (valueof nameof : A -> Z) (items : list A),
  rnp valueof nameof true 2 items =
  match kk valueof true 2 items with
  | Ok best => if bins_spread best =? 0 then Ok best else ckk valueof nameof true 2 items
  | Err e => Err e
  end.
Proof. exact @rnp_k2. Qed.
Print Assumptions C02_rnp_two_bins_is_ckk.

(** KNOWN FINDING: rnp is not optimal in general (witness: 4 bins, [68;22;72;23;31;30;4], 19 vs 18) *)
Theorem C02_rnp_optimal_refuted :
  ~
  (forall (k : nat) (vs : list Z) (b : bins Z),
  (1 <= k)%nat ->
  vs <> [] ->
  Forall (fun x : Z => 0 <= x) vs ->
  rnp zid zid true k vs = Ok b -> Opt MinDiff k vs (value MinDiff (sums b) false)).
Proof. exact @rnp_optimal_refuted. Qed.
Print Assumptions C02_rnp_optimal_refuted.

(** the yardstick: opt_value is the true optimum *)
Theorem C02_opt_value_oracle :
  forall (o : objective) (k : nat) (vs : list Z),
  (1 <= k)%nat -> exists v : Z, opt_value o k vs = Some v /\ Opt o k vs v.
Proof. exact @opt_value_spec. Qed.
Print Assumptions C02_opt_value_oracle.

(** the traced SNP search (whose trace is compared with the implementation's) returns exactly snp's result *)
Theorem C02_snp_trace_result :
  forall (A : Type) (valueof nameof : A -> Z) (keep : bool) (k : nat) (items : list A),
  fst (snp_tr valueof nameof keep k items) = snp valueof nameof keep k items.
Proof. exact @snp_tr_result. Qed.
Print Assumptions C02_snp_trace_result.

Theorem C02_rnp_trace_result :
  forall (A : Type) (valueof nameof : A -> Z) (keep : bool) (k : nat) (items : list A),
  fst (rnp_tr valueof nameof keep k items) = rnp valueof nameof keep k items.
Proof. exact @rnp_tr_result. Qed.
Print Assumptions C02_rnp_trace_result.

