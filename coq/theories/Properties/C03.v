(** C03 - Bin-packing results are feasible packings of exactly the input items.
    Statements only; proofs in Proofs/PackingProofs.v (fit heuristics) and Proofs/BCProofs.v (bin completion). *)
From Prtpy Require Import Base.Prelude Model.Binner Model.Packing Spec.Partition Proofs.PackingProofs.

(** first-fit: every item exactly once, no sum above the bin size, recorded sums are the totals *)
Theorem C03_ff_packing : forall (A : Type) (valueof : A -> Z) (C : Z) (items : list A) (b : bins A),
  (items = [] -> 0 <= C) -> Forall (fun x : A => 0 <= valueof x) items ->
  first_fit valueof true C items = Ok b -> is_packing valueof C items b.
Proof. exact @ff_packing. Qed.
Print Assumptions C03_ff_packing.

(** first-fit: no bin of a non-empty input is empty *)
Theorem C03_ff_nonempty : forall (A : Type) (valueof : A -> Z) (C : Z) (items : list A) (b : bins A),
  items <> [] -> Forall (fun x : A => 0 <= valueof x) items ->
  first_fit valueof true C items = Ok b -> all_nonempty b.
Proof. exact @ff_nonempty. Qed.
Print Assumptions C03_ff_nonempty.

(** first-fit-decreasing: every item exactly once, no sum above the bin size, recorded sums are the totals *)
Theorem C03_ffd_packing : forall (A : Type) (valueof : A -> Z) (C : Z) (items : list A) (b : bins A),
  (items = [] -> 0 <= C) -> Forall (fun x : A => 0 <= valueof x) items ->
  first_fit_decreasing valueof true C items = Ok b -> is_packing valueof C items b.
Proof. exact @ffd_packing. Qed.
Print Assumptions C03_ffd_packing.

(** first-fit-decreasing: no bin of a non-empty input is empty *)
Theorem C03_ffd_nonempty : forall (A : Type) (valueof : A -> Z) (C : Z) (items : list A) (b : bins A),
  items <> [] -> Forall (fun x : A => 0 <= valueof x) items ->
  first_fit_decreasing valueof true C items = Ok b -> all_nonempty b.
Proof. exact @ffd_nonempty. Qed.
Print Assumptions C03_ffd_nonempty.

(** best-fit: every item exactly once, no sum above the bin size, recorded sums are the totals *)
Theorem C03_bf_packing : forall (A : Type) (valueof : A -> Z) (C : Z) (items : list A) (b : bins A),
  (items = [] -> 0 <= C) -> Forall (fun x : A => 0 <= valueof x) items ->
  best_fit valueof true C items = Ok b -> is_packing valueof C items b.
Proof. exact @bf_packing. Qed.
Print Assumptions C03_bf_packing.

(** best-fit: no bin of a non-empty input is empty *)
Theorem C03_bf_nonempty : forall (A : Type) (valueof : A -> Z) (C : Z) (items : list A) (b : bins A),
  items <> [] -> Forall (fun x : A => 0 <= valueof x) items ->
  best_fit valueof true C items = Ok b -> all_nonempty b.
Proof. exact @bf_nonempty. Qed.
Print Assumptions C03_bf_nonempty.

(** best-fit-decreasing: every item exactly once, no sum above the bin size, recorded sums are the totals *)
Theorem C03_bfd_packing : forall (A : Type) (valueof : A -> Z) (C : Z) (items : list A) (b : bins A),
  (items = [] -> 0 <= C) -> Forall (fun x : A => 0 <= valueof x) items ->
  best_fit_decreasing valueof true C items = Ok b -> is_packing valueof C items b.
Proof. exact @bfd_packing. Qed.
Print Assumptions C03_bfd_packing.

(** best-fit-decreasing: no bin of a non-empty input is empty *)
Theorem C03_bfd_nonempty : forall (A : Type) (valueof : A -> Z) (C : Z) (items : list A) (b : bins A),
  items <> [] -> Forall (fun x : A => 0 <= valueof x) items ->
  best_fit_decreasing valueof true C items = Ok b -> all_nonempty b.
Proof. exact @bfd_nonempty. Qed.
Print Assumptions C03_bfd_nonempty.

