(** C03 - Bin-packing results are feasible packings of exactly the input items.
    Statements only; proofs in Proofs/PackingProofs.v (fit heuristics) and Proofs/BCProofs.v (bin completion). *)
From Prtpy Require Import Base.Prelude Model.Binner Model.Packing Spec.Partition Proofs.PackingProofs Model.BinCompletion Model.BinCompletionNamed Proofs.BCProofs Proofs.BCNamedProofs Oracle.Checkers Proofs.CheckersSpec.

(** first-fit: every item exactly once, no sum above the bin size, recorded sums are the totals *)
Theorem C03_ff_packing : forall (A : Type) (valueof : A -> Z) (C : Z) (items : list A) (b : bins A),
  (items = [] -> 0 <= C) -> Forall (fun x : A => 0 <= valueof x) items ->
  first_fit valueof true C items = Ok b -> is_packing valueof C items b.
Proof. exact @ff_packing. Qed.
Print Assumptions C03_ff_packing.

(** first-fit: no bin of a non-empty input is empty *)
Theorem C03_ff_nonempty : forall (A : Type) (valueof : A -> Z) (C : Z) (items : list A) (b : bins A),
  items <> [] -> Forall (fun x : A => 0 <= valueof x) items ->
  first_fit valueof true C items = Ok b -> all_nonempty b.
Proof. exact @ff_nonempty. Qed.
Print Assumptions C03_ff_nonempty.

(** first-fit-decreasing: every item exactly once, no sum above the bin size, recorded sums are the totals *)
Theorem C03_ffd_packing : forall (A : Type) (valueof : A -> Z) (C : Z) (items : list A) (b : bins A),
  (items = [] -> 0 <= C) -> Forall (fun x : A => 0 <= valueof x) items ->
  first_fit_decreasing valueof true C items = Ok b -> is_packing valueof C items b.
Proof. exact @ffd_packing. Qed.
Print Assumptions C03_ffd_packing.

(** first-fit-decreasing: no bin of a non-empty input is empty *)
Theorem C03_ffd_nonempty : forall (A : Type) (valueof : A -> Z) (C : Z) (items : list A) (b : bins A),
  items <> [] -> Forall (fun x : A => 0 <= valueof x) items ->
  first_fit_decreasing valueof true C items = Ok b -> all_nonempty b.
Proof. exact @ffd_nonempty. Qed.
Print Assumptions C03_ffd_nonempty.

(** best-fit: every item exactly once, no sum above the bin size, recorded sums are the totals *)
Theorem C03_bf_packing : forall (A : Type) (valueof : A -> Z) (C : Z) (items : list A) (b : bins A),
  (items = [] -> 0 <= C) -> Forall (fun x : A => 0 <= valueof x) items ->
  best_fit valueof true C items = Ok b -> is_packing valueof C items b.
Proof. exact @bf_packing. Qed.
Print Assumptions C03_bf_packing.

(** best-fit: no bin of a non-empty input is empty *)
Theorem C03_bf_nonempty : forall (A : Type) (valueof : A -> Z) (C : Z) (items : list A) (b : bins A),
  items <> [] -> Forall (fun x : A => 0 <= valueof x) items ->
  best_fit valueof true C items = Ok b -> all_nonempty b.
Proof. exact @bf_nonempty. Qed.
Print Assumptions C03_bf_nonempty.

(** best-fit-decreasing: every item exactly once, no sum above the bin size, recorded sums are the totals *)
Theorem C03_bfd_packing : forall (A : Type) (valueof : A -> Z) (C : Z) (items : list A) (b : bins A),
  (items = [] -> 0 <= C) -> Forall (fun x : A => 0 <= valueof x) items ->
  best_fit_decreasing valueof true C items = Ok b -> is_packing valueof C items b.
Proof. exact @bfd_packing. Qed.
Print Assumptions C03_bfd_packing.

(** best-fit-decreasing: no bin of a non-empty input is empty *)
Theorem C03_bfd_nonempty : forall (A : Type) (valueof : A -> Z) (C : Z) (items : list A) (b : bins A),
  items <> [] -> Forall (fun x : A => 0 <= valueof x) items ->
  best_fit_decreasing valueof true C items = Ok b -> all_nonempty b.
Proof. exact @bfd_nonempty. Qed.
Print Assumptions C03_bfd_nonempty.

(** bin completion: a feasible packing of exactly the non-zero items, no empty bin (value level, and on named items) *)
Theorem C03_bc_packing : forall (C : Z) (fuel : nat) (items : list Z) (b : zbins),
  Forall (fun v : Z => 0 <= v) items ->
  bin_completion true C fuel items = Ok b -> is_packing zid C (filter nonzero items) b /\ all_nonempty b.
Proof. exact bc_packing_strong. Qed.
Print Assumptions C03_bc_packing.

Theorem C03_bc_named_packing : forall (A : Type) (valueof : A -> Z) (C : Z) (fuel : nat) (items : list A) (b : bins A),
  Forall (fun x : A => 0 <= valueof x) items ->
  bin_completion_named valueof true C fuel items = Ok b ->
  is_packing valueof C (filter (nonzero_item valueof) items) b /\ all_nonempty b.
Proof. exact @bc_named_packing. Qed.
Print Assumptions C03_bc_named_packing.

(** the boolean checker that judges the IMPLEMENTATION's packings (extracted; items are (name, value) pairs in which a name determines the item)
    decides exactly the specification is_packing *)
Theorem C03_checker_is_packing : forall (C : Z) (items : list citem) (b : bins citem),
  names_det (contents b ++ items) -> is_packing_b C items b = true <-> is_packing cval C items b.
Proof. exact is_packing_b_spec. Qed.
Print Assumptions C03_checker_is_packing.

Theorem C03_checker_nonempty : forall b : bins citem, nonempty_b b = true <-> all_nonempty b.
Proof. exact nonempty_b_spec. Qed.
Print Assumptions C03_checker_nonempty.
