(** C13 - Search bounds are admissible and search enumerators are complete.
    Statements only; proofs in Proofs/ObjectivesProofs.v and Proofs/EnumProofs.v. *)
From Prtpy Require Import Base.Prelude Base.Perms Model.Binner Model.Objectives Model.InExTree Model.KK
     Proofs.ObjectivesProofs Proofs.EnumProofs Model.Multifit Proofs.FloatDivProofs.
From Coq Require Import Sorting.Sorted.

(** The lower bound never exceeds the objective value of any completion f of the partial
    sums s: f >= s entrywise, total grown by the remaining total R (so every way of
    distributing positive integers with total R is covered), sums in any order. *)
Theorem C13_lower_bound_admissible : forall o s f R flag b,
  s <> [] -> (flag = true -> StronglySorted Z.le s) -> Forall2 Z.le s f -> zsum f = zsum s + R ->
  lower_bound o s R flag = Some b -> b <= value o f false.
Proof. exact lower_bound_admissible. Qed.
Print Assumptions C13_lower_bound_admissible.

(** ... and does not depend on whether the caller says the sums are sorted *)
Theorem C13_lower_bound_sorted_flag : forall o s R, StronglySorted Z.le s ->
  lower_bound o s R true = lower_bound o s R false.
Proof. exact lower_bound_sorted_flag. Qed.
Print Assumptions C13_lower_bound_sorted_flag.

(** The inclusion/exclusion enumerator yields exactly the sub-collections (by position, of
    the items in non-increasing order) whose total lies within the bounds, each once, in
    DFS order. *)
Theorem C13_inex_complete : forall (A : Type) (valueof : A -> Z) lb ub items,
  0 < snd lb -> 0 < snd ub -> Forall (fun x => 0 <= valueof x) items ->
  generate_tree valueof lb ub items = filter (in_window valueof lb ub) (sublists (sort_desc valueof items)).
Proof. exact @inex_complete. Qed.
Print Assumptions C13_inex_complete.

(** [sublists l] enumerates every choice of positions exactly once: it is the image of
    the duplicate-free list of all 2^n boolean masks *)
Theorem C13_sublists_masks : forall (A : Type) (l : list A),
  sublists l = map (fun m => select m l) (all_masks (length l)).
Proof. exact @sublists_masks. Qed.
Print Assumptions C13_sublists_masks.

Theorem C13_all_masks_nodup : forall n, NoDup (all_masks n).
Proof. exact all_masks_nodup. Qed.
Print Assumptions C13_all_masks_nodup.

(** The bin-combination enumerator: every yielded array is a pairing of the bins ... *)
Theorem C13_all_combinations_sound : forall (A : Type) (nameof : A -> Z) keep b1 b2 c,
  In c (all_combinations nameof keep b1 b2) ->
  exists p, Permutation p (range (length b1)) /\ c = combo_of_perm nameof keep b1 b2 p.
Proof. exact @all_combinations_sound. Qed.
Print Assumptions C13_all_combinations_sound.

(** ... every pairing is represented ... *)
Theorem C13_all_combinations_complete : forall (A : Type) (nameof : A -> Z) keep b1 b2 p,
  Permutation p (range (length b1)) ->
  exists c, In c (all_combinations nameof keep b1 b2) /\
            combo_key nameof keep c = combo_key nameof keep (combo_of_perm nameof keep b1 b2 p).
Proof. exact @all_combinations_complete_gen. Qed.
Print Assumptions C13_all_combinations_complete.

(** ... and no distinct combination is yielded twice *)
Theorem C13_all_combinations_nodup : forall (A : Type) (nameof : A -> Z) keep b1 b2,
  NoDup (map (combo_key nameof keep) (all_combinations nameof keep b1 b2)).
Proof. exact @all_combinations_nodup. Qed.
Print Assumptions C13_all_combinations_nodup.

(** The children of a complete-KK search node (the combinations de-duplicated once more by their sums): each is a combination ... *)
Theorem C13_ckk_children_sound : forall (A : Type) (nameof : A -> Z) keep b1 b2 c,
  In c (ckk_children nameof keep b1 b2) -> In c (all_combinations nameof keep b1 b2).
Proof. exact @ckk_children_sound. Qed.
Print Assumptions C13_ckk_children_sound.

(** ... every combination is represented by a child with the same sums ... *)
Theorem C13_ckk_children_complete : forall (A : Type) (nameof : A -> Z) keep b1 b2 c,
  In c (all_combinations nameof keep b1 b2) ->
  exists c', In c' (ckk_children nameof keep b1 b2) /\ sums c' = sums c.
Proof. exact @ckk_children_complete. Qed.
Print Assumptions C13_ckk_children_complete.

(** ... and no two children have the same sums *)
Theorem C13_ckk_children_nodup : forall (A : Type) (nameof : A -> Z) keep b1 b2,
  NoDup (map sums (ckk_children nameof keep b1 b2)).
Proof. exact @ckk_children_nodup. Qed.
Print Assumptions C13_ckk_children_nodup.

(** the permutations enumerated are exactly the permutations of the bin indices *)
Theorem C13_perms : forall n p, In p (perms n) <-> Permutation p (range n).
Proof. exact perms_spec. Qed.
Print Assumptions C13_perms.

(** the model writes np.floor(a/i) and np.ceil(a/k) of objectives.py as exact integer division: justified for binary64
    (rnd53 = correctly rounded division, Model/Multifit.v) whenever the dividend is below 2^53 *)
Theorem C13_floor_fl_div : forall a i : Z, 0 <= a < 2 ^ 53 -> 1 <= i -> ffloor (rnd53 a i) = a / i.
Proof. exact floor_fl_div. Qed.
Print Assumptions C13_floor_fl_div.

Theorem C13_ceil_fl_div : forall a i : Z, 0 <= a < 2 ^ 53 -> 1 <= i -> fceil (rnd53 a i) = cdiv a i.
Proof. exact ceil_fl_div. Qed.
Print Assumptions C13_ceil_fl_div.
