(** C11 - Anytime algorithms are safe to interrupt and only ever improve.
    The clock is an oracle: `limit = Some n` lets the limit test read the clock n times before it fires; None = no limit.
    Safety holds for EVERY n (every interruption point); monotone: a larger n never gives a worse objective value;
    the first solution of complete greedy has the LPT sums; beyond some N the limit no longer matters and the result is optimal.
    CBLDM: placeholder (no solution yet) or a partition within the cardinality bound; monotone; limit None optimal.
    CKK generator: every yield is a partition, strictly decreasing difference, the last one is optimal.
    Statements only; proofs in Proofs/{CGProofs,CGOptimal,CBLDMProofs,KKProofs,CKKOptimal}.v. *)
From Prtpy Require Import Base.Prelude Model.Binner Model.Objectives Model.Greedy Model.KK Model.CG Model.CBLDM Spec.Partition Proofs.KKProofs Proofs.CGProofs Proofs.CGOptimal Proofs.CBLDMProofs Proofs.CKKOptimal.

(** complete greedy stopped at ANY clock reading returns no result or a complete valid partition *)
Theorem C11_cg_interrupt_safe :
  forall (A : Type) (valueof : A -> Z) (o : objective) (flags : cg_flags)
  (limit : option nat) (k : nat) (items : list A) (b : bins A),
  (1 <= k)%nat ->
  cg valueof true o flags limit k items = Some b -> is_partition valueof k items b.
Proof. exact @cg_safe. Qed.
Print Assumptions C11_cg_interrupt_safe.

(** the objective value never gets worse as the limit grows *)
Theorem C11_cg_monotone :
  forall (A : Type) (valueof : A -> Z) (keep : bool) (o : objective)
  (flags : cg_flags) (k : nat) (items : list A) (n m : nat),
  (n <= m)%nat ->
  better_or_equal (objv o (cg valueof keep o flags (Some m) k items))
  (objv o (cg valueof keep o flags (Some n) k items)).
Proof. exact @cg_monotone. Qed.
Print Assumptions C11_cg_monotone.

(** ... and the unlimited run is at least as good as every interrupted one *)
Theorem C11_cg_monotone_none :
  forall (A : Type) (valueof : A -> Z) (keep : bool) (o : objective)
  (flags : cg_flags) (k : nat) (items : list A) (n : nat),
  better_or_equal (objv o (cg valueof keep o flags None k items))
  (objv o (cg valueof keep o flags (Some n) k items)).
Proof. exact @cg_monotone_none. Qed.
Print Assumptions C11_cg_monotone_none.

(** the first solution found has the greedy (LPT) sums (heuristic 3 with min-max reorders children: see next theorem) *)
Theorem C11_cg_first_is_lpt :
  forall (A : Type) (valueof : A -> Z) (o : objective) (flags : cg_flags)
  (limit : option nat) (k : nat) (items : list A) (f : bins A),
  (1 <= k)%nat ->
  use_heuristic_3 flags && objective_eqb o MinLargest = false ->
  cg_first (cg_run valueof true o flags limit k items) = Some f ->
  Permutation (sums f) (sums (greedy valueof true k items)).
Proof. exact @cg_first_is_lpt. Qed.
Print Assumptions C11_cg_first_is_lpt.

(** with heuristic 3 and the min-max objective the first solution still has the LPT objective value *)
Theorem C11_cg_first_h3_value :
  forall (A : Type) (valueof : A -> Z) (flags : cg_flags) (limit : option nat)
  (k : nat) (items : list A) (f : bins A),
  (1 <= k)%nat ->
  Forall (fun x : A => 0 <= valueof x) items ->
  cg_first (cg_run valueof true MinLargest flags limit k items) = Some f ->
  value MinLargest (sums f) false =
  value MinLargest (sums (greedy valueof true k items)) false.
Proof. exact @cg_first_h3_value. Qed.
Print Assumptions C11_cg_first_h3_value.

Theorem C11_cg_first_safe :
  forall (A : Type) (valueof : A -> Z) (o : objective) (flags : cg_flags)
  (limit : option nat) (k : nat) (items : list A) (f : bins A),
  (1 <= k)%nat ->
  cg_first (cg_run valueof true o flags limit k items) = Some f ->
  is_partition valueof k items f.
Proof. exact @cg_first_safe. Qed.
Print Assumptions C11_cg_first_safe.

(** a large enough limit is the same as no limit *)
Theorem C11_cg_limit_none :
  forall (A : Type) (valueof : A -> Z) (keep : bool) (o : objective)
  (flags : cg_flags) (k : nat) (items : list A),
  exists N : nat,
  forall n : nat,
  (N <= n)%nat ->
  cg_run valueof keep o flags (Some n) k items = cg_run valueof keep o flags None k items.
Proof. exact @cg_limit_none. Qed.
Print Assumptions C11_cg_limit_none.

(** with no limit the result is optimal *)
Theorem C11_cg_unlimited_optimal :
  forall (A : Type) (valueof : A -> Z) (o : objective) (flags : cg_flags)
  (k : nat) (items : list A) (b : bins A),
  (1 <= k)%nat ->
  Forall (fun x : A => 0 <= valueof x) items ->
  cg valueof true o flags None k items = Some b ->
  Opt o k (map valueof items) (value o (sums b) false).
Proof. exact @cg_optimal. Qed.
Print Assumptions C11_cg_unlimited_optimal.

(** CBLDM stopped at any clock reading: the explicit no-solution-yet marker or a partition obeying the cardinality bound *)
Theorem C11_cbldm_interrupt_safe :
  forall (A : Type) (valueof : A -> Z) (items : list A) (d : Z) (limit : option nat)
  (out : cbldm_out A) (t : nat),
  Forall (fun x : A => 0 <= valueof x) items ->
  items <> [] ->
  1 <= d ->
  cbldm valueof 2 items true d true limit = Ok (out, t) ->
  out = CbPlaceholder \/
  (exists b : bins A, out = CbBins b /\ is_partition valueof 2 items b /\ len_diff b <= d).
Proof. exact @cbldm_safe. Qed.
Print Assumptions C11_cbldm_interrupt_safe.

Theorem C11_cbldm_monotone :
  forall (A : Type) (valueof : A -> Z) (items : list A) (d : Z) (n m : nat)
  (b1 : bins A) (t1 : nat),
  (n <= m)%nat ->
  cbldm valueof 2 items true d true (Some n) = Ok (CbBins b1, t1) ->
  exists (b2 : bins A) (t2 : nat),
  cbldm valueof 2 items true d true (Some m) = Ok (CbBins b2, t2) /\
  sum_diff b2 <= sum_diff b1.
Proof. exact @cbldm_monotone. Qed.
Print Assumptions C11_cbldm_monotone.

Theorem C11_cbldm_monotone_none :
  forall (A : Type) (valueof : A -> Z) (items : list A) (d : Z) (n : nat)
  (b1 : bins A) (t1 : nat),
  cbldm valueof 2 items true d true (Some n) = Ok (CbBins b1, t1) ->
  exists (b2 : bins A) (t2 : nat),
  cbldm valueof 2 items true d true None = Ok (CbBins b2, t2) /\ sum_diff b2 <= sum_diff b1.
Proof. exact @cbldm_monotone_none. Qed.
Print Assumptions C11_cbldm_monotone_none.

Theorem C11_cbldm_limit_none :
  forall (A : Type) (valueof : A -> Z) (k : nat) (items : list A)
  (tl : bool) (d : Z) (dint : bool),
  exists N : nat,
  forall m : nat,
  (N <= m)%nat ->
  cbldm valueof k items tl d dint (Some m) = cbldm valueof k items tl d dint None.
Proof. exact @cbldm_limit_none. Qed.
Print Assumptions C11_cbldm_limit_none.

Theorem C11_cbldm_unlimited_optimal :
  forall (A : Type) (valueof : A -> Z) (items : list A) (d : Z),
  Forall (fun x : A => 0 <= valueof x) items ->
  items <> [] ->
  1 <= d ->
  exists (b : bins A) (t : nat),
  cbldm valueof 2 items true d true None = Ok (CbBins b, t) /\
  is_partition valueof 2 items b /\
  len_diff b <= d /\ OptBalanced d (map valueof items) (sum_diff b).
Proof. exact @cbldm_optimal. Qed.
Print Assumptions C11_cbldm_unlimited_optimal.

(** every partition yielded by the CKK generator is valid *)
Theorem C11_ckk_generator_valid :
  forall (A : Type) (valueof nameof : A -> Z) (k : nat) (items : list A)
  (init : option Z) (b : bins A),
  (1 <= k)%nat ->
  In b (ckk_generator valueof nameof true k items init) -> is_partition valueof k items b.
Proof. exact @ckk_generator_valid_any. Qed.
Print Assumptions C11_ckk_generator_valid.

(** each yield is strictly better than the previous one; ckk returns the last *)
Theorem C11_ckk_generator_decreasing :
  forall (A : Type) (valueof nameof : A -> Z) (k : nat) (items : list A),
  Sorted.StronglySorted (fun a b : bins A => bins_diff b < bins_diff a)
  (ckk_generator valueof nameof true k items None) /\
  ckk valueof nameof true k items =
  match last_opt (ckk_generator valueof nameof true k items None) with
  | Some b_last => Ok (sort_bins b_last)
  | None => Err OtherError
  end.
Proof. exact @ckk_generator_decreasing. Qed.
Print Assumptions C11_ckk_generator_decreasing.

(** the last yield is optimal *)
Theorem C11_ckk_generator_last_optimal :
  forall (A : Type) (valueof nameof : A -> Z) (k : nat) (items : list A),
  (1 <= k)%nat ->
  items <> [] ->
  Forall (fun x : A => 0 <= valueof x) items ->
  names_ok valueof nameof items ->
  exists b_last : bins A,
  last_opt (ckk_generator valueof nameof true k items None) = Some b_last /\
  is_partition valueof k items b_last /\
  Opt MinDiff k (map valueof items) (value MinDiff (sums b_last) false).
Proof. exact @ckk_generator_last_optimal. Qed.
Print Assumptions C11_ckk_generator_last_optimal.

