(** C17 - ILP options (copies, weights, constraints) are honoured; sums come out ascending.
    Model/ILP.v models what prtpy itself does: the FORMULATION handed to the MIP solver (variables, objective, constraints in
    creation order, exact rational coefficients) and the DECODING of the solver's answer; the solver is not modelled.
    feasible_iff: the formulation's constraints mean exactly: counts >= 0, item i placed copies_i times, weighted sums ascending,
    additional constraints hold.  decode_*: what the returned bins are for a feasible answer.  objective_agrees: the LP objective
    is the documented objective of the (weighted) sums.  feasible_complete: every such arrangement is representable.
    ilp_optimal*: under the hypothesis solver_spec (the solver returns a feasible point of minimum objective - a premise, not an
    axiom) the result is optimal among the arrangements satisfying the constraints.  non_optimal_raises: no partition is returned
    when the status is not OPTIMAL.  equal_weights_noop: weights all equal to c = no weights (additional-constraint constants are
    then in units of c).  Statements only; proofs in Proofs/ILPProofs.v. *)
From Prtpy Require Import Base.Prelude Model.Binner Model.Objectives Model.ILP Spec.Partition Proofs.ILPProofs.

Theorem C17_feasible_iff :
  forall (vs : list Z) (k : nat) (copies ws : list Z) (ex : list extra) (asg : list Z),
  (1 <= k)%nat ->
  wpos ws k -> feasible_b vs k copies ws ex asg = true <-> sem_feasible vs k copies ws ex asg.
Proof. exact @feasible_iff. Qed.
Print Assumptions C17_feasible_iff.

(** each item is placed exactly as many times as its requested number of copies; sums are totals; k bins *)
Theorem C17_decode_copies :
  forall (A : Type) (valueof : A -> Z) (items : list A) (k : nat)
  (copies ws : list Z) (ex : list extra) (asg : list Z),
  ilp_pre k ws ->
  feasible_b (map valueof items) k copies ws ex asg = true ->
  Permutation (contents (decode valueof true k items ws asg))
  (concat
  (map (fun p : nat * A => repeat (snd p) (Z.to_nat (nth (fst p) copies 0)))
  (enumerate items))) /\
  wf valueof (decode valueof true k items ws asg) /\
  length (decode valueof true k items ws asg) = k.
Proof. exact @decode_copies. Qed.
Print Assumptions C17_decode_copies.

Theorem C17_decode_is_partition :
  forall (A : Type) (valueof : A -> Z) (items : list A) (k : nat)
  (ws : list Z) (ex : list extra) (asg : list Z),
  ilp_pre k ws ->
  feasible_b (map valueof items) k (repeat 1 (length items)) ws ex asg = true ->
  is_partition valueof k items (decode valueof true k items ws asg).
Proof. exact @decode_is_partition. Qed.
Print Assumptions C17_decode_is_partition.

(** weighted sums non-decreasing in bin index *)
Theorem C17_decode_weighted_ascending :
  forall (A : Type) (valueof : A -> Z) (keep : bool) (items : list A)
  (k : nat) (copies ws : list Z) (ex : list extra) (asg : list Z),
  ilp_pre k ws ->
  feasible_b (map valueof items) k copies ws ex asg = true ->
  let s := sums (decode valueof keep k items ws asg) in
  (forall j : nat, (S j < k)%nat -> nth j s 0 * nth (S j) ws 1 <= nth (S j) s 0 * nth j ws 1) /\
  (forall i j : nat,
  (i <= j)%nat -> (j < k)%nat -> nth i s 0 * nth j ws 1 <= nth j s 0 * nth i ws 1).
Proof. exact @decode_weighted_ascending. Qed.
Print Assumptions C17_decode_weighted_ascending.

(** equal weights: the returned sums are ascending *)
Theorem C17_decode_equal_weights_sorted :
  forall (A : Type) (valueof : A -> Z) (keep : bool) (items : list A)
  (k : nat) (ws asg : list Z),
  all_equal ws = true ->
  Sorted.StronglySorted Z.le (sums (decode valueof keep k items ws asg)).
Proof. exact @decode_equal_weights_sorted. Qed.
Print Assumptions C17_decode_equal_weights_sorted.

(** unequal weights: the i-th returned bin is the one whose sum is divided by the i-th weight *)
Theorem C17_decode_keeps_weight_positions :
  forall (A : Type) (valueof : A -> Z) (keep : bool) (items : list A)
  (k : nat) (copies ws : list Z) (ex : list extra) (asg : list Z),
  ilp_pre k ws ->
  (all_equal ws = false ->
  decode valueof keep k items ws asg = decode_raw valueof keep k items asg) /\
  (feasible_b (map valueof items) k copies ws ex asg = true ->
  forall j : nat,
  (j < k)%nat ->
  QArith_base.Qeq (Qv asg (bin_sum_expr (map valueof items) ws k j))
  (toQ (nth j (sums (decode valueof keep k items ws asg)) 0, nth j ws 1))).
Proof. exact @decode_keeps_weight_positions. Qed.
Print Assumptions C17_decode_keeps_weight_positions.

Theorem C17_objective_agrees :
  forall (A : Type) (valueof : A -> Z) (keep : bool) (items : list A)
  (k : nat) (copies : list Z) (c : Z) (ex : list extra) (o : objective)
  (asg : list Z),
  0 < c ->
  (1 <= k)%nat ->
  feasible_b (map valueof items) k copies (repeat c k) ex asg = true ->
  let ov := objective_value (map valueof items) k (repeat c k) o asg in
  0 < snd ov /\
  fst ov * c = value o (sums (decode valueof keep k items (repeat c k) asg)) false * snd ov.
Proof. exact @objective_agrees. Qed.
Print Assumptions C17_objective_agrees.

Theorem C17_objective_agrees_weighted :
  forall (A : Type) (valueof : A -> Z) (keep : bool) (items : list A)
  (k : nat) (copies ws : list Z) (ex : list extra) (o : objective)
  (asg : list Z),
  ilp_pre k ws ->
  feasible_b (map valueof items) k copies ws ex asg = true ->
  QArith_base.Qeq (toQ (objective_value (map valueof items) k ws o asg))
  (qvalue o (map toQ (combine (sums (decode valueof keep k items ws asg)) ws))).
Proof. exact @objective_agrees_weighted. Qed.
Print Assumptions C17_objective_agrees_weighted.

(** every additional constraint holds for the returned bins *)
Theorem C17_extras_hold :
  forall (A : Type) (valueof : A -> Z) (keep : bool) (items : list A)
  (k : nat) (copies ws : list Z) (ex : list extra) (asg : list Z),
  ilp_pre k ws ->
  feasible_b (map valueof items) k copies ws ex asg = true ->
  Forall (extra_ok ws (sums (decode valueof keep k items ws asg))) ex.
Proof. exact @extras_hold. Qed.
Print Assumptions C17_extras_hold.

Theorem C17_feasible_complete :
  forall (vs : list Z) (k : nat) (copies ws : list Z) (ex : list extra) (b : bins nat),
  ilp_pre k ws ->
  arrangement vs k copies ws ex b ->
  let asg := encode (length vs) b in
  feasible_b vs k copies ws ex asg = true /\
  (forall (A : Type) (valueof : A -> Z) (keep : bool) (items : list A),
  map valueof items = vs -> sums (decode valueof keep k items ws asg) = sums b) /\
  (forall o : objective,
  QArith_base.Qeq (toQ (objective_value vs k ws o asg))
  (qvalue o (map toQ (combine (sums b) ws)))).
Proof. exact @feasible_complete. Qed.
Print Assumptions C17_feasible_complete.

Theorem C17_ilp_optimal_weighted :
  forall solve : nat * linexpr * list constr -> option (list Z),
  solver_spec solve ->
  forall (A : Type) (valueof : A -> Z) (keep : bool) (items : list A)
  (k : nat) (copies ws : list Z) (ex : list extra) (o : objective)
  (asg : list Z),
  ilp_pre k ws ->
  solve (formulate (map valueof items) k copies ws o ex) = Some asg ->
  feasible_b (map valueof items) k copies ws ex asg = true /\
  (forall b' : bins nat,
  arrangement (map valueof items) k copies ws ex b' ->
  QArith_base.Qle
  (qvalue o (map toQ (combine (sums (decode valueof keep k items ws asg)) ws)))
  (qvalue o (map toQ (combine (sums b') ws)))).
Proof. exact @ilp_optimal_weighted. Qed.
Print Assumptions C17_ilp_optimal_weighted.

Theorem C17_ilp_optimal :
  forall solve : nat * linexpr * list constr -> option (list Z),
  solver_spec solve ->
  forall (A : Type) (valueof : A -> Z) (items : list A) (k : nat)
  (o : objective) (asg : list Z),
  (1 <= k)%nat ->
  solve (formulate (map valueof items) k (repeat 1 (length items)) (repeat 1 k) o []) =
  Some asg ->
  let b := decode valueof true k items (repeat 1 k) asg in
  is_partition valueof k items b /\
  Sorted.StronglySorted Z.le (sums b) /\ Opt o k (map valueof items) (value o (sums b) false).
Proof. exact @ilp_optimal. Qed.
Print Assumptions C17_ilp_optimal.

Theorem C17_ilp_returns_optimal :
  forall solve : nat * linexpr * list constr -> option (list Z),
  solver_spec solve ->
  forall (A : Type) (valueof : A -> Z) (items : list A) (k : nat) (o : objective) (b : bins A),
  ilp valueof true
  (solve (formulate (map valueof items) k (repeat 1 (length items)) (repeat 1 k) o [])) o k
  items (repeat 1 (length items)) (repeat 1 k) = Ok b ->
  (1 <= k)%nat ->
  is_partition valueof k items b /\
  Sorted.StronglySorted Z.le (sums b) /\ Opt o k (map valueof items) (value o (sums b) false).
Proof. exact @ilp_returns_optimal. Qed.
Print Assumptions C17_ilp_returns_optimal.

Theorem C17_non_optimal_raises :
  forall (A : Type) (valueof : A -> Z) (keep : bool) (k : nat) (items : list A)
  (ws asg : list Z), ilp_result valueof keep false k items ws asg = Err ValueError.
Proof. exact @non_optimal_raises. Qed.
Print Assumptions C17_non_optimal_raises.

Theorem C17_non_optimal_raises_ilp :
  forall (A : Type) (valueof : A -> Z) (keep : bool) (o : objective)
  (k : nat) (items : list A) (copies ws : list Z),
  (exists e : err, ilp valueof keep None o k items copies ws = Err e) /\
  (ilp_precheck k (length items) copies ws o = None ->
  ilp valueof keep None o k items copies ws = Err ValueError).
Proof. exact @non_optimal_raises_ilp. Qed.
Print Assumptions C17_non_optimal_raises_ilp.

Theorem C17_equal_weights_noop :
  forall (vs : list Z) (k : nat) (copies : list Z) (c : Z) (o : objective) (ex : list extra),
  0 < c ->
  (1 <= k)%nat ->
  (forall asg : list Z,
  feasible_b vs k copies (repeat c k) ex asg =
  feasible_b vs k copies (repeat 1 k) (map (scale_extra c) ex) asg) /\
  (forall a1 a2 : list Z,
  rleb (objective_value vs k (repeat c k) o a1) (objective_value vs k (repeat c k) o a2) =
  rleb (objective_value vs k (repeat 1 k) o a1) (objective_value vs k (repeat 1 k) o a2)) /\
  (forall (A : Type) (valueof : A -> Z) (keep : bool) (items : list A) (asg : list Z),
  decode valueof keep k items (repeat c k) asg = decode valueof keep k items (repeat 1 k) asg).
Proof. exact @equal_weights_noop. Qed.
Print Assumptions C17_equal_weights_noop.

