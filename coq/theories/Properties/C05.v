(** C05 - Bin-covering results are valid covers that waste less than one bin.
    Statements only; proofs in Proofs/CoveringProofs.v. *)
From Prtpy Require Import Base.Prelude Model.Binner Model.Covering Spec.Partition Proofs.CoveringProofs Oracle.Checkers Proofs.CheckersSpec.

(** decreasing: every bin reaches the bin size, items used at most once, the unused items total less than one bin *)
Theorem C05_dec_cover : forall (A : Type) (valueof : A -> Z) (C : Z) (items : list A),
  0 < C -> Forall (fun x : A => 0 < valueof x) items ->
  exists rest : list A, is_cover valueof C items (cover_decreasing valueof true C items) rest /\ zsum (map valueof rest) < C.
Proof. exact @dec_cover. Qed.
Print Assumptions C05_dec_cover.

(** two-thirds: every bin reaches the bin size, items used at most once, the unused items total less than one bin *)
Theorem C05_tt_cover : forall (A : Type) (valueof : A -> Z) (C : Z) (items : list A),
  0 < C -> Forall (fun x : A => 0 < valueof x) items ->
  exists rest : list A, is_cover valueof C items (cover_twothirds valueof true C items) rest /\ zsum (map valueof rest) < C.
Proof. exact @tt_cover. Qed.
Print Assumptions C05_tt_cover.

(** three-quarters: every bin reaches the bin size, items used at most once, the unused items total less than one bin *)
Theorem C05_tq_cover : forall (A : Type) (valueof : A -> Z) (C : Z) (items : list A),
  0 < C -> Forall (fun x : A => 0 < valueof x) items ->
  exists rest : list A, is_cover valueof C items (cover_threequarters valueof true C items) rest /\ zsum (map valueof rest) < C.
Proof. exact @tq_cover. Qed.
Print Assumptions C05_tq_cover.

(** the boolean checker that judges the IMPLEMENTATION's covers (extracted) answers Some r exactly when the bins are a cover in the sense of
    the specification and the unused items total r *)
Theorem C05_checker_is_cover : forall (C : Z) (items : list citem) (b : bins citem) (r : Z),
  names_det (contents b ++ items) ->
  is_cover_b C items b = Some r <-> (exists rest : list citem, is_cover cval C items b rest /\ zsum (map cval rest) = r).
Proof. exact is_cover_b_iff. Qed.
Print Assumptions C05_checker_is_cover.
