(** C05 - Bin-covering results are valid covers that waste less than one bin.
    Statements only; proofs in Proofs/CoveringProofs.v. *)
From Prtpy Require Import Base.Prelude Model.Binner Model.Covering Spec.Partition Proofs.CoveringProofs.

(** decreasing: every bin reaches the bin size, items used at most once, the unused items total less than one bin *)
Theorem C05_dec_cover : forall (A : Type) (valueof : A -> Z) (C : Z) (items : list A),
  0 < C -> Forall (fun x : A => 0 < valueof x) items ->
  exists rest : list A, is_cover valueof C items (cover_decreasing valueof true C items) rest /\ zsum (map valueof rest) < C.
Proof. exact @dec_cover. Qed.
Print Assumptions C05_dec_cover.

(** two-thirds: every bin reaches the bin size, items used at most once, the unused items total less than one bin *)
Theorem C05_tt_cover : forall (A : Type) (valueof : A -> Z) (C : Z) (items : list A),
  0 < C -> Forall (fun x : A => 0 < valueof x) items ->
  exists rest : list A, is_cover valueof C items (cover_twothirds valueof true C items) rest /\ zsum (map valueof rest) < C.
Proof. exact @tt_cover. Qed.
Print Assumptions C05_tt_cover.

(** three-quarters: every bin reaches the bin size, items used at most once, the unused items total less than one bin *)
Theorem C05_tq_cover : forall (A : Type) (valueof : A -> Z) (C : Z) (items : list A),
  0 < C -> Forall (fun x : A => 0 < valueof x) items ->
  exists rest : list A, is_cover valueof C items (cover_threequarters valueof true C items) rest /\ zsum (map valueof rest) < C.
Proof. exact @tq_cover. Qed.
Print Assumptions C05_tq_cover.

