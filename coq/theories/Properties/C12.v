(** C12 - Balanced 2-way partitioning obeys the cardinality bound and is optimal under it.
    OptBalanced d vs v: v is the smallest |sum difference| over all 2-way splits whose item counts differ by at most d.
    The default bound is sys.maxsize (any d >= number of items gives the unconstrained optimum: cbldm_unbounded).
    Statements only; proofs in Proofs/CBLDMProofs.v, Proofs/OracleSpec.v. *)
From Prtpy Require Import Base.Prelude Model.Binner Model.Objectives Model.CBLDM Spec.Partition Oracle.Reach Proofs.CBLDMProofs Proofs.OracleSpec.

(** a partition into two bins, cardinality difference within the bound, smallest sum difference among all splits obeying the bound *)
Theorem C12_cbldm_optimal :
  forall (A : Type) (valueof : A -> Z) (items : list A) (d : Z),
  Forall (fun x : A => 0 <= valueof x) items ->
  items <> [] ->
  1 <= d ->
  exists (b : bins A) (t : nat),
  cbldm valueof 2 items true d true None = Ok (CbBins b, t) /\
  is_partition valueof 2 items b /\
  len_diff b <= d /\ OptBalanced d (map valueof items) (sum_diff b).
Proof. exact @cbldm_optimal. Qed.
Print Assumptions C12_cbldm_optimal.

Theorem C12_cbldm_safe :
  forall (A : Type) (valueof : A -> Z) (items : list A) (d : Z) (limit : option nat)
  (out : cbldm_out A) (t : nat),
  Forall (fun x : A => 0 <= valueof x) items ->
  items <> [] ->
  1 <= d ->
  cbldm valueof 2 items true d true limit = Ok (out, t) ->
  out = CbPlaceholder \/
  (exists b : bins A, out = CbBins b /\ is_partition valueof 2 items b /\ len_diff b <= d).
Proof. exact @cbldm_safe. Qed.
Print Assumptions C12_cbldm_safe.

(** never the placeholder when run without time limit *)
Theorem C12_cbldm_total :
  forall (A : Type) (valueof : A -> Z) (items : list A) (d : Z),
  Forall (fun x : A => 0 <= valueof x) items ->
  items <> [] ->
  1 <= d ->
  exists (b : bins A) (t : nat), cbldm valueof 2 items true d true None = Ok (CbBins b, t).
Proof. exact @cbldm_total. Qed.
Print Assumptions C12_cbldm_total.

(** the yardstick: opt_balanced2 is the true optimum under the bound *)
Theorem C12_opt_balanced2_oracle :
  forall (d : Z) (vs : list Z),
  1 <= d -> vs <> [] -> exists v : Z, opt_balanced2 d vs = Some v /\ OptBalanced d vs v.
Proof. exact @opt_balanced2_spec. Qed.
Print Assumptions C12_opt_balanced2_oracle.

