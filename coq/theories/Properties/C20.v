(** C20 - Built-in objectives compute their documented quantity on every sum vector.
    Statements only; proofs are in Proofs/ObjectivesProofs.v. *)
From Prtpy Require Import Base.Prelude Model.Objectives Proofs.ObjectivesProofs.
From Coq Require Import Sorting.Sorted.

(** sums given in any order: the value depends only on the multiset of sums *)
Theorem C20_value_any_order : forall o s1 s2, Permutation s1 s2 -> value o s1 false = value o s2 false.
Proof. exact value_perm. Qed.
Print Assumptions C20_value_any_order.

(** the fast path for sums declared sorted returns the same value whenever they really are sorted *)
Theorem C20_sorted_fast_path : forall o s, s <> [] -> StronglySorted Z.le s -> value o s true = value o s false.
Proof. exact value_sorted_flag. Qed.
Print Assumptions C20_sorted_fast_path.

(** minus the smallest sum *)
Theorem C20_max_smallest : forall s, s <> [] ->
  In (- value MaxSmallest s false) s /\ Forall (fun x => - value MaxSmallest s false <= x) s.
Proof. exact value_MaxSmallest_spec. Qed.
Print Assumptions C20_max_smallest.

(** the largest sum *)
Theorem C20_min_largest : forall s, s <> [] ->
  In (value MinLargest s false) s /\ Forall (fun x => x <= value MinLargest s false) s.
Proof. exact value_MinLargest_spec. Qed.
Print Assumptions C20_min_largest.

(** largest minus smallest *)
Theorem C20_min_diff : forall s, s <> [] ->
  value MinDiff s false = value MinLargest s false + value MaxSmallest s false.
Proof. exact value_MinDiff_spec. Qed.
Print Assumptions C20_min_diff.

(** minus the total of the k smallest (k may exceed the number of bins) *)
Theorem C20_k_smallest : forall k s l, Permutation l s -> StronglySorted Z.le l ->
  value (MaxKSmallest k) s false = - zsum (firstn k l).
Proof. exact value_MaxKSmallest_spec. Qed.
Print Assumptions C20_k_smallest.

(** the total of the k largest, k >= 1 (k may exceed the number of bins) *)
Theorem C20_k_largest : forall k s l, (1 <= k)%nat -> Permutation l s -> StronglySorted Z.le l ->
  value (MinKLargest k) s false = zsum (skipn (length l - k) l).
Proof. exact value_MinKLargest_spec. Qed.
Print Assumptions C20_k_largest.

(** the weighted objective refuses the sorted fast path ... *)
Theorem C20_weighted_refuses_sorted : forall ws s, value_weighted ws s true = Err ValueError.
Proof. exact value_weighted_sorted_refused. Qed.
Print Assumptions C20_weighted_refuses_sorted.

(** ... and otherwise returns (as the exact fraction n/d) the smallest weight-normalised sum *)
Theorem C20_weighted_min : forall ws s n d, Forall (fun w => 0 < w) ws -> value_weighted ws s false = Ok (n, d) ->
  In (n, d) (combine s ws) /\ 0 < d /\ Forall (fun p => n * snd p <= fst p * d) (combine s ws).
Proof. exact value_weighted_spec. Qed.
Print Assumptions C20_weighted_min.
