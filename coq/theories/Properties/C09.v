(** C09 - Fit heuristics keep the any-fit invariant (and the bin-count bound that follows from it).
    The sharp bounds floor(1.7 OPT), 11/9 OPT + 6/9, 11/9 OPT + 4 are NOT proved (DESIGN section 8): they are
    tested against the verified min_bins oracle; what is proved is the invariant, length <= 2 OPT - 1, 3/2 OPT for the
    decreasing variants and, for first-fit and best-fit, the weight-function bound 10 * bins <= 17 * OPT + 2 (the property's floor(1.7 OPT) of
    Dosa and Sgall differs from it by at most one bin), and floor(1.7 OPT) itself for every OPT not congruent to 4, 7 mod 10 (first-fit: also OPT <= 6).
    Statements only; proofs in Proofs/PackingProofs.v and Proofs/OracleSpec.v. *)
From Prtpy Require Import Base.Prelude Model.Binner Model.Packing Spec.Partition Oracle.Reach Proofs.PackingProofs Proofs.OracleSpec Proofs.FFDRatioProofs Proofs.BFDRatioProofs Proofs.FF17Proofs Proofs.BF17Proofs Proofs.FF17SharpProofs Proofs.FF17FloorProofs Proofs.FF17PureProofs Proofs.FFD119Proofs Proofs.FFD119MidProofs Proofs.BFD54Proofs Proofs.BFD119MidProofs Oracle.Checkers Proofs.CheckersSpec.

(** first-fit: for any two bins, the earlier sum plus the first item of the later bin exceeds the bin size *)
Theorem C09_ff_anyfit : forall (A : Type) (valueof : A -> Z) (C : Z) (items : list A) (b : bins A),
  Forall (fun x : A => 0 <= valueof x) items -> items <> [] ->
  first_fit valueof true C items = Ok b -> anyfit valueof C b.
Proof. exact @ff_anyfit. Qed.
Print Assumptions C09_ff_anyfit.

(** first-fit: fewer than twice the bins of ANY feasible packing (weak consequence of any-fit) *)
Theorem C09_ff_lt_2opt : forall (A : Type) (valueof : A -> Z) (C : Z) (items : list A) (b : bins A) (n : nat),
  items <> [] -> Forall (fun x : A => 0 <= valueof x) items ->
  first_fit valueof true C items = Ok b -> Packable C (map valueof items) n -> (length b <= 2 * n - 1)%nat.
Proof. exact @ff_lt_2n. Qed.
Print Assumptions C09_ff_lt_2opt.

(** first-fit-decreasing: for any two bins, the earlier sum plus the first item of the later bin exceeds the bin size *)
Theorem C09_ffd_anyfit : forall (A : Type) (valueof : A -> Z) (C : Z) (items : list A) (b : bins A),
  Forall (fun x : A => 0 <= valueof x) items -> items <> [] ->
  first_fit_decreasing valueof true C items = Ok b -> anyfit valueof C b.
Proof. exact @ffd_anyfit. Qed.
Print Assumptions C09_ffd_anyfit.

(** first-fit-decreasing: fewer than twice the bins of ANY feasible packing (weak consequence of any-fit) *)
Theorem C09_ffd_lt_2opt : forall (A : Type) (valueof : A -> Z) (C : Z) (items : list A) (b : bins A) (n : nat),
  items <> [] -> Forall (fun x : A => 0 <= valueof x) items ->
  first_fit_decreasing valueof true C items = Ok b -> Packable C (map valueof items) n -> (length b <= 2 * n - 1)%nat.
Proof. exact @ffd_lt_2n. Qed.
Print Assumptions C09_ffd_lt_2opt.

(** best-fit: for any two bins, the earlier sum plus the first item of the later bin exceeds the bin size *)
Theorem C09_bf_anyfit : forall (A : Type) (valueof : A -> Z) (C : Z) (items : list A) (b : bins A),
  Forall (fun x : A => 0 <= valueof x) items -> items <> [] ->
  best_fit valueof true C items = Ok b -> anyfit valueof C b.
Proof. exact @bf_anyfit. Qed.
Print Assumptions C09_bf_anyfit.

(** best-fit: fewer than twice the bins of ANY feasible packing (weak consequence of any-fit) *)
Theorem C09_bf_lt_2opt : forall (A : Type) (valueof : A -> Z) (C : Z) (items : list A) (b : bins A) (n : nat),
  items <> [] -> Forall (fun x : A => 0 <= valueof x) items ->
  best_fit valueof true C items = Ok b -> Packable C (map valueof items) n -> (length b <= 2 * n - 1)%nat.
Proof. exact @bf_lt_2n. Qed.
Print Assumptions C09_bf_lt_2opt.

(** best-fit-decreasing: for any two bins, the earlier sum plus the first item of the later bin exceeds the bin size *)
Theorem C09_bfd_anyfit : forall (A : Type) (valueof : A -> Z) (C : Z) (items : list A) (b : bins A),
  Forall (fun x : A => 0 <= valueof x) items -> items <> [] ->
  best_fit_decreasing valueof true C items = Ok b -> anyfit valueof C b.
Proof. exact @bfd_anyfit. Qed.
Print Assumptions C09_bfd_anyfit.

(** best-fit-decreasing: fewer than twice the bins of ANY feasible packing (weak consequence of any-fit) *)
Theorem C09_bfd_lt_2opt : forall (A : Type) (valueof : A -> Z) (C : Z) (items : list A) (b : bins A) (n : nat),
  items <> [] -> Forall (fun x : A => 0 <= valueof x) items ->
  best_fit_decreasing valueof true C items = Ok b -> Packable C (map valueof items) n -> (length b <= 2 * n - 1)%nat.
Proof. exact @bfd_lt_2n. Qed.
Print Assumptions C09_bfd_lt_2opt.

(** the yardstick used for the sharp bounds: min_bins is the true optimum *)
Theorem C09_min_bins_oracle : forall C vs, 0 < C -> Forall (fun v => 0 <= v <= C) vs ->
  MinBins C (filter (fun v => negb (v =? 0)) vs) (min_bins C vs).
Proof. exact min_bins_spec. Qed.
Print Assumptions C09_min_bins_oracle.

(** first-fit-decreasing: at most 3/2 OPT bins (proved; the sharp 11/9 OPT + 6/9 is tested only) *)
Theorem C09_ffd_ratio_32 : forall (A : Type) (valueof : A -> Z) (C : Z) (items : list A) (b : bins A) (n : nat),
  items <> [] -> Forall (fun x : A => 0 <= valueof x) items ->
  first_fit_decreasing valueof true C items = Ok b -> MinBins C (map valueof items) n -> (2 * length b <= 3 * n)%nat.
Proof. exact @ffd_ratio_32_strong_opt. Qed.
Print Assumptions C09_ffd_ratio_32.

(** best-fit-decreasing: at most 3/2 OPT bins (proved; the sharp 11/9 OPT + 4 is tested only) *)
Theorem C09_bfd_ratio_32 : forall (A : Type) (valueof : A -> Z) (C : Z) (items : list A) (b : bins A) (n : nat),
  items <> [] -> Forall (fun x : A => 0 <= valueof x) items ->
  best_fit_decreasing valueof true C items = Ok b -> MinBins C (map valueof items) n -> (2 * length b <= 3 * n)%nat.
Proof. exact @bfd_ratio_32_opt. Qed.
Print Assumptions C09_bfd_ratio_32.

(** first-fit: at most 1.7 OPT + 0.2 bins (refined weight-function proof; PARTIAL with respect to floor(1.7 OPT): off by at most
    one bin, and exact for the OPT values of C09_ff_ratio_17_floor_partial below) *)
Theorem C09_ff_ratio_17_partial : forall (A : Type) (valueof : A -> Z) (C : Z) (items : list A) (b : bins A) (n : nat),
  items <> [] -> Forall (fun x : A => 0 <= valueof x) items ->
  first_fit valueof true C items = Ok b -> Packable C (map valueof items) n -> (10 * length b <= 17 * n + 2)%nat.
Proof. exact @ff_ratio_17_2_uncond_partial. Qed.
Print Assumptions C09_ff_ratio_17_partial.

(** best-fit: at most 1.7 OPT + 0.2 bins (same weights; PARTIAL with respect to floor(1.7 OPT): off by at most one bin) *)
Theorem C09_bf_ratio_17_partial : forall (A : Type) (valueof : A -> Z) (C : Z) (items : list A) (b : bins A) (n : nat),
  items <> [] -> Forall (fun x : A => 0 <= valueof x) items ->
  best_fit valueof true C items = Ok b -> Packable C (map valueof items) n -> (10 * length b <= 17 * n + 2)%nat.
Proof. exact @bf_ratio_17_2_uncond_partial. Qed.
Print Assumptions C09_bf_ratio_17_partial.

(** first-fit-decreasing: at most 5/4 OPT + 1 bins for every input (PARTIAL with respect to 11/9 OPT + 6/9) *)
Theorem C09_ffd_ratio_54_partial : forall (A : Type) (valueof : A -> Z) (C : Z) (items : list A) (b : bins A) (n : nat),
  items <> [] -> Forall (fun x : A => 0 <= valueof x) items ->
  first_fit_decreasing valueof true C items = Ok b -> Packable C (map valueof items) n -> (4 * length b <= 5 * n + 4)%nat.
Proof. exact @ffd_ratio_54_partial. Qed.
Print Assumptions C09_ffd_ratio_54_partial.

(** first-fit-decreasing: 11/9 OPT + 8/9 when no value lies in (2C/11, C/4] (PARTIAL: the remaining size range is open) *)
Theorem C09_ffd_ratio_11_9_partial : forall (A : Type) (valueof : A -> Z) (C : Z) (items : list A) (b : bins A) (n : nat),
  items <> [] -> Forall (fun x : A => 0 <= valueof x) items ->
  Forall (fun x : A => 11 * valueof x <= 2 * C \/ C < 4 * valueof x) items ->
  first_fit_decreasing valueof true C items = Ok b -> Packable C (map valueof items) n -> (9 * length b <= 11 * n + 8)%nat.
Proof. exact @ffd_ratio_11_9_partial. Qed.
Print Assumptions C09_ffd_ratio_11_9_partial.

(** best-fit-decreasing: at most 5/4 OPT + 1 bins for every input (PARTIAL with respect to 11/9 OPT + 4: better for OPT <= 108, weaker beyond) *)
Theorem C09_bfd_ratio_54_partial : forall (A : Type) (valueof : A -> Z) (C : Z) (items : list A) (b : bins A) (n : nat),
  items <> [] -> Forall (fun x : A => 0 <= valueof x) items ->
  best_fit_decreasing valueof true C items = Ok b -> Packable C (map valueof items) n -> (4 * length b <= 5 * n + 4)%nat.
Proof. exact @bfd_ratio_54_partial. Qed.
Print Assumptions C09_bfd_ratio_54_partial.

(** best-fit-decreasing: 11/9 OPT + 8/9 (stronger than the property's + 4) when no value lies in (2C/11, C/4] (PARTIAL) *)
Theorem C09_bfd_ratio_11_9_partial : forall (A : Type) (valueof : A -> Z) (C : Z) (items : list A) (b : bins A) (n : nat),
  items <> [] -> Forall (fun x : A => 0 <= valueof x) items ->
  Forall (fun x : A => 11 * valueof x <= 2 * C \/ C < 4 * valueof x) items ->
  best_fit_decreasing valueof true C items = Ok b -> Packable C (map valueof items) n -> (9 * length b <= 11 * n + 8)%nat.
Proof. exact @bfd_ratio_11_9_partial. Qed.
Print Assumptions C09_bfd_ratio_11_9_partial.

(** first-fit: the property's floor(1.7 OPT) itself, for every OPT not congruent to 4 or 7 mod 10 (PARTIAL: those two residues are open) *)
Theorem C09_ff_ratio_17_floor_partial : forall (A : Type) (valueof : A -> Z) (C : Z) (items : list A) (b : bins A) (n : nat),
  items <> [] -> Forall (fun x : A => 0 <= valueof x) items ->
  first_fit valueof true C items = Ok b -> MinBins C (map valueof items) n ->
  (exists k r : nat, n = (10 * k + r)%nat /\ (r < 10)%nat /\ r <> 4%nat /\ r <> 7%nat) ->
  (10 * length b <= 17 * n)%nat.
Proof. exact @ff_ratio_17_floor_rung2_partial. Qed.
Print Assumptions C09_ff_ratio_17_floor_partial.

(** first-fit: floor(1.7 OPT) for every OPT <= 6 (and 9, 10, 13) *)
Theorem C09_ff_ratio_17_floor_small_partial : forall (A : Type) (valueof : A -> Z) (C : Z) (items : list A) (b : bins A) (n : nat),
  items <> [] -> Forall (fun x : A => 0 <= valueof x) items ->
  first_fit valueof true C items = Ok b -> MinBins C (map valueof items) n ->
  (n <= 6)%nat \/ n = 9%nat \/ n = 10%nat \/ n = 13%nat ->
  (10 * length b <= 17 * n)%nat.
Proof. exact @ff_ratio_17_floor_small_partial. Qed.
Print Assumptions C09_ff_ratio_17_floor_small_partial.

(** best-fit: floor(1.7 OPT) for every OPT not congruent to 4 or 7 mod 10 (PARTIAL) *)
Theorem C09_bf_ratio_17_floor_partial : forall (A : Type) (valueof : A -> Z) (C : Z) (items : list A) (b : bins A) (n : nat),
  items <> [] -> Forall (fun x : A => 0 <= valueof x) items ->
  best_fit valueof true C items = Ok b -> MinBins C (map valueof items) n ->
  (exists k r : nat, n = (10 * k + r)%nat /\ (r < 10)%nat /\ r <> 4%nat /\ r <> 7%nat) ->
  (10 * length b <= 17 * n)%nat.
Proof. exact @bf_ratio_17_floor_rung2_partial. Qed.
Print Assumptions C09_bf_ratio_17_floor_partial.

(** first-fit-decreasing: 11/9 OPT + 16/9 when no value lies in the sliver (8C/41, C/5] (PARTIAL: that sliver - under 0.5% of the bin size - is open;
    the property's additive constant is 6/9) *)
Theorem C09_ffd_ratio_11_9_wide_partial : forall (A : Type) (valueof : A -> Z) (C : Z) (items : list A) (b : bins A) (n : nat),
  items <> [] -> Forall (fun x : A => 0 <= valueof x) items ->
  Forall (fun x : A => 41 * valueof x <= 8 * C \/ C < 5 * valueof x) items ->
  first_fit_decreasing valueof true C items = Ok b -> Packable C (map valueof items) n -> (9 * length b <= 11 * n + 16)%nat.
Proof. exact @ffd_ratio_11_9_partial2. Qed.
Print Assumptions C09_ffd_ratio_11_9_wide_partial.

(** best-fit-decreasing: the same bound, by a best-fit-specific invariant (FFD's "later values do not fit earlier bins" is false for best fit:
    Proofs/BFD119MidProofs.v bfd_mid_not_Later); PARTIAL in the same way: the sliver (8C/41, C/5] is open, the property's constant is 4 *)
Theorem C09_bfd_ratio_11_9_wide_partial : forall (A : Type) (valueof : A -> Z) (C : Z) (items : list A) (b : bins A) (n : nat),
  items <> [] -> Forall (fun x : A => 0 <= valueof x) items ->
  Forall (fun x : A => 41 * valueof x <= 8 * C \/ C < 5 * valueof x) items ->
  best_fit_decreasing valueof true C items = Ok b -> Packable C (map valueof items) n -> (9 * length b <= 11 * n + 16)%nat.
Proof. exact @bfd_ratio_11_9_partial2. Qed.
Print Assumptions C09_bfd_ratio_11_9_wide_partial.

(** the boolean checker that judges the any-fit invariant on the IMPLEMENTATION's packings (extracted) decides exactly the specification *)
Theorem C09_checker_anyfit : forall (C : Z) (b : bins citem), anyfit_b C b = true <-> anyfit cval C b.
Proof. exact anyfit_b_spec. Qed.
Print Assumptions C09_checker_anyfit.
