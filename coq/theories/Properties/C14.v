(** C14 - Simple heuristics compute exactly what their textbook definitions prescribe.
    The textbook rules are in Spec/Rules.v (relations where the text leaves freedom).  For every
    heuristic: (a) the model's output is a run of the rule, and (b) ANY run of the rule has the same
    multiset of bin sums (greedy, best-fit variants) / the same bins (where the rule leaves no freedom)
    as the model's output.  Values level (A = Z); named inputs reduce to values by the C07 theorems.
    Statements only; proofs in Proofs/RulesProofs.v. *)
From Prtpy Require Import Base.Prelude Model.Binner Model.Greedy Model.Packing Model.Covering Spec.Rules Proofs.RulesProofs.

(** greedy follows the LPT rule *)
Theorem C14_greedy_is_lpt : forall (k : nat) (vs : list Z), (1 <= k)%nat -> lpt_rule k vs (lists (greedy id true k vs)).
Proof. exact greedy_refines_lpt. Qed.
Print Assumptions C14_greedy_is_lpt.

(** ... and every LPT run (any tie-breaking) has the same multiset of sums *)
Theorem C14_greedy_matches_any_lpt : forall (k : nat) (vs : list Z) (b : vbins),
  (1 <= k)%nat -> lpt_rule k vs b -> Permutation (vsums b) (sums (greedy id true k vs)).
Proof. exact greedy_matches_any_lpt. Qed.
Print Assumptions C14_greedy_matches_any_lpt.

(** round-robin is cyclic dealing of the sorted items *)
Theorem C14_roundrobin_is_rr : forall (k : nat) (vs : list Z), (1 <= k)%nat -> rr_rule k vs (lists (roundrobin id true k vs)).
Proof. exact roundrobin_refines_rr. Qed.
Print Assumptions C14_roundrobin_is_rr.

Theorem C14_roundrobin_matches_any_rr : forall (k : nat) (vs : list Z) (b : vbins),
  (1 <= k)%nat -> rr_rule k vs b -> b = lists (roundrobin id true k vs).
Proof. exact roundrobin_matches_any_rr. Qed.
Print Assumptions C14_roundrobin_matches_any_rr.

(** first-fit *)
Theorem C14_ff_is_first_fit : forall (C : Z) (vs : list Z) (b : bins Z), vs <> [] -> first_fit id true C vs = Ok b -> ff_rule C vs (lists b).
Proof. exact ff_refines_rule_gen. Qed.
Print Assumptions C14_ff_is_first_fit.

Theorem C14_ff_matches_any : forall (C : Z) (vs : list Z) (b : bins Z) (b' : vbins),
  vs <> [] -> first_fit id true C vs = Ok b -> ff_rule C vs b' -> b' = lists b /\ vsums b' = sums b.
Proof. exact ff_matches_any_ff. Qed.
Print Assumptions C14_ff_matches_any.

(** first-fit-decreasing *)
Theorem C14_ffd_is_first_fit_decreasing : forall (C : Z) (vs : list Z) (b : bins Z),
  vs <> [] -> first_fit_decreasing id true C vs = Ok b -> ffd_rule C vs (lists b).
Proof. exact ffd_refines_rule_gen. Qed.
Print Assumptions C14_ffd_is_first_fit_decreasing.

Theorem C14_ffd_matches_any : forall (C : Z) (vs : list Z) (b : bins Z) (b' : vbins),
  vs <> [] -> first_fit_decreasing id true C vs = Ok b -> ffd_rule C vs b' -> b' = lists b /\ vsums b' = sums b.
Proof. exact ffd_matches_any_ffd. Qed.
Print Assumptions C14_ffd_matches_any.

(** best-fit (fullest bin that still fits; ties free) *)
Theorem C14_bf_is_best_fit : forall (C : Z) (vs : list Z) (b : bins Z),
  vs <> [] -> Forall (fun v : Z => 0 <= v) vs -> best_fit id true C vs = Ok b -> bf_rule C vs (lists b).
Proof. exact bf_refines_rule_gen. Qed.
Print Assumptions C14_bf_is_best_fit.

Theorem C14_bf_matches_any : forall (C : Z) (vs : list Z) (b : bins Z) (b' : vbins),
  vs <> [] -> Forall (fun v : Z => 0 <= v) vs ->
  best_fit id true C vs = Ok b -> bf_rule C vs b' -> Permutation (vsums b') (sums b).
Proof. exact bf_matches_any_bf. Qed.
Print Assumptions C14_bf_matches_any.

(** best-fit-decreasing *)
Theorem C14_bfd_is_best_fit_decreasing : forall (C : Z) (vs : list Z) (b : bins Z),
  vs <> [] -> Forall (fun v : Z => 0 <= v) vs -> best_fit_decreasing id true C vs = Ok b -> bfd_rule C vs (lists b).
Proof. exact bfd_refines_rule_gen. Qed.
Print Assumptions C14_bfd_is_best_fit_decreasing.

Theorem C14_bfd_matches_any : forall (C : Z) (vs : list Z) (b : bins Z) (b' : vbins),
  vs <> [] -> Forall (fun v : Z => 0 <= v) vs ->
  best_fit_decreasing id true C vs = Ok b -> bfd_rule C vs b' -> Permutation (vsums b') (sums b).
Proof. exact bfd_matches_any_bfd. Qed.
Print Assumptions C14_bfd_matches_any.

(** decreasing cover = next-fit-decreasing cover *)
Theorem C14_decreasing_cover_is_nfd : forall (C : Z) (vs : list Z), nfd_cover_rule C vs (lists (cover_decreasing id true C vs)).
Proof. exact dec_refines_rule. Qed.
Print Assumptions C14_decreasing_cover_is_nfd.

Theorem C14_decreasing_cover_matches_any : forall (C : Z) (vs : list Z) (b : vbins), nfd_cover_rule C vs b -> b = lists (cover_decreasing id true C vs).
Proof. exact dec_matches_any_nfd. Qed.
Print Assumptions C14_decreasing_cover_matches_any.

(** two-thirds cover = bidirectional filling *)
Theorem C14_twothirds_is_bidirectional : forall (C : Z) (vs : list Z), twothirds_rule C vs (lists (cover_twothirds id true C vs)).
Proof. exact tt_refines_rule_gen. Qed.
Print Assumptions C14_twothirds_is_bidirectional.

Theorem C14_twothirds_matches_any : forall (C : Z) (vs : list Z) (b : vbins), twothirds_rule C vs b -> b = lists (cover_twothirds id true C vs).
Proof. exact tt_matches_any_twothirds. Qed.
Print Assumptions C14_twothirds_matches_any.

(** three-quarters cover = three-class filling with thresholds C/2 and C/3 *)
Theorem C14_threequarters_is_three_class : forall (C : Z) (vs : list Z), threequarters_rule C vs (lists (cover_threequarters id true C vs)).
Proof. exact tq_refines_rule_gen. Qed.
Print Assumptions C14_threequarters_is_three_class.

Theorem C14_threequarters_matches_any : forall (C : Z) (vs : list Z) (b : vbins),
  threequarters_rule C vs b -> b = lists (cover_threequarters id true C vs).
Proof. exact tq_matches_any_threequarters. Qed.
Print Assumptions C14_threequarters_matches_any.

