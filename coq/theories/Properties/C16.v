(** C16 - Bins-manager operations keep sums and contents consistent, copies independent.
    Model/BinnerHeap.v executes operation sequences on an object heap (numpy buffers, views, Python list objects with identity)
    exactly as CPython/numpy alias them; Spec/AbsBins.v is the documented effect on abstract bins-arrays, where an array handed
    to add_empty_bins / remove_bins / concatenate_bins dies.  heap_refines_pure: after ANY disciplined sequence of operations
    every live array shows exactly what the documented effects predict (so: each operation has its documented effect and no
    other live array changes; sums = totals of contents; sort is a stable permutation of sums and contents together into
    non-decreasing order; a copy is independent of its original both ways).  Statements only; proofs in Proofs/HeapProofs.v. *)
From Prtpy Require Import Base.Prelude Model.Binner Model.BinnerHeap Spec.AbsBins Proofs.HeapProofs Proofs.PurityProofs.

(** every live array shows exactly the documented result, for all disciplined operation sequences and both managers *)
Theorem C16_heap_refines_pure :
  forall (A : Type) (valueof : A -> Z) (ops : list op),
  disciplined_run valueof [] ops ->
  forall (h : nat) (k : bool) (b : bins A),
  plive (pure_run valueof ops) h = Some (k, b) -> abs (run valueof ops) h = Some b.
Proof. exact @heap_refines_pure. Qed.
Print Assumptions C16_heap_refines_pure.

(** the separation invariant (live arrays share no buffer range, no outer and no inner list) holds in every reachable state *)
Theorem C16_run_inv :
  forall (A : Type) (valueof : A -> Z) (ops : list op),
  disciplined_run valueof [] ops -> Inv (run valueof ops) (pure_run valueof ops).
Proof. exact @run_inv. Qed.
Print Assumptions C16_run_inv.

Theorem C16_handles_length :
  forall (A : Type) (valueof : A -> Z) (ops : list op),
  disciplined_run valueof [] ops ->
  length (handles (run valueof ops)) = length (pure_run valueof ops).
Proof. exact @run_handles_length. Qed.
Print Assumptions C16_handles_length.

(** in the documented effects every bin's sum is the total value of its recorded items *)
Theorem C16_pure_wf :
  forall (A : Type) (valueof : A -> Z) (ops : list op),
  disciplined_run valueof [] ops ->
  forall (h : nat) (b : bins A),
  plive (pure_run valueof ops) h = Some (true, b) -> wf valueof b.
Proof. exact @pure_run_wf. Qed.
Print Assumptions C16_pure_wf.

(** an operation changes only the arrays it names: every other live array is untouched *)
Theorem C16_pure_frame :
  forall (A : Type) (valueof : A -> Z) (st : pstate) (o : op) (h : nat) (e : bool * bins A),
  plive st h = Some e -> ~ In h (targets o) -> plive (pure_step valueof st o) h = Some e.
Proof. exact @pure_step_frame. Qed.
Print Assumptions C16_pure_frame.

(** copying yields an equal array, and the original is unchanged by the copy *)
Theorem C16_copy_independent :
  forall (A : Type) (valueof : A -> Z) (st : pstate) (h : nat) (e : bool * bins A),
  plive st h = Some e ->
  plive (pure_step valueof st (OpCopy h)) h = Some e /\
  plive (pure_step valueof st (OpCopy h)) (length st) = Some e /\ length st <> h.
Proof. exact @pure_copy_independent. Qed.
Print Assumptions C16_copy_independent.

(** sorting gives non-decreasing sums and permutes sums and contents together *)
Theorem C16_sort_sorted :
  forall (A : Type) (valueof : A -> Z) (st : pstate) (h : nat) (k : bool) (b : bins A),
  plive st h = Some (k, b) ->
  plive (pure_step valueof st (OpSort h)) h = Some (k, sort_bins b) /\
  Sorted.StronglySorted Z.le (sums (sort_bins b)) /\ Permutation (sort_bins b) b.
Proof. exact @pure_sort_sorted. Qed.
Print Assumptions C16_sort_sorted.

(** the same for every sequence that passes the boolean discipline test the harness evaluates (extracted): the test implies the discipline; combine may pair an array, even a bin, with itself *)
Theorem C16_heap_refines_pure_b :
  forall (A : Type) (valueof : A -> Z) (ops : list op),
  disciplined_run_b valueof [] ops = true ->
  forall (h : nat) (k : bool) (b : bins A),
  plive (pure_run valueof ops) h = Some (k, b) -> abs (run valueof ops) h = Some b.
Proof. exact @heap_refines_pure_b. Qed.
Print Assumptions C16_heap_refines_pure_b.

