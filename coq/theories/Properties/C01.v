(** C01 - Every partitioner returns a true partition into the requested number of bins.
    is_partition: every item exactly once (Permutation of the contents), exactly k bins, recorded sums are the totals.
    `X_total`: a run to completion (no time limit) never yields a missing result.
    snp/rnp: premise `nameof` injective = names determine items (plain numbers, or distinct names).
    rnp is proved for 1..5 bins, the range its source supports (6, 7, 10, ... bins: known finding rnp-float-index).
    multifit: its float capacity search is modelled bit-exactly (Model/Multifit.v, binary64 as dyadic rationals); it may return fewer bins, never more.
    ilp: the decoding of a solver answer is a partition (Properties/C17); judged per input here.
    Statements only; proofs in Proofs/{Greedy,KK,CG,DP,CBLDM,SNP}Proofs.v. *)
From Prtpy Require Import Base.Prelude Model.Binner Model.Objectives Model.Greedy Model.KK Model.CG Model.DP Model.CBLDM Model.SNP Spec.Partition Proofs.GreedyProofs Proofs.KKProofs Proofs.CGProofs Proofs.DPProofs Proofs.CBLDMProofs Proofs.SNPProofs Model.Multifit Proofs.MultifitProofs Proofs.RNPProofs Model.Balanced Proofs.BalancedProofs Oracle.Checkers Proofs.CheckersSpec.

(** greedy / LPT *)
Theorem C01_greedy_partition :
  forall (A : Type) (valueof : A -> Z) (k : nat) (items : list A),
  (1 <= k)%nat -> is_partition valueof k items (greedy valueof true k items).
Proof. exact @greedy_partition. Qed.
Print Assumptions C01_greedy_partition.

(** round-robin *)
Theorem C01_roundrobin_partition :
  forall (A : Type) (valueof : A -> Z) (k : nat) (items : list A),
  (1 <= k)%nat -> is_partition valueof k items (roundrobin valueof true k items).
Proof. exact @roundrobin_partition. Qed.
Print Assumptions C01_roundrobin_partition.

(** bidirectional balanced (ABCCBA) dealing, balanced.py *)
Theorem C01_bidirectional_balanced_partition :
  forall (A : Type) (valueof : A -> Z) (k : nat) (items : list A),
  (1 <= k)%nat -> is_partition valueof k items (bidirectional_balanced valueof true k items).
Proof. exact @bidirectional_balanced_partition. Qed.
Print Assumptions C01_bidirectional_balanced_partition.

(** Karmarkar-Karp *)
Theorem C01_kk_partition :
  forall (A : Type) (valueof : A -> Z) (k : nat) (items : list A),
  (1 <= k)%nat ->
  items <> [] ->
  exists b : bins A, kk valueof true k items = Ok b /\ is_partition valueof k items b.
Proof. exact @kk_partition. Qed.
Print Assumptions C01_kk_partition.

(** complete Karmarkar-Karp: returns a result, and it is a partition *)
Theorem C01_ckk_partition :
  forall (A : Type) (valueof nameof : A -> Z) (k : nat) (items : list A),
  (1 <= k)%nat ->
  items <> [] ->
  exists b : bins A, ckk valueof nameof true k items = Ok b /\ is_partition valueof k items b.
Proof. exact @ckk_partition. Qed.
Print Assumptions C01_ckk_partition.

(** complete greedy, every objective, every combination of the four pruning switches, every interruption point *)
Theorem C01_cg_partition :
  forall (A : Type) (valueof : A -> Z) (o : objective) (flags : cg_flags)
  (limit : option nat) (k : nat) (items : list A) (b : bins A),
  (1 <= k)%nat ->
  cg valueof true o flags limit k items = Some b -> is_partition valueof k items b.
Proof. exact @cg_safe. Qed.
Print Assumptions C01_cg_partition.

(** complete greedy run to completion never yields a missing result (zero-valued items included) *)
Theorem C01_cg_total :
  forall (A : Type) (valueof : A -> Z) (o : objective) (flags : cg_flags)
  (k : nat) (items : list A),
  (1 <= k)%nat -> exists b : bins A, cg valueof true o flags None k items = Some b.
Proof. exact @cg_total. Qed.
Print Assumptions C01_cg_total.

(** dynamic programming, every objective *)
Theorem C01_dp_partition :
  forall (A : Type) (valueof : A -> Z) (o : objective) (k : nat) (items : list A) (b : bins A),
  (1 <= k)%nat -> dp valueof true o k items = Ok b -> is_partition valueof k items b.
Proof. exact @dp_partition. Qed.
Print Assumptions C01_dp_partition.

Theorem C01_dp_total :
  forall (A : Type) (valueof : A -> Z) (o : objective) (k : nat) (items : list A),
  (1 <= k)%nat -> exists b : bins A, dp valueof true o k items = Ok b.
Proof. exact @dp_total. Qed.
Print Assumptions C01_dp_total.

(** CBLDM: a non-placeholder result is a two-bin partition obeying the cardinality bound *)
Theorem C01_cbldm_partition :
  forall (A : Type) (valueof : A -> Z) (k : nat) (items : list A)
  (tl : bool) (d : Z) (dint : bool) (limit : option nat) (out : cbldm_out A)
  (t : nat),
  cbldm valueof k items tl d dint limit = Ok (out, t) ->
  out = CbPlaceholder \/
  (exists b : bins A, out = CbBins b /\ is_partition valueof 2 items b /\ len_diff b <= d).
Proof. exact @cbldm_safe_gen. Qed.
Print Assumptions C01_cbldm_partition.

(** CBLDM without a time limit always returns a partition (never the placeholder) *)
Theorem C01_cbldm_total :
  forall (A : Type) (valueof : A -> Z) (items : list A) (d : Z),
  Forall (fun x : A => 0 <= valueof x) items ->
  items <> [] ->
  1 <= d ->
  exists (b : bins A) (t : nat), cbldm valueof 2 items true d true None = Ok (CbBins b, t).
Proof. exact @cbldm_total. Qed.
Print Assumptions C01_cbldm_total.

(** sequential number partitioning: returns a result, and it is a partition *)
Theorem C01_snp_partition :
  forall (A : Type) (valueof nameof : A -> Z),
  (forall x y : A, nameof x = nameof y -> x = y) ->
  forall (k : nat) (items : list A),
  (1 <= k)%nat ->
  items <> [] ->
  exists b : bins A, snp valueof nameof true k items = Ok b /\ is_partition valueof k items b.
Proof. exact @snp_partition. Qed.
Print Assumptions C01_snp_partition.

(** multifit: every item exactly once, recorded sums are the totals, no empty bin *)
Theorem C01_multifit_partition :
  forall (A : Type) (valueof : A -> Z) (it k : nat) (items : list A) (b : bins A),
  items <> [] ->
  Forall (fun x : A => 0 <= valueof x) items ->
  multifit valueof true it k items = Ok b ->
  Permutation (contents b) items /\ wf valueof b /\ all_nonempty b.
Proof. exact @multifit_partition. Qed.
Print Assumptions C01_multifit_partition.

(** multifit never returns more than the requested number of bins (values and numbins below 2^53) *)
Theorem C01_multifit_at_most_k :
  forall (A : Type) (valueof : A -> Z) (it k : nat) (items : list A) (b : bins A),
  items <> [] ->
  Forall (fun x : A => 0 <= valueof x) items ->
  (1 <= k)%nat ->
  zmax (map valueof items) <= 2 ^ 53 ->
  Z.of_nat k < 2 ^ 53 -> multifit valueof true it k items = Ok b -> (length b <= k)%nat.
Proof. exact @multifit_at_most_k. Qed.
Print Assumptions C01_multifit_at_most_k.

(** multifit always returns a result *)
Theorem C01_multifit_total :
  forall (A : Type) (valueof : A -> Z) (keep : bool) (it k : nat) (items : list A),
  items <> [] ->
  Forall (fun x : A => 0 <= valueof x) items ->
  (1 <= k)%nat ->
  zmax (map valueof items) <= 2 ^ 53 ->
  exists b : bins A, multifit valueof keep it k items = Ok b.
Proof. exact @multifit_total. Qed.
Print Assumptions C01_multifit_total.

(** recursive number partitioning, 1..5 bins (the range the source supports) *)
Theorem C01_rnp_partition :
  forall (A : Type) (valueof nameof : A -> Z),
  (forall x y : A, nameof x = nameof y -> x = y) ->
  forall (k : nat) (items : list A) (b : bins A),
  (1 <= k <= 5)%nat ->
  items <> [] -> rnp valueof nameof true k items = Ok b -> is_partition valueof k items b.
Proof. exact @rnp_partition_le5. Qed.
Print Assumptions C01_rnp_partition.

(** ... and it always returns a result there *)
Theorem C01_rnp_total :
  forall (A : Type) (valueof nameof : A -> Z),
  (forall x y : A, nameof x = nameof y -> x = y) ->
  forall (k : nat) (items : list A),
  (1 <= k <= 5)%nat ->
  items <> [] ->
  Forall (fun x : A => 0 <= valueof x) items ->
  exists b : bins A, rnp valueof nameof true k items = Ok b.
Proof. exact @rnp_total_le5. Qed.
Print Assumptions C01_rnp_total.

(** the boolean checker that judges the IMPLEMENTATION's partitions (extracted; items are (name, value) pairs in which a name determines the item) decides exactly the specification is_partition *)
Theorem C01_checker_is_partition :
  forall (k : nat) (items : list citem) (b : bins citem),
  names_det (contents b ++ items) ->
  is_partition_b k items b = true <-> is_partition cval k items b.
Proof. exact @is_partition_b_spec. Qed.
Print Assumptions C01_checker_is_partition.

