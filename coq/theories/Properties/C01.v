(** C01 - Every partitioner returns a true partition into the requested number of bins.
    is_partition: every item exactly once (Permutation of the contents), exactly k bins, recorded sums are the totals.
    `X_total`: a run to completion (no time limit) never yields a missing result.
    Statements only; proofs in Proofs/{Greedy,KK,CG,DP,CBLDM,SNP,Multifit,ILP}Proofs.v. *)
From Prtpy Require Import Base.Prelude Model.Binner Model.Objectives Model.Greedy Model.KK Model.CG Model.DP Model.CBLDM Spec.Partition Proofs.GreedyProofs Proofs.KKProofs Proofs.CGProofs Proofs.DPProofs Proofs.CBLDMProofs.

(** greedy / LPT *)
Theorem C01_greedy_partition :
  forall (A : Type) (valueof : A -> Z) (k : nat) (items : list A),
  (1 <= k)%nat -> is_partition valueof k items (greedy valueof true k items).
Proof. exact @greedy_partition. Qed.
Print Assumptions C01_greedy_partition.

(** round-robin *)
Theorem C01_roundrobin_partition :
  forall (A : Type) (valueof : A -> Z) (k : nat) (items : list A),
  (1 <= k)%nat -> is_partition valueof k items (roundrobin valueof true k items).
Proof. exact @roundrobin_partition. Qed.
Print Assumptions C01_roundrobin_partition.

(** Karmarkar-Karp *)
Theorem C01_kk_partition :
  forall (A : Type) (valueof : A -> Z) (k : nat) (items : list A),
  (1 <= k)%nat ->
  items <> [] ->
  exists b : bins A, kk valueof true k items = Ok b /\ is_partition valueof k items b.
Proof. exact @kk_partition. Qed.
Print Assumptions C01_kk_partition.

(** complete Karmarkar-Karp: returns a result, and it is a partition *)
Theorem C01_ckk_partition :
  forall (A : Type) (valueof nameof : A -> Z) (k : nat) (items : list A),
  (1 <= k)%nat ->
  items <> [] ->
  exists b : bins A, ckk valueof nameof true k items = Ok b /\ is_partition valueof k items b.
Proof. exact @ckk_partition. Qed.
Print Assumptions C01_ckk_partition.

(** complete greedy, every objective, every combination of the four pruning switches, every interruption point *)
Theorem C01_cg_partition :
  forall (A : Type) (valueof : A -> Z) (o : objective) (flags : cg_flags)
  (limit : option nat) (k : nat) (items : list A) (b : bins A),
  (1 <= k)%nat ->
  cg valueof true o flags limit k items = Some b -> is_partition valueof k items b.
Proof. exact @cg_safe. Qed.
Print Assumptions C01_cg_partition.

(** complete greedy run to completion never yields a missing result (zero-valued items included) *)
Theorem C01_cg_total :
  forall (A : Type) (valueof : A -> Z) (o : objective) (flags : cg_flags)
  (k : nat) (items : list A),
  (1 <= k)%nat -> exists b : bins A, cg valueof true o flags None k items = Some b.
Proof. exact @cg_total. Qed.
Print Assumptions C01_cg_total.

(** dynamic programming, every objective *)
Theorem C01_dp_partition :
  forall (A : Type) (valueof : A -> Z) (o : objective) (k : nat) (items : list A) (b : bins A),
  (1 <= k)%nat -> dp valueof true o k items = Ok b -> is_partition valueof k items b.
Proof. exact @dp_partition. Qed.
Print Assumptions C01_dp_partition.

Theorem C01_dp_total :
  forall (A : Type) (valueof : A -> Z) (o : objective) (k : nat) (items : list A),
  (1 <= k)%nat -> exists b : bins A, dp valueof true o k items = Ok b.
Proof. exact @dp_total. Qed.
Print Assumptions C01_dp_total.

(** CBLDM: a non-placeholder result is a two-bin partition obeying the cardinality bound *)
Theorem C01_cbldm_partition :
  forall (A : Type) (valueof : A -> Z) (k : nat) (items : list A)
  (tl : bool) (d : Z) (dint : bool) (limit : option nat) (out : cbldm_out A)
  (t : nat),
  cbldm valueof k items tl d dint limit = Ok (out, t) ->
  out = CbPlaceholder \/
  (exists b : bins A, out = CbBins b /\ is_partition valueof 2 items b /\ len_diff b <= d).
Proof. exact @cbldm_safe_gen. Qed.
Print Assumptions C01_cbldm_partition.

(** CBLDM without a time limit always returns a partition (never the placeholder) *)
Theorem C01_cbldm_total :
  forall (A : Type) (valueof : A -> Z) (items : list A) (d : Z),
  Forall (fun x : A => 0 <= valueof x) items ->
  items <> [] ->
  1 <= d ->
  exists (b : bins A) (t : nat), cbldm valueof 2 items true d true None = Ok (CbBins b, t).
Proof. exact @cbldm_total. Qed.
Print Assumptions C01_cbldm_total.

