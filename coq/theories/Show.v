(** Printers that reproduce, inside Coq, the reply format of ocaml/driver.ml.  Used only by the
    vm_compute cross-check of the extracted model (harness/vmcheck.py): the same request is evaluated by
    `Eval vm_compute` on the Gallina definitions and by the extracted OCaml driver, and the two replies
    must be identical strings.  Nothing here is extracted. *)
From Coq Require Import ZArith List String DecimalString DecimalZ.
From Prtpy Require Import Base.Prelude Model.Binner Model.Objectives Model.CG Model.CBLDM.
Import ListNotations.
Open Scope string_scope.

Definition show_Z (z : Z) : string := NilZero.string_of_int (Z.to_int z).
Definition show_nat (n : nat) : string := show_Z (Z.of_nat n).
Fixpoint join (sep : string) (l : list string) : string :=
  match l with [] => "" | [x] => x | x :: t => x ++ sep ++ join sep t end.
Definition show_list {T} (f : T -> string) (l : list T) : string := "[" ++ join "," (map f l) ++ "]".
Definition show_bool (b : bool) : string := if b then "true" else "false".
Definition show_opt {T} (f : T -> string) (o : option T) : string := match o with Some x => f x | None => "null" end.

Definition item : Type := (Z * Z)%type.        (* (name, value), as in Extract.v *)
Definition vof (x : item) : Z := snd x.
Definition nof (x : item) : Z := fst x.
Definition show_item (x : item) : string := show_Z (fst x).       (* items are printed by name *)
Definition show_bin (b : bin item) : string := "[" ++ show_Z (fst b) ++ "," ++ show_list show_item (snd b) ++ "]".
Definition show_bins (b : bins item) : string := show_list show_bin b.
Definition show_zbin (b : bin Z) : string := "[" ++ show_Z (fst b) ++ "," ++ show_list show_Z (snd b) ++ "]".
Definition show_zbins (b : bins Z) : string := show_list show_zbin b.

Definition show_err (e : err) : string :=
  match e with
  | ValueError => "ValueError" | TypeError => "TypeError" | IndexError => "IndexError"
  | NotImplementedError => "NotImplementedError" | ZeroDivisionError => "ZeroDivisionError" | OtherError => "OtherError"
  end.
Definition q : string := String (Ascii.ascii_of_nat 34) "".
Definition show_res {T} (f : T -> string) (r : result T) : string :=
  match r with
  | Ok x => "{" ++ q ++ "ok" ++ q ++ ":" ++ f x ++ "}"
  | Err e => "{" ++ q ++ "err" ++ q ++ ":" ++ q ++ show_err e ++ q ++ "}"
  end.

Definition show_cg (st : cg_state (A := item)) : string :=
  "[" ++ show_opt show_bins (cg_best st) ++ "," ++ show_nat (cg_ticks st) ++ "," ++ show_opt show_bins (cg_first st) ++ "]".
Definition show_cbldm (r : result (cbldm_out item * nat)) : string :=
  show_res (fun p => "[" ++ (match fst p with CbPlaceholder => "null" | CbBins b => show_bins b end) ++ "," ++ show_nat (snd p) ++ "]") r.
