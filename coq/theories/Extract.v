(** Extraction of the executable model for the correspondence check.
    Only ExtrOcamlBasic (bool, option, list, pairs, unit, sumbool) is used; Z, positive
    and nat stay the extracted inductive types. *)
From Coq Require Import Extraction ExtrOcamlBasic.
From Prtpy Require Import Base.Prelude Base.Perms Model.Binner Model.Objectives Model.Greedy Model.Packing
     Model.Covering Model.KK Model.CG Model.DP Model.CBLDM Model.InExTree Model.SNP Model.BinCompletion
     Oracle.Reach Oracle.Checkers Model.BinnerHeap Spec.AbsBins Model.Multifit Model.ILP Model.Output Model.BinCompletionNamed Model.BinCompletionTrace Model.SNPTrace Model.Balanced.

Extraction Language OCaml.

(** items are (name, value) pairs; a plain list of numbers has name = value *)
Definition item : Type := (Z * Z)%type.
Definition vof (x : item) : Z := snd x.
Definition nof (x : item) : Z := fst x.

Separate Extraction
  vof nof
  Prelude.zsum Prelude.sort_asc Prelude.sort_desc Prelude.argmin Prelude.zmax Prelude.zmin
  Binner.new_bins Binner.add_item Binner.add_item_last Binner.sort_bins Binner.add_empty_bins
  Binner.remove_bins Binner.concatenate_bins Binner.combine_bins Binner.numitems Binner.sums
  Objectives.value Objectives.lower_bound Objectives.value_weighted
  Greedy.greedy Greedy.roundrobin Balanced.bidirectional_balanced
  Packing.first_fit Packing.first_fit_decreasing Packing.best_fit Packing.best_fit_decreasing
  Covering.cover_decreasing Covering.cover_twothirds Covering.cover_threequarters
  KK.kk KK.ckk KK.ckk_generator KK.all_combinations KK.ckk_bound KK.initial_heap KK.ckk_run
  CG.cg_run CG.cg
  DP.dp
  CBLDM.cbldm
  InExTree.generate_tree
  SNP.snp SNP.rnp SNP.find_diff
  BinCompletion.bin_completion BinCompletion.find_bin_completions BinCompletion.check_for_dominance
  BinCompletion.is_dominant BinCompletion.undominated_pairs
  Reach.reach Reach.opt_value Reach.min_bins Reach.max_cover Reach.opt_balanced2 Reach.reach_unsorted Reach.pack_states
  Checkers.is_partition_b Checkers.is_packing_b Checkers.nonempty_b Checkers.is_cover_b Checkers.anyfit_b
  Checkers.ascending_b Checkers.wf_b Checkers.same_items_b
  BinCompletionNamed.bin_completion_named BinCompletionTrace.bin_completion_tr SNPTrace.snp_tr SNPTrace.rnp_tr
  Output.extract Output.derive Output.keeps
  ILP.formulate ILP.normalize ILP.decode ILP.feasible_b ILP.objective_value ILP.ilp ILP.ilp_precheck
  Multifit.multifit Multifit.multifit_trace Multifit.ffloor
  BinnerHeap.step BinnerHeap.observe BinnerHeap.empty_state AbsBins.pure_step AbsBins.disciplined_b.
