(** Best-fit-decreasing <= 11/9 OPT + c for the mid range of x (the first item of the last bin): the
    transfer of FFD119MidProofs.v (Sections Quarter and Fifth) from first-fit-decreasing.

    Proved (b = bins of best_fit_decreasing, n = any number of bins of capacity C that can hold the
    values; hypotheses items <> [], values >= 0), with the SAME constants as for first-fit-decreasing:

      bfd_119_ranges3         : with x = the first item of the last bin,
                                  11 x <= 2 C            ->  9 |b| <= 11 n + 8
                                  C < 4 x                ->  6 |b| <=  7 n + 5
                                  C < 5 x, 4 x <= C      ->  9 |b| <= 11 n + 13
                                  2 C < 11 x, 41 x <= 8C ->  9 |b| <= 11 n + 16
      bfd_ratio_11_9_partial2 : 9 |b| <= 11 n + 16 provided no value lies in (8C/41, C/5]
      bfd_bfL                 : the new invariant [bfL] of best-fit-decreasing (below)

    Where FFD119MidProofs.v uses [sfit2] (through [Later]: EVERY value y of a later core does not fit
    into an earlier core, counting the values >= y), and what replaces it:
      (1) [none_later] in [heavy] / [heavy5] (no value of a class after a deficient bin): needs only the
          FIRST value of the later bins ([hfit] + [hdesc]), because a deficient core has its first value
          <= C/2 ([bighead_full], [bighead_full5]) and below the first values already excluded the
          classes are downward closed ([none_laterB], [after_L] ... [after_Sm]);
      (2) [Later2] ([boosted_vs_B1], [no_mix], [no_mix_gen], ...): the SECOND value of a later core [b'; z];
      (3) [Later_in] for a value above C/3 of a later core ([single_partner_bound], [pattern1],
          [natural_Mp_unboosted], [single_partner_bound5]);
      (4) [Later_in] for an arbitrary value of a later core: [late_fits_contra] and the first case of
          [single_partner_bound5].  This is FALSE for best-fit-decreasing ([bfd_mid_not_Later]); but
          [late_fits_contra] is only applied to values above C/3, and in [single_partner_bound5] the
          bound is trivial for values of at most C/3 (weight <= 60 <= 36 + 40).
    (2) and (3) are NOT consequences of [hfit] + [hdesc] + closedness; they follow from best-fit:

      [bfl]/[bfL]  a value y of a later bin c does not fit into an earlier bin bn (counting the values
                   >= y), or   first value of bn + y < sum of the values >= y of c.

    When y arrived, bn held at least its first value and c at most its values >= y other than y; if y
    fitted bn, best-fit (largest sum, lowest index among ties: [bf_scan_strict]) chose c because c was
    strictly fuller.  With first(c) <= first(bn): for the second value of c the alternative reads
    first(bn) < first(c), impossible ([LaterB2]); for y > C/3 at most two values of c are >= y, so
    the alternative reads first(bn) + y < y + first(c), impossible ([LaterB_in3]).
    The generic part (Section WeightsB: labels, [count_boundB]) is Section Weights of FFD119MidProofs.v
    with [Later] replaced by [LaterB]; the weights, the class lemmas and [core_cases] / [core_cases5] are
    reused unchanged.  Numerical check: /root/scratch/bfd119mid/bfdcheck.py (own BFD transcription:
    [hfit], [bfL], exact optimum), and [bfd_119_random] below.

    OPEN, as for first-fit-decreasing: 8C/41 < x <= C/5. *)
From Prtpy Require Import Base.Prelude Model.Binner Model.Packing Spec.Partition
  Proofs.BaseLemmas Proofs.BinnerLemmas Proofs.PackingProofs Proofs.FFDRatioProofs Proofs.BFDRatioProofs
  Proofs.BCOptimalProofs Proofs.FFD119Proofs Proofs.BFD54Proofs Oracle.Reach Proofs.OracleSpec
  Proofs.FFD119MidProofs.
From Coq Require Import ZifyBool Sorting.Sorted.

(** ---- 1. the relation between the cores of two bins of a best-fit-decreasing packing ---- *)
Lemma short_sum y h s : 0 < y -> Forall (fun v => y <= v <= h) s -> In y s -> zsum s < 3 * y ->
  zsum s <= y + h.
Proof.
  intros Hy HF Hin Hs. destruct s as [|a [|b [|c r]]].
  - destruct Hin.
  - rewrite pk_zsum_cons, pk_zsum_nil. apply Forall_cons_iff in HF. destruct HF as [Ha _].
    destruct Hin as [E|[]]. lia.
  - rewrite !pk_zsum_cons, pk_zsum_nil. apply Forall_cons_iff in HF. destruct HF as [Ha HF].
    apply Forall_cons_iff in HF. destruct HF as [Hb _]. destruct Hin as [E|[E|[]]]; lia.
  - exfalso. rewrite !pk_zsum_cons in Hs. apply Forall_cons_iff in HF. destruct HF as [Ha HF].
    apply Forall_cons_iff in HF. destruct HF as [Hb HF]. apply Forall_cons_iff in HF. destruct HF as [Hc HF].
    assert (0 <= zsum r).
    { apply zsum_nonneg. eapply Forall_impl; [|exact HF]. intros z Hz. cbv beta in Hz. lia. }
    lia.
Qed.

(** ---- 0. the bin-level relation kept by best-fit on a descending list ---- *)
Section BFLDef.
  Context {A : Type} (valueof : A -> Z).
  Notation vals bn := (map valueof (snd bn)).

  (** an item y of the later bin [c] does not fit into [bn] (counting the values >= y), or [c] was
      fuller than [bn] when y arrived: [bn] held at least its first item, [c] at most its values >= y
      other than y itself *)
  Definition bfl (C : Z) (bn c : bin A) : Prop :=
    Forall (fun y => C < zsum (sel y (vals bn)) + y \/ hd 0 (vals bn) + y < zsum (sel y (vals c))) (vals c).

  Fixpoint bfL (C : Z) (b : bins A) : Prop :=
    match b with
    | [] => True
    | bn :: t => Forall (bfl C bn) t /\ bfL C t
    end.

  (** the first item of every bin of a bins-array with [hdesc] dominates the bin *)
  Lemma hdesc_head_all : forall (t : bins A) c, hdesc valueof t -> In c t ->
    exists f r, snd c = f :: r /\ Forall (fun y => valueof y <= valueof f) (snd c).
  Proof.
    induction t as [|bn t IH]; intros c Hh Hc; [destruct Hc|].
    cbn [hdesc] in Hh. destruct Hh as [H1 H2]. destruct Hc as [E|Hc]; [subst c|apply IH; assumption].
    destruct (hd_dom_elim valueof _ _ H1) as (f & r & Es & HF). exists f, r. split; [exact Es|].
    rewrite contents_cons in HF. apply Forall_app in HF. destruct HF as [HF _]. exact HF.
  Qed.

  (** the core of a closed bin starts with the first item of the bin *)
  Lemma core_head C x (c : bin A) f r : x <= C -> snd c = f :: r ->
    Forall (fun y => valueof y <= valueof f) (snd c) -> C < zsum (sel x (vals c)) + x ->
    x <= valueof f /\ core x valueof c = valueof f :: sel x (map valueof r).
  Proof.
    intros HxC Es HF Hcl.
    assert (Hx : x <= valueof f).
    { destruct (sel x (vals c)) as [|e l] eqn:El; [rewrite pk_zsum_nil in Hcl; lia|].
      assert (He : In e (sel x (vals c))) by (rewrite El; left; reflexivity).
      unfold sel in He. apply filter_In in He. destruct He as [He1 He2].
      apply in_map_iff in He1. destruct He1 as (y & Ey & Hy).
      rewrite Forall_forall in HF. specialize (HF y Hy). cbv beta in HF. lia. }
    split; [exact Hx|]. unfold core. rewrite Es. cbn [map]. rewrite sel_cons.
    destruct (x <=? valueof f) eqn:E; [reflexivity|lia].
  Qed.
End BFLDef.

Section FrameBF.
  Variables C x : Z.
  Hypothesis Hxpos : 0 < x.
  Hypothesis HxC : x <= C.
  Notation okcore := (okcore C x).
  Notation Vc := (Vc C x).
  Notation Vl := (Vl C x).
  Notation nofit := (nofit C).

  Ltac fa H Ha := apply Forall_cons_iff in H; destruct H as [Ha H].

  (** [c] is the core of an earlier bin than [c']: the first values decrease, the first value of c' does
      not fit into c (counting the values at least as large), and a value y of c' that does fit went
      into a fuller bin: c held at least its first value, c' at most its values >= y other than y *)
  Definition LaterB (c c' : list Z) : Prop :=
    hd 0 c' <= hd 0 c /\ C < zsum (sel (hd 0 c') c) + hd 0 c' /\
    Forall (fun y => C < zsum (sel y c) + y \/ hd 0 c + y < zsum (sel y c')) c'.

  Definition RcB (a a' : label) : Prop :=
    lc a = lc a' \/ LaterB (lc a) (lc a') \/ LaterB (lc a') (lc a).

  Lemma RcB_sym a a' : RcB a a' -> RcB a' a.
  Proof.
    intros [H|[H|H]]; [left; symmetry; exact H|right; right; exact H|right; left; exact H].
  Qed.

  (** the second value of a later core of two values does not fit *)
  Lemma LaterB2 c b z : LaterB c [b; z] -> z <= b -> C < zsum (sel z c) + z.
  Proof.
    intros (H1 & _ & H3) Hzb. cbn [hd] in H1. fa H3 Hb. fa H3 Hz.
    destruct Hz as [Hz|Hz]; [exact Hz|exfalso]. revert Hz. sel_cases z.
  Qed.

  (** a value above C/3 of a later core does not fit *)
  Lemma LaterB_in3 c c' y : LaterB c c' -> okcore c' -> In y c' -> C < 3 * y -> C < zsum (sel y c) + y.
  Proof.
    intros (H1 & _ & H3) (Hge & Hsum & _ & Hhd) Hin Hy.
    rewrite Forall_forall in H3. destruct (H3 y Hin) as [H|H]; [exact H|exfalso].
    assert (Hs : zsum (sel y c') <= y + hd 0 c').
    { assert (Hnn : Forall (fun a => 0 <= a) c') by (eapply Forall_impl; [|exact Hge]; intros a Ha; cbv beta in Ha; lia).
      pose proof (zsum_sel_le y c' Hnn).
      apply short_sum; [lia| | |lia].
      - apply Forall_forall. intros v Hv. unfold sel in Hv. apply filter_In in Hv. destruct Hv as [Hv Hyv].
        rewrite Forall_forall in Hhd. specialize (Hhd v Hv). cbv beta in Hhd. lia.
      - unfold sel. apply filter_In. split; [exact Hin|lia]. }
    lia.
  Qed.

  Fixpoint chainB (cs : list (list Z)) : Prop :=
    match cs with
    | [] => True
    | c :: r => okcore c /\ Forall (LaterB c) r /\ chainB r
    end.

  Lemma chainB_okcore : forall cs, chainB cs -> Forall okcore cs.
  Proof.
    induction cs as [|c r IH]; intros H; [constructor|]. cbn [chainB] in H. destruct H as (Ho & _ & Hr).
    constructor; [exact Ho|apply IH; exact Hr].
  Qed.

  Lemma okcore_hd_in c : okcore c -> In (hd 0 c) c.
  Proof.
    intros (_ & _ & Hcl & _). destruct c as [|a r]; [rewrite pk_zsum_nil in Hcl; lia|left; reflexivity].
  Qed.

  (** after a bin into which every value of the class P fits, no value of P occurs, provided the first
      values of the later bins lie in a range U below which P is downward closed *)
  Lemma none_laterB (P U : Z -> Prop) c r : nofit P c -> Forall (LaterB c) r -> Forall okcore r ->
    Forall (fun c' => U (hd 0 c')) r -> (forall v w, U v -> ~ P v -> w <= v -> ~ P w) -> none P r.
  Proof.
    intros Hn HL Ho HU Hdown. unfold none. rewrite Forall_forall in *. intros c' Hc'.
    specialize (HL c' Hc'). specialize (Ho c' Hc'). specialize (HU c' Hc'). cbv beta in HU.
    destruct HL as (_ & H2 & _). destruct Ho as (_ & _ & _ & Hhd).
    assert (HnP : ~ P (hd 0 c')) by (intros HP; specialize (Hn _ HP); lia).
    apply Forall_forall. intros y Hy. rewrite Forall_forall in Hhd. specialize (Hhd y Hy). cbv beta in Hhd.
    apply (Hdown (hd 0 c')); assumption.
  Qed.

  (** ---- 2. the counting argument of FFD119MidProofs.v (Section Weights) for [LaterB] ---- *)
  Section WeightsB.
    Variable Wc : list Z -> list Z.
    Hypothesis Wc_len : forall c, length (Wc c) = length c.
    Variables FF OO DD : Z.
    Notation wl := (wl Wc).
    Notation cw := (cw Wc).
    Notation tw := (tw Wc).
    Notation gw := (gw Wc).

    Definition RlB (a a' : label) : Prop := lc a = [] \/ lc a' = [] \/ RcB a a'.
    Lemma RlB_sym a a' : RlB a a' -> RlB a' a.
    Proof. intros [H|[H|H]]; [right; left; exact H|left; exact H|right; right; apply RcB_sym; exact H]. Qed.
  (** dropping the values without a core *)
  Lemma drop_uncoredB g : Forall Vl g -> AllPairs RlB g ->
    let g1 := filter cored g in
    Forall Vc g1 /\ AllPairs RcB g1 /\ gv g1 <= gv g /\ gw g1 = gw g.
  Proof.
    induction g as [|a g IH]; intros HV HR; cbn [filter].
    - cbn [AllPairs]. split; [constructor|split; [exact I|split; [lia|reflexivity]]].
    - apply Forall_cons_iff in HV. destruct HV as [Va HV]. cbn [AllPairs] in HR. destruct HR as [Ra HR].
      destruct (IH HV HR) as (I1 & I2 & I3 & I4). rewrite ?gv_cons, ?gw_cons.
      destruct (cored a) eqn:Ea.
      + apply cored_true in Ea. cbn [AllPairs]. rewrite ?gv_cons, ?gw_cons.
        split; [constructor; [destruct Va as [[E _]|Va]; [congruence|exact Va]|exact I1]|].
        split; [split; [|exact I2]|split; lia].
        apply Forall_forall. intros b Hb. apply filter_In in Hb. destruct Hb as [Hb Eb].
        apply cored_true in Eb. rewrite Forall_forall in Ra. destruct (Ra b Hb) as [H|[H|H]]; [congruence|congruence|exact H].
      + assert (E : lc a = []).
        { destruct (lc a) eqn:E; [reflexivity|]. exfalso. unfold cored in Ea. rewrite E in Ea. discriminate Ea. }
        rewrite (wl_nil Wc Wc_len a E). destruct Va as [[_ Va]|Va]; [|destruct Va as [(_ & _ & Hcl & _) _]; rewrite E, pk_zsum_nil in Hcl; lia].
        split; [exact I1|split; [exact I2|split; lia]].
  Qed.

    (** what has to be shown about the weights *)
    Hypothesis Hlight : forall g, Forall Vc g -> AllPairs RcB g ->
      StronglySorted (fun a b => lv b <= lv a) g -> gv g <= C -> gw g <= OO.
    Hypothesis Hheavy : forall cs, chainB cs -> FF * Z.of_nat (length cs) <= tw cs + DD.

    Lemma lightB g : Forall Vl g -> AllPairs RlB g -> gv g <= C -> gw g <= OO.
    Proof.
      intros HV HR Hsum. destruct (drop_uncoredB g HV HR) as (V1 & R1 & S1 & W1). cbv zeta in *.
      destruct (exists_sorted lv (filter cored g)) as (g2 & P & HS).
      rewrite <- W1, (gw_perm Wc _ _ P). apply Hlight; [| |exact HS|].
      - eapply Permutation_Forall; [exact P|exact V1].
      - eapply (AllPairs_perm RcB RcB_sym); [exact P|exact R1].
      - rewrite <- (gv_perm _ _ P). lia.
    Qed.

    Section ConnectB.
    Context {A : Type} (valueof : A -> Z).
    Notation vals bn := (map valueof (snd bn)).
    Notation core := (core x valueof).
    Notation lab_bin := (lab_bin x valueof).
    Notation LABt := (LABt x valueof).
    (** all labels of a chainB of bins, followed by unlabelled values, are pairwise related *)
    Lemma LAB_pairsB S : forall t, chainB (map core t) -> AllPairs RlB (LABt t ++ lab_small S).
    Proof.
      induction t as [|bn t IH]; intros Hch.
      - unfold FFD119MidProofs.LABt. cbn [map concat app]. pose proof (lab_small_lc S) as H.
        induction H as [|a l Ha Hl IHl]; cbn [AllPairs]; [exact I|]. split; [|exact IHl].
        apply Forall_forall. intros b _. left. exact Ha.
      - cbn [map chainB] in Hch. destruct Hch as (Ho & HL & Hch). specialize (IH Hch).
        unfold FFD119MidProofs.LABt in *. cbn [map concat]. rewrite <- app_assoc. apply AllPairs_app. split; [|split; [exact IH|]].
        + pose proof (lab_bin_lc x valueof bn) as H. induction H as [|a l Ha Hl IHl]; cbn [AllPairs]; [exact I|].
          split; [|exact IHl]. apply Forall_forall. intros b Hb. rewrite Forall_forall in Hl.
          destruct Ha as [Ha|Ha]; [left; exact Ha|]. destruct (Hl b Hb) as [Eb|Eb]; [right; left; exact Eb|].
          right; right. left. congruence.
        + apply Forall_forall. intros a Ha. pose proof (lab_bin_lc x valueof bn) as H. rewrite Forall_forall in H.
          specialize (H a Ha). cbv beta in H.
          apply Forall_app. split.
          * apply Forall_forall. intros b Hb. pose proof (LABt_lc x valueof t) as H2. rewrite Forall_forall in H2.
            specialize (H2 b Hb). cbv beta in H2.
            destruct H as [H|H]; [left; exact H|]. destruct H2 as [H2|(bn' & Hin & H2)]; [right; left; exact H2|].
            right; right. right; left. rewrite H, H2. rewrite Forall_forall in HL. apply HL.
            apply in_map. exact Hin.
          * eapply Forall_impl; [|apply lab_small_lc]. intros b Hb. right; left. exact Hb.
    Qed.

    (** the cores of closed bins with [hfit], [bfL], [hdesc] form a chain *)
    Lemma chain_coresB : forall t : bins A, closed valueof C x t -> hfit valueof C t -> bfL valueof C t ->
      wf valueof t -> feasible C t -> Forall (fun y => 0 <= valueof y) (contents t) -> hdesc valueof t ->
      chainB (map core t).
    Proof.
      induction t as [|bn r IH]; intros Hcl Hsf Hbf Hw Hf Hnn Hh; [exact I|].
      pose proof Hh as Hh0.
      unfold closed in Hcl. apply Forall_cons_iff in Hcl. destruct Hcl as [Hc Hcl].
      cbn [hfit] in Hsf. destruct Hsf as [Hs1 Hsf]. cbn [bfL] in Hbf. destruct Hbf as [Hb1 Hbf].
      unfold wf in Hw. apply Forall_cons_iff in Hw. destruct Hw as [Hwb Hw].
      unfold feasible in Hf. apply Forall_cons_iff in Hf. destruct Hf as [Hfb Hf].
      rewrite contents_cons in Hnn. apply Forall_app in Hnn. destruct Hnn as [Hnb Hnn].
      cbn [hdesc] in Hh. destruct Hh as [Hd Hh].
      destruct (hd_dom_elim valueof _ _ Hd) as (y0 & l0 & Es & Hdom).
      rewrite contents_cons in Hdom. apply Forall_app in Hdom. destruct Hdom as [Hdb Hdr].
      destruct (core_head valueof C x bn y0 l0 HxC Es Hdb Hc) as [Hxy0 Ecore].
      assert (Hvn : Forall (fun a => 0 <= a) (vals bn)) by (rewrite Forall_map; exact Hnb).
      cbn [map chainB]. split; [|split; [|apply IH; assumption]].
      - unfold FFD119MidProofs.okcore. split; [apply sel_ge|]. split; [|split].
        + pose proof (zsum_sel_le x (vals bn) Hvn). unfold wf_bin in Hwb. unfold FFD119MidProofs.core. lia.
        + exact Hc.
        + assert (Ehd : hd 0 (core bn) = valueof y0) by (rewrite Ecore; reflexivity).
          rewrite Ehd. unfold FFD119MidProofs.core. apply sel_incl. rewrite Forall_map. exact Hdb.
      - rewrite Forall_map. apply Forall_forall. intros bn' Hbn'.
        destruct (hdesc_head_all valueof r bn' Hh Hbn') as (f' & r' & Es' & HF').
        assert (Hc' : C < zsum (sel x (vals bn')) + x).
        { unfold closed in Hcl. rewrite Forall_forall in Hcl. apply Hcl. exact Hbn'. }
        destruct (core_head valueof C x bn' f' r' HxC Es' HF' Hc') as [Hxf' Ecore'].
        assert (Hf'in : In f' (contents r)).
        { apply (in_contents_bin r bn' f' Hbn'). rewrite Es'. left. reflexivity. }
        assert (Ehd : hd 0 (core bn) = valueof y0) by (rewrite Ecore; reflexivity).
        assert (Ehd' : hd 0 (core bn') = valueof f') by (rewrite Ecore'; reflexivity).
        unfold LaterB. rewrite Ehd, Ehd'. split; [|split].
        + rewrite Forall_forall in Hdr. apply Hdr. exact Hf'in.
        + rewrite Forall_forall in Hs1. specialize (Hs1 bn' Hbn'). unfold head_nofit in Hs1.
          rewrite Es' in Hs1. unfold FFD119MidProofs.core. rewrite sel_sel; [exact Hs1|lia].
        + rewrite Forall_forall in Hb1. specialize (Hb1 bn' Hbn'). unfold bfl in Hb1.
          apply Forall_forall. intros y Hy. unfold FFD119MidProofs.core, sel in Hy. apply filter_In in Hy.
          destruct Hy as [Hy Hxy]. rewrite Forall_forall in Hb1. specialize (Hb1 y Hy). cbv beta in Hb1.
          rewrite Es in Hb1 at 2. cbn [map hd] in Hb1.
          unfold FFD119MidProofs.core. rewrite !sel_sel by lia. exact Hb1.
    Qed.

    (** the counting argument *)
    Lemma count_boundB (t : bins A) (last : bin A) (items : list A) (n : nat) :
      closed valueof C x t -> hfit valueof C t -> bfL valueof C t -> hdesc valueof t ->
      wf valueof (t ++ [last]) -> feasible C (t ++ [last]) ->
      Forall (fun y => 0 <= valueof y) (contents (t ++ [last])) ->
      Permutation (contents (t ++ [last])) items -> Packable C (map valueof items) n ->
      FF * Z.of_nat (length t) <= OO * Z.of_nat n + DD.
    Proof.
      intros Hcl Hsf Hbf Hh Hw Hf Hnn Hp Hpack.
      unfold wf in Hw. apply Forall_app in Hw. destruct Hw as [Hwt _].
      unfold feasible in Hf. apply Forall_app in Hf. destruct Hf as [Hft _].
      rewrite contents_app in Hnn. apply Forall_app in Hnn. destruct Hnn as [Hnt Hnl].
      pose proof (chain_coresB t Hcl Hsf Hbf Hwt Hft Hnt Hh) as Hch.
      pose proof (Hheavy _ Hch) as Hheavy'. rewrite map_length in Hheavy'.
      set (LAB := LABt t ++ lab_small (map valueof (contents [last]))).
      assert (HPL : Permutation (map lv LAB) (map valueof items)).
      { unfold LAB. rewrite map_app, lab_small_lv.
        apply Permutation_trans with (map valueof (contents (t ++ [last]))); [|apply Permutation_map; exact Hp].
        rewrite contents_app, map_app. apply Permutation_app_tail. apply LABt_lv. }
      apply packable_gpack in Hpack. destruct Hpack as (G & HL & HG & HF).
      assert (HG' : Permutation (concat G) (map lv LAB)).
      { apply Permutation_trans with (map valueof items); [exact HG|apply Permutation_sym; exact HPL]. }
      destruct (lift_groups lv LAB G HG') as (G' & EG & PG).
      assert (HV : Forall Vl LAB).
      { unfold LAB. apply Forall_app. split.
        - apply LABt_Vl; [apply chainB_okcore; exact Hch|exact Hnt].
        - apply lab_small_Vl. rewrite Forall_map. exact Hnl. }
      assert (HR : AllPairs RlB LAB) by (apply LAB_pairsB; exact Hch).
      assert (HV' : Forall Vl (concat G')) by (eapply Permutation_Forall; [exact PG|exact HV]).
      assert (HR' : AllPairs RlB (concat G')) by (eapply (AllPairs_perm RlB RlB_sym); [exact PG|exact HR]).
      assert (Hlight' : Forall (fun g => gw g <= OO) G').
      { pose proof (AllPairs_concat_elim RlB G' HR') as HRg.
        assert (HVg : Forall (Forall Vl) G').
        { clear - HV'. induction G' as [|g G' IH]; [constructor|]. cbn [concat] in HV'.
          apply Forall_app in HV'. destruct HV' as [H1 H2]. constructor; [exact H1|apply IH; exact H2]. }
        rewrite <- EG in HF. rewrite Forall_map in HF.
        clear - HRg HVg HF Hlight Wc_len HxC Hxpos. induction G' as [|g G' IH]; [constructor|].
        apply Forall_cons_iff in HRg. destruct HRg as [R1 R2]. apply Forall_cons_iff in HVg. destruct HVg as [V1 V2].
        apply Forall_cons_iff in HF. destruct HF as [F1 F2].
        constructor; [apply lightB; assumption|apply IH; assumption]. }
      pose proof (gw_concat_le Wc OO G' Hlight') as Hsum.
      assert (EL : length G' = n) by (rewrite <- HL, <- EG, map_length; reflexivity).
      rewrite EL in Hsum. rewrite <- (gw_perm Wc _ _ PG) in Hsum.
      unfold LAB in Hsum. rewrite gw_app, (lab_small_gw Wc Wc_len), (LABt_gw x Wc Wc_len) in Hsum. lia.
    Qed.
    End ConnectB.
  End WeightsB.


  (** ---- 3a. what follows a deficient bin: only the first values of the later bins are needed ---- *)
  Notation isL := (FFD119MidProofs.isL C x).
  Notation isMp := (FFD119MidProofs.isMp C x).
  Notation isMm := (FFD119MidProofs.isMm C x).
  Notation isSp := (FFD119MidProofs.isSp C x).
  Notation isSm := (FFD119MidProofs.isSm C x).

  Lemma none_in (P : Z -> Prop) r c' v : none P r -> In c' r -> In v c' -> ~ P v.
  Proof.
    intros HN Hc Hv. unfold none in HN. rewrite Forall_forall in HN. specialize (HN c' Hc).
    rewrite Forall_forall in HN. apply HN. exact Hv.
  Qed.

  Lemma heads_U (U : Z -> Prop) c r : Forall (LaterB c) r -> Forall okcore r ->
    (forall c' v, In c' r -> In v c' -> v <= hd 0 c -> U v) -> Forall (fun c' => U (hd 0 c')) r.
  Proof.
    intros HL Ho HU. apply Forall_forall. intros c' Hc'. rewrite Forall_forall in HL, Ho.
    destruct (HL c' Hc') as (H1 & _). apply (HU c'); [exact Hc'|apply okcore_hd_in; apply Ho; exact Hc'|exact H1].
  Qed.

  (** what follows a deficient bin (first value at most C/2) *)
  Lemma after_L c r : chainB r -> Forall (LaterB c) r -> 2 * hd 0 c <= C -> nofit isL c -> none isL r.
  Proof.
    intros Hch HL Hsm F. apply (none_laterB isL (fun v => 2 * v <= C) c r F HL (chainB_okcore r Hch)).
    - apply (heads_U (fun v => 2 * v <= C) c r HL (chainB_okcore r Hch)). intros c' v _ _ Hv. lia.
    - intros v w Hv HnP Hw. unfold FFD119MidProofs.isL in *. lia.
  Qed.

  Lemma after_Mp c r : chainB r -> Forall (LaterB c) r -> 2 * hd 0 c <= C -> none isL r -> nofit isMp c ->
    none isMp r.
  Proof.
    intros Hch HL Hsm N1 F. apply (none_laterB isMp (fun v => 2 * v <= C - x) c r F HL (chainB_okcore r Hch)).
    - apply (heads_U (fun v => 2 * v <= C - x) c r HL (chainB_okcore r Hch)). intros c' v Hc' Hv Hle.
      pose proof (none_in _ r c' v N1 Hc' Hv) as H1. unfold FFD119MidProofs.isL in H1. lia.
    - intros v w Hv HnP Hw. unfold FFD119MidProofs.isMp in *. lia.
  Qed.

  Lemma after_Mm c r : chainB r -> Forall (LaterB c) r -> 2 * hd 0 c <= C -> none isL r -> none isMp r ->
    nofit isMm c -> none isMm r.
  Proof.
    intros Hch HL Hsm N1 N2 F. apply (none_laterB isMm (fun v => 3 * v <= C) c r F HL (chainB_okcore r Hch)).
    - apply (heads_U (fun v => 3 * v <= C) c r HL (chainB_okcore r Hch)). intros c' v Hc' Hv Hle.
      pose proof (none_in _ r c' v N1 Hc' Hv) as H1. pose proof (none_in _ r c' v N2 Hc' Hv) as H2.
      unfold FFD119MidProofs.isL in H1. unfold FFD119MidProofs.isMp in H2. lia.
    - intros v w Hv HnP Hw. unfold FFD119MidProofs.isMm in *. lia.
  Qed.


  Lemma after_Sp c r : chainB r -> Forall (LaterB c) r -> 2 * hd 0 c <= C -> none isL r -> none isMp r ->
    none isMm r -> nofit isSp c -> none isSp r.
  Proof.
    intros Hch HL Hsm N1 N2 N3 F. apply (none_laterB isSp (fun v => 3 * v <= C - x) c r F HL (chainB_okcore r Hch)).
    - apply (heads_U (fun v => 3 * v <= C - x) c r HL (chainB_okcore r Hch)). intros c' v Hc' Hv Hle.
      pose proof (none_in _ r c' v N1 Hc' Hv) as H1. pose proof (none_in _ r c' v N2 Hc' Hv) as H2.
      pose proof (none_in _ r c' v N3 Hc' Hv) as H3.
      unfold FFD119MidProofs.isL in H1. unfold FFD119MidProofs.isMp in H2. unfold FFD119MidProofs.isMm in H3. lia.
    - intros v w Hv HnP Hw. unfold FFD119MidProofs.isSp in *. lia.
  Qed.

  Lemma after_Sm c r : chainB r -> Forall (LaterB c) r -> 2 * hd 0 c <= C -> none isL r -> none isMp r ->
    none isMm r -> none isSp r -> nofit isSm c -> none isSm r.
  Proof.
    intros Hch HL Hsm N1 N2 N3 N4 F. apply (none_laterB isSm (fun v => 4 * v <= C) c r F HL (chainB_okcore r Hch)).
    - apply (heads_U (fun v => 4 * v <= C) c r HL (chainB_okcore r Hch)). intros c' v Hc' Hv Hle.
      pose proof (none_in _ r c' v N1 Hc' Hv) as H1. pose proof (none_in _ r c' v N2 Hc' Hv) as H2.
      pose proof (none_in _ r c' v N3 Hc' Hv) as H3. pose proof (none_in _ r c' v N4 Hc' Hv) as H4.
      unfold FFD119MidProofs.isL in H1. unfold FFD119MidProofs.isMp in H2. unfold FFD119MidProofs.isMm in H3.
      unfold FFD119MidProofs.isSp in H4. lia.
    - intros v w Hv HnP Hw. unfold FFD119MidProofs.isSm in *. lia.
  Qed.

  (** ---- 3. the weights of Section Quarter of FFD119MidProofs.v: C < 5 x, 4 x <= C ---- *)
  Section QuarterB.
  Hypothesis Hx5 : C < 5 * x.
  Hypothesis Hx4 : 4 * x <= C.
  Notation nu := (nu C x).
  Notation nu1 := (nu1 C x).
  Notation wp := (wp C x).
  Notation Wcore := (Wcore C x).
  Notation wl := (wl Wcore).
  Notation cw := (cw Wcore).
  Notation tw := (tw Wcore).
  Notation gw := (gw Wcore).
  Notation nu_spec := (FFD119MidProofs.nu_spec C x).
  Notation wp_spec := (FFD119MidProofs.wp_spec C x).
  Notation nu1_spec := (FFD119MidProofs.nu1_spec C x Hxpos HxC Hx5 Hx4).
  Notation small_kind := (FFD119MidProofs.small_kind C x Hxpos Hx5 Hx4).
  Notation big_kind := (FFD119MidProofs.big_kind C x Hxpos Hx5 Hx4).
  Notation wl_small_bound := (FFD119MidProofs.wl_small_bound C x Hxpos HxC Hx5 Hx4).
  Notation small_boost := (FFD119MidProofs.small_boost C x Hxpos HxC Hx5 Hx4).
  Notation group1 := (FFD119MidProofs.group1 C x Hxpos HxC Hx5 Hx4).
  Notation core_cases := (FFD119MidProofs.core_cases C x Hxpos HxC Hx5 Hx4).
  Notation okcore2 := (FFD119MidProofs.okcore2 C x).
  Notation Vc_ge := (FFD119MidProofs.Vc_ge C x).
  Notation Vc_in := (FFD119MidProofs.Vc_in C x).
  Notation gv_ge := (FFD119MidProofs.gv_ge C x).
  Notation wp_ge9 := (FFD119MidProofs.wp_ge9 C x).

  (** a boosted companion z (alone with b' in its bin) cannot share an optimal bin with b, whose only
      companion p is larger than z and fits with b', and a further value z' *)
  Lemma boosted_vs_B1 a az b p b' z z' :
    lc a = [b; p] -> lc az = [b'; z] -> okcore [b; p] -> okcore [b'; z] -> RcB a az ->
    C < 2 * b' -> x <= z' -> b + z + z' <= C -> z < p -> b' + p <= C -> False.
  Proof.
    intros E1 E2 O1 O2 HR Hb' Hz' Hsum Hzp Hfit.
    apply okcore2 in O1. apply okcore2 in O2. unfold RcB in HR. rewrite E1, E2 in HR.
    destruct HR as [E|[HL|HL]].
    - injection E as Eb Ez. lia.
    - destruct HL as [HL _]. cbn [hd] in HL. lia.
    - apply LaterB2 in HL; [|lia]. revert HL. sel_cases p.
  Qed.

  (** next to b (whose only companion p is not of the largest class) and a further value, a value is
      not boosted *)
  Lemma partner_unboosted a az b p z' :
    lc a = [b; p] -> okcore [b; p] -> C < 2 * b -> 2 * p <= C - x ->
    Vc az -> 2 * lv az <= C -> RcB a az -> x <= z' -> b + lv az + z' <= C ->
    wl az <= nu (lv az).
  Proof.
    intros E1 O1 Hb Hp Hv Hs HR Hz' Hsum. pose proof (okcore2 _ _ O1) as O1'.
    pose proof (Vc_ge az Hv) as Hge.
    destruct (small_kind az Hv Hs) as [[_ K]|[[_ K]|(b' & E2 & Ek & Hb' & Hb'' & K)]]; rewrite K.
    - lia.
    - destruct (nu_spec (lv az)) as [N|[N|[N|N]]]; lia.
    - assert (O2 : okcore [b'; lv az]) by (rewrite <- E2; apply Hv).
      pose proof (okcore2 _ _ O2) as O2'.
      destruct (nu_spec (lv az)) as [N|[N|[N|N]]]; destruct (wp_spec b' (lv az)) as [W|[W|[W|[W|[W|W]]]]]; try lia.
      + exfalso. apply (boosted_vs_B1 a az b p b' (lv az) z' E1 E2 O1 O2 HR); lia.
      + exfalso. apply (boosted_vs_B1 a az b p b' (lv az) z' E1 E2 O1 O2 HR); lia.
  Qed.

  (** (36 - w p) + the two other values <= 44 *)
  Lemma double_partner_bound a a1 a2 b p :
    lc a = [b; p] -> okcore [b; p] -> C < 2 * b ->
    Vc a1 -> Vc a2 -> RcB a a1 -> RcB a a2 -> b + lv a1 + lv a2 <= C ->
    wl a1 + wl a2 <= wp b p + 8.
  Proof.
    intros E1 O1 Hb V1 V2 R1 R2 Hsum. pose proof (okcore2 _ _ O1) as O1'.
    pose proof (Vc_ge a1 V1) as G1. pose proof (Vc_ge a2 V2) as G2.
    assert (S1 : 2 * lv a1 <= C) by lia. assert (S2 : 2 * lv a2 <= C) by lia.
    pose proof (wl_small_bound a1 V1 S1) as B1. pose proof (wl_small_bound a2 V2 S2) as B2.
    destruct (wp_spec b p) as [W|[W|[W|[W|[W|W]]]]].
    - destruct (nu1_spec (lv a1)) as [N1|[N1|[N1|N1]]]; destruct (nu1_spec (lv a2)) as [N2|[N2|[N2|N2]]]; lia.
    - assert (U1 : wl a1 <= nu (lv a1)) by (apply (partner_unboosted a a1 b p (lv a2)); try assumption; lia).
      assert (U2 : wl a2 <= nu (lv a2)) by (apply (partner_unboosted a a2 b p (lv a1)); try assumption; lia).
      destruct (nu_spec (lv a1)) as [N1|[N1|[N1|N1]]]; destruct (nu_spec (lv a2)) as [N2|[N2|[N2|N2]]]; lia.
    - assert (U1 : wl a1 <= nu (lv a1)) by (apply (partner_unboosted a a1 b p (lv a2)); try assumption; lia).
      assert (U2 : wl a2 <= nu (lv a2)) by (apply (partner_unboosted a a2 b p (lv a1)); try assumption; lia).
      destruct (nu_spec (lv a1)) as [N1|[N1|[N1|N1]]]; destruct (nu_spec (lv a2)) as [N2|[N2|[N2|N2]]]; lia.
    - assert (U1 : wl a1 <= nu (lv a1)) by (apply (partner_unboosted a a1 b p (lv a2)); try assumption; lia).
      assert (U2 : wl a2 <= nu (lv a2)) by (apply (partner_unboosted a a2 b p (lv a1)); try assumption; lia).
      destruct (nu_spec (lv a1)) as [N1|[N1|[N1|N1]]]; destruct (nu_spec (lv a2)) as [N2|[N2|[N2|N2]]]; lia.
    - assert (U1 : wl a1 <= nu (lv a1)) by (apply (partner_unboosted a a1 b p (lv a2)); try assumption; lia).
      assert (U2 : wl a2 <= nu (lv a2)) by (apply (partner_unboosted a a2 b p (lv a1)); try assumption; lia).
      destruct (nu_spec (lv a1)) as [N1|[N1|[N1|N1]]]; destruct (nu_spec (lv a2)) as [N2|[N2|[N2|N2]]]; lia.
    - lia.
  Qed.

  (** (36 - w p) + one other value <= 44 *)
  Lemma single_partner_bound a a1 b p :
    lc a = [b; p] -> okcore [b; p] -> C < 2 * b ->
    Vc a1 -> RcB a a1 -> b + lv a1 <= C -> wl a1 <= wp b p + 8.
  Proof.
    intros E1 O1 Hb V1 R1 Hsum. pose proof (okcore2 _ _ O1) as O1'.
    pose proof (Vc_ge a1 V1) as G1. assert (S1 : 2 * lv a1 <= C) by lia.
    pose proof (wl_small_bound a1 V1 S1) as B1.
    destruct (wp_spec b p) as [W|[W|[W|[W|[W|W]]]]];
      try (destruct (nu1_spec (lv a1)) as [N1|[N1|[N1|N1]]]; lia).
    (* the companion is small and unboosted: a natural large value cannot come *)
    destruct (small_kind a1 V1 S1) as [[Hh K]|[[_ K]|(b' & E2 & Ek & Hb' & Hb'' & K)]]; rewrite K.
    - destruct (nu_spec (lv a1)) as [N|[N|[N|N]]]; try lia. exfalso.
      unfold RcB in R1. rewrite E1 in R1. destruct R1 as [E|[HL|HL]].
      + rewrite <- E in Hh. cbn [hd] in Hh. lia.
      + pose proof (LaterB_in3 _ _ _ HL (proj1 V1) (Vc_in a1 V1) ltac:(lia)) as HL'. revert HL'. sel_cases (lv a1).
      + destruct HL as [HL _]. cbn [hd] in HL. lia.
    - lia.
    - destruct (wp_spec b' (lv a1)) as [W'|[W'|[W'|[W'|[W'|W']]]]]; lia.
  Qed.

  (** a boosted medium value and a boosted small value do not occur together *)
  Lemma no_mix am az b1 b2 :
    lc am = [b1; lv am] -> lc az = [b2; lv az] -> okcore [b1; lv am] -> okcore [b2; lv az] ->
    C < 2 * b1 -> C < 2 * b2 -> RcB am az ->
    3 * lv am <= C -> C - x < 3 * lv am -> C - x < 3 * (C - b1 - x) ->
    3 * lv az <= C - x -> 2 * x <= C - b2 -> False.
  Proof.
    intros E1 E2 O1 O2 Hb1 Hb2 HR M1 M2 M3 S1 S2.
    apply okcore2 in O1. apply okcore2 in O2. unfold RcB in HR. rewrite E1, E2 in HR.
    destruct HR as [E|[HL|HL]].
    - injection E as Eb Ez. lia.
    - destruct HL as [HL _]. cbn [hd] in HL. lia.
    - apply LaterB2 in HL; [|lia]. revert HL. sel_cases (lv am).
  Qed.

  (** large + upper medium + lower medium *)
  Lemma pattern1 aL aM am : Vc aL -> Vc aM -> Vc am -> RcB aM am ->
    2 * lv aL <= C -> C - x < 2 * lv aL ->
    2 * lv aM <= C - x -> C < 3 * lv aM ->
    3 * lv am <= C -> C - x < 3 * lv am ->
    lv aL + lv aM + lv am <= C -> wl aL + wl aM + wl am <= 44.
  Proof.
    intros VL VM Vm HR L1 L2 M1 M2 m1 m2 Hsum.
    assert (SM : 2 * lv aM <= C) by lia. assert (Sm : 2 * lv am <= C) by lia.
    pose proof (wl_small_bound aL VL L1) as BL. pose proof (wl_small_bound aM VM SM) as BM.
    destruct (nu1_spec (lv aL)) as [NL|[NL|[NL|NL]]]; try lia.
    destruct (nu1_spec (lv aM)) as [NM|[NM|[NM|NM]]]; try lia.
    destruct (small_boost am Vm Sm) as [U|(b & E & Hb & O & K & Hc)];
      [destruct (nu_spec (lv am)) as [N|[N|[N|N]]]; lia|].
    destruct (nu_spec (lv am)) as [N|[N|[N|N]]]; try lia.
    destruct Hc as [Hc|Hc]; [|lia].
    (* the upper medium value is a companion in an earlier bin: it weighs at most 13 *)
    destruct (small_kind aM VM SM) as [[Hh K']|[[_ K']|(b' & E' & Ek' & Hb' & Hb'' & K')]].
    - exfalso. pose proof (okcore2 _ _ O) as O'.
      unfold RcB in HR. rewrite E in HR. destruct HR as [E0|[HL|HL]].
      + rewrite E0 in Hh. cbn [hd] in Hh. lia.
      + destruct HL as [HL _]. cbn [hd] in HL. lia.
      + pose proof (LaterB_in3 _ _ _ HL (proj1 VM) (Vc_in aM VM) ltac:(lia)) as HL'. revert HL'. sel_cases (lv aM).
    - lia.
    - destruct (wp_spec b' (lv aM)) as [W'|[W'|[W'|[W'|[W'|W']]]]]; lia.
  Qed.

  (** two lower medium + two small *)
  Lemma pattern2 m1 m2 s1 s2 : Vc m1 -> Vc m2 -> Vc s1 -> Vc s2 ->
    RcB m1 s1 -> RcB m1 s2 -> RcB m2 s1 -> RcB m2 s2 ->
    3 * lv m1 <= C -> C - x < 3 * lv m1 -> 3 * lv m2 <= C -> C - x < 3 * lv m2 ->
    3 * lv s1 <= C - x -> 3 * lv s2 <= C - x ->
    wl m1 + wl m2 + wl s1 + wl s2 <= 44.
  Proof.
    intros V1 V2 V3 V4 R13 R14 R23 R24 A1 A2 B1 B2 C1 C2.
    pose proof (Vc_ge s1 V3) as G3. pose proof (Vc_ge s2 V4) as G4.
    assert (S1 : 2 * lv m1 <= C) by lia. assert (S2 : 2 * lv m2 <= C) by lia.
    assert (S3 : 2 * lv s1 <= C) by lia. assert (S4 : 2 * lv s2 <= C) by lia.
    destruct (nu_spec (lv m1)) as [N1|[N1|[N1|N1]]]; try lia.
    destruct (nu_spec (lv m2)) as [N2|[N2|[N2|N2]]]; try lia.
    destruct (nu_spec (lv s1)) as [N3|[N3|[N3|N3]]]; try lia.
    destruct (nu_spec (lv s2)) as [N4|[N4|[N4|N4]]]; try lia.
    destruct (small_boost m1 V1 S1) as [U1|(b1 & E1 & Hb1 & O1 & K1 & [T1|T1])];
    destruct (small_boost m2 V2 S2) as [U2|(b2 & E2 & Hb2 & O2 & K2 & [T2|T2])];
    destruct (small_boost s1 V3 S3) as [U3|(b3 & E3 & Hb3 & O3 & K3 & [T3|T3])];
    destruct (small_boost s2 V4 S4) as [U4|(b4 & E4 & Hb4 & O4 & K4 & [T4|T4])]; try lia; exfalso.
    all: first [ apply (no_mix m1 s1 b1 b3 E1 E3 O1 O3 Hb1 Hb3 R13); lia
               | apply (no_mix m1 s2 b1 b4 E1 E4 O1 O4 Hb1 Hb4 R14); lia
               | apply (no_mix m2 s1 b2 b3 E2 E3 O2 O3 Hb2 Hb3 R23); lia
               | apply (no_mix m2 s2 b2 b4 E2 E4 O2 O4 Hb2 Hb4 R24); lia ].
  Qed.

  Lemma group2 a b : Vc a -> Vc b -> RcB a b -> lv b <= lv a -> lv a + lv b <= C -> wl a + wl b <= 44.
  Proof.
    intros Va Vb Rab Hab Hsum. pose proof (Vc_ge a Va) as Ga. pose proof (Vc_ge b Vb) as Gb.
    assert (Sb : 2 * lv b <= C) by lia. pose proof (wl_small_bound b Vb Sb) as Bb.
    destruct (Z_lt_le_dec C (2 * lv a)) as [Hbig|Hsm].
    - destruct (big_kind a Va Hbig) as [[Hz K]|[(p & E & Ek & Hle & K)|[_ K]]]; rewrite K.
      + lia.
      + assert (O : okcore [lv a; p]) by (rewrite <- E; apply Va).
        pose proof (single_partner_bound a b (lv a) p E O Hbig Vb Rab Hsum). lia.
      + destruct (nu1_spec (lv b)) as [N|[N|[N|N]]]; lia.
    - pose proof (wl_small_bound a Va Hsm) as Ba.
      destruct (nu1_spec (lv a)) as [Na|[Na|[Na|Na]]]; destruct (nu1_spec (lv b)) as [Nb|[Nb|[Nb|Nb]]]; lia.
  Qed.

  Lemma group3 a b c : Vc a -> Vc b -> Vc c -> RcB a b -> RcB a c -> RcB b c ->
    lv b <= lv a -> lv c <= lv b -> lv a + lv b + lv c <= C -> wl a + wl b + wl c <= 44.
  Proof.
    intros Va Vb Vv Rab Rac Rbc Hab Hbc Hsum.
    pose proof (Vc_ge a Va) as Ga. pose proof (Vc_ge b Vb) as Gb. pose proof (Vc_ge c Vv) as Gc.
    assert (Sb : 2 * lv b <= C) by lia. pose proof (wl_small_bound b Vb Sb) as Bb.
    assert (Sc : 2 * lv c <= C) by lia. pose proof (wl_small_bound c Vv Sc) as Bc.
    destruct (Z_lt_le_dec C (2 * lv a)) as [Hbig|Hsm].
    - destruct (big_kind a Va Hbig) as [[Hz K]|[(p & E & Ek & Hle & K)|[_ K]]]; rewrite K.
      + lia.
      + assert (O : okcore [lv a; p]) by (rewrite <- E; apply Va).
        pose proof (double_partner_bound a b c (lv a) p E O Hbig Vb Vv Rab Rac Hsum). lia.
      + destruct (nu1_spec (lv b)) as [Nb|[Nb|[Nb|Nb]]]; destruct (nu1_spec (lv c)) as [Nc|[Nc|[Nc|Nc]]]; lia.
    - pose proof (wl_small_bound a Va Hsm) as Ba.
      destruct (nu1_spec (lv a)) as [Na|[Na|[Na|Na]]]; destruct (nu1_spec (lv b)) as [Nb|[Nb|[Nb|Nb]]];
        destruct (nu1_spec (lv c)) as [Nc|[Nc|[Nc|Nc]]]; try lia.
      apply pattern1; try assumption; lia.
  Qed.

  Lemma group4 a b c d : Vc a -> Vc b -> Vc c -> Vc d ->
    RcB a c -> RcB a d -> RcB b c -> RcB b d ->
    lv b <= lv a -> lv c <= lv b -> lv d <= lv c -> lv a + lv b + lv c + lv d <= C ->
    wl a + wl b + wl c + wl d <= 44.
  Proof.
    intros Va Vb Vv Vd Rac Rad Rbc Rbd Hab Hbc Hcd Hsum.
    pose proof (Vc_ge a Va) as Ga. pose proof (Vc_ge b Vb) as Gb. pose proof (Vc_ge c Vv) as Gc.
    pose proof (Vc_ge d Vd) as Gd.
    assert (Sa : 2 * lv a <= C) by lia. pose proof (wl_small_bound a Va Sa) as Ba.
    assert (Sb : 2 * lv b <= C) by lia. pose proof (wl_small_bound b Vb Sb) as Bb.
    assert (Sc : 2 * lv c <= C) by lia. pose proof (wl_small_bound c Vv Sc) as Bc.
    assert (Sd : 2 * lv d <= C) by lia. pose proof (wl_small_bound d Vd Sd) as Bd.
    destruct (nu1_spec (lv a)) as [Na|[Na|[Na|Na]]]; destruct (nu1_spec (lv b)) as [Nb|[Nb|[Nb|Nb]]];
      destruct (nu1_spec (lv c)) as [Nc|[Nc|[Nc|Nc]]]; destruct (nu1_spec (lv d)) as [Nd|[Nd|[Nd|Nd]]]; try lia.
    apply pattern2; try assumption; lia.
  Qed.

  Lemma light_sorted4 g : Forall Vc g -> AllPairs RcB g ->
    StronglySorted (fun a b => lv b <= lv a) g -> gv g <= C -> gw g <= 44.
  Proof.
    intros HV HR HS Hsum. pose proof (gv_ge g HV) as Hlen.
    destruct g as [|a [|b [|c [|d [|e r]]]]].
    - cbn. lia.
    - fa HV Va. unfold gw. cbn [map]. rewrite pk_zsum_cons, pk_zsum_nil. pose proof (group1 a Va). lia.
    - fa HV Va. fa HV Vb. cbn [AllPairs] in HR. destruct HR as (Ra & _). fa Ra Rab.
      inversion HS as [|a' l1 HS1 Ha]; subst. fa Ha Hab.
      unfold gv, gw in *. cbn [map] in *. rewrite !pk_zsum_cons, pk_zsum_nil in *.
      pose proof (group2 a b Va Vb Rab Hab ltac:(lia)). lia.
    - fa HV Va. fa HV Vb. fa HV Vv. cbn [AllPairs] in HR. destruct HR as (Ra & Rb & _).
      fa Ra Rab. fa Ra Rac. fa Rb Rbc.
      inversion HS as [|a' l1 HS1 Ha]; subst. fa Ha Hab. inversion HS1 as [|b' l2 HS2 Hb]; subst. fa Hb Hbc.
      unfold gv, gw in *. cbn [map] in *. rewrite !pk_zsum_cons, pk_zsum_nil in *.
      pose proof (group3 a b c Va Vb Vv Rab Rac Rbc Hab Hbc ltac:(lia)). lia.
    - fa HV Va. fa HV Vb. fa HV Vv. fa HV Vd. cbn [AllPairs] in HR. destruct HR as (Ra & Rb & RcB' & _).
      fa Ra Rab. fa Ra Rac. fa Ra Rad. fa Rb Rbc. fa Rb Rbd.
      inversion HS as [|a' l1 HS1 Ha]; subst. fa Ha Hab. inversion HS1 as [|b' l2 HS2 Hb]; subst. fa Hb Hbc.
      inversion HS2 as [|c' l3 HS3 Hc]; subst. fa Hc Hcd.
      unfold gv, gw in *. cbn [map] in *. rewrite !pk_zsum_cons, pk_zsum_nil in *.
      pose proof (group4 a b c d Va Vb Vv Vd Rac Rad Rbc Rbd Hab Hbc Hcd ltac:(lia)). lia.
    - exfalso. clear Hlen. fa HV Va. fa HV Vb. fa HV Vv. fa HV Vd. fa HV Ve.
      pose proof (Vc_ge a Va). pose proof (Vc_ge b Vb). pose proof (Vc_ge c Vv). pose proof (Vc_ge d Vd).
      pose proof (Vc_ge e Ve). pose proof (gv_ge r HV) as Hr.
      assert (0 <= x * Z.of_nat (length r)) by (apply Z.mul_nonneg_nonneg; lia).
      rewrite !gv_cons in Hsum. lia.
  Qed.

  (** ---- 4. the bins are heavy: only the first values of the later bins are needed ---- *)
  Lemma zsum_const k (Q : list Z) : zsum (map (fun _ => k) Q) = k * Z.of_nat (length Q).
  Proof.
    induction Q as [|q Q IH]; [cbn; lia|]. cbn [map length]. rewrite pk_zsum_cons, IH, Nat2Z.inj_succ. lia.
  Qed.

  (** a bin whose first value exceeds C/2 is not deficient *)
  Lemma bighead_full c : okcore c -> C < 2 * hd 0 c -> 36 <= cw c.
  Proof.
    intros (Hge & Hsum & Hcl & Hhd) Hb. unfold FFD119MidProofs.cw.
    destruct c as [|b Q]; [cbn [hd] in Hb; lia|]. cbn [hd] in Hb.
    unfold FFD119MidProofs.Wcore. destruct (C <? 2 * b) eqn:EB; [|lia].
    destruct (C - x <? b) eqn:EZ.
    - rewrite pk_zsum_cons, zsum_const. lia.
    - destruct Q as [|p [|q Q]].
      + rewrite pk_zsum_cons, pk_zsum_nil in Hcl. lia.
      + rewrite !pk_zsum_cons, pk_zsum_nil. lia.
      + rewrite pk_zsum_cons, zsum_const. cbn [length]. lia.
  Qed.

  Lemma heavy_CB : forall cs, chainB cs -> none isL cs -> none isMp cs -> none isMm cs ->
    36 * Z.of_nat (length cs) <= tw cs.
  Proof.
    induction cs as [|c r IH]; intros Hch N1 N2 N3; [rewrite tw_nil; cbn [length Z.of_nat]; lia|].
    cbn [chainB] in Hch. destruct Hch as (Ho & HL & Hch).
    unfold none in N1, N2, N3. apply Forall_cons_iff in N1. destruct N1 as [N1c N1].
    apply Forall_cons_iff in N2. destruct N2 as [N2c N2]. apply Forall_cons_iff in N3. destruct N3 as [N3c N3].
    specialize (IH Hch N1 N2 N3). rewrite tw_cons. cbn [length]. rewrite Nat2Z.inj_succ.
    destruct (core_cases c Ho) as [H|[(H & HE & _)|[(H & HE & _)|(H & HE & _)]]]; [lia| | |].
    - exfalso. exact (Exists_Forall_neg _ _ HE N1c).
    - exfalso. exact (Exists_Forall_neg _ _ HE N2c).
    - exfalso. exact (Exists_Forall_neg _ _ HE N3c).
  Qed.

  Lemma heavy_BB : forall cs, chainB cs -> none isL cs -> none isMp cs ->
    36 * Z.of_nat (length cs) <= tw cs + 6.
  Proof.
    induction cs as [|c r IH]; intros Hch N1 N2; [rewrite tw_nil; cbn [length Z.of_nat]; lia|].
    cbn [chainB] in Hch. destruct Hch as (Ho & HL & Hch).
    unfold none in N1, N2. apply Forall_cons_iff in N1. destruct N1 as [N1c N1].
    apply Forall_cons_iff in N2. destruct N2 as [N2c N2].
    rewrite tw_cons. cbn [length]. rewrite Nat2Z.inj_succ.
    destruct (Z_lt_le_dec C (2 * hd 0 c)) as [Hbig|Hsm];
      [pose proof (bighead_full c Ho Hbig); specialize (IH Hch N1 N2); lia|].
    destruct (core_cases c Ho) as [H|[(H & HE & _)|[(H & HE & _)|(H & HE & F1 & F2 & F3)]]].
    - specialize (IH Hch N1 N2). lia.
    - exfalso. exact (Exists_Forall_neg _ _ HE N1c).
    - exfalso. exact (Exists_Forall_neg _ _ HE N2c).
    - pose proof (heavy_CB r Hch N1 N2 (after_Mm c r Hch HL Hsm N1 N2 F3)). lia.
  Qed.

  Lemma heavy_AB : forall cs, chainB cs -> none isL cs -> 36 * Z.of_nat (length cs) <= tw cs + 10.
  Proof.
    induction cs as [|c r IH]; intros Hch N1; [rewrite tw_nil; cbn [length Z.of_nat]; lia|].
    cbn [chainB] in Hch. destruct Hch as (Ho & HL & Hch).
    unfold none in N1. apply Forall_cons_iff in N1. destruct N1 as [N1c N1].
    rewrite tw_cons. cbn [length]. rewrite Nat2Z.inj_succ.
    destruct (Z_lt_le_dec C (2 * hd 0 c)) as [Hbig|Hsm];
      [pose proof (bighead_full c Ho Hbig); specialize (IH Hch N1); lia|].
    destruct (core_cases c Ho) as [H|[(H & HE & _)|[(H & HE & F1 & F2)|(H & HE & F1 & F2 & F3)]]].
    - specialize (IH Hch N1). lia.
    - exfalso. exact (Exists_Forall_neg _ _ HE N1c).
    - pose proof (heavy_BB r Hch N1 (after_Mp c r Hch HL Hsm N1 F2)). lia.
    - pose proof (after_Mp c r Hch HL Hsm N1 F2) as N2.
      pose proof (heavy_CB r Hch N1 N2 (after_Mm c r Hch HL Hsm N1 N2 F3)). lia.
  Qed.

  Lemma heavyB : forall cs, chainB cs -> 36 * Z.of_nat (length cs) <= tw cs + 16.
  Proof.
    induction cs as [|c r IH]; intros Hch; [rewrite tw_nil; cbn [length Z.of_nat]; lia|].
    cbn [chainB] in Hch. destruct Hch as (Ho & HL & Hch).
    rewrite tw_cons. cbn [length]. rewrite Nat2Z.inj_succ.
    destruct (Z_lt_le_dec C (2 * hd 0 c)) as [Hbig|Hsm];
      [pose proof (bighead_full c Ho Hbig); specialize (IH Hch); lia|].
    destruct (core_cases c Ho) as [H|[(H & HE & F1)|[(H & HE & F1 & F2)|(H & HE & F1 & F2 & F3)]]].
    - specialize (IH Hch). lia.
    - pose proof (heavy_AB r Hch (after_L c r Hch HL Hsm F1)). lia.
    - pose proof (after_L c r Hch HL Hsm F1) as N1.
      pose proof (heavy_BB r Hch N1 (after_Mp c r Hch HL Hsm N1 F2)). lia.
    - pose proof (after_L c r Hch HL Hsm F1) as N1. pose proof (after_Mp c r Hch HL Hsm N1 F2) as N2.
      pose proof (heavy_CB r Hch N1 N2 (after_Mm c r Hch HL Hsm N1 N2 F3)). lia.
  Qed.

  Lemma quarter_boundB {A : Type} (valueof : A -> Z) (t : bins A) (last : bin A) (items : list A) (n : nat) :
    closed valueof C x t -> hfit valueof C t -> bfL valueof C t -> hdesc valueof t ->
    wf valueof (t ++ [last]) -> feasible C (t ++ [last]) ->
    Forall (fun y => 0 <= valueof y) (contents (t ++ [last])) ->
    Permutation (contents (t ++ [last])) items -> Packable C (map valueof items) n ->
    36 * Z.of_nat (length t) <= 44 * Z.of_nat n + 16.
  Proof. apply (count_boundB Wcore (Wcore_length C x) 36 44 16 light_sorted4 heavyB). Qed.
  End QuarterB.

  (** ---- 4. the weights of Section Fifth of FFD119MidProofs.v: 2 C < 11 x, 41 x <= 8 C ---- *)
  Section FifthB.
  Hypothesis H5 : 5 * x <= C.
  Hypothesis H11 : 2 * C < 11 * x.
  Hypothesis H41 : 41 * x <= 8 * C.
  Notation nu5 := (nu5 C x).
  Notation nu51 := (nu51 C x).
  Notation wp5 := (wp5 C x).
  Notation Wcore5 := (Wcore5 C x).
  Notation wl5 := (wl Wcore5).
  Notation cw5 := (cw Wcore5).
  Notation tw5 := (tw Wcore5).
  Notation gw5 := (gw Wcore5).
  Notation okcore2 := (FFD119MidProofs.okcore2 C x).
  Notation Vc_ge := (FFD119MidProofs.Vc_ge C x).
  Notation Vc_in := (FFD119MidProofs.Vc_in C x).
  Notation Vc_le_hd := (FFD119MidProofs.Vc_le_hd C x).
  Notation gv_ge := (FFD119MidProofs.gv_ge C x).
  Notation nu5_spec := (FFD119MidProofs.nu5_spec C x).
  Notation wp5_spec := (FFD119MidProofs.wp5_spec C x).
  Notation wp5_range := (FFD119MidProofs.wp5_range C x).

  (** the lemmas of Section Fifth that do not mention the relation, with the section hypotheses supplied *)
  Ltac inst L := let T := type of L in
    lazymatch T with
    | ?P -> _ =>
        let s := type of P in
        lazymatch s with
        | Prop => let h := constr:(ltac:(assumption) : P) in inst (L h)
        | _ => exact L
        end
    | _ => exact L
    end.
  Definition nu51_specB := ltac:(inst (FFD119MidProofs.nu51_spec C x)).
  Definition wl5_small_boundB := ltac:(inst (FFD119MidProofs.wl5_small_bound C x)).
  Definition small_kind5B := ltac:(inst (FFD119MidProofs.small_kind5 C x)).
  Definition big_kind5B := ltac:(inst (FFD119MidProofs.big_kind5 C x)).
  Definition small_boost5B := ltac:(inst (FFD119MidProofs.small_boost5 C x)).
  Definition boostMB := ltac:(inst (FFD119MidProofs.boostM C x)).
  Definition boostSpB := ltac:(inst (FFD119MidProofs.boostSp C x)).
  Definition boostSmB := ltac:(inst (FFD119MidProofs.boostSm C x)).
  Definition Mp_kindB := ltac:(inst (FFD119MidProofs.Mp_kind C x)).
  Definition group51B := ltac:(inst (FFD119MidProofs.group51 C x)).
  Definition group55B := ltac:(inst (FFD119MidProofs.group55 C x)).
  Definition pat7B := ltac:(inst (FFD119MidProofs.pat7 C x)).
  Definition core_cases5B := ltac:(inst (FFD119MidProofs.core_cases5 C x)).
  Notation nu51_spec := nu51_specB.
  Notation wl5_small_bound := wl5_small_boundB.
  Notation small_kind5 := small_kind5B.
  Notation big_kind5 := big_kind5B.
  Notation small_boost5 := small_boost5B.
  Notation boostM := boostMB.
  Notation boostSp := boostSpB.
  Notation boostSm := boostSmB.
  Notation Mp_kind := Mp_kindB.
  Notation group51 := group51B.
  Notation group55 := group55B.
  Notation pat7 := pat7B.
  Notation core_cases5 := core_cases5B.
  Tactic Notation "n51" constr(a) ident(N) := destruct (nu51_specB (lv a)) as [N|[N|[N|[N|[N|N]]]]]; try lia.

  (** a value z' of a bin without a big value does not meet a boosted companion z smaller than itself *)
  Lemma late_fits_contra au az b' z :
    Vc au -> 2 * hd 0 (lc au) <= C -> lc az = [b'; z] -> C < 2 * b' ->
    z < lv au -> b' + lv au <= C -> C < 3 * lv au -> RcB au az -> False.
  Proof.
    intros Vu Hh E Hb' Hz Hfit H3 HR. pose proof (Vc_le_hd au Vu) as Hle.
    unfold RcB in HR. rewrite E in HR. destruct HR as [E0|[HL|HL]].
    - rewrite E0 in Hh. cbn [hd] in Hh. lia.
    - destruct HL as [HL _]. cbn [hd] in HL. lia.
    - pose proof (LaterB_in3 _ _ _ HL (proj1 Vu) (Vc_in au Vu) ltac:(lia)) as HL'. revert HL'. sel_cases (lv au).
  Qed.

  (** two companions of big values: the larger one would have gone into the earlier bin *)
  Lemma no_mix_gen a1 a2 b1 z1 b2 z2 :
    lc a1 = [b1; z1] -> lc a2 = [b2; z2] -> b1 < b2 -> z2 < z1 -> z1 <= b2 -> b2 + z1 <= C -> z1 <= b1 -> RcB a1 a2 -> False.
  Proof.
    intros E1 E2 Hb Hz Hzb Hfit Hz1 HR. unfold RcB in HR. rewrite E1, E2 in HR.
    destruct HR as [E|[HL|HL]].
    - injection E as Eb Ez. lia.
    - destruct HL as [HL _]. cbn [hd] in HL. lia.
    - apply LaterB2 in HL; [|lia]. revert HL. sel_cases z1.
  Qed.

  (** as in the other range: a boosted companion z cannot share an optimal bin with a big b whose only
      companion p is larger than z and fits beside b', and a further value z' *)
  Lemma boosted_vs_B15 a az b p b' z z' :
    lc a = [b; p] -> lc az = [b'; z] -> okcore [b; p] -> okcore [b'; z] -> RcB a az ->
    C < 2 * b' -> x <= z' -> b + z + z' <= C -> z < p -> b' + p <= C -> False.
  Proof.
    intros E1 E2 O1 O2 HR Hb' Hz' Hsum Hzp Hfit.
    apply okcore2 in O1. apply okcore2 in O2. unfold RcB in HR. rewrite E1, E2 in HR.
    destruct HR as [E|[HL|HL]].
    - injection E as Eb Ez. lia.
    - destruct HL as [HL _]. cbn [hd] in HL. lia.
    - apply LaterB2 in HL; [|lia]. revert HL. sel_cases p.
  Qed.

  (** a boosted lower-medium value and a boosted small value do not occur together *)
  Lemma mixMS am az b1 b2 :
    lc am = [b1; lv am] -> lc az = [b2; lv az] -> okcore [b1; lv am] -> okcore [b2; lv az] ->
    C < 2 * b2 -> RcB am az ->
    3 * lv am <= C -> C - x < 3 * lv am -> 7 * (C - x) < 12 * (C - b1) ->
    3 * lv az <= C - x -> C - x < 2 * (C - b2) -> False.
  Proof.
    intros E1 E2 O1 O2 Hb2 HR M1 M2 M3 S1 S2. apply okcore2 in O1. apply okcore2 in O2.
    apply (no_mix_gen am az b1 (lv am) b2 (lv az) E1 E2); try assumption; lia.
  Qed.

  (** a fully boosted upper-small value and a boosted lower-small value do not occur together *)
  Lemma mixSS a1 a2 b1 b2 :
    lc a1 = [b1; lv a1] -> lc a2 = [b2; lv a2] -> okcore [b1; lv a1] -> okcore [b2; lv a2] ->
    C < 2 * b2 -> RcB a1 a2 ->
    3 * lv a1 <= C - x -> C < 4 * lv a1 -> 2 * C - x < 4 * (C - b1) ->
    4 * lv a2 <= C -> C - x < 2 * (C - b2) -> False.
  Proof.
    intros E1 E2 O1 O2 Hb2 HR A1 A2 A3 B1 B2. apply okcore2 in O1. apply okcore2 in O2.
    apply (no_mix_gen a1 a2 b1 (lv a1) b2 (lv a2) E1 E2); try assumption; lia.
  Qed.

  (** next to a big b whose only companion p is not of the largest class, and a further value: not boosted *)
  Lemma partner_unboosted5 a az b p z' :
    lc a = [b; p] -> okcore [b; p] -> C < 2 * b -> 2 * p <= C - x ->
    Vc az -> 2 * lv az <= C -> RcB a az -> x <= z' -> b + lv az + z' <= C ->
    wl5 az <= nu5 (lv az).
  Proof.
    intros E1 O1 Hb Hp Hv Hs HR Hz' Hsum. pose proof (okcore2 _ _ O1) as O1'.
    destruct (small_boost5 az Hv Hs) as [U|(b' & E2 & Hb' & O2 & Hr & _)]; [exact U|].
    exfalso. pose proof (okcore2 _ _ O2) as O2'.
    apply (boosted_vs_B15 a az b p b' (lv az) z' E1 E2 O1 O2 HR); lia.
  Qed.

  (** (180 - w p) + the two other values <= 220 *)
  Lemma double_partner_bound5 a a1 a2 b p :
    lc a = [b; p] -> okcore [b; p] -> C < 2 * b ->
    Vc a1 -> Vc a2 -> RcB a a1 -> RcB a a2 -> b + lv a1 + lv a2 <= C ->
    wl5 a1 + wl5 a2 <= wp5 b p + 40.
  Proof.
    intros E1 O1 Hb V1 V2 R1 R2 Hsum. pose proof (okcore2 _ _ O1) as O1'.
    pose proof (Vc_ge a1 V1) as G1. pose proof (Vc_ge a2 V2) as G2.
    assert (S1 : 2 * lv a1 <= C) by lia. assert (S2 : 2 * lv a2 <= C) by lia.
    pose proof (wl5_small_bound a1 V1 S1) as B1. pose proof (wl5_small_bound a2 V2 S2) as B2.
    destruct (Z_lt_le_dec (C - x) (2 * p)) as [HL|HnL].
    - (* the companion is large *)
      destruct (wp5_spec b p) as [W|[W|[W|[W|[W|[W|[W|[W|[W|W]]]]]]]]]; try lia.
      destruct (nu51_spec (lv a1)) as [N1|[N1|[N1|[N1|[N1|N1]]]]];
        destruct (nu51_spec (lv a2)) as [N2|[N2|[N2|[N2|[N2|N2]]]]]; lia.
    - assert (U1 : wl5 a1 <= nu5 (lv a1)) by (apply (partner_unboosted5 a a1 b p (lv a2)); try assumption; lia).
      assert (U2 : wl5 a2 <= nu5 (lv a2)) by (apply (partner_unboosted5 a a2 b p (lv a1)); try assumption; lia).
      destruct (wp5_spec b p) as [W|[W|[W|[W|[W|[W|[W|[W|[W|W]]]]]]]]]; try lia;
        destruct (nu5_spec (lv a1)) as [N1|[N1|[N1|[N1|[N1|N1]]]]];
        destruct (nu5_spec (lv a2)) as [N2|[N2|[N2|[N2|[N2|N2]]]]]; lia.
  Qed.

  (** (180 - w p) + one other value <= 220 *)
  Lemma single_partner_bound5 a a1 b p :
    lc a = [b; p] -> okcore [b; p] -> C < 2 * b ->
    Vc a1 -> RcB a a1 -> b + lv a1 <= C -> wl5 a1 <= wp5 b p + 40.
  Proof.
    intros E1 O1 Hb V1 R1 Hsum. pose proof (okcore2 _ _ O1) as O1'.
    pose proof (Vc_ge a1 V1) as G1. assert (S1 : 2 * lv a1 <= C) by lia.
    pose proof (wl5_small_bound a1 V1 S1) as B1. pose proof (wp5_range b p) as Wr.
    destruct (small_kind5 a1 V1 S1) as [[Hh K]|[(Hh & Hm & K)|(b' & E2 & Hb' & Hb'' & K)]]; rewrite K.
    - (* a value above C/3 of a bin without big value is at most p *)
      assert (Hle : C < 3 * lv a1 -> lv a1 <= p).
      { intros H3. destruct (Z_le_gt_dec (lv a1) p) as [Hle|Hgt]; [exact Hle|exfalso].
        unfold RcB in R1. rewrite E1 in R1. destruct R1 as [E|[HL|HL]].
        - rewrite <- E in Hh. cbn [hd] in Hh. lia.
        - pose proof (LaterB_in3 _ _ _ HL (proj1 V1) (Vc_in a1 V1) ltac:(lia)) as HL'. revert HL'. sel_cases (lv a1).
        - destruct HL as [HL _]. cbn [hd] in HL. lia. }
      destruct (wp5_spec b p) as [W|[W|[W|[W|[W|[W|[W|[W|[W|W]]]]]]]]];
        destruct (nu5_spec (lv a1)) as [N1|[N1|[N1|[N1|[N1|N1]]]]]; lia.
    - destruct (nu5_spec (lv a1)) as [N1|[N1|[N1|[N1|[N1|N1]]]]]; lia.
    - pose proof (wp5_range b' (lv a1)). lia.
  Qed.

  (** two values that fit beside a big value weigh at most 112 *)
  Lemma pair_bound5 a1 a2 : Vc a1 -> Vc a2 -> RcB a1 a2 -> lv a2 <= lv a1 ->
    2 * (lv a1 + lv a2) < C -> wl5 a1 + wl5 a2 <= 112.
  Proof.
    intros V1 V2 HR Hle Hsum. pose proof (Vc_ge a1 V1) as G1. pose proof (Vc_ge a2 V2) as G2.
    assert (S1 : 2 * lv a1 <= C) by lia. assert (S2 : 2 * lv a2 <= C) by lia.
    pose proof (wl5_small_bound a1 V1 S1) as B1. pose proof (wl5_small_bound a2 V2 S2) as B2.
    destruct (nu51_spec (lv a1)) as [N1|[N1|[N1|[N1|[N1|N1]]]]];
      destruct (nu51_spec (lv a2)) as [N2|[N2|[N2|[N2|[N2|N2]]]]]; try lia.
    (* lower medium + lower small *)
    destruct (boostM a1 V1 ltac:(lia) ltac:(lia)) as [U1|(b1 & E1 & Hb1 & O1 & T1 & K1)]; [lia|].
    destruct (boostSm a2 V2 ltac:(lia) ltac:(lia)) as [U2|(b2 & E2 & Hb2 & O2 & T2 & K2)]; [lia|].
    exfalso. apply (mixMS a1 a2 b1 b2 E1 E2 O1 O2 Hb2 HR); lia.
  Qed.

  (** upper medium, lower medium, lower small, tiny *)
  Lemma pat1 u m s t : Vc u -> Vc m -> Vc s -> Vc t -> RcB m s ->
    2 * lv u <= C - x -> C < 3 * lv u -> 3 * lv m <= C -> C - x < 3 * lv m ->
    4 * lv s <= C -> C - x < 4 * lv s -> 4 * lv t <= C - x ->
    wl5 u + wl5 m + wl5 s + wl5 t <= 220.
  Proof.
    intros Vu Vm Vs Vt HR U1 U2 M1 M2 S1 S2 T1.
    pose proof (Vc_ge t Vt) as Gt.
    pose proof (wl5_small_bound u Vu ltac:(lia)) as Bu. pose proof (wl5_small_bound t Vt ltac:(lia)) as Bt.
    destruct (nu51_spec (lv u)) as [Nu|[Nu|[Nu|[Nu|[Nu|Nu]]]]]; try lia.
    destruct (nu51_spec (lv t)) as [Nt|[Nt|[Nt|[Nt|[Nt|Nt]]]]]; try lia.
    destruct (boostM m Vm M1 M2) as [Um|(b1 & E1 & Hb1 & O1 & T1' & K1)];
    destruct (boostSm s Vs S1 S2) as [Us|(b2 & E2 & Hb2 & O2 & T2 & K2)]; try lia.
    exfalso. apply (mixMS m s b1 b2 E1 E2 O1 O2 Hb2 HR); lia.
  Qed.

  (** an upper medium value of a bin without big value meets no boosted smaller value *)
  Lemma natural_Mp_unboosted u z : Vc u -> Vc z -> RcB u z -> 2 * hd 0 (lc u) <= C ->
    2 * lv u <= C - x -> C < 3 * lv u -> 3 * lv z <= C -> wl5 z <= nu5 (lv z).
  Proof.
    intros Vu Vz HR Hh U1 U2 Z1. pose proof (Vc_ge z Vz) as Gz.
    destruct (small_boost5 z Vz ltac:(lia)) as [U|(b' & E2 & Hb' & O2 & Hr & _)]; [exact U|].
    exfalso. apply (late_fits_contra u z b' (lv z) Vu Hh E2 Hb'); [lia|lia|lia|exact HR].
  Qed.

  (** upper medium + three lower small *)
  Lemma pat3 u s1 s2 s3 : Vc u -> Vc s1 -> Vc s2 -> Vc s3 -> RcB u s1 -> RcB u s2 -> RcB u s3 ->
    2 * lv u <= C - x -> C < 3 * lv u ->
    4 * lv s1 <= C -> C - x < 4 * lv s1 -> 4 * lv s2 <= C -> C - x < 4 * lv s2 ->
    4 * lv s3 <= C -> C - x < 4 * lv s3 ->
    wl5 u + wl5 s1 + wl5 s2 + wl5 s3 <= 220.
  Proof.
    intros Vu V1 V2 V3 R1 R2 R3 U1 U2 A1 A2 B1 B2 C1 C2.
    pose proof (Vc_ge s1 V1). pose proof (Vc_ge s2 V2). pose proof (Vc_ge s3 V3).
    pose proof (wl5_small_bound s1 V1 ltac:(lia)) as W1. pose proof (wl5_small_bound s2 V2 ltac:(lia)) as W2.
    pose proof (wl5_small_bound s3 V3 ltac:(lia)) as W3.
    destruct (nu51_spec (lv s1)) as [N1|[N1|[N1|[N1|[N1|N1]]]]]; try lia.
    destruct (nu51_spec (lv s2)) as [N2|[N2|[N2|[N2|[N2|N2]]]]]; try lia.
    destruct (nu51_spec (lv s3)) as [N3|[N3|[N3|[N3|[N3|N3]]]]]; try lia.
    destruct (Mp_kind u Vu U1 U2) as [[Hh K]|K]; [|lia].
    pose proof (natural_Mp_unboosted u s1 Vu V1 R1 Hh U1 U2 ltac:(lia)).
    pose proof (natural_Mp_unboosted u s2 Vu V2 R2 Hh U1 U2 ltac:(lia)).
    pose proof (natural_Mp_unboosted u s3 Vu V3 R3 Hh U1 U2 ltac:(lia)). lia.
  Qed.

  (** upper medium + upper small + two lower small *)
  Lemma pat2 u p s1 s2 : Vc u -> Vc p -> Vc s1 -> Vc s2 -> RcB u p -> RcB u s1 -> RcB u s2 -> RcB p s1 -> RcB p s2 ->
    2 * lv u <= C - x -> C < 3 * lv u -> 3 * lv p <= C - x -> C < 4 * lv p ->
    4 * lv s1 <= C -> C - x < 4 * lv s1 -> 4 * lv s2 <= C -> C - x < 4 * lv s2 ->
    wl5 u + wl5 p + wl5 s1 + wl5 s2 <= 220.
  Proof.
    intros Vu Vp V1 V2 Rp R1 R2 P1 P2 U1 U2 A1 A2 B1 B2 C1 C2.
    pose proof (Vc_ge s1 V1). pose proof (Vc_ge s2 V2). pose proof (Vc_ge p Vp).
    destruct (Mp_kind u Vu U1 U2) as [[Hh K]|K].
    - pose proof (natural_Mp_unboosted u p Vu Vp Rp Hh U1 U2 ltac:(lia)).
      pose proof (natural_Mp_unboosted u s1 Vu V1 R1 Hh U1 U2 ltac:(lia)).
      pose proof (natural_Mp_unboosted u s2 Vu V2 R2 Hh U1 U2 ltac:(lia)).
      destruct (nu5_spec (lv p)) as [Np|[Np|[Np|[Np|[Np|Np]]]]]; try lia.
      destruct (nu5_spec (lv s1)) as [N1|[N1|[N1|[N1|[N1|N1]]]]]; try lia.
      destruct (nu5_spec (lv s2)) as [N2|[N2|[N2|[N2|[N2|N2]]]]]; lia.
    - destruct (boostSp p Vp A1 A2) as [Up|(b0 & E0 & Hb0 & O0 & T0 & [[T0' K0]|[T0' K0]])];
      destruct (boostSm s1 V1 B1 B2) as [Us1|(b1 & E1 & Hb1 & O1 & T1 & K1)];
      destruct (boostSm s2 V2 C1 C2) as [Us2|(b2 & E2 & Hb2 & O2 & T2 & K2)]; try lia; exfalso.
      all: first [ apply (mixSS p s1 b0 b1 E0 E1 O0 O1 Hb1 P1); lia
                 | apply (mixSS p s2 b0 b2 E0 E2 O0 O2 Hb2 P2); lia ].
  Qed.

  (** two lower medium + upper small + lower small *)
  Lemma pat4 m1 m2 p s : Vc m1 -> Vc m2 -> Vc p -> Vc s ->
    RcB m1 p -> RcB m1 s -> RcB m2 p -> RcB m2 s -> RcB p s ->
    3 * lv m1 <= C -> C - x < 3 * lv m1 -> 3 * lv m2 <= C -> C - x < 3 * lv m2 ->
    3 * lv p <= C - x -> C < 4 * lv p -> 4 * lv s <= C -> C - x < 4 * lv s ->
    lv m1 + lv m2 + lv p + lv s <= C ->
    wl5 m1 + wl5 m2 + wl5 p + wl5 s <= 220.
  Proof.
    intros V1 V2 Vp Vs R1p R1s R2p R2s Rps A1 A2 B1 B2 P1 P2 S1 S2 Hsum.
    destruct (boostM m1 V1 A1 A2) as [U1|(b1 & E1 & Hb1 & O1 & T1 & K1)];
    destruct (boostM m2 V2 B1 B2) as [U2|(b2 & E2 & Hb2 & O2 & T2 & K2)];
    destruct (boostSp p Vp P1 P2) as [Up|(b3 & E3 & Hb3 & O3 & T3 & [[T3' K3]|[T3' K3]])];
    destruct (boostSm s Vs S1 S2) as [Us|(b4 & E4 & Hb4 & O4 & T4 & K4)]; try lia; exfalso.
    all: first [ apply (mixMS m1 p b1 b3 E1 E3 O1 O3 Hb3 R1p); lia
               | apply (mixMS m1 s b1 b4 E1 E4 O1 O4 Hb4 R1s); lia
               | apply (mixMS m2 p b2 b3 E2 E3 O2 O3 Hb3 R2p); lia
               | apply (mixMS m2 s b2 b4 E2 E4 O2 O4 Hb4 R2s); lia
               | apply (mixSS p s b3 b4 E3 E4 O3 O4 Hb4 Rps); lia
               | (apply okcore2 in O1; apply okcore2 in O2; lia) ].
  Qed.

  (** two lower medium + two lower small *)
  Lemma pat5 m1 m2 s1 s2 : Vc m1 -> Vc m2 -> Vc s1 -> Vc s2 ->
    RcB m1 s1 -> RcB m1 s2 -> RcB m2 s1 -> RcB m2 s2 ->
    3 * lv m1 <= C -> C - x < 3 * lv m1 -> 3 * lv m2 <= C -> C - x < 3 * lv m2 ->
    4 * lv s1 <= C -> C - x < 4 * lv s1 -> 4 * lv s2 <= C -> C - x < 4 * lv s2 ->
    wl5 m1 + wl5 m2 + wl5 s1 + wl5 s2 <= 220.
  Proof.
    intros V1 V2 V3 V4 R13 R14 R23 R24 A1 A2 B1 B2 C1 C2 D1 D2.
    destruct (boostM m1 V1 A1 A2) as [U1|(b1 & E1 & Hb1 & O1 & T1 & K1)];
    destruct (boostM m2 V2 B1 B2) as [U2|(b2 & E2 & Hb2 & O2 & T2 & K2)];
    destruct (boostSm s1 V3 C1 C2) as [U3|(b3 & E3 & Hb3 & O3 & T3 & K3)];
    destruct (boostSm s2 V4 D1 D2) as [U4|(b4 & E4 & Hb4 & O4 & T4 & K4)]; try lia; exfalso.
    all: first [ apply (mixMS m1 s1 b1 b3 E1 E3 O1 O3 Hb3 R13); lia
               | apply (mixMS m1 s2 b1 b4 E1 E4 O1 O4 Hb4 R14); lia
               | apply (mixMS m2 s1 b2 b3 E2 E3 O2 O3 Hb3 R23); lia
               | apply (mixMS m2 s2 b2 b4 E2 E4 O2 O4 Hb4 R24); lia ].
  Qed.

  (** lower medium + two upper small + lower small *)
  Lemma pat6 m p1 p2 s : Vc m -> Vc p1 -> Vc p2 -> Vc s -> RcB m p1 -> RcB m p2 -> RcB m s ->
    3 * lv m <= C -> C - x < 3 * lv m -> 3 * lv p1 <= C - x -> C < 4 * lv p1 ->
    3 * lv p2 <= C - x -> C < 4 * lv p2 -> 4 * lv s <= C -> C - x < 4 * lv s ->
    wl5 m + wl5 p1 + wl5 p2 + wl5 s <= 220.
  Proof.
    intros Vm V1 V2 Vs R1 R2 Rs A1 A2 B1 B2 C1 C2 D1 D2.
    pose proof (Vc_ge s Vs).
    pose proof (wl5_small_bound p1 V1 ltac:(lia)) as W1. pose proof (wl5_small_bound p2 V2 ltac:(lia)) as W2.
    pose proof (wl5_small_bound s Vs ltac:(lia)) as W3.
    destruct (nu51_spec (lv p1)) as [N1|[N1|[N1|[N1|[N1|N1]]]]]; try lia.
    destruct (nu51_spec (lv p2)) as [N2|[N2|[N2|[N2|[N2|N2]]]]]; try lia.
    destruct (nu51_spec (lv s)) as [N3|[N3|[N3|[N3|[N3|N3]]]]]; try lia.
    destruct (boostM m Vm A1 A2) as [U|(b1 & E1 & Hb1 & O1 & T1 & K1)]; [lia|].
    destruct (boostSp p1 V1 B1 B2) as [U1|(b2 & E2 & Hb2 & O2 & T2 & _)];
      [|exfalso; apply (mixMS m p1 b1 b2 E1 E2 O1 O2 Hb2 R1); lia].
    destruct (boostSp p2 V2 C1 C2) as [U2|(b3 & E3 & Hb3 & O3 & T3 & _)];
      [|exfalso; apply (mixMS m p2 b1 b3 E1 E3 O1 O3 Hb3 R2); lia].
    destruct (boostSm s Vs D1 D2) as [U3|(b4 & E4 & Hb4 & O4 & T4 & _)];
      [|exfalso; apply (mixMS m s b1 b4 E1 E4 O1 O4 Hb4 Rs); lia].
    lia.
  Qed.

  Lemma group52 a b : Vc a -> Vc b -> RcB a b -> lv b <= lv a -> lv a + lv b <= C -> wl5 a + wl5 b <= 220.
  Proof.
    intros Va Vb Rab Hab Hsum. pose proof (Vc_ge a Va) as Ga. pose proof (Vc_ge b Vb) as Gb.
    assert (Sb : 2 * lv b <= C) by lia. pose proof (wl5_small_bound b Vb Sb) as Bb.
    destruct (Z_lt_le_dec C (2 * lv a)) as [Hbig|Hsm].
    - destruct (big_kind5 a Va Hbig) as [[Hz K]|[(p & E & Hle & K)|[_ K]]].
      + lia.
      + assert (O : okcore [lv a; p]) by (rewrite <- E; apply Va).
        pose proof (single_partner_bound5 a b (lv a) p E O Hbig Vb Rab Hsum). lia.
      + n51 b Nn.
    - pose proof (wl5_small_bound a Va Hsm) as Ba. n51 a Na; n51 b Nb.
  Qed.

  Lemma group53 a b c : Vc a -> Vc b -> Vc c -> RcB a b -> RcB a c -> RcB b c ->
    lv b <= lv a -> lv c <= lv b -> lv a + lv b + lv c <= C -> wl5 a + wl5 b + wl5 c <= 220.
  Proof.
    intros Va Vb Vv Rab Rac Rbc Hab Hbc Hsum.
    pose proof (Vc_ge a Va) as Ga. pose proof (Vc_ge b Vb) as Gb. pose proof (Vc_ge c Vv) as Gc.
    assert (Sb : 2 * lv b <= C) by lia. pose proof (wl5_small_bound b Vb Sb) as Bb.
    assert (Sc : 2 * lv c <= C) by lia. pose proof (wl5_small_bound c Vv Sc) as Bc.
    destruct (Z_lt_le_dec C (2 * lv a)) as [Hbig|Hsm].
    - destruct (big_kind5 a Va Hbig) as [[Hz K]|[(p & E & Hle & K)|[_ K]]].
      + lia.
      + assert (O : okcore [lv a; p]) by (rewrite <- E; apply Va).
        pose proof (double_partner_bound5 a b c (lv a) p E O Hbig Vb Vv Rab Rac Hsum). lia.
      + pose proof (pair_bound5 b c Vb Vv Rbc Hbc ltac:(lia)). lia.
    - pose proof (wl5_small_bound a Va Hsm) as Ba. n51 a Na; n51 b Nb; n51 c Nc.
  Qed.

  Lemma group54 a b c d : Vc a -> Vc b -> Vc c -> Vc d ->
    RcB a b -> RcB a c -> RcB a d -> RcB b c -> RcB b d -> RcB c d ->
    lv b <= lv a -> lv c <= lv b -> lv d <= lv c -> lv a + lv b + lv c + lv d <= C ->
    wl5 a + wl5 b + wl5 c + wl5 d <= 220.
  Proof.
    intros Va Vb Vv Vd Rab Rac Rad Rbc Rbd Rcd Hab Hbc Hcd Hsum.
    pose proof (Vc_ge a Va) as Ga. pose proof (Vc_ge b Vb) as Gb. pose proof (Vc_ge c Vv) as Gc.
    pose proof (Vc_ge d Vd) as Gd.
    assert (Sa : 2 * lv a <= C) by lia. pose proof (wl5_small_bound a Va Sa) as Ba.
    assert (Sb : 2 * lv b <= C) by lia. pose proof (wl5_small_bound b Vb Sb) as Bb.
    assert (Sc : 2 * lv c <= C) by lia. pose proof (wl5_small_bound c Vv Sc) as Bc.
    assert (Sd : 2 * lv d <= C) by lia. pose proof (wl5_small_bound d Vd Sd) as Bd.
    n51 a Na; n51 b Nb; n51 c Nc; n51 d Nd.
    all: first [ apply pat1; (assumption || lia)
               | apply pat2; (assumption || lia)
               | apply pat3; (assumption || lia)
               | apply pat4; (assumption || lia)
               | apply pat5; (assumption || lia)
               | apply pat6; (assumption || lia) ].
  Qed.

  Lemma light_sorted5 g : Forall Vc g -> AllPairs RcB g ->
    StronglySorted (fun a b => lv b <= lv a) g -> gv g <= C -> gw5 g <= 220.
  Proof.
    intros HV HR HS Hsum.
    destruct g as [|a [|b [|c [|d [|e [|f r]]]]]].
    - cbn. lia.
    - fa HV Va. unfold gw. cbn [map]. rewrite pk_zsum_cons, pk_zsum_nil. pose proof (group51 a Va). lia.
    - fa HV Va. fa HV Vb. cbn [AllPairs] in HR. destruct HR as (Ra & _). fa Ra Rab.
      inversion HS as [|a' l1 HS1 Ha]; subst. fa Ha Hab.
      unfold gv, gw in *. cbn [map] in *. rewrite !pk_zsum_cons, pk_zsum_nil in *.
      pose proof (group52 a b Va Vb Rab Hab ltac:(lia)). lia.
    - fa HV Va. fa HV Vb. fa HV Vv. cbn [AllPairs] in HR. destruct HR as (Ra & Rb & _).
      fa Ra Rab. fa Ra Rac. fa Rb Rbc.
      inversion HS as [|a' l1 HS1 Ha]; subst. fa Ha Hab. inversion HS1 as [|b' l2 HS2 Hb]; subst. fa Hb Hbc.
      unfold gv, gw in *. cbn [map] in *. rewrite !pk_zsum_cons, pk_zsum_nil in *.
      pose proof (group53 a b c Va Vb Vv Rab Rac Rbc Hab Hbc ltac:(lia)). lia.
    - fa HV Va. fa HV Vb. fa HV Vv. fa HV Vd. cbn [AllPairs] in HR. destruct HR as (Ra & Rb & RcB' & _).
      fa Ra Rab. fa Ra Rac. fa Ra Rad. fa Rb Rbc. fa Rb Rbd. fa RcB' Rcd.
      inversion HS as [|a' l1 HS1 Ha]; subst. fa Ha Hab. inversion HS1 as [|b' l2 HS2 Hb]; subst. fa Hb Hbc.
      inversion HS2 as [|c' l3 HS3 Hc]; subst. fa Hc Hcd.
      unfold gv, gw in *. cbn [map] in *. rewrite !pk_zsum_cons, pk_zsum_nil in *.
      pose proof (group54 a b c d Va Vb Vv Vd Rab Rac Rad Rbc Rbd Rcd Hab Hbc Hcd ltac:(lia)). lia.
    - fa HV Va. fa HV Vb. fa HV Vv. fa HV Vd. fa HV Ve.
      inversion HS as [|a' l1 HS1 Ha]; subst. fa Ha Hab. inversion HS1 as [|b' l2 HS2 Hb]; subst. fa Hb Hbc.
      inversion HS2 as [|c' l3 HS3 Hc]; subst. fa Hc Hcd. inversion HS3 as [|d' l4 HS4 Hd]; subst. fa Hd Hde.
      unfold gv, gw in *. cbn [map] in *. rewrite !pk_zsum_cons, pk_zsum_nil in *.
      pose proof (group55 a b c d e Va Vb Vv Vd Ve Hab Hbc Hcd Hde ltac:(lia)). lia.
    - exfalso. fa HV Va. fa HV Vb. fa HV Vv. fa HV Vd. fa HV Ve. fa HV Vf.
      pose proof (Vc_ge a Va). pose proof (Vc_ge b Vb). pose proof (Vc_ge c Vv). pose proof (Vc_ge d Vd).
      pose proof (Vc_ge e Ve). pose proof (Vc_ge f Vf). pose proof (gv_ge r HV) as Hr.
      assert (0 <= x * Z.of_nat (length r)) by (apply Z.mul_nonneg_nonneg; lia).
      rewrite !gv_cons in Hsum. lia.
  Qed.

  (** ---- the bins are heavy ---- *)
  Lemma bighead_full5 c : okcore c -> C < 2 * hd 0 c -> 180 <= cw5 c.
  Proof.
    intros (Hge & Hsum & Hcl & Hhd) Hb. unfold FFD119MidProofs.cw.
    destruct c as [|b Q]; [cbn [hd] in Hb; lia|]. cbn [hd] in Hb.
    unfold FFD119MidProofs.Wcore5. destruct (C <? 2 * b) eqn:EB; [|lia].
    destruct (C - x <? b) eqn:EZ.
    - rewrite pk_zsum_cons, zsum_const. lia.
    - destruct Q as [|p [|q Q]]; rewrite ?pk_zsum_cons, ?pk_zsum_nil; cbn [map]; rewrite ?pk_zsum_cons, ?pk_zsum_nil; lia.
  Qed.


  Lemma heavy5_EB : forall cs, chainB cs -> none isL cs -> none isMp cs -> none isMm cs -> none isSp cs -> none isSm cs ->
    180 * Z.of_nat (length cs) <= tw5 cs + 0.
  Proof.
    induction cs as [|c r IH]; intros Hch N1 N2 N3 N4 N5; [rewrite tw_nil; cbn [length Z.of_nat]; lia|].
    cbn [chainB] in Hch. destruct Hch as (Ho & HL & Hch). rewrite tw_cons. cbn [length]. rewrite Nat2Z.inj_succ.
    unfold none in N1; apply Forall_cons_iff in N1; destruct N1 as [N1c N1].
    unfold none in N2; apply Forall_cons_iff in N2; destruct N2 as [N2c N2].
    unfold none in N3; apply Forall_cons_iff in N3; destruct N3 as [N3c N3].
    unfold none in N4; apply Forall_cons_iff in N4; destruct N4 as [N4c N4].
    unfold none in N5; apply Forall_cons_iff in N5; destruct N5 as [N5c N5].
    specialize (IH Hch N1 N2 N3 N4 N5).
    destruct (Z_lt_le_dec C (2 * hd 0 c)) as [Hbig|Hsm]; [pose proof (bighead_full5 c Ho Hbig); lia|].
    destruct (core_cases5 c Ho) as [H|[(H & HE & F1)|[(H & HE & F1 & F2)|[(H & HE & F1 & F2 & F3)|[(H & HE & F1 & F2 & F3 & F4)|(H & HE & F1 & F2 & F3 & F4 & F5)]]]]]; [lia| | | | |].
    - exfalso. exact (Exists_Forall_neg _ _ HE N1c).
    - exfalso. exact (Exists_Forall_neg _ _ HE N2c).
    - exfalso. exact (Exists_Forall_neg _ _ HE N3c).
    - exfalso. exact (Exists_Forall_neg _ _ HE N4c).
    - exfalso. exact (Exists_Forall_neg _ _ HE N5c).
  Qed.

  Lemma heavy5_DB : forall cs, chainB cs -> none isL cs -> none isMp cs -> none isMm cs -> none isSp cs ->
    180 * Z.of_nat (length cs) <= tw5 cs + 30.
  Proof.
    induction cs as [|c r IH]; intros Hch N1 N2 N3 N4; [rewrite tw_nil; cbn [length Z.of_nat]; lia|].
    cbn [chainB] in Hch. destruct Hch as (Ho & HL & Hch). rewrite tw_cons. cbn [length]. rewrite Nat2Z.inj_succ.
    unfold none in N1; apply Forall_cons_iff in N1; destruct N1 as [N1c N1].
    unfold none in N2; apply Forall_cons_iff in N2; destruct N2 as [N2c N2].
    unfold none in N3; apply Forall_cons_iff in N3; destruct N3 as [N3c N3].
    unfold none in N4; apply Forall_cons_iff in N4; destruct N4 as [N4c N4].
    specialize (IH Hch N1 N2 N3 N4).
    destruct (Z_lt_le_dec C (2 * hd 0 c)) as [Hbig|Hsm]; [pose proof (bighead_full5 c Ho Hbig); lia|].
    destruct (core_cases5 c Ho) as [H|[(H & HE & F1)|[(H & HE & F1 & F2)|[(H & HE & F1 & F2 & F3)|[(H & HE & F1 & F2 & F3 & F4)|(H & HE & F1 & F2 & F3 & F4 & F5)]]]]]; [lia| | | | |].
    - exfalso. exact (Exists_Forall_neg _ _ HE N1c).
    - exfalso. exact (Exists_Forall_neg _ _ HE N2c).
    - exfalso. exact (Exists_Forall_neg _ _ HE N3c).
    - exfalso. exact (Exists_Forall_neg _ _ HE N4c).
    - pose proof (after_Sm c r Hch HL Hsm N1 N2 N3 N4 F5) as N5.
      pose proof (heavy5_EB r Hch N1 N2 N3 N4 N5). lia.
  Qed.

  Lemma heavy5_CB : forall cs, chainB cs -> none isL cs -> none isMp cs -> none isMm cs ->
    180 * Z.of_nat (length cs) <= tw5 cs + 60.
  Proof.
    induction cs as [|c r IH]; intros Hch N1 N2 N3; [rewrite tw_nil; cbn [length Z.of_nat]; lia|].
    cbn [chainB] in Hch. destruct Hch as (Ho & HL & Hch). rewrite tw_cons. cbn [length]. rewrite Nat2Z.inj_succ.
    unfold none in N1; apply Forall_cons_iff in N1; destruct N1 as [N1c N1].
    unfold none in N2; apply Forall_cons_iff in N2; destruct N2 as [N2c N2].
    unfold none in N3; apply Forall_cons_iff in N3; destruct N3 as [N3c N3].
    specialize (IH Hch N1 N2 N3).
    destruct (Z_lt_le_dec C (2 * hd 0 c)) as [Hbig|Hsm]; [pose proof (bighead_full5 c Ho Hbig); lia|].
    destruct (core_cases5 c Ho) as [H|[(H & HE & F1)|[(H & HE & F1 & F2)|[(H & HE & F1 & F2 & F3)|[(H & HE & F1 & F2 & F3 & F4)|(H & HE & F1 & F2 & F3 & F4 & F5)]]]]]; [lia| | | | |].
    - exfalso. exact (Exists_Forall_neg _ _ HE N1c).
    - exfalso. exact (Exists_Forall_neg _ _ HE N2c).
    - exfalso. exact (Exists_Forall_neg _ _ HE N3c).
    - pose proof (after_Sp c r Hch HL Hsm N1 N2 N3 F4) as N4.
      pose proof (heavy5_DB r Hch N1 N2 N3 N4). lia.
    - pose proof (after_Sp c r Hch HL Hsm N1 N2 N3 F4) as N4.
      pose proof (after_Sm c r Hch HL Hsm N1 N2 N3 N4 F5) as N5.
      pose proof (heavy5_EB r Hch N1 N2 N3 N4 N5). lia.
  Qed.

  Lemma heavy5_BB : forall cs, chainB cs -> none isL cs -> none isMp cs ->
    180 * Z.of_nat (length cs) <= tw5 cs + 90.
  Proof.
    induction cs as [|c r IH]; intros Hch N1 N2; [rewrite tw_nil; cbn [length Z.of_nat]; lia|].
    cbn [chainB] in Hch. destruct Hch as (Ho & HL & Hch). rewrite tw_cons. cbn [length]. rewrite Nat2Z.inj_succ.
    unfold none in N1; apply Forall_cons_iff in N1; destruct N1 as [N1c N1].
    unfold none in N2; apply Forall_cons_iff in N2; destruct N2 as [N2c N2].
    specialize (IH Hch N1 N2).
    destruct (Z_lt_le_dec C (2 * hd 0 c)) as [Hbig|Hsm]; [pose proof (bighead_full5 c Ho Hbig); lia|].
    destruct (core_cases5 c Ho) as [H|[(H & HE & F1)|[(H & HE & F1 & F2)|[(H & HE & F1 & F2 & F3)|[(H & HE & F1 & F2 & F3 & F4)|(H & HE & F1 & F2 & F3 & F4 & F5)]]]]]; [lia| | | | |].
    - exfalso. exact (Exists_Forall_neg _ _ HE N1c).
    - exfalso. exact (Exists_Forall_neg _ _ HE N2c).
    - pose proof (after_Mm c r Hch HL Hsm N1 N2 F3) as N3.
      pose proof (heavy5_CB r Hch N1 N2 N3). lia.
    - pose proof (after_Mm c r Hch HL Hsm N1 N2 F3) as N3.
      pose proof (after_Sp c r Hch HL Hsm N1 N2 N3 F4) as N4.
      pose proof (heavy5_DB r Hch N1 N2 N3 N4). lia.
    - pose proof (after_Mm c r Hch HL Hsm N1 N2 F3) as N3.
      pose proof (after_Sp c r Hch HL Hsm N1 N2 N3 F4) as N4.
      pose proof (after_Sm c r Hch HL Hsm N1 N2 N3 N4 F5) as N5.
      pose proof (heavy5_EB r Hch N1 N2 N3 N4 N5). lia.
  Qed.

  Lemma heavy5_AB : forall cs, chainB cs -> none isL cs ->
    180 * Z.of_nat (length cs) <= tw5 cs + 120.
  Proof.
    induction cs as [|c r IH]; intros Hch N1; [rewrite tw_nil; cbn [length Z.of_nat]; lia|].
    cbn [chainB] in Hch. destruct Hch as (Ho & HL & Hch). rewrite tw_cons. cbn [length]. rewrite Nat2Z.inj_succ.
    unfold none in N1; apply Forall_cons_iff in N1; destruct N1 as [N1c N1].
    specialize (IH Hch N1).
    destruct (Z_lt_le_dec C (2 * hd 0 c)) as [Hbig|Hsm]; [pose proof (bighead_full5 c Ho Hbig); lia|].
    destruct (core_cases5 c Ho) as [H|[(H & HE & F1)|[(H & HE & F1 & F2)|[(H & HE & F1 & F2 & F3)|[(H & HE & F1 & F2 & F3 & F4)|(H & HE & F1 & F2 & F3 & F4 & F5)]]]]]; [lia| | | | |].
    - exfalso. exact (Exists_Forall_neg _ _ HE N1c).
    - pose proof (after_Mp c r Hch HL Hsm N1 F2) as N2.
      pose proof (heavy5_BB r Hch N1 N2). lia.
    - pose proof (after_Mp c r Hch HL Hsm N1 F2) as N2.
      pose proof (after_Mm c r Hch HL Hsm N1 N2 F3) as N3.
      pose proof (heavy5_CB r Hch N1 N2 N3). lia.
    - pose proof (after_Mp c r Hch HL Hsm N1 F2) as N2.
      pose proof (after_Mm c r Hch HL Hsm N1 N2 F3) as N3.
      pose proof (after_Sp c r Hch HL Hsm N1 N2 N3 F4) as N4.
      pose proof (heavy5_DB r Hch N1 N2 N3 N4). lia.
    - pose proof (after_Mp c r Hch HL Hsm N1 F2) as N2.
      pose proof (after_Mm c r Hch HL Hsm N1 N2 F3) as N3.
      pose proof (after_Sp c r Hch HL Hsm N1 N2 N3 F4) as N4.
      pose proof (after_Sm c r Hch HL Hsm N1 N2 N3 N4 F5) as N5.
      pose proof (heavy5_EB r Hch N1 N2 N3 N4 N5). lia.
  Qed.

  Lemma heavy5B : forall cs, chainB cs ->
    180 * Z.of_nat (length cs) <= tw5 cs + 150.
  Proof.
    induction cs as [|c r IH]; intros Hch ; [rewrite tw_nil; cbn [length Z.of_nat]; lia|].
    cbn [chainB] in Hch. destruct Hch as (Ho & HL & Hch). rewrite tw_cons. cbn [length]. rewrite Nat2Z.inj_succ.
    specialize (IH Hch ).
    destruct (Z_lt_le_dec C (2 * hd 0 c)) as [Hbig|Hsm]; [pose proof (bighead_full5 c Ho Hbig); lia|].
    destruct (core_cases5 c Ho) as [H|[(H & HE & F1)|[(H & HE & F1 & F2)|[(H & HE & F1 & F2 & F3)|[(H & HE & F1 & F2 & F3 & F4)|(H & HE & F1 & F2 & F3 & F4 & F5)]]]]]; [lia| | | | |].
    - pose proof (after_L c r Hch HL Hsm  F1) as N1.
      pose proof (heavy5_AB r Hch N1). lia.
    - pose proof (after_L c r Hch HL Hsm  F1) as N1.
      pose proof (after_Mp c r Hch HL Hsm N1 F2) as N2.
      pose proof (heavy5_BB r Hch N1 N2). lia.
    - pose proof (after_L c r Hch HL Hsm  F1) as N1.
      pose proof (after_Mp c r Hch HL Hsm N1 F2) as N2.
      pose proof (after_Mm c r Hch HL Hsm N1 N2 F3) as N3.
      pose proof (heavy5_CB r Hch N1 N2 N3). lia.
    - pose proof (after_L c r Hch HL Hsm  F1) as N1.
      pose proof (after_Mp c r Hch HL Hsm N1 F2) as N2.
      pose proof (after_Mm c r Hch HL Hsm N1 N2 F3) as N3.
      pose proof (after_Sp c r Hch HL Hsm N1 N2 N3 F4) as N4.
      pose proof (heavy5_DB r Hch N1 N2 N3 N4). lia.
    - pose proof (after_L c r Hch HL Hsm  F1) as N1.
      pose proof (after_Mp c r Hch HL Hsm N1 F2) as N2.
      pose proof (after_Mm c r Hch HL Hsm N1 N2 F3) as N3.
      pose proof (after_Sp c r Hch HL Hsm N1 N2 N3 F4) as N4.
      pose proof (after_Sm c r Hch HL Hsm N1 N2 N3 N4 F5) as N5.
      pose proof (heavy5_EB r Hch N1 N2 N3 N4 N5). lia.
  Qed.

  Lemma fifth_boundB {A : Type} (valueof : A -> Z) (t : bins A) (last : bin A) (items : list A) (n : nat) :
    closed valueof C x t -> hfit valueof C t -> bfL valueof C t -> hdesc valueof t ->
    wf valueof (t ++ [last]) -> feasible C (t ++ [last]) ->
    Forall (fun y => 0 <= valueof y) (contents (t ++ [last])) ->
    Permutation (contents (t ++ [last])) items -> Packable C (map valueof items) n ->
    180 * Z.of_nat (length t) <= 220 * Z.of_nat n + 150.
  Proof. apply (count_boundB Wcore5 (Wcore5_length C x) 180 220 150 light_sorted5 heavy5B). Qed.
  End FifthB.
End FrameBF.

(** ---- 5. best-fit keeps [bfL] on a descending list ---- *)
Section ScanStrict.
  Context {A : Type}.

  (** the scan returns the FIRST fullest bin among those that fit *)
  Lemma bf_scan_strict C v (b : bins A) : forall i best k,
    fst (bf_scan C v b i best) = Some k ->
    (fst best = Some k /\ Forall (fun c => fst c + v <= C -> fst c + v <= snd best) b) \/
    exists l1 bn l2, b = l1 ++ bn :: l2 /\ k = (i + length l1)%nat /\ fst bn + v <= C /\
      snd best < fst bn + v /\ Forall (fun c => fst c + v <= C -> fst c < fst bn) l1.
  Proof.
    induction b as [|bn t IH]; intros i best k; cbn [bf_scan].
    - intros H. left. split; [exact H|constructor].
    - intros H. apply IH in H.
      destruct ((fst bn + v <=? C) && (snd best <? fst bn + v)) eqn:E.
      + destruct H as [[H1 H2]|(l1 & bn' & l2 & E1 & E2 & E3 & E4 & E5)].
        * right. exists [], bn, t. cbn [fst] in H1. injection H1 as H1.
          cbn [app length]. repeat split; try lia. constructor.
        * right. exists (bn :: l1), bn', l2. subst t. cbn [app length snd] in *.
          repeat split; try lia. constructor; [lia|exact E5].
      + destruct H as [[H1 H2]|(l1 & bn' & l2 & E1 & E2 & E3 & E4 & E5)].
        * left. split; [exact H1|]. constructor; [lia|exact H2].
        * right. exists (bn :: l1), bn', l2. subst t. cbn [app length].
          repeat split; try lia. constructor; [lia|exact E5].
  Qed.
End ScanStrict.

Section BFLStep.
  Context {A : Type} (valueof : A -> Z).
  Notation add := (add_to_bin valueof true).
  Notation vals bn := (map valueof (snd bn)).
  Notation desc_sorted := (StronglySorted (fun a c : A => valueof c <= valueof a)).

  Lemma bf_place_strict C x b : Forall (fun bn => -1 < fst bn + valueof x) b ->
    (exists l1 bn l2, b = l1 ++ bn :: l2 /\ bf_place valueof true C x b = l1 ++ add x bn :: l2 /\
       fst bn + valueof x <= C /\ Forall (fun c => fst c + valueof x <= C -> fst c < fst bn) l1) \/
    (Forall (fun bn => C < fst bn + valueof x) b /\ bf_place valueof true C x b = b ++ [add x empty_bin]).
  Proof.
    intros Hpos. unfold bf_place.
    destruct (fst (bf_scan C (valueof x) b 0 (None, -1))) as [k|] eqn:E.
    - left. apply bf_scan_strict in E. destruct E as [[E _]|(l1 & bn & l2 & E1 & E2 & E3 & _ & E5)].
      + discriminate E.
      + exists l1, bn, l2. subst b. cbn [Nat.add] in E2. subst k. unfold add_item.
        rewrite (update_at (add x)). repeat split; [exact E3|exact E5].
    - right. split; [|reflexivity]. apply bf_scan_none in E. cbn [snd] in E.
      rewrite Forall_forall in *. intros bn Hin. specialize (E bn Hin). specialize (Hpos bn Hin). lia.
  Qed.

  Lemma vals_add x (bn : bin A) : vals (add x bn) = vals bn ++ [valueof x].
  Proof. unfold add_to_bin. cbn [snd]. rewrite map_app. reflexivity. Qed.

  Lemma zsum_sel_one y v : 0 <= v -> 0 <= zsum (sel y [v]).
  Proof. intros Hv. apply zsum_sel_le. constructor; [exact Hv|constructor]. Qed.

  (** the earlier bin grows *)
  Lemma bfl_grow_l C x bn c : 0 <= valueof x -> snd bn <> [] -> bfl valueof C bn c -> bfl valueof C (add x bn) c.
  Proof.
    intros Hx Hne H. unfold bfl in *. eapply Forall_impl; [|exact H]. intros y Hy. cbv beta in Hy.
    rewrite vals_add, sel_app, zsum_app. pose proof (zsum_sel_one y (valueof x) Hx).
    assert (Eh : hd 0 (vals bn ++ [valueof x]) = hd 0 (vals bn)).
    { destruct (snd bn) as [|f r]; [congruence|reflexivity]. }
    rewrite Eh. lia.
  Qed.

  (** the later bin grows *)
  Lemma bfl_grow_r C x a bn : 0 <= valueof x -> bfl valueof C a bn ->
    (C < zsum (sel (valueof x) (vals a)) + valueof x \/
     hd 0 (vals a) + valueof x < zsum (sel (valueof x) (vals bn ++ [valueof x]))) ->
    bfl valueof C a (add x bn).
  Proof.
    intros Hx H Hnew. unfold bfl in *. rewrite vals_add. apply Forall_app. split.
    - eapply Forall_impl; [|exact H]. intros y Hy. cbv beta in Hy.
      rewrite sel_app, zsum_app. pose proof (zsum_sel_one y (valueof x) Hx). lia.
    - constructor; [exact Hnew|constructor].
  Qed.

  Lemma bfL_into C x bn l2 : 0 <= valueof x -> snd bn <> [] -> forall l1 : bins A,
    Forall (fun a => C < zsum (sel (valueof x) (vals a)) + valueof x \/
       hd 0 (vals a) + valueof x < zsum (sel (valueof x) (vals bn ++ [valueof x]))) l1 ->
    bfL valueof C (l1 ++ bn :: l2) -> bfL valueof C (l1 ++ add x bn :: l2).
  Proof.
    intros Hx Hne. induction l1 as [|a l1 IH]; intros Hnew; cbn [app bfL].
    - intros [H1 H2]. split; [|exact H2]. eapply Forall_impl; [|exact H1].
      intros c Hc. apply bfl_grow_l; assumption.
    - apply Forall_cons_iff in Hnew. destruct Hnew as [Ha Hnew].
      intros [H1 H2]. split; [|apply IH; assumption].
      apply Forall_app in H1. destruct H1 as [H1a H1b].
      apply Forall_cons_iff in H1b. destruct H1b as [Hbn Hl2].
      apply Forall_app. split; [exact H1a|]. constructor; [|exact Hl2].
      apply bfl_grow_r; assumption.
  Qed.

  Lemma bfL_new C x : forall b : bins A, wf valueof b ->
    Forall (fun bn : bin A => C < fst bn + valueof x) b ->
    Forall (fun z => valueof x <= valueof z) (contents b) ->
    bfL valueof C b -> bfL valueof C (b ++ [add x empty_bin]).
  Proof.
    induction b as [|a t IH]; intros Hw Hall Hx; cbn [app bfL].
    - intros _. split; constructor.
    - intros [H1 H2].
      unfold wf in Hw. apply Forall_cons_iff in Hw. destruct Hw as [Hwa Hw].
      apply Forall_cons_iff in Hall. destruct Hall as [Ha Hall].
      rewrite contents_cons in Hx. apply Forall_app in Hx. destruct Hx as [Hxa Hx].
      split; [|apply IH; assumption].
      apply Forall_app. split; [exact H1|]. constructor; [|constructor].
      unfold bfl, add_to_bin, empty_bin. cbn [snd app map]. constructor; [|constructor]. left.
      rewrite sel_all; [|rewrite Forall_map; exact Hxa].
      unfold wf_bin in Hwa. lia.
  Qed.

  Lemma hd_le_zsum l : Forall (fun z => 0 <= z) l -> hd 0 l <= zsum l.
  Proof.
    intros H. destruct H as [|a l Ha Hl]; [cbn; lia|]. cbn [hd]. rewrite pk_zsum_cons.
    pose proof (zsum_nonneg l Hl). lia.
  Qed.

  Lemma bf_place_bfL C x (b : bins A) : 0 <= valueof x -> wf valueof b -> all_nonempty b -> nonneg_sums b ->
    Forall (fun z => valueof x <= valueof z) (contents b) ->
    bfL valueof C b -> bfL valueof C (bf_place valueof true C x b).
  Proof.
    intros Hx Hw Hne Hnn Hge Hb.
    destruct (bf_place_strict C x b (nonneg_sums_pos b (valueof x) Hx Hnn))
      as [(l1 & bn & l2 & E1 & E2 & E3 & E4)|[E1 E2]]; rewrite E2.
    - subst b. apply bfL_into; [exact Hx| | |exact Hb].
      + unfold all_nonempty in Hne. apply Forall_app in Hne. destruct Hne as [_ Hne].
        apply Forall_cons_iff in Hne. destruct Hne as [Hne _]. exact Hne.
      + unfold wf in Hw. apply Forall_app in Hw. destruct Hw as [Hw1 Hw2].
        apply Forall_cons_iff in Hw2. destruct Hw2 as [Hwb _].
        assert (Hge2 : Forall (fun z => valueof x <= valueof z) (contents l1 ++ snd bn ++ contents l2)) by (rewrite <- contents_cons, <- contents_app; exact Hge). clear Hge. rename Hge2 into Hge. apply Forall_app in Hge. destruct Hge as [Hg1 Hg2].
        apply Forall_app in Hg2. destruct Hg2 as [Hgb _].
        apply Forall_forall. intros a Ha.
        assert (Hga : Forall (fun z => valueof x <= valueof z) (snd a)).
        { apply Forall_forall. intros z Hz. rewrite Forall_forall in Hg1. apply Hg1.
          apply (in_contents_bin l1 a z Ha Hz). }
        rewrite Forall_forall in Hw1, E4. specialize (Hw1 a Ha). specialize (E4 a Ha). cbv beta in E4.
        unfold wf_bin in Hw1, Hwb.
        rewrite (sel_all (valueof x) (vals a)); [|rewrite Forall_map; exact Hga].
        rewrite (sel_all (valueof x) (vals bn ++ [valueof x])).
        * rewrite zsum_app, pk_zsum_cons, pk_zsum_nil.
          assert (Hh : hd 0 (vals a) <= zsum (vals a)).
          { apply hd_le_zsum. rewrite Forall_map. eapply Forall_impl; [|exact Hga]. intros z Hz. cbv beta in Hz. lia. }
          destruct (Z_lt_le_dec C (fst a + valueof x)) as [Hlt|Hle]; [left; lia|right]. specialize (E4 Hle). lia.
        * apply Forall_app. split; [rewrite Forall_map; exact Hgb|constructor; [lia|constructor]].
    - apply bfL_new; assumption.
  Qed.

  Lemma gloop_bfL C : forall items b acc b', desc_sorted items ->
    Forall (fun x => 0 <= valueof x) items ->
    Forall (fun z => Forall (fun x => valueof x <= valueof z) items) (contents b) ->
    Inv valueof C b acc -> bfL valueof C b ->
    gloop valueof (bf_place valueof true) C items b = Ok b' -> bfL valueof C b'.
  Proof.
    induction items as [|x t IH]; intros b acc b' Hs Hnn Hd HI H2; cbn [gloop].
    - intros H. injection H as H. subst b'. exact H2.
    - destruct (valueof x >? C) eqn:E; [intros H; discriminate H|]. intros H.
      inversion Hs as [|x' t' Hst Hxt]; subst.
      apply Forall_cons_iff in Hnn. destruct Hnn as [Hx Hnn].
      pose proof HI as (Hw & _ & _ & Hne & Hsn & _).
      pose proof (bf_is_step valueof C x b Hx Hsn) as Hstep.
      assert (Hxz : Forall (fun z => valueof x <= valueof z) (contents b)).
      { eapply Forall_impl; [|exact Hd]. intros z Hz. cbv beta in Hz.
        apply Forall_cons_iff in Hz. destruct Hz as [Hz _]. exact Hz. }
      apply (IH (bf_place valueof true C x b) (acc ++ [x])); [exact Hst|exact Hnn| | | |exact H].
      + eapply Permutation_Forall; [symmetry; apply (step_contents valueof C x b _ Hstep)|].
        apply Forall_app. split.
        * eapply Forall_impl; [|exact Hd]. intros z Hz. cbv beta in Hz.
          apply Forall_cons_iff in Hz. destruct Hz as [_ Hz]. exact Hz.
        * constructor; [exact Hxt|constructor].
      + apply (step_Inv valueof C x b); [lia|exact Hstep|exact HI].
      + apply bf_place_bfL; assumption.
  Qed.

  Lemma bfd_bfL C items b : items <> [] -> Forall (fun x => 0 <= valueof x) items ->
    best_fit_decreasing valueof true C items = Ok b -> bfL valueof C b.
  Proof.
    intros Hne Hnn H. apply bfd_gloop in H.
    pose proof (sort_desc_nonnil valueof items Hne) as Hne'.
    pose proof (sort_desc_sorted valueof items) as Hs.
    pose proof (sort_desc_nonneg valueof items Hnn) as Hnn'.
    destruct (sort_desc valueof items) as [|x t]; [congruence|]. cbn [gloop] in H.
    destruct (valueof x >? C) eqn:E; [discriminate H|].
    apply Forall_cons_iff in Hnn'. destruct Hnn' as [Hx Hnn'].
    assert (Hfirst : bf_place valueof true C x (new_bins 1) = [add x empty_bin]).
    { apply (af_step_first valueof C x); [lia|]. apply bf_is_step; [exact Hx|].
      unfold nonneg_sums, new_bins, empty_bin. cbn [repeat]. constructor; [cbn [fst]; lia|constructor]. }
    rewrite Hfirst in H. inversion Hs as [|x' t' Hst Hxt]; subst.
    apply (gloop_bfL C t [add x empty_bin] [x] b Hst Hnn'); [| | |exact H].
    - rewrite (contents_single valueof). constructor; [exact Hxt|constructor].
    - apply Inv_first. lia.
    - cbn [bfL]. split; constructor.
  Qed.
End BFLStep.

(** ---- 6. the theorems ---- *)
Section BFD119Mid.
  Context {A : Type} (valueof : A -> Z).

  Lemma bfL_app_l C : forall b1 b2 : bins A, bfL valueof C (b1 ++ b2) -> bfL valueof C b1.
  Proof.
    induction b1 as [|c b1 IH]; intros b2; cbn [app bfL]; [auto|].
    intros [H1 H2]. split; [|apply (IH b2); exact H2].
    apply Forall_app in H1. destruct H1 as [H1 _]. exact H1.
  Qed.

  (** with x the first item of the last bin:
      11 x <= 2 C : 9 |b| <= 11 n + 8 (volume);  C < 4 x : 6 |b| <= 7 n + 5 (BFD54Proofs);
      C < 5 x and 4 x <= C : 9 |b| <= 11 n + 13 (the weights of Section Quarter of FFD119MidProofs) *)
  Lemma bfd_119_ranges3 C (items : list A) (b : bins A) (n : nat) :
    items <> [] -> Forall (fun x : A => 0 <= valueof x) items ->
    best_fit_decreasing valueof true C items = Ok b -> Packable C (map valueof items) n ->
    exists x0, In x0 items /\
      (11 * valueof x0 <= 2 * C -> (9 * length b <= 11 * n + 8)%nat) /\
      (C < 4 * valueof x0 -> (6 * length b <= 7 * n + 5)%nat) /\
      (C < 5 * valueof x0 -> 4 * valueof x0 <= C -> (9 * length b <= 11 * n + 13)%nat) /\
      (2 * C < 11 * valueof x0 -> 41 * valueof x0 <= 8 * C -> (9 * length b <= 11 * n + 16)%nat).
  Proof.
    intros Hne Hnn H Hpack.
    destruct (bfd_hfit valueof C items b Hne Hnn H) as (HI & Hsf0 & Hh0).
    pose proof (bfd_bfL valueof C items b Hne Hnn H) as Hbf0.
    pose proof HI as (_ & Hf & _).
    destruct (af_last valueof C items b Hne Hnn HI Hsf0 Hh0)
      as (t & last & x0 & E & Hin & [Hx0 Hx0C] & Hcl & Hsf & Hh & Hw & Hnnb & Hp).
    subst b. rewrite app_length. cbn [length].
    assert (HC : 0 <= C) by lia.
    exists x0. split; [|split; [|split; [|split]]].
    - eapply Permutation_in; [exact Hp|]. rewrite contents_app, contents_cons.
      apply in_or_app. right. apply in_or_app. left. exact Hin.
    - intros Hsmall.
      destruct t as [|bn t']; [cbn [length]; destruct n as [|n]; [|lia]|].
      + apply packable_zero in Hpack. apply map_eq_nil in Hpack. congruence.
      + pose proof (volume_case_q valueof C 11 2 (bn :: t') last x0 items n ltac:(lia) HC Hin Hx0 Hsmall Hcl Hw Hnnb Hp Hpack
                      ltac:(discriminate)) as Hv.
        cbn [length] in *. lia.
    - intros Hbig.
      pose proof (heavy76_af valueof C (valueof x0) Hbig Hx0C t Hcl Hsf Hh) as Hheavy.
      assert (Hlight : ws76 C (valueof x0) (map valueof items) <= 7 * Z.of_nat n).
      { apply (packable_gws (w76 C (valueof x0)) C 7); [|rewrite Forall_map; exact Hnn|exact Hpack].
        intros g Hg0 Hg. apply light76; assumption. }
      rewrite <- (gws_perm _ _ _ (Permutation_map valueof Hp)) in Hlight.
      rewrite contents_app, map_app, gws_app in Hlight.
      pose proof (last_weight valueof (w76 C (valueof x0)) last x0 (w76_nonneg C (valueof x0)) Hin) as Hl.
      pose proof (w76_ge2 C (valueof x0) (valueof x0) ltac:(lia)). lia.
    - intros H5 H4.
      pose proof (quarter_boundB C (valueof x0) ltac:(lia) ltac:(lia) H5 H4 valueof t last items n
                    Hcl Hsf (bfL_app_l C t [last] Hbf0) Hh Hw Hf Hnnb Hp Hpack).
      lia.
    - intros H11 H41.
      pose proof (fifth_boundB C (valueof x0) ltac:(lia) ltac:(lia) H11 H41 valueof t last items n
                    Hcl Hsf (bfL_app_l C t [last] Hbf0) Hh Hw Hf Hnnb Hp Hpack).
      lia.
  Qed.

  (** 11/9 when no value lies in (8C/41, C/5] *)
  Theorem bfd_ratio_11_9_partial2 C (items : list A) (b : bins A) (n : nat) :
    items <> [] -> Forall (fun x : A => 0 <= valueof x) items ->
    Forall (fun x : A => 41 * valueof x <= 8 * C \/ C < 5 * valueof x) items ->
    best_fit_decreasing valueof true C items = Ok b -> Packable C (map valueof items) n ->
    (9 * length b <= 11 * n + 16)%nat.
  Proof.
    intros Hne Hnn Hgap H Hpack.
    destruct (bfd_119_ranges3 C items b n Hne Hnn H Hpack) as (x0 & Hin & H1 & H2 & H3 & H4).
    rewrite Forall_forall in Hgap. destruct (Hgap x0 Hin) as [Hs|Hb].
    - destruct (Z_le_gt_dec (11 * valueof x0) (2 * C)) as [Hv|Hv].
      + specialize (H1 Hv). lia.
      + apply H4; [lia|exact Hs].
    - destruct (Z_lt_le_dec C (4 * valueof x0)) as [Hq|Hq].
      + specialize (H2 Hq). lia.
      + specialize (H3 Hb Hq). lia.
  Qed.
End BFD119Mid.

(** ---- 7. examples ---- *)
(** The relation [Later] of FFD119MidProofs.v (hence [sfit2], hence the lemma [chain_cores] there) is FALSE
    for best-fit-decreasing in these ranges: C = 100, x = 19 in (2C/11, 8C/41]; the value 25 went into
    the bin [40; 35] (sum 75) although it fits into the earlier bin [72] (sum 72, the 24 came later).
    The weaker relation [LaterB] holds: 72 + 25 < 40 + 35 + 25. *)
Example bfd_mid_not_Later :
  best_fit_decreasing idZ true 100 [72; 40; 35; 25; 24; 19] = Ok [(96, [72; 24]); (100, [40; 35; 25]); (19, [19])] /\
  ~ Later 100 [72; 24] [40; 35; 25] /\ LaterB 100 [72; 24] [40; 35; 25].
Proof.
  split; [vm_compute; reflexivity|split].
  - intros [H _]. rewrite Forall_forall in H. specialize (H 25 ltac:(right; right; left; reflexivity)).
    cbv beta in H. revert H. sel_cases 25.
  - unfold LaterB. cbn [hd]. split; [lia|split; [sel_cases 40|]].
    apply Forall_cons; [left; sel_cases 40|]. apply Forall_cons; [left; sel_cases 35|].
    apply Forall_cons; [right; sel_cases 25|]. apply Forall_nil.
Qed.

(** so [late_fits_contra] of FFD119MidProofs.v (a value of a bin without big value meets no boosted
    smaller companion z of a big b' it fits beside) fails for best-fit-decreasing: here the value is 25
    in [40; 35; 25], b' = 72, z = 24; it is only used, and holds (above), for values above C/3 *)

(** one third of the smallest member of Johnson's 11/9 family (C = 60: 31, 17, 16, 13; the last value
    lies in (C/5, C/4]): best-fit-decreasing uses 4 bins, the optimum is 3 *)
Example bfd_119_johnson_thm b :
  best_fit_decreasing idZ true 60 (repeat 31 2 ++ repeat 17 2 ++ repeat 16 2 ++ repeat 13 4) = Ok b ->
  (9 * length b <= 11 * 3 + 16)%nat.
Proof.
  intros H. set (L := repeat 31 2 ++ repeat 17 2 ++ repeat 16 2 ++ repeat 13 4) in *.
  apply (bfd_ratio_11_9_partial2 idZ 60 L b 3); [discriminate| | |exact H|].
  - repeat constructor; lia.
  - unfold L. cbn [repeat app]. repeat (apply Forall_cons; [right; cbv beta; lia|]). apply Forall_nil.
  - assert (HF : Forall (fun v => 0 <= v <= 60) L) by (repeat constructor; lia).
    pose proof (min_bins_spec_strong 60 L HF) as [M _]. rewrite map_id. exact M.
Qed.

(** boolean version of [bfL], checked together with [hfit] and the bound against the exact optimum *)
Definition bflb (C : Z) (bn c : bin Z) : bool :=
  forallb (fun y => (C <? zsum (sel y (snd bn)) + y) || (hd 0 (snd bn) + y <? zsum (sel y (snd c)))) (snd c).
Fixpoint bfLb (C : Z) (b : bins Z) : bool :=
  match b with [] => true | bn :: t => forallb (bflb C bn) t && bfLb C t end.
Definition bfd_119_check (C : Z) (vs : list Z) : bool :=
  match best_fit_decreasing idZ true C vs with
  | Ok b => bfLb C b && hfitb C b && (9 * length b <=? 11 * min_bins C vs + 16)%nat
  | Err _ => false
  end.

Example bfd_119_random :
  forallb (fun s => bfd_119_check (fst (ffd_32_instance s)) (snd (ffd_32_instance s))) (map Z.of_nat (seq 1 80)) = true.
Proof. vm_compute. reflexivity. Qed.

Print Assumptions bfd_119_ranges3.
Print Assumptions bfd_ratio_11_9_partial2.
Print Assumptions bfd_bfL.
Print Assumptions bfd_mid_not_Later.
Print Assumptions bfd_119_johnson_thm.
