(** C07: the answer does not depend on how the items are presented.

    Every algorithm of the model is polymorphic in the item type [A] and reads an item only
    through [valueof : A -> Z].  Running it on named items and then forgetting the names
    ([map_bins valueof]) IS the run on the plain values (item type [Z], valueof := [fun v : Z => v]).

    Already proved elsewhere for the contents-keeping binner (NOT re-proved here, see the index at
    the end of this file):
      greedy_names, roundrobin_names            Proofs/GreedyProofs.v
      ff_names, ffd_names, bf_names, bfd_names  Proofs/PackingProofs.v
      dec_names, tt_names, tq_names             Proofs/CoveringProofs.v
      dp_names                                  Proofs/DPProofs.v
    This file adds kk (Karmarkar-Karp), cg (complete greedy, every objective / flag / limit) and
    cbldm, for both binners where the algorithm has a [keep] parameter.

    Convention: plain values use [fun v : Z => v] (notation [idv]) as their valueof, as in the
    files above.  It is convertible with [@id Z] and with [zid].

    The general "stable sort commutes with a key-preserving map" lemmas are
    [BaseLemmas.sort_asc_map] / [BaseLemmas.sort_desc_map]; they are not duplicated: the
    specialisations to the projection [valueof] are [sort_asc_names] / [sort_desc_names]. *)
From Prtpy Require Import Base.Prelude Base.Perms Model.Binner Model.Objectives Model.Greedy Model.Packing
  Model.Covering Model.KK Model.CG Model.DP Model.CBLDM Proofs.BaseLemmas Proofs.BinnerLemmas
  Spec.Partition Proofs.GreedyProofs Proofs.PackingProofs Proofs.CoveringProofs Proofs.DPProofs
  Proofs.KKProofs Proofs.CKKOptimal.
From Coq Require Import Sorting.Sorted.

Local Notation idv := (fun v : Z => v).

(** * Generic list helpers *)

(** a fold commutes with a projection of the state and of the elements as soon as one step does *)
Lemma nm_fold_left_sim {S S' T T' : Type} (ps : S -> S') (pt : T -> T')
      (f : S -> T -> S) (f' : S' -> T' -> S') :
  (forall s x, ps (f s x) = f' (ps s) (pt x)) ->
  forall l s, ps (fold_left f l s) = fold_left f' (map pt l) (ps s).
Proof.
  intros Hstep l. induction l as [|x t IH]; intros s; cbn [fold_left map]; [reflexivity|].
  rewrite IH, Hstep. reflexivity.
Qed.

Lemma nm_map_id (l : list Z) : map idv l = l.
Proof. induction l as [|x t IH]; cbn [map]; [reflexivity|]. rewrite IH. reflexivity. Qed.

Lemma nm_last_opt_map {T U : Type} (f : T -> U) (l : list T) :
  last_opt (map f l) = option_map f (last_opt l).
Proof. unfold last_opt. rewrite <- map_rev. destruct (rev l) as [|y r]; reflexivity. Qed.

(** * 1. Stable sorts commute with the projection to values *)

Section Names.
  Context {A : Type} (valueof : A -> Z).

  Lemma sort_asc_names (l : list A) : map valueof (sort_asc valueof l) = sort_asc idv (map valueof l).
  Proof. apply (sort_asc_map valueof valueof idv). intros y. reflexivity. Qed.

  Lemma sort_desc_names (l : list A) : map valueof (sort_desc valueof l) = sort_desc idv (map valueof l).
  Proof. apply (sort_desc_map valueof valueof idv). intros y. reflexivity. Qed.

  (** * The projection of bins and its commutation with the bins-array operations *)

  Local Notation mb := (map_bins valueof).

  Definition pbin (bn : bin A) : bin Z := (fst bn, map valueof (snd bn)).

  Lemma mb_map (b : bins A) : mb b = map pbin b.
  Proof. reflexivity. Qed.

  Lemma mb_nil : mb [] = [].
  Proof. reflexivity. Qed.

  Lemma mb_cons (bn : bin A) (b : bins A) : mb (bn :: b) = pbin bn :: mb b.
  Proof. reflexivity. Qed.

  Lemma pbin_fst (bn : bin A) : fst (pbin bn) = fst bn.
  Proof. reflexivity. Qed.

  Lemma pbin_snd_length (bn : bin A) : length (snd (pbin bn)) = length (snd bn).
  Proof. unfold pbin. cbn [snd]. apply map_length. Qed.

  Lemma pbin_empty : pbin empty_bin = empty_bin.
  Proof. reflexivity. Qed.

  Lemma pbin_combine (b1 b2 : bin A) : pbin (combine_bin b1 b2) = combine_bin (pbin b1) (pbin b2).
  Proof. unfold pbin, combine_bin. cbn [fst snd]. rewrite map_app. reflexivity. Qed.

  Lemma mb_sums (b : bins A) : sums (mb b) = sums b.
  Proof. unfold sums, map_bins. rewrite map_map. reflexivity. Qed.

  Lemma mb_length (b : bins A) : length (mb b) = length b.
  Proof. unfold map_bins. apply map_length. Qed.

  Lemma mb_app (b1 b2 : bins A) : mb (b1 ++ b2) = mb b1 ++ mb b2.
  Proof. unfold map_bins. apply map_app. Qed.

  Lemma mb_rev (b : bins A) : mb (rev b) = rev (mb b).
  Proof. unfold map_bins. apply map_rev. Qed.

  Lemma mb_new_bins (k : nat) : mb (new_bins k) = new_bins k.
  Proof.
    unfold new_bins. induction k as [|n IH]; cbn [repeat]; [reflexivity|].
    rewrite mb_cons, IH, pbin_empty. reflexivity.
  Qed.

  Lemma mb_update (f : bin A -> bin A) (f' : bin Z -> bin Z) (i : nat) (b : bins A) :
    (forall bn, pbin (f bn) = f' (pbin bn)) -> mb (update i f b) = update i f' (mb b).
  Proof. intros Hf. rewrite !mb_map. apply map_update. exact Hf. Qed.

  Lemma mb_sort_bins (b : bins A) : mb (sort_bins b) = sort_bins (mb b).
  Proof. unfold sort_bins. rewrite !mb_map. apply sort_asc_map. intros bn. reflexivity. Qed.

  Lemma mb_bin_at (b : bins A) (i : nat) : bin_at (mb b) i = pbin (bin_at b i).
  Proof. unfold bin_at. rewrite mb_map, <- pbin_empty. apply map_nth. Qed.

  Section WithKeep.
    Variable keep : bool.

    Lemma pbin_add (x : A) (bn : bin A) :
      pbin (add_to_bin valueof keep x bn) = add_to_bin idv keep (valueof x) (pbin bn).
    Proof.
      unfold pbin, add_to_bin. cbn [fst snd].
      destruct keep; [rewrite map_app|]; reflexivity.
    Qed.

    Lemma mb_add_item (b : bins A) (x : A) (i : nat) :
      mb (add_item valueof keep b x i) = add_item idv keep (mb b) (valueof x) i.
    Proof. unfold add_item. apply mb_update. intros bn. apply pbin_add. Qed.

    (** * 6. Karmarkar-Karp *)

    Definition phe (e : hentry (A:=A)) : hentry (A:=Z) := (fst e, mb (snd e)).
    Definition ph (h : heap (A:=A)) : heap (A:=Z) := map phe h.

    Lemma mb_bins_diff (b : bins A) : bins_diff (mb b) = bins_diff b.
    Proof. unfold bins_diff. rewrite mb_sums. reflexivity. Qed.

    Lemma ph_heap_insert (e : hentry) (h : heap) : ph (heap_insert e h) = heap_insert (phe e) (ph h).
    Proof.
      induction h as [|y t IH]; cbn [heap_insert ph map]; [reflexivity|].
      change (fst (phe e)) with (fst e). change (fst (phe y)) with (fst y).
      destruct (fst e <? fst y); cbn [map]; [reflexivity|].
      fold (ph t). fold (ph (heap_insert e t)). rewrite IH. reflexivity.
    Qed.

    Lemma ph_heap_push (h : heap) (b : bins A) : ph (heap_push h b) = heap_push (ph h) (mb b).
    Proof.
      unfold heap_push. cbv zeta. rewrite ph_heap_insert. unfold phe. cbn [fst snd].
      rewrite <- mb_sort_bins, mb_bins_diff. reflexivity.
    Qed.

    Lemma mb_singleton_bins (k : nat) (x : A) :
      mb (singleton_bins valueof keep k x) = singleton_bins idv keep k (valueof x).
    Proof. unfold singleton_bins. rewrite mb_add_item, mb_new_bins. reflexivity. Qed.

    Lemma ph_initial_heap (k : nat) (items : list A) :
      ph (initial_heap valueof keep k items) = initial_heap idv keep k (map valueof items).
    Proof.
      unfold initial_heap.
      rewrite (nm_fold_left_sim ph valueof
                 (fun h x => heap_push h (singleton_bins valueof keep k x))
                 (fun h v => heap_push h (singleton_bins idv keep k v))).
      - rewrite sort_desc_names. reflexivity.
      - intros h x. rewrite ph_heap_push, mb_singleton_bins. reflexivity.
    Qed.

    Lemma mb_zip_combine (b1 : bins A) : forall b2 : bins A,
      mb (zip_combine b1 b2) = zip_combine (mb b1) (mb b2).
    Proof.
      induction b1 as [|x t1 IH]; intros [|y t2]; cbn [zip_combine]; try reflexivity.
      rewrite !mb_cons. cbn [zip_combine]. rewrite IH, pbin_combine. reflexivity.
    Qed.

    Lemma mb_kk_combine (b1 b2 : bins A) : mb (kk_combine b1 b2) = kk_combine (mb b1) (mb b2).
    Proof. unfold kk_combine. rewrite mb_zip_combine, mb_rev. reflexivity. Qed.

    Lemma ph_kk_loop (fuel : nat) : forall h : heap, ph (kk_loop fuel h) = kk_loop fuel (ph h).
    Proof.
      induction fuel as [|f IH]; intros h; cbn [kk_loop]; [reflexivity|].
      destruct h as [|e1 [|e2 rest]]; cbn [ph map]; try reflexivity.
      fold (ph rest). rewrite IH, ph_heap_push, mb_kk_combine. reflexivity.
    Qed.

    Theorem kk_names (k : nat) (items : list A) :
      rmap (map_bins valueof) (kk valueof keep k items) = kk idv keep k (map valueof items).
    Proof.
      unfold kk. rewrite <- ph_initial_heap, map_length, <- ph_kk_loop.
      destruct (kk_loop (length items - 1) (initial_heap valueof keep k items)) as [|e rest];
        reflexivity.
    Qed.

    (** * 7. complete greedy: the whole search state is projected, every step commutes *)

    Definition pcg (st : cg_state (A:=A)) : cg_state (A:=Z) :=
      mk_cg (option_map mb (cg_best st)) (cg_bestv st) (cg_seen st) (cg_stop st) (cg_ticks st)
            (option_map mb (cg_first st)).

    Lemma pcg_best st : cg_best (pcg st) = option_map mb (cg_best st).
    Proof. reflexivity. Qed.
    Lemma pcg_bestv st : cg_bestv (pcg st) = cg_bestv st.
    Proof. reflexivity. Qed.
    Lemma pcg_seen st : cg_seen (pcg st) = cg_seen st.
    Proof. reflexivity. Qed.
    Lemma pcg_stop st : cg_stop (pcg st) = cg_stop st.
    Proof. reflexivity. Qed.
    Lemma pcg_ticks st : cg_ticks (pcg st) = cg_ticks st.
    Proof. reflexivity. Qed.
    Lemma pcg_first st : cg_first (pcg st) = option_map mb (cg_first st).
    Proof. reflexivity. Qed.

    Lemma pcg_enter (limit : option nat) (st : cg_state) :
      cg_enter limit (pcg st) = option_map pcg (cg_enter limit st).
    Proof.
      unfold cg_enter. rewrite pcg_stop, pcg_ticks.
      destruct (cg_stop st); [reflexivity|].
      destruct limit as [n|]; [|reflexivity].
      cbn [cg_ticks]. destruct (Nat.ltb n (S (cg_ticks st))); reflexivity.
    Qed.

    Lemma pcg_halt (st : cg_state) : cg_halt (pcg st) = pcg (cg_halt st).
    Proof. unfold cg_halt. rewrite pcg_stop. destruct (cg_stop st); reflexivity. Qed.

    Lemma pcg_leaf (o : objective) (limit : option nat) (glb : option Z) (b : bins A) (st : cg_state) :
      cg_leaf o limit glb (mb b) (pcg st) = pcg (cg_leaf o limit glb b st).
    Proof.
      unfold cg_leaf. rewrite pcg_enter.
      destruct (cg_enter limit st) as [st1|]; cbn [option_map]; [|apply pcg_halt].
      cbv zeta. rewrite mb_sums, pcg_bestv.
      destruct (lt_bestv (value o (sums b) false) (cg_bestv st1)); [|reflexivity].
      rewrite pcg_first. unfold pcg. cbn [cg_best cg_bestv cg_seen cg_stop cg_ticks cg_first option_map].
      destruct (cg_first st1) as [f|]; reflexivity.
    Qed.

    Section WithParams.
      Variables (o : objective) (flags : cg_flags) (limit : option nat) (k : nat) (glb : option Z).

      (** the generation of the children reads the vertex only through [cur_sums], the value of
          the item and the sums of the candidate child; the seen-set holds sums only *)
      Lemma mb_cg_children (b : bins A) (cur : list Z) (x : A) (R : Z) (depth : nat) (bestv : option Z)
            (idxs : list nat) : forall (prev : option Z) (seen : list (nat * list Z)),
        cg_children idv keep o flags k idxs (mb b) cur (valueof x) R depth prev bestv seen =
        (map mb (fst (cg_children valueof keep o flags k idxs b cur x R depth prev bestv seen)),
         snd (cg_children valueof keep o flags k idxs b cur x R depth prev bestv seen)).
      Proof.
        induction idxs as [|bi rest IH]; intros prev seen; cbn [cg_children]; [reflexivity|].
        cbv beta. rewrite <- !mb_add_item, <- !mb_sort_bins, !mb_sums.
        repeat match goal with
               | |- context [if ?c then _ else _] => destruct c
               end;
          try apply IH;
          rewrite IH;
          match goal with
          | |- context [cg_children valueof keep o flags k rest b cur x R depth ?p bestv ?s] =>
              destruct (cg_children valueof keep o flags k rest b cur x R depth p bestv s) as [cs' seen']
          end; reflexivity.
      Qed.

      Lemma mb_heuristic3_fill (l : list A) (b : bins A) :
        mb (fold_left (fun bb y => add_item valueof keep bb y O) l b) =
        fold_left (fun bb y => add_item idv keep bb y O) (map valueof l) (mb b).
      Proof.
        apply (nm_fold_left_sim mb valueof (fun bb y => add_item valueof keep bb y O)
                 (fun bb y => add_item idv keep bb y O)).
        intros bb y. apply mb_add_item.
      Qed.

      Lemma pcg_explore (rest : list A) : forall (depth : nat) (b : bins A) (st : cg_state),
        cg_explore idv keep o flags limit k glb (map valueof rest) depth (mb b) (pcg st) =
        pcg (cg_explore valueof keep o flags limit k glb rest depth b st).
      Proof.
        induction rest as [|x t IH]; intros depth b st; cbn [cg_explore map]; [apply pcg_leaf|].
        rewrite pcg_enter.
        destruct (cg_enter limit st) as [st1|]; cbn [option_map]; [|apply pcg_halt].
        cbv beta zeta. rewrite !mb_sums, !nm_map_id.
        match goal with
        | |- context [if ?c then _ else _] => destruct c
        end.
        - change (valueof x :: map valueof t) with (map valueof (x :: t)).
          rewrite <- mb_heuristic3_fill, <- mb_sort_bins. apply pcg_leaf.
        - rewrite mb_cg_children, pcg_bestv, pcg_seen.
          destruct (cg_children valueof keep o flags k (rev (range k)) b (sums b) x (zsum (map valueof t))
                      depth None (cg_bestv st1) (cg_seen st1)) as [children seen'].
          cbn [fst snd]. rewrite <- map_rev.
          symmetry.
          apply (nm_fold_left_sim pcg mb
                   (fun s c => cg_explore valueof keep o flags limit k glb t (S depth) c s)
                   (fun s c => cg_explore idv keep o flags limit k glb (map valueof t) (S depth) c s)).
          intros s c. symmetry. apply IH.
      Qed.
    End WithParams.

    (** the whole final search state (incumbent, its value, seen-set, stop flag, tick count, first
        solution) is the projection of the named one *)
    Theorem cg_run_names (o : objective) (flags : cg_flags) (limit : option nat) (k : nat) (items : list A) :
      cg_run idv keep o flags limit k (map valueof items) = pcg (cg_run valueof keep o flags limit k items).
    Proof.
      unfold cg_run. cbv zeta. rewrite <- sort_desc_names, nm_map_id, <- mb_new_bins.
      apply (pcg_explore o flags limit k _ (sort_desc valueof items) O (new_bins k)
               (mk_cg None None (if use_set_of_seen_states flags then [(O, repeat 0 k)] else []) false O None)).
    Qed.

    Theorem cg_names (o : objective) (flags : cg_flags) (limit : option nat) (k : nat) (items : list A) :
      option_map (map_bins valueof) (cg valueof keep o flags limit k items) =
      cg idv keep o flags limit k (map valueof items).
    Proof. unfold cg. rewrite cg_run_names. reflexivity. Qed.
  End WithKeep.

  (** * 9. CBLDM (always a contents-keeping binner) *)

  Definition pcb (st : cb_state (A:=A)) : cb_state (A:=Z) :=
    mk_cb (option_map mb (cb_best st)) (cb_delta st) (cb_opt st) (cb_ticks st).

  Lemma mb_sum_diff (p : bins A) : sum_diff (mb p) = sum_diff p.
  Proof. unfold sum_diff. rewrite !mb_bin_at, !pbin_fst. reflexivity. Qed.

  Lemma mb_len_diff (p : bins A) : len_diff (mb p) = len_diff p.
  Proof. unfold len_diff. rewrite !mb_bin_at, !pbin_snd_length. reflexivity. Qed.

  Lemma mb_map_sum_diff (l : list (bins A)) : map sum_diff (map mb l) = map sum_diff l.
  Proof. rewrite map_map. apply map_ext. intros p. apply mb_sum_diff. Qed.

  Lemma mb_map_len_diff (l : list (bins A)) : map len_diff (map mb l) = map len_diff l.
  Proof. rewrite map_map. apply map_ext. intros p. apply mb_len_diff. Qed.

  Lemma mb_sort_subs (l : list (bins A)) :
    sort_asc (fun s => - sum_diff s) (map mb l) = map mb (sort_asc (fun s => - sum_diff s) l).
  Proof. symmetry. apply sort_asc_map. intros p. rewrite mb_sum_diff. reflexivity. Qed.

  Lemma pbin_cc (a b : bin A) :
    combine_bin (combine_bin empty_bin (pbin a)) (pbin b) = pbin (combine_bin (combine_bin empty_bin a) b).
  Proof. rewrite !pbin_combine, pbin_empty. reflexivity. Qed.

  Lemma mb_pair_bins (x y : bin A) : pair_bins (pbin x) (pbin y) = mb (pair_bins x y).
  Proof. reflexivity. Qed.

  Lemma mb_snoc (l : list (bins A)) (b : bins A) : map mb l ++ [mb b] = map mb (l ++ [b]).
  Proof. rewrite map_app. reflexivity. Qed.

  Lemma pcb_part (n : nat) (d : Z) (limit : option nat) (fuel : nat) :
    forall (subs : list (bins A)) (st : cb_state),
      cb_part n d limit fuel (map mb subs) (pcb st) = pcb (cb_part n d limit fuel subs st).
  Proof.
    induction fuel as [|f IH]; intros subs st; destruct st as [bst dl op tk];
      cbn [cb_part pcb cb_best cb_delta cb_opt cb_ticks];
      (destruct ((match limit with Some n0 => Nat.ltb n0 (S tk) | None => false end) || op); [reflexivity|]);
      (destruct subs as [|p [|q l]]; cbn [map]; [reflexivity| |]).
    - rewrite mb_len_diff, mb_sum_diff.
      destruct ((len_diff p <=? d) && lt_delta (sum_diff p) dl); reflexivity.
    - rewrite !mb_sum_diff, !mb_len_diff, mb_map_sum_diff, mb_map_len_diff.
      repeat match goal with |- context [if ?c then _ else _] => destruct c end; reflexivity.
    - rewrite mb_len_diff, mb_sum_diff.
      destruct ((len_diff p <=? d) && lt_delta (sum_diff p) dl); reflexivity.
    - rewrite !mb_sum_diff, !mb_len_diff, mb_map_sum_diff, mb_map_len_diff.
      destruct (ge_delta (2 * zmax_list 0 (sum_diff p :: sum_diff q :: map sum_diff l)
                          - zsum (sum_diff p :: sum_diff q :: map sum_diff l)) dl); [reflexivity|].
      destruct (d <? 2 * zmax_list 0 (len_diff p :: len_diff q :: map len_diff l)
                     - zsum (len_diff p :: len_diff q :: map len_diff l)); [reflexivity|].
      change (mb p :: mb q :: map mb l) with (map mb (p :: q :: l)).
      rewrite map_length, mb_sort_subs. unfold sub.
      match goal with
      | |- context [if ?c then map mb _ else _] => destruct c
      end;
        [ match goal with
          | |- context [map mb ?s] => destruct s as [|a [|b rest]]
          end
        | ]; cbn [map]; try reflexivity.
      all: rewrite !mb_bin_at, !pbin_cc, !mb_pair_bins, <- !mb_sort_bins, !mb_snoc.
      all: change (mk_cb (option_map mb bst) dl op (S tk)) with (pcb (mk_cb bst dl op (S tk))).
      all: rewrite !IH; reflexivity.
  Qed.
End Names.

(** projection of the value returned by cbldm *)
Definition map_cbldm_out {A B} (f : A -> B) (o : cbldm_out A) : cbldm_out B :=
  match o with CbPlaceholder => CbPlaceholder | CbBins b => CbBins (map_bins f b) end.

Theorem cbldm_names {A : Type} (valueof : A -> Z) (k : nat) (items : list A) (tl_positive : bool)
        (d : Z) (d_is_int : bool) (limit : option nat) :
  rmap (fun r => (map_cbldm_out valueof (fst r), snd r)) (cbldm valueof k items tl_positive d d_is_int limit) =
  cbldm idv k (map valueof items) tl_positive d d_is_int limit.
Proof.
  unfold cbldm.
  destruct (negb (Nat.eqb k 2)); [reflexivity|].
  destruct (negb tl_positive); [reflexivity|].
  destruct ((d <? 1) || negb d_is_int); [reflexivity|].
  cbv zeta. rewrite <- sort_desc_names, nm_last_opt_map.
  destruct (last_opt (sort_desc valueof items)) as [l|]; cbn [option_map]; [|reflexivity].
  cbv beta. destruct (valueof l <? 0); [reflexivity|].
  rewrite map_length.
  replace (map (fun x : Z => add_item idv true (new_bins 2) x 1) (map valueof (sort_desc valueof items)))
    with (map (map_bins valueof) (map (fun x : A => add_item valueof true (new_bins 2) x 1) (sort_desc valueof items))).
  - change (@mk_cb Z None None false O) with (pcb valueof (@mk_cb A None None false O)).
    rewrite pcb_part. cbn [rmap fst snd].
    match goal with
    | |- context [pcb valueof ?X] => destruct X as [bst dl op tk]
    end.
    destruct bst as [b|]; reflexivity.
  - rewrite !map_map. apply map_ext. intros x.
    rewrite mb_add_item, mb_new_bins. reflexivity.
Qed.

(** * ckk (and snp / rnp, which call it): what survives of C07

    ckk de-duplicates the combinations of two bins-arrays by the *names* of the items
    ([combo_key], [sort_names]).  With distinct names two items of equal value are different, with
    plain values ([nameof := idv]) they are the same: the named run explores combinations that
    the plain run has dropped, and the contents of the bins are sorted by name, not by value.
    So the exact equation [rmap (map_bins valueof) (ckk valueof nameof true k items) =
    ckk idv idv true k (map valueof items)] is false even for injective names: *)
Example ckk_names_exact_false :
  let items := [(105, 9); (101, 8); (103, 8); (104, 9); (102, 4)] in
  NoDup (map fst items) /\
  rmap (map_bins snd) (ckk snd fst true 2 items) = Ok [(18, [9; 9]); (20, [8; 4; 8])] /\
  ckk idv idv true 2 (map snd items) = Ok [(18, [9; 9]); (20, [4; 8; 8])].
Proof.
  vm_compute. repeat split; try reflexivity.
  repeat (constructor; [intros H; cbn [In] in H; intuition discriminate|]). constructor.
Qed.

(** What is provable from the optimality of ckk (Proofs/CKKOptimal.v) alone: both runs reach the optimal
    difference, so they agree on the objective value; for two bins this determines the sums.
    (Equal sums for every k: Proofs/CKKManagersProofs.v, [ckk_names_sums].) *)
Lemma Opt_unique (o : objective) (k : nat) (vs : list Z) (v1 v2 : Z) :
  Opt o k vs v1 -> Opt o k vs v2 -> v1 = v2.
Proof.
  intros [(s1 & Hs1 & Hv1) Hmin1] [(s2 & Hs2 & Hv2) Hmin2].
  pose proof (Hmin1 s2 Hs2) as H12. pose proof (Hmin2 s1 Hs1) as H21. lia.
Qed.

Theorem ckk_names_value {A : Type} (valueof nameof : A -> Z) (k : nat) (items : list A) (b : bins A) (b' : bins Z) :
  (1 <= k)%nat -> items <> [] -> Forall (fun x => 0 <= valueof x) items ->
  names_ok valueof nameof items ->
  ckk valueof nameof true k items = Ok b ->
  ckk idv idv true k (map valueof items) = Ok b' ->
  value MinDiff (sums b) false = value MinDiff (sums b') false.
Proof.
  intros Hk Hne Hpos HN Hb Hb'.
  pose proof (ckk_optimal valueof nameof k items b Hk Hne Hpos HN Hb) as O1.
  assert (Hne' : map valueof items <> []) by (destruct items; [congruence|discriminate]).
  assert (Hpos' : Forall (fun v : Z => 0 <= v) (map valueof items)) by (rewrite Forall_map; exact Hpos).
  pose proof (ckk_optimal_values idv k (map valueof items) b' Hk Hne' Hpos' Hb') as O2.
  rewrite nm_map_id in O2. exact (Opt_unique _ _ _ _ _ O1 O2).
Qed.

(** a result of ckk: a partition whose sums are ascending *)
Lemma ckk_result_shape {A : Type} (valueof nameof : A -> Z) (k : nat) (items : list A) (b : bins A) :
  (1 <= k)%nat -> items <> [] -> ckk valueof nameof true k items = Ok b ->
  length (sums b) = k /\ StronglySorted Z.le (sums b) /\ zsum (sums b) = zsum (map valueof items).
Proof.
  intros Hk Hne Hb.
  destruct (ckk_partition valueof nameof k items Hk Hne) as (b1 & Hb1 & HP & HL & HW).
  rewrite Hb in Hb1. injection Hb1 as <-.
  split; [unfold sums; rewrite map_length; exact HL|]. split.
  - unfold ckk in Hb.
    destruct (ckk_part (ckk_run valueof nameof true true None k items)) as [b0|]; [|discriminate].
    injection Hb as <-. apply sort_bins_sorted.
  - rewrite (wf_total valueof b HW). apply zsum_perm, Permutation_map. exact HP.
Qed.

Theorem ckk_names_sums_2 {A : Type} (valueof nameof : A -> Z) (items : list A) (b : bins A) (b' : bins Z) :
  items <> [] -> Forall (fun x => 0 <= valueof x) items ->
  names_ok valueof nameof items ->
  ckk valueof nameof true 2 items = Ok b ->
  ckk idv idv true 2 (map valueof items) = Ok b' ->
  sums b = sums b'.
Proof.
  intros Hne Hpos HN Hb Hb'.
  pose proof (ckk_names_value valueof nameof 2 items b b' (le_S _ _ (le_n 1)) Hne Hpos HN Hb Hb') as HV.
  assert (Hne' : map valueof items <> []) by (destruct items; [congruence|discriminate]).
  destruct (ckk_result_shape valueof nameof 2 items b (le_S _ _ (le_n 1)) Hne Hb) as (L1 & S1 & T1).
  destruct (ckk_result_shape idv idv 2 (map valueof items) b' (le_S _ _ (le_n 1)) Hne' Hb') as (L2 & S2 & T2).
  rewrite nm_map_id in T2.
  destruct (sums b) as [|s1 [|s2 [|s3 r]]]; try discriminate L1.
  destruct (sums b') as [|t1 [|t2 [|t3 r']]]; try discriminate L2.
  inversion S1 as [|x1 l1 _ F1]; subst x1 l1. apply Forall_inv in F1.
  inversion S2 as [|x2 l2 _ F2]; subst x2 l2. apply Forall_inv in F2.
  cbn [value zmax zmin zmax_list zmin_list] in HV. cbn [zsum fold_right] in T1, T2.
  assert (s1 = t1) by lia. assert (s2 = t2) by lia. subst. reflexivity.
Qed.

(* The general statement
     ckk_names_sums : forall A valueof nameof k items, names_ok valueof nameof items ->
       rmap sums (ckk valueof nameof true k items) = rmap sums (ckk idv idv true k (map valueof items))
   (every k, no hypothesis on the values, also for ckk_generator and for any two presentations of the
   same values) is proved in Proofs/CKKManagersProofs.v ([ckk_names_sums], [ckk_names_sums_gen],
   [ckk_generator_names_sums]); it became true when the children of a CKK search node were de-duplicated
   by their sums (Model/KK.v [ckk_children]): both managers and all presentations then explore the same
   tree.  It subsumes [ckk_names_value] and [ckk_names_sums_2] above, which are kept because they do not
   depend on that repair (they follow from optimality alone).
   OPEN: the same statement for [snp] and [rnp] (Model/SNP.v); no counterexample among 1500 random
   instances. *)

(** * Concrete instances (one per family), both sides evaluated *)

Example kk_names_ex :
  let items := [(101, 5); (102, 3); (103, 5); (104, 2); (105, 7); (106, 3)] in
  kk snd true 3 items =
    Ok [(8, [(103, 5); (102, 3)]); (8, [(101, 5); (106, 3)]); (9, [(105, 7); (104, 2)])] /\
  kk idv true 3 (map snd items) = Ok [(8, [5; 3]); (8, [5; 3]); (9, [7; 2])] /\
  rmap (map_bins snd) (kk snd true 3 items) = kk idv true 3 (map snd items) /\
  rmap (map_bins snd) (kk snd false 3 items) = kk idv false 3 (map snd items).
Proof. vm_compute. repeat split; reflexivity. Qed.

Example cg_names_ex :
  let items := [(101, 5); (102, 3); (103, 5); (104, 2); (105, 7); (106, 3)] in
  let fl := mk_flags true true true true in
  cg snd true MinLargest fl None 3 items =
    Some [(8, [(103, 5); (106, 3)]); (8, [(101, 5); (102, 3)]); (9, [(105, 7); (104, 2)])] /\
  cg idv true MinLargest fl None 3 (map snd items) = Some [(8, [5; 3]); (8, [5; 3]); (9, [7; 2])] /\
  option_map (map_bins snd) (cg snd true MinLargest fl None 3 items) =
    cg idv true MinLargest fl None 3 (map snd items) /\
  option_map (map_bins snd) (cg snd true MaxSmallest (mk_flags true false false true) (Some 12%nat) 2 items) =
    cg idv true MaxSmallest (mk_flags true false false true) (Some 12%nat) 2 (map snd items).
Proof. vm_compute. repeat split; reflexivity. Qed.

Example cbldm_names_ex :
  let items := [(101, 5); (102, 3); (103, 5); (104, 2); (105, 7); (106, 3)] in
  cbldm snd 2 items true 1 true None =
    Ok (CbBins [(12, [(104, 2); (101, 5); (103, 5)]); (13, [(106, 3); (105, 7); (102, 3)])], 17%nat) /\
  cbldm idv 2 (map snd items) true 1 true None = Ok (CbBins [(12, [2; 5; 5]); (13, [3; 7; 3])], 17%nat) /\
  rmap (fun r => (map_cbldm_out snd (fst r), snd r)) (cbldm snd 2 items true 1 true (Some 5%nat)) =
    cbldm idv 2 (map snd items) true 1 true (Some 5%nat).
Proof. vm_compute. repeat split; reflexivity. Qed.

(** * Index of the C07 family *)

(** proved in this file *)
Check @sort_asc_names.
Check @sort_desc_names.
Check @kk_names.
Check @cg_run_names.
Check @cg_names.
Check @cbldm_names.
Check @ckk_names_value.
Check @ckk_names_sums_2.
(** proved elsewhere (contents-keeping binner), listed here for reference *)
Check @GreedyProofs.greedy_names.
Check @GreedyProofs.roundrobin_names.
Check @PackingProofs.ff_names.
Check @PackingProofs.ffd_names.
Check @PackingProofs.bf_names.
Check @PackingProofs.bfd_names.
Check @CoveringProofs.dec_names.
Check @CoveringProofs.tt_names.
Check @CoveringProofs.tq_names.
Check @DPProofs.dp_names.

Print Assumptions sort_asc_names.
Print Assumptions sort_desc_names.
Print Assumptions kk_names.
Print Assumptions cg_run_names.
Print Assumptions cg_names.
Print Assumptions cbldm_names.
Print Assumptions ckk_names_value.
Print Assumptions ckk_names_sums_2.
