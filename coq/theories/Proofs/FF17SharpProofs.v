(** Towards the absolute bound FF, BF <= floor(17/10 OPT) of Dosa and Sgall
    (STACS 2013 / ICALP 2014).  b = bins returned, m = length b, n = any number of bins of
    capacity C into which the values can be packed (in particular the optimum), beta = number
    of values above C/2 (beta <= n).  Everything is in integer arithmetic, weights scaled by 10 C.

    PROVED, for first_fit and best_fit alike (items <> [], values >= 0):
      *_ratio_17_7_partial     10 m <= 17 n + 7                       (Xia & Tan: 1.7 OPT + 0.7)
      *_half_full_partial      10 m <= 15 n + 2 beta + 3              if every bin is > half full
      *_filled_partial         10 C m <= 15 C n + 2 C beta + max(0, 10 C - 12 l0)
                                                                      if every bin is filled to l0 > C/2
      *_ratio_17_1_partial     10 m <= 17 n + 1                       if every bin is > half full and
                               (the last bin without a value above C/2 is >= 2/3 full, or beta < n)
      *_low_bin_sharp_partial  10 m <= 17 n                           if some bin is <= half full and no
                               bin is a single item a with C/3 < a <= C/2
      *_ratio_17_3_partial     10 m <= 17 n + 3                       if no bin is such a single item
      *_ratio_17_floor_partial 10 m <= 17 n  for n <= 3 and n = 0, 3, 6 mod 10   (unconditional)
      *_ratio_17_floor_nms_partial  10 m <= 17 n  for n <> 1, 4, 7 mod 10, no such single item
    PROVED for first_fit only:
      ff_medium_single_partial      4 m <= 7 n   if some bin is a single item a, C/3 < a <= C/2
      ff_ratio_17_3_or_74_partial   10 m <= 17 n + 3  \/  4 m <= 7 n            (unconditional)
      ff_opt4_partial               n = 4 -> m <= 6
      ff_ratio_17_floor_small_partial   10 m <= 17 n for every n <= 6 (rung 2), and n = 9, 10, 13
    OPEN (see the end of the file): the full bound 10 m <= 17 n.

    Weight function of Dosa and Sgall:
       W2(a) = 12 a + bonus(a),   bonus(a) = 0        if 6 a <= C
                                           = 6 a - C  if C < 6 a and 3 a <= C
                                           = C        if C < 3 a and 2 a <= C
                                           = 4 C      if C < 2 a
    (W2 = W of FF17Proofs.v except on values above C/2, where W2 = 12 a + 4 C > 10 C = W).
    A feasible bin weighs at most 17 C ([light_bin2]), at most 15 C without a value above C/2
    ([light_bin2b], [packable_wsum2b]: total weight <= 15 C n + 2 C beta).

    Rung 1: Lemma [heavy]/[heavy2] of FF17Proofs.v / BF17Proofs.v, applied to the bins AFTER the
    first one with coarseness alpha = C - s1 + 1 (s1 = sum of the first bin), gives
    10 C |t| <= W2(t) + 10 C - W(alpha); and 12 C + 1 <= W2(first bin) + W(alpha) unless
    s1 <= C/6, in which case all other bins are filled above 5C/6 and the sizes give the bound.

    The amortisation of Dosa and Sgall (the bonus of the first two items of a bin pays for the
    free space of the previous bin) is Lemma [heavyI2] / [heavyR], as an induction over the bins
    with the potentials [PhiI] / [PhiS].  Only the first two items of a bin are used, which
    first-fit ([sfit]) and best-fit ([anyfit] /\ [bf2]) both control. *)
From Prtpy Require Import Base.Prelude Model.Binner Model.Packing Spec.Partition
  Proofs.BaseLemmas Proofs.BinnerLemmas Proofs.PackingProofs Proofs.FFDRatioProofs
  Proofs.BFDRatioProofs Proofs.BCOptimalProofs Proofs.FF17Proofs Proofs.BF17Proofs.
From Coq Require Import ZifyBool.

(** ---- 0. sums of an arbitrary weight function over a packing ---- *)
Definition fsum (f : Z -> Z) (l : list Z) : Z := zsum (map f l).

Lemma fsum_nil f : fsum f [] = 0.
Proof. reflexivity. Qed.

Lemma fsum_cons f a l : fsum f (a :: l) = f a + fsum f l.
Proof. reflexivity. Qed.

Lemma fsum_app f l1 l2 : fsum f (l1 ++ l2) = fsum f l1 + fsum f l2.
Proof. unfold fsum. rewrite map_app. apply zsum_app. Qed.

Lemma fsum_perm f l1 l2 : Permutation l1 l2 -> fsum f l1 = fsum f l2.
Proof. intros P. unfold fsum. apply zsum_perm. apply Permutation_map. exact P. Qed.

Lemma fsum_concat_le f K (G : list (list Z)) :
  Forall (fun g => fsum f g <= K) G -> fsum f (concat G) <= K * Z.of_nat (length G).
Proof.
  intros H. induction H as [|g G Hg HG IH]; [cbn [concat length Z.of_nat]; rewrite fsum_nil; lia|].
  cbn [concat length]. rewrite fsum_app, Nat2Z.inj_succ. lia.
Qed.

(** a weight function bounded by K on every feasible bin is bounded by K n on n bins *)
Lemma packable_fsum f C K vs n :
  (forall g, Forall (fun a => 0 <= a) g -> zsum g <= C -> fsum f g <= K) ->
  Forall (fun a => 0 <= a) vs -> Packable C vs n -> fsum f vs <= K * Z.of_nat n.
Proof.
  intros HK Hnn Hp. apply packable_gpack in Hp. destruct Hp as (G & HL & HP & HF).
  rewrite <- (fsum_perm f _ _ HP), <- HL. apply fsum_concat_le.
  assert (Hnn' : Forall (Forall (fun a => 0 <= a)) G).
  { apply Forall_concat_elim. eapply Permutation_Forall; [symmetry; exact HP|exact Hnn]. }
  clear HL HP. induction HF as [|g G Hg HG IH]; [constructor|].
  apply Forall_cons_iff in Hnn'. destruct Hnn' as [Hg0 HG0].
  constructor; [apply HK; assumption|apply IH; exact HG0].
Qed.

(** ---- 1. the weight function of Dosa and Sgall ---- *)
Definition bonus (C a : Z) : Z :=
  if 6 * a <=? C then 0
  else if 3 * a <=? C then 6 * a - C
  else if 2 * a <=? C then C
  else 4 * C.

Definition W2 (C a : Z) : Z := 12 * a + bonus C a.

Notation wsum2 C := (fsum (W2 C)).

Example W2_examples :
  map (W2 60) [0; 5; 10; 11; 20; 21; 30; 31; 60] = [0; 60; 120; 138; 300; 312; 420; 612; 960].
Proof. vm_compute. reflexivity. Qed.

Lemma W2_spec C a :
  (6 * a <= C /\ W2 C a = 12 * a) \/
  (C < 6 * a /\ 3 * a <= C /\ W2 C a = 18 * a - C) \/
  (C < 3 * a /\ 2 * a <= C /\ W2 C a = 12 * a + C) \/
  (C < 2 * a /\ W2 C a = 12 * a + 4 * C).
Proof.
  unfold W2, bonus. destruct (6 * a <=? C) eqn:E6; [left; lia|].
  destruct (3 * a <=? C) eqn:E3; [right; left; lia|].
  destruct (2 * a <=? C) eqn:E2; [right; right; left; lia|].
  right; right; right; lia.
Qed.

Lemma W_le_W2 C a : 0 <= C -> W C a <= W2 C a.
Proof. intros HC. pose proof (W_spec C a) as H1. pose proof (W2_spec C a) as H2. lia. Qed.

Lemma wsum_le_wsum2 C l : 0 <= C -> wsum C l <= wsum2 C l.
Proof.
  intros HC. induction l as [|a l IH]; [rewrite wsum_nil, fsum_nil; lia|].
  rewrite wsum_cons, fsum_cons. pose proof (W_le_W2 C a HC). lia.
Qed.

Lemma wsum2_ge_12 C l : 0 <= C -> Forall (fun a => 0 <= a) l -> 12 * zsum l <= wsum2 C l.
Proof.
  intros HC H. induction H as [|a l Ha Hl IH]; [rewrite fsum_nil, pk_zsum_nil; lia|].
  rewrite fsum_cons, pk_zsum_cons. pose proof (W2_spec C a) as HWa. lia.
Qed.

(** values summing to less than C/2 (as [wsum_small]) *)
Lemma wsum2_small C l : Forall (fun a => 0 <= a) l -> 2 * zsum l < C ->
  wsum2 C l <= 12 * zsum l + Z.max 0 (Z.min (6 * zsum l - C) C).
Proof.
  intros Hnn. induction Hnn as [|a l Ha Hl IH]; intros HS.
  - rewrite fsum_nil, pk_zsum_nil. lia.
  - rewrite pk_zsum_cons in HS. rewrite fsum_cons, pk_zsum_cons.
    pose proof (zsum_nonneg l Hl) as H0. assert (HS' : 2 * zsum l < C) by lia.
    specialize (IH HS'). pose proof (W2_spec C a) as HWa. lia.
Qed.

Lemma wsum2_le_15 C l : Forall (fun a => 0 <= a) l -> Forall (fun a => 2 * a <= C) l ->
  wsum2 C l <= 15 * zsum l.
Proof.
  intros Hnn H. induction H as [|a l Ha Hl IH]; [rewrite fsum_nil, pk_zsum_nil; lia|].
  apply Forall_cons_iff in Hnn. destruct Hnn as [Ha0 Hl0]. specialize (IH Hl0).
  rewrite fsum_cons, pk_zsum_cons. pose proof (W2_spec C a) as HWa. lia.
Qed.

(** a feasible bin weighs at most 17 C; at most 15 C when it holds no value above C/2 *)
Lemma light_bin2_nobig C l : Forall (fun a => 0 <= a) l -> Forall (fun a => 2 * a <= C) l ->
  zsum l <= C -> wsum2 C l <= 15 * C.
Proof. intros Hnn Hnb HS. pose proof (wsum2_le_15 C l Hnn Hnb). lia. Qed.

Lemma light_bin2 C l : Forall (fun a => 0 <= a) l -> zsum l <= C -> wsum2 C l <= 17 * C.
Proof.
  intros Hnn HS. pose proof (zsum_nonneg l Hnn) as H0.
  destruct (Forall_Exists_dec (fun a => 2 * a <= C) (fun a => Z_le_dec (2 * a) C) l) as [Hnb|Hbig].
  - pose proof (wsum2_le_15 C l Hnn Hnb). lia.
  - apply Exists_exists in Hbig. destruct Hbig as (x & Hin & Hx).
    apply in_split in Hin. destruct Hin as (l1 & l2 & E). subst l.
    assert (P : Permutation (l1 ++ x :: l2) (x :: l1 ++ l2)) by (symmetry; apply Permutation_middle).
    rewrite (fsum_perm _ _ _ P), fsum_cons. rewrite (zsum_perm _ _ P), pk_zsum_cons in HS.
    assert (Hnn' : Forall (fun a => 0 <= a) (l1 ++ l2)).
    { apply Forall_app in Hnn. destruct Hnn as [H1 H2]. apply Forall_cons_iff in H2.
      destruct H2 as [_ H2]. apply Forall_app. split; assumption. }
    pose proof (zsum_nonneg _ Hnn') as H0'.
    assert (HS' : 2 * zsum (l1 ++ l2) < C) by lia.
    pose proof (wsum2_small C (l1 ++ l2) Hnn' HS') as Hw.
    pose proof (W2_spec C x) as HWx. lia.
Qed.

Lemma packable_wsum2 C vs n : Forall (fun a => 0 <= a) vs -> Packable C vs n ->
  wsum2 C vs <= 17 * C * Z.of_nat n.
Proof. apply packable_fsum. intros g. apply light_bin2. Qed.

(** ---- 2. rung 1: the additive constant 7/10 ---- *)

(** the first bin together with the potential of the remaining ones *)
Lemma first_bin_gain C l : 0 <= C -> Forall (fun a => 0 <= a) l -> zsum l <= C ->
  2 * C + 1 <= 12 * zsum l ->
  12 * C + 1 <= wsum2 C l + W C (C - zsum l + 1).
Proof.
  intros HC Hnn HS Hs. pose proof (wsum2_ge_12 C l HC Hnn) as H12.
  pose proof (W_spec C (C - zsum l + 1)) as Hal. lia.
Qed.

Section Rung1.
  Context {A : Type} (valueof : A -> Z).

  Notation cw C b := (wsum C (map valueof (contents b))).
  Notation cw2 C b := (wsum2 C (map valueof (contents b))).

  (** bins whose first item is at least K are filled to at least K *)
  Lemma sums_ge_first K (t : bins A) : wf valueof t ->
    Forall (fun y => 0 <= valueof y) (contents t) ->
    Forall (fun c : bin A => match snd c with x :: _ => K <= valueof x | [] => False end) t ->
    K * Z.of_nat (length t) <= zsum (sums t).
  Proof.
    induction t as [|c t IH]; intros Hw Hnn Hk.
    - cbn [length Z.of_nat sums map]. rewrite pk_zsum_nil. lia.
    - unfold wf in Hw. apply Forall_cons_iff in Hw. destruct Hw as [Hwc Hw].
      rewrite contents_cons in Hnn. apply Forall_app in Hnn. destruct Hnn as [Hn1 Hn2].
      apply Forall_cons_iff in Hk. destruct Hk as [Hc Hk].
      specialize (IH Hw Hn2 Hk). unfold sums in IH |- *. cbn [map length].
      rewrite pk_zsum_cons, Nat2Z.inj_succ. unfold wf_bin in Hwc.
      destruct (snd c) as [|x r]; [contradiction|].
      cbn [map] in Hwc. rewrite pk_zsum_cons in Hwc.
      apply Forall_cons_iff in Hn1. destruct Hn1 as [_ Hr].
      assert (Hr0 : 0 <= zsum (map valueof r)).
      { apply zsum_nonneg. rewrite Forall_map. exact Hr. }
      lia.
  Qed.

  (** the common part of the two theorems: [Htail] is Lemma 2 for the bins after the first *)
  Lemma ratio_17_7_core C (b : bins A) (vs : list Z) (n : nat) :
    0 < C -> (1 <= n)%nat ->
    wf valueof b -> feasible C b -> nonneg_sums b -> anyfit valueof C b ->
    Forall (fun y => 0 <= valueof y) (contents b) ->
    Permutation (map valueof (contents b)) vs -> Packable C vs n ->
    (forall c t, b = c :: t ->
       10 * C * Z.of_nat (length t) <= cw C t + (10 * C - W C (C - fst c + 1))) ->
    (10 * length b <= 17 * n + 7)%nat.
  Proof.
    intros HC Hn Hw Hf Hns Ha Hnn Hp Hpack Htail.
    destruct b as [|c t]; [cbn [length]; lia|].
    specialize (Htail c t eq_refl).
    assert (Hvs : Forall (fun a => 0 <= a) vs).
    { eapply Permutation_Forall; [exact Hp|]. rewrite Forall_map. exact Hnn. }
    pose proof (packable_wsum2 C vs n Hvs Hpack) as Hlight.
    rewrite <- (fsum_perm _ _ _ Hp) in Hlight.
    pose proof (packable_total C vs n Hpack) as Htot.
    rewrite <- (zsum_perm _ _ Hp), <- (wf_total valueof _ Hw) in Htot.
    unfold wf in Hw. apply Forall_cons_iff in Hw. destruct Hw as [Hwc Hw]. unfold wf_bin in Hwc.
    unfold feasible in Hf. apply Forall_cons_iff in Hf. destruct Hf as [Hfc _].
    unfold nonneg_sums in Hns. apply Forall_cons_iff in Hns. destruct Hns as [Hnc _].
    apply anyfit_cons in Ha. destruct Ha as [Hl1 _].
    rewrite contents_cons in Hnn. apply Forall_app in Hnn. destruct Hnn as [Hn1 Hn2].
    rewrite contents_cons, map_app, fsum_app in Hlight.
    unfold sums in Htot. cbn [map] in Htot. rewrite pk_zsum_cons in Htot. cbn [length].
    destruct (Z_le_dec (2 * C + 1) (12 * fst c)) as [Hs|Hs].
    - (* the weights *)
      assert (Hn1' : Forall (fun a => 0 <= a) (map valueof (snd c)))
        by (rewrite Forall_map; exact Hn1).
      assert (Hgain : 12 * C + 1 <= wsum2 C (map valueof (snd c)) + W C (C - fst c + 1)).
      { rewrite Hwc. apply first_bin_gain.
        - lia.
        - exact Hn1'.
        - rewrite <- Hwc. exact Hfc.
        - rewrite <- Hwc. exact Hs. }
      assert (Hle : cw C t <= cw2 C t) by (apply wsum_le_wsum2; lia).
      assert (Hz : 10 * C * Z.of_nat (S (length t)) + 1 <= 17 * C * Z.of_nat n + 8 * C).
      { rewrite Nat2Z.inj_succ. lia. }
      assert (Hz' : 10 * Z.of_nat (S (length t)) < 17 * Z.of_nat n + 8) by nia.
      lia.
    - (* the first bin is filled to at most C/6: the sizes *)
      assert (Hk : (C - fst c + 1) * Z.of_nat (length t) <= zsum (sums t)).
      { apply sums_ge_first; auto. eapply Forall_impl; [|exact Hl1].
        intros c0 Hc0. unfold later_ok in Hc0. destruct (snd c0) as [|x r]; [exact Hc0|lia]. }
      unfold sums in Hk.
      assert (Hz : 5 * Z.of_nat (length t) < 6 * Z.of_nat n) by nia.
      lia.
  Qed.

  (** capacity 0: a single bin *)
  Lemma cap0_single (b : bins A) (vs : list Z) (n : nat) :
    wf valueof b -> anyfit valueof 0 b -> Forall (fun y => 0 <= valueof y) (contents b) ->
    Permutation (map valueof (contents b)) vs -> Packable 0 vs n -> (length b <= 1)%nat.
  Proof.
    intros Hw Ha Hnn Hp Hpack.
    destruct (le_lt_dec 2 (length b)) as [Hbig|Hsmall]; [|lia]. exfalso.
    pose proof (anyfit_pairs valueof 0 1 b Ha Hw Hnn) as Hpair.
    assert (H2 : (2 * 1 <= length b)%nat) by lia. specialize (Hpair H2).
    rewrite (wf_total valueof b Hw), (zsum_perm _ _ Hp) in Hpair.
    pose proof (packable_total 0 _ n Hpack) as Htot. lia.
  Qed.

  Theorem ff_ratio_17_7_partial C (items : list A) (b : bins A) (n : nat) :
    items <> [] -> Forall (fun x : A => 0 <= valueof x) items ->
    first_fit valueof true C items = Ok b -> Packable C (map valueof items) n ->
    (10 * length b <= 17 * n + 7)%nat.
  Proof.
    intros Hne Hnn Hff Hpack.
    pose proof (ff_sfit valueof C items b Hnn Hff) as Hsf.
    destruct (ff_Inv valueof C items b Hne Hnn Hff) as (Hw & Hf & Hp & Hnem & Hns & Ha).
    assert (Hnnb : Forall (fun y => 0 <= valueof y) (contents b))
      by (eapply Permutation_Forall; [symmetry; exact Hp|exact Hnn]).
    assert (HC : 0 <= C).
    { destruct b as [|bn t].
      - unfold contents, lists in Hp. cbn [map concat] in Hp.
        apply Permutation_nil in Hp. congruence.
      - unfold feasible in Hf. apply Forall_cons_iff in Hf. destruct Hf as [Hf _].
        unfold nonneg_sums in Hns. apply Forall_cons_iff in Hns. destruct Hns as [Hns _]. lia. }
    assert (Hn : (1 <= n)%nat).
    { destruct n as [|n]; [|lia]. apply packable_zero in Hpack. apply map_eq_nil in Hpack. congruence. }
    pose proof (Permutation_map valueof Hp) as Hpv.
    destruct (Z.eq_dec C 0) as [E0|Hpos].
    - subst C. pose proof (cap0_single b _ n Hw Ha Hnnb Hpv Hpack). lia.
    - apply (ratio_17_7_core C b (map valueof items) n); auto; try lia.
      intros c t E. subst b.
      unfold wf in Hw. apply Forall_cons_iff in Hw. destruct Hw as [_ Hw].
      unfold all_nonempty in Hnem. apply Forall_cons_iff in Hnem. destruct Hnem as [_ Hnem].
      cbn [sfit] in Hsf. destruct Hsf as [Hs1 Hsf].
      rewrite contents_cons in Hnnb. apply Forall_app in Hnnb. destruct Hnnb as [_ Hnn2].
      apply (heavy valueof C HC t (C - fst c + 1)); auto.
      eapply Forall_impl; [|exact Hs1]. intros y Hy. cbv beta in Hy. lia.
  Qed.

  Theorem bf_ratio_17_7_partial C (items : list A) (b : bins A) (n : nat) :
    items <> [] -> Forall (fun x : A => 0 <= valueof x) items ->
    best_fit valueof true C items = Ok b -> Packable C (map valueof items) n ->
    (10 * length b <= 17 * n + 7)%nat.
  Proof.
    intros Hne Hnn Hbf Hpack.
    destruct (bf_inv2 valueof C items b Hne Hnn Hbf) as [(Hw & Hf & Hp & Hnem & Hns & Ha) Hb2].
    assert (Hnnb : Forall (fun y => 0 <= valueof y) (contents b))
      by (eapply Permutation_Forall; [symmetry; exact Hp|exact Hnn]).
    assert (HC : 0 <= C).
    { destruct b as [|bn t].
      - unfold contents, lists in Hp. cbn [map concat] in Hp.
        apply Permutation_nil in Hp. congruence.
      - unfold feasible in Hf. apply Forall_cons_iff in Hf. destruct Hf as [Hf _].
        unfold nonneg_sums in Hns. apply Forall_cons_iff in Hns. destruct Hns as [Hns _]. lia. }
    assert (Hn : (1 <= n)%nat).
    { destruct n as [|n]; [|lia]. apply packable_zero in Hpack. apply map_eq_nil in Hpack. congruence. }
    pose proof (Permutation_map valueof Hp) as Hpv.
    destruct (Z.eq_dec C 0) as [E0|Hpos].
    - subst C. pose proof (cap0_single b _ n Hw Ha Hnnb Hpv Hpack). lia.
    - apply (ratio_17_7_core C b (map valueof items) n); auto; try lia.
      intros c t E. subst b.
      unfold wf in Hw. apply Forall_cons_iff in Hw. destruct Hw as [_ Hw].
      unfold all_nonempty in Hnem. apply Forall_cons_iff in Hnem. destruct Hnem as [_ Hnem].
      apply anyfit_cons in Ha. destruct Ha as [Hl1 Ha].
      cbn [bf2] in Hb2. destruct Hb2 as [Hl2 Hb2].
      rewrite contents_cons in Hnnb. apply Forall_app in Hnnb. destruct Hnnb as [_ Hnn2].
      apply (heavy2 valueof C HC t (C - fst c + 1)); auto.
      pose proof (head2_ge_nonneg valueof C t Hnn2) as Hh.
      rewrite Forall_forall in *. intros c0 Hc0.
      specialize (Hh c0 Hc0). specialize (Hl1 c0 Hc0). specialize (Hl2 c0 Hc0).
      unfold head2_ge, later_ok, later2_ok in *.
      destruct (snd c0) as [|x [|y r]]; [exact I| |].
      + split; [lia|exact I].
      + destruct Hh as [Hx Hy]. split; [lia|].
        destruct Hl2 as [Hl2|Hl2]; [left; lia|right; exact Hl2].
  Qed.
End Rung1.

(** ---- 3. the amortised analysis of Dosa and Sgall when every bin is more than half full ---- *)

Lemma bonus_spec C a :
  (6 * a <= C /\ bonus C a = 0) \/
  (C < 6 * a /\ 3 * a <= C /\ bonus C a = 6 * a - C) \/
  (C < 3 * a /\ 2 * a <= C /\ bonus C a = C) \/
  (C < 2 * a /\ bonus C a = 4 * C).
Proof.
  unfold bonus. destruct (6 * a <=? C) eqn:E6; [left; lia|].
  destruct (3 * a <=? C) eqn:E3; [right; left; lia|].
  destruct (2 * a <=? C) eqn:E2; [right; right; left; lia|].
  right; right; right; lia.
Qed.

Lemma bonus_mono C a a' : 0 <= C -> a <= a' -> bonus C a <= bonus C a'.
Proof. intros HC H. pose proof (bonus_spec C a). pose proof (bonus_spec C a'). lia. Qed.

(** the largest possible deficit 10 C |t| - W2(t) of bins that are filled to at least l0 > C/2 and
    whose items are all at least alpha: the last bin is filled to at least max(l0, 2 alpha) and
    the first one holds two items of bonus at least bonus(alpha) *)
Definition PhiI (C l0 alpha : Z) : Z :=
  Z.max 0 (10 * C - Z.max (12 * l0) (24 * alpha) - 2 * bonus C alpha).

Lemma PhiI_mono C l0 a a' : 0 <= C -> a <= a' -> PhiI C l0 a' <= PhiI C l0 a.
Proof. intros HC H. unfold PhiI. pose proof (bonus_mono C a a' HC H). lia. Qed.

Lemma wsum2_big C l : 0 <= C -> Forall (fun a => 0 <= a) l -> Exists (fun a => ~ 2 * a <= C) l ->
  12 * zsum l + 4 * C <= wsum2 C l.
Proof.
  intros HC Hnn H. induction H as [a l Ha|a l Hl IH].
  - apply Forall_cons_iff in Hnn. destruct Hnn as [Ha0 Hl0].
    rewrite fsum_cons, pk_zsum_cons. pose proof (wsum2_ge_12 C l HC Hl0).
    pose proof (W2_spec C a) as HWa. lia.
  - apply Forall_cons_iff in Hnn. destruct Hnn as [Ha0 Hl0].
    rewrite fsum_cons, pk_zsum_cons. specialize (IH Hl0).
    pose proof (W2_spec C a) as HWa. lia.
Qed.

Section HeavyI.
  Context {A : Type} (valueof : A -> Z).

  Notation cw2 C b := (wsum2 C (map valueof (contents b))).

  Definition half_full (C : Z) (b : bins A) : Prop := Forall (fun bn : bin A => C < 2 * fst bn) b.
  (** every bin is filled to at least l0 *)
  Definition filled (l0 : Z) (b : bins A) : Prop := Forall (fun bn : bin A => l0 <= fst bn) b.

  (** first-fit has the two properties of best-fit used below *)
  Lemma sfit_later2 C s (t : bins A) :
    Forall (fun y => C < s + valueof y) (contents t) -> Forall (later2_ok valueof C s) t.
  Proof.
    induction t as [|c t IH]; intros H; [constructor|].
    rewrite contents_cons in H. apply Forall_app in H. destruct H as [H1 H2].
    constructor; [|apply IH; exact H2]. unfold later2_ok.
    destruct (snd c) as [|x [|y r]]; [exact I|exact I|].
    apply Forall_cons_iff in H1. destruct H1 as [_ H1].
    apply Forall_cons_iff in H1. destruct H1 as [Hy _]. left. exact Hy.
  Qed.

  Lemma sfit_bf2 C (b : bins A) : sfit valueof C b -> bf2 valueof C b.
  Proof.
    induction b as [|bn t IH]; cbn [sfit bf2]; [auto|].
    intros [H1 H2]. split; [apply sfit_later2; exact H1|apply IH; exact H2].
  Qed.

  Lemma head2_ge_next1 C alpha s alpha' (t : bins A) : alpha' = Z.max alpha (C - s + 1) ->
    Forall (head2_ge valueof C alpha) t -> Forall (later_ok valueof C s) t ->
    Forall (later2_ok valueof C s) t -> Forall (head2_ge valueof C alpha') t.
  Proof.
    intros Ea Hh Hl1 Hl2. rewrite Forall_forall in *. intros c Hc.
    specialize (Hh c Hc). specialize (Hl1 c Hc). specialize (Hl2 c Hc).
    unfold head2_ge, later_ok, later2_ok in *.
    destruct (snd c) as [|x [|y r]]; [exact I| |].
    - split; [lia|exact I].
    - destruct Hh as [Hx Hy]. split; [lia|]. destruct Hy as [Hy|Hy]; [|right; exact Hy].
      destruct Hl2 as [Hl2|Hl2]; [left; lia|right; exact Hl2].
  Qed.

  (** Lemma 2 for bins that are more than half full, under any-fit /\ bf2 (the first two items
      of a bin fit into no earlier bin; cf. [heavy2]) *)
  Lemma heavyI2 C l0 : 0 <= C -> C < 2 * l0 -> forall (b : bins A) alpha,
    wf valueof b -> all_nonempty b -> anyfit valueof C b -> bf2 valueof C b -> filled l0 b ->
    Forall (fun y => 0 <= valueof y) (contents b) ->
    Forall (head2_ge valueof C alpha) b ->
    10 * C * Z.of_nat (length b) <= cw2 C b + PhiI C l0 alpha.
  Proof.
    intros HC Hl0. induction b as [|bn t IH]; intros alpha Hw Hne Haf Hb2 Hhf Hnn Hge.
    - cbn [length Z.of_nat]. unfold contents, lists. cbn [map concat]. rewrite fsum_nil.
      unfold PhiI. lia.
    - unfold wf in Hw. apply Forall_cons_iff in Hw. destruct Hw as [Hwb Hw].
      unfold all_nonempty in Hne. apply Forall_cons_iff in Hne. destruct Hne as [Hbn Hne].
      apply anyfit_cons in Haf. destruct Haf as [Hl1 Haf].
      cbn [bf2] in Hb2. destruct Hb2 as [Hl2 Hb2].
      unfold filled in Hhf. apply Forall_cons_iff in Hhf. destruct Hhf as [Hh1 Hhf].
      rewrite contents_cons in Hnn. apply Forall_app in Hnn. destruct Hnn as [Hnn1 Hnn2].
      apply Forall_cons_iff in Hge. destruct Hge as [Hge1 Hge2].
      rewrite contents_cons, map_app, fsum_app. cbn [length]. rewrite Nat2Z.inj_succ.
      unfold wf_bin in Hwb.
      assert (Hnn1' : Forall (fun a => 0 <= a) (map valueof (snd bn)))
        by (rewrite Forall_map; exact Hnn1).
      set (alpha' := Z.max alpha (C - fst bn + 1)).
      assert (Hnext : 10 * C * Z.of_nat (length t) <= cw2 C t + PhiI C l0 alpha').
      { apply IH; auto. apply (head2_ge_next1 C alpha (fst bn)); auto. }
      assert (Hmono : PhiI C l0 alpha' <= PhiI C l0 alpha) by (apply PhiI_mono; unfold alpha'; lia).
      destruct (Forall_Exists_dec (fun a => 2 * a <= C) (fun a => Z_le_dec (2 * a) C)
                  (map valueof (snd bn))) as [Hnb|Hbig].
      + unfold head2_ge in Hge1.
        destruct (snd bn) as [|x1 [|x2 rest]] eqn:Es; [congruence| |].
        * (* a single item, at most C/2: the bin is not more than half full *)
          cbn [map] in Hwb, Hnb. rewrite pk_zsum_cons, pk_zsum_nil in Hwb.
          apply Forall_cons_iff in Hnb. destruct Hnb as [Hx1 _]. lia.
        * (* at least two items, all at most C/2 *)
          cbn [map] in Hwb, Hnb, Hnn1' |- *. rewrite !pk_zsum_cons in Hwb.
          apply Forall_cons_iff in Hnb. destruct Hnb as [Hx1 Hnb].
          apply Forall_cons_iff in Hnb. destruct Hnb as [Hx2 Hnb].
          destruct Hge1 as [Ha1 Ha2].
          assert (Ha2' : alpha <= valueof x2) by (destruct Ha2 as [Ha2|Ha2]; [exact Ha2|lia]).
          clear Ha2.
          apply Forall_cons_iff in Hnn1'. destruct Hnn1' as [Hp1 Hnn1'].
          apply Forall_cons_iff in Hnn1'. destruct Hnn1' as [Hp2 Hnnr].
          pose proof (zsum_nonneg _ Hnnr) as Hr0.
          pose proof (wsum2_ge_12 C _ HC Hnnr) as Hr12.
          rewrite !fsum_cons.
          assert (Hstep : 10 * C + PhiI C l0 alpha' <=
                          W2 C (valueof x1) + W2 C (valueof x2) + 12 * zsum (map valueof rest)
                          + PhiI C l0 alpha).
          { unfold PhiI, W2. subst alpha'.
            pose proof (bonus_spec C (valueof x1)) as H1.
            pose proof (bonus_spec C (valueof x2)) as H2.
            pose proof (bonus_spec C alpha) as H3.
            pose proof (bonus_spec C (Z.max alpha (C - fst bn + 1))) as H4.
            lia. }
          lia.
      + (* an item above C/2 *)
        pose proof (wsum2_big C _ HC Hnn1' Hbig) as Hwb10. lia.
  Qed.
End HeavyI.

(** ---- 4. the weight of a packing, counting the values above C/2 ---- *)

(** W2 minus 2 C for every value above C/2: at most 15 C on a feasible bin *)
Definition W2b (C a : Z) : Z := W2 C a - 2 * C * bigw C a.

Lemma fsum_W2b C l : fsum (W2b C) l = wsum2 C l - 2 * C * fsum (bigw C) l.
Proof.
  induction l as [|a l IH]; [rewrite !fsum_nil; lia|].
  rewrite !fsum_cons, IH. unfold W2b. lia.
Qed.

Lemma fsum_bigw_nonneg C l : 0 <= fsum (bigw C) l.
Proof.
  induction l as [|a l IH]; [rewrite fsum_nil; lia|].
  rewrite fsum_cons. pose proof (bigw_range C a). lia.
Qed.

Lemma fsum_bigw_pos C l : Exists (fun a => ~ 2 * a <= C) l -> 1 <= fsum (bigw C) l.
Proof.
  intros H. induction H as [a l Ha|a l Hl IH]; rewrite fsum_cons.
  - pose proof (fsum_bigw_nonneg C l).
    assert (E1 : bigw C a = 1) by (unfold bigw; destruct (C <? 2 * a) eqn:E; lia). lia.
  - pose proof (bigw_range C a). lia.
Qed.

Lemma light_bin2b C l : 0 <= C -> Forall (fun a => 0 <= a) l -> zsum l <= C ->
  fsum (W2b C) l <= 15 * C.
Proof.
  intros HC Hnn HS. rewrite fsum_W2b.
  destruct (Forall_Exists_dec (fun a => 2 * a <= C) (fun a => Z_le_dec (2 * a) C) l) as [Hnb|Hbig].
  - pose proof (wsum2_le_15 C l Hnn Hnb). pose proof (fsum_bigw_nonneg C l) as Hb.
    assert (0 <= 2 * C * fsum (bigw C) l) by (apply Z.mul_nonneg_nonneg; lia). lia.
  - pose proof (light_bin2 C l Hnn HS). pose proof (fsum_bigw_pos C l Hbig) as Hb.
    assert (2 * C * 1 <= 2 * C * fsum (bigw C) l) by (apply Z.mul_le_mono_nonneg_l; lia). lia.
Qed.

(** total weight at most 15 C n + 2 C (number of values above C/2) *)
Lemma packable_wsum2b C vs n : 0 <= C -> Forall (fun a => 0 <= a) vs -> Packable C vs n ->
  wsum2 C vs <= 15 * C * Z.of_nat n + 2 * C * fsum (bigw C) vs.
Proof.
  intros HC Hnn Hp.
  assert (H : fsum (W2b C) vs <= 15 * C * Z.of_nat n).
  { apply (packable_fsum (W2b C) C); auto. intros g Hg Hs. apply light_bin2b; auto. }
  rewrite fsum_W2b in H. lia.
Qed.

(** ---- 5. first-fit when every bin is more than half full: the additive constant 3/10 ---- *)
Section CaseI.
  Context {A : Type} (valueof : A -> Z).

  (** common part for first-fit and best-fit; [beta] = number of values above C/2 *)
  Lemma half_full_core C (b : bins A) (vs : list Z) (n : nat) :
    0 < C -> wf valueof b -> all_nonempty b -> anyfit valueof C b -> bf2 valueof C b ->
    Forall (fun y => 0 <= valueof y) (contents b) ->
    Permutation (map valueof (contents b)) vs -> Packable C vs n ->
    half_full C b ->
    10 * Z.of_nat (length b) <= 15 * Z.of_nat n + 2 * fsum (bigw C) vs + 3.
  Proof.
    intros HC Hw Hnem Ha Hb2 Hnnb Hpv Hpack Hhf.
    assert (HC0 : 0 <= C) by lia.
    pose proof (Z.div_mod C 2) as Hdm. pose proof (Z.mod_pos_bound C 2) as Hmb.
    assert (Hh : C - 1 <= 2 * (C / 2) <= C) by lia.
    clear Hdm Hmb. set (h := C / 2) in *.
    assert (Hl0 : C < 2 * (h + 1)) by lia.
    assert (Hfl : filled (h + 1) b).
    { unfold filled. eapply Forall_impl; [|exact Hhf]. intros bn Hbn. cbv beta in Hbn. lia. }
    pose proof (heavyI2 valueof C (h + 1) HC0 Hl0 b 0 Hw Hnem Ha Hb2 Hfl Hnnb
                  (head2_ge_nonneg valueof C b Hnnb)) as Hheavy.
    assert (Hvs : Forall (fun a => 0 <= a) vs).
    { eapply Permutation_Forall; [exact Hpv|]. rewrite Forall_map. exact Hnnb. }
    pose proof (packable_wsum2b C _ n HC0 Hvs Hpack) as Hlight.
    rewrite (fsum_perm _ _ _ Hpv) in Hheavy.
    assert (HPhi : PhiI C (h + 1) 0 <= 4 * C - 1).
    { unfold PhiI. pose proof (bonus_spec C 0). lia. }
    nia.
  Qed.

  (** the same with a lower bound l0 > C/2 on the sums of all bins: the additive term is
      max(0, 10 - 12 l0 / C) (0 when every bin is filled to 5/6, 2 when filled to 2/3) *)
  Lemma filled_core C l0 (b : bins A) (vs : list Z) (n : nat) :
    0 < C -> C < 2 * l0 -> wf valueof b -> all_nonempty b -> anyfit valueof C b ->
    bf2 valueof C b -> Forall (fun y => 0 <= valueof y) (contents b) ->
    Permutation (map valueof (contents b)) vs -> Packable C vs n ->
    filled l0 b ->
    10 * C * Z.of_nat (length b) <=
      15 * C * Z.of_nat n + 2 * C * fsum (bigw C) vs + Z.max 0 (10 * C - 12 * l0).
  Proof.
    intros HC Hl0 Hw Hnem Ha Hb2 Hnnb Hpv Hpack Hfl.
    assert (HC0 : 0 <= C) by lia.
    pose proof (heavyI2 valueof C l0 HC0 Hl0 b 0 Hw Hnem Ha Hb2 Hfl Hnnb
                  (head2_ge_nonneg valueof C b Hnnb)) as Hheavy.
    assert (Hvs : Forall (fun a => 0 <= a) vs).
    { eapply Permutation_Forall; [exact Hpv|]. rewrite Forall_map. exact Hnnb. }
    pose proof (packable_wsum2b C _ n HC0 Hvs Hpack) as Hlight.
    rewrite (fsum_perm _ _ _ Hpv) in Hheavy.
    assert (HPhi : PhiI C l0 0 <= Z.max 0 (10 * C - 12 * l0)).
    { unfold PhiI. pose proof (bonus_spec C 0). lia. }
    lia.
  Qed.

  Lemma ff_facts C (items : list A) (b : bins A) (n : nat) :
    items <> [] -> Forall (fun x : A => 0 <= valueof x) items ->
    first_fit valueof true C items = Ok b -> Packable C (map valueof items) n ->
    Inv valueof C b items /\ bf2 valueof C b /\ 0 <= C /\ (1 <= n)%nat /\
    Forall (fun y => 0 <= valueof y) (contents b).
  Proof.
    intros Hne Hnn Hff Hpack.
    pose proof (ff_sfit valueof C items b Hnn Hff) as Hsf.
    pose proof (ff_Inv valueof C items b Hne Hnn Hff) as HI.
    destruct HI as (Hw & Hf & Hp & Hnem & Hns & Ha).
    repeat split; auto.
    - apply sfit_bf2. exact Hsf.
    - destruct b as [|bn t].
      + unfold contents, lists in Hp. cbn [map concat] in Hp.
        apply Permutation_nil in Hp. congruence.
      + unfold feasible in Hf. apply Forall_cons_iff in Hf. destruct Hf as [Hf _].
        unfold nonneg_sums in Hns. apply Forall_cons_iff in Hns. destruct Hns as [Hns _]. lia.
    - destruct n as [|n]; [|lia]. apply packable_zero in Hpack. apply map_eq_nil in Hpack. congruence.
    - eapply Permutation_Forall; [symmetry; exact Hp|exact Hnn].
  Qed.

  Lemma bf_facts C (items : list A) (b : bins A) (n : nat) :
    items <> [] -> Forall (fun x : A => 0 <= valueof x) items ->
    best_fit valueof true C items = Ok b -> Packable C (map valueof items) n ->
    Inv valueof C b items /\ bf2 valueof C b /\ 0 <= C /\ (1 <= n)%nat /\
    Forall (fun y => 0 <= valueof y) (contents b).
  Proof.
    intros Hne Hnn Hbf Hpack.
    destruct (bf_inv2 valueof C items b Hne Hnn Hbf) as [HI Hb2].
    destruct HI as (Hw & Hf & Hp & Hnem & Hns & Ha).
    repeat split; auto.
    - destruct b as [|bn t].
      + unfold contents, lists in Hp. cbn [map concat] in Hp.
        apply Permutation_nil in Hp. congruence.
      + unfold feasible in Hf. apply Forall_cons_iff in Hf. destruct Hf as [Hf _].
        unfold nonneg_sums in Hns. apply Forall_cons_iff in Hns. destruct Hns as [Hns _]. lia.
    - destruct n as [|n]; [|lia]. apply packable_zero in Hpack. apply map_eq_nil in Hpack. congruence.
    - eapply Permutation_Forall; [symmetry; exact Hp|exact Hnn].
  Qed.

  Theorem ff_half_full_partial C (items : list A) (b : bins A) (n : nat) :
    items <> [] -> Forall (fun x : A => 0 <= valueof x) items ->
    first_fit valueof true C items = Ok b -> Packable C (map valueof items) n ->
    half_full C b ->
    10 * Z.of_nat (length b) <=
      15 * Z.of_nat n + 2 * fsum (bigw C) (map valueof items) + 3.
  Proof.
    intros Hne Hnn Hff Hpack Hhf.
    destruct (ff_facts C items b n Hne Hnn Hff Hpack)
      as ((Hw & Hf & Hp & Hnem & Hns & Ha) & Hb2 & HC & Hn & Hnnb).
    pose proof (Permutation_map valueof Hp) as Hpv.
    pose proof (fsum_bigw_nonneg C (map valueof items)) as Hb0.
    destruct (Z.eq_dec C 0) as [E0|Hpos].
    - subst C. pose proof (cap0_single valueof b _ n Hw Ha Hnnb Hpv Hpack). lia.
    - apply (half_full_core C b); auto. lia.
  Qed.

  Theorem bf_half_full_partial C (items : list A) (b : bins A) (n : nat) :
    items <> [] -> Forall (fun x : A => 0 <= valueof x) items ->
    best_fit valueof true C items = Ok b -> Packable C (map valueof items) n ->
    half_full C b ->
    10 * Z.of_nat (length b) <=
      15 * Z.of_nat n + 2 * fsum (bigw C) (map valueof items) + 3.
  Proof.
    intros Hne Hnn Hbf Hpack Hhf.
    destruct (bf_facts C items b n Hne Hnn Hbf Hpack)
      as ((Hw & Hf & Hp & Hnem & Hns & Ha) & Hb2 & HC & Hn & Hnnb).
    pose proof (Permutation_map valueof Hp) as Hpv.
    pose proof (fsum_bigw_nonneg C (map valueof items)) as Hb0.
    destruct (Z.eq_dec C 0) as [E0|Hpos].
    - subst C. pose proof (cap0_single valueof b _ n Hw Ha Hnnb Hpv Hpack). lia.
    - apply (half_full_core C b); auto. lia.
  Qed.
  (** every bin filled to at least l0 > C/2 *)
  Theorem ff_filled_partial C l0 (items : list A) (b : bins A) (n : nat) :
    items <> [] -> Forall (fun x : A => 0 <= valueof x) items ->
    first_fit valueof true C items = Ok b -> Packable C (map valueof items) n ->
    0 < C -> C < 2 * l0 -> filled l0 b ->
    10 * C * Z.of_nat (length b) <=
      15 * C * Z.of_nat n + 2 * C * fsum (bigw C) (map valueof items) + Z.max 0 (10 * C - 12 * l0).
  Proof.
    intros Hne Hnn Hff Hpack HC Hl0 Hfl.
    destruct (ff_facts C items b n Hne Hnn Hff Hpack)
      as ((Hw & Hf & Hp & Hnem & Hns & Ha) & Hb2 & _ & Hn & Hnnb).
    apply (filled_core C l0 b); auto. apply Permutation_map. exact Hp.
  Qed.

  Theorem bf_filled_partial C l0 (items : list A) (b : bins A) (n : nat) :
    items <> [] -> Forall (fun x : A => 0 <= valueof x) items ->
    best_fit valueof true C items = Ok b -> Packable C (map valueof items) n ->
    0 < C -> C < 2 * l0 -> filled l0 b ->
    10 * C * Z.of_nat (length b) <=
      15 * C * Z.of_nat n + 2 * C * fsum (bigw C) (map valueof items) + Z.max 0 (10 * C - 12 * l0).
  Proof.
    intros Hne Hnn Hbf Hpack HC Hl0 Hfl.
    destruct (bf_facts C items b n Hne Hnn Hbf Hpack)
      as ((Hw & Hf & Hp & Hnem & Hns & Ha) & Hb2 & _ & Hn & Hnnb).
    apply (filled_core C l0 b); auto. apply Permutation_map. exact Hp.
  Qed.

  (** in particular: all bins filled to 5/6 give the sharp bound, all bins filled to 2/3 give
      17 n + 2, and the sharp bound again when fewer than n values exceed C/2 *)
  Corollary filled_56_sharp C l0 (m n : nat) beta :
    0 < C -> 5 * C <= 6 * l0 -> beta <= Z.of_nat n ->
    10 * C * Z.of_nat m <= 15 * C * Z.of_nat n + 2 * C * beta + Z.max 0 (10 * C - 12 * l0) ->
    (10 * m <= 17 * n)%nat.
  Proof. intros HC Hl Hb H. assert (10 * Z.of_nat m <= 17 * Z.of_nat n) by nia. lia. Qed.

  Corollary filled_23 C l0 (m n : nat) beta :
    0 < C -> 2 * C <= 3 * l0 -> beta <= Z.of_nat n ->
    10 * C * Z.of_nat m <= 15 * C * Z.of_nat n + 2 * C * beta + Z.max 0 (10 * C - 12 * l0) ->
    (10 * m <= 17 * n + 2)%nat /\ (beta < Z.of_nat n -> (10 * m <= 17 * n)%nat).
  Proof.
    intros HC Hl Hb H. split.
    - assert (10 * Z.of_nat m <= 17 * Z.of_nat n + 2) by nia. lia.
    - intros Hlt. assert (10 * Z.of_nat m <= 17 * Z.of_nat n) by nia. lia.
  Qed.
End CaseI.

(** ---- 5b. the regular case of Dosa and Sgall: additive constant 1/10 ----
    All bins more than half full, and the LAST bin without a value above C/2 (the last "common"
    bin) filled to at least l0 with C/2 < l0 <= (2C+2)/3.  The potential is PhiI without the
    truncation at 0: a common bin that is less than 2/3 full is paid for by the bins after it
    (their items exceed C/3).  Every bin with a value above C/2 has 6 units to spare, which
    makes the final inequality strict. *)
Definition PhiS (C l0 alpha : Z) : Z :=
  10 * C - Z.max (12 * l0) (24 * alpha) - 2 * bonus C alpha.

Lemma PhiS_mono C l0 a a' : 0 <= C -> a <= a' -> PhiS C l0 a' <= PhiS C l0 a.
Proof. intros HC H. unfold PhiS. pose proof (bonus_mono C a a' HC H). lia. Qed.

Lemma wsum2_bigc C l : 0 <= C -> Forall (fun a => 0 <= a) l ->
  (10 * C + 6) * fsum (bigw C) l <= wsum2 C l.
Proof.
  intros HC Hnn. induction Hnn as [|a l Ha Hl IH]; [rewrite !fsum_nil; lia|].
  rewrite !fsum_cons. pose proof (W2_spec C a) as HWa.
  assert (E : (bigw C a = 1 /\ C < 2 * a) \/ (bigw C a = 0 /\ 2 * a <= C))
    by (unfold bigw; destruct (C <? 2 * a) eqn:E; lia).
  destruct E as [[E E']|[E E']]; rewrite E; lia.
Qed.

Lemma bigc_nobig C l : Forall (fun a => 2 * a <= C) l -> fsum (bigw C) l = 0.
Proof.
  intros H. induction H as [|a l Ha Hl IH]; [reflexivity|].
  rewrite fsum_cons, IH.
  assert (E : bigw C a = 0) by (unfold bigw; destruct (C <? 2 * a) eqn:E; lia). lia.
Qed.

Section Regular.
  Context {A : Type} (valueof : A -> Z).

  Notation cw2 C b := (wsum2 C (map valueof (contents b))).
  Notation bigc C b := (fsum (bigw C) (map valueof (contents b))).

  Definition hasbig (C : Z) (c : bin A) : Prop := Exists (fun a => ~ 2 * a <= C) (map valueof (snd c)).
  Definition nobig (C : Z) (c : bin A) : Prop := Forall (fun a => 2 * a <= C) (map valueof (snd c)).

  (** some bin without a value above C/2 is filled to l0 and is followed only by bins holding a
      value above C/2 *)
  Inductive regular (C l0 : Z) : bins A -> Prop :=
  | reg_last c t : nobig C c -> l0 <= fst c -> Forall (hasbig C) t -> regular C l0 (c :: t)
  | reg_cons c t : regular C l0 t -> regular C l0 (c :: t).

  Lemma allbig_heavy C (t : bins A) : 0 <= C ->
    Forall (fun y => 0 <= valueof y) (contents t) -> Forall (hasbig C) t ->
    10 * C * Z.of_nat (length t) + 6 * bigc C t <= cw2 C t.
  Proof.
    intros HC. induction t as [|c t IH]; intros Hnn Hb.
    - cbn [length Z.of_nat]. unfold contents, lists. cbn [map concat]. rewrite !fsum_nil. lia.
    - apply Forall_cons_iff in Hb. destruct Hb as [Hc Hb].
      rewrite contents_cons in Hnn. apply Forall_app in Hnn. destruct Hnn as [Hn1 Hn2].
      specialize (IH Hn2 Hb).
      rewrite contents_cons, !map_app, !fsum_app. cbn [length]. rewrite Nat2Z.inj_succ.
      assert (Hn1' : Forall (fun a => 0 <= a) (map valueof (snd c))) by (rewrite Forall_map; exact Hn1).
      pose proof (wsum2_bigc C _ HC Hn1') as H1.
      pose proof (fsum_bigw_pos C _ Hc) as H2. nia.
  Qed.

  Lemma heavyR C l0 : 0 <= C -> C < 2 * l0 -> 3 * l0 <= 2 * C + 2 -> forall (b : bins A) alpha,
    wf valueof b -> all_nonempty b -> anyfit valueof C b -> bf2 valueof C b -> half_full C b ->
    regular C l0 b ->
    Forall (fun y => 0 <= valueof y) (contents b) ->
    Forall (head2_ge valueof C alpha) b ->
    10 * C * Z.of_nat (length b) + 6 * bigc C b <= cw2 C b + PhiS C l0 alpha.
  Proof.
    intros HC Hl0 Hl1. induction b as [|bn t IH]; intros alpha Hw Hne Haf Hb2 Hhf Hreg Hnn Hge.
    - inversion Hreg.
    - unfold wf in Hw. apply Forall_cons_iff in Hw. destruct Hw as [Hwb Hw].
      unfold all_nonempty in Hne. apply Forall_cons_iff in Hne. destruct Hne as [Hbn Hne].
      apply anyfit_cons in Haf. destruct Haf as [Hlt1 Haf].
      cbn [bf2] in Hb2. destruct Hb2 as [Hlt2 Hb2].
      unfold half_full in Hhf. apply Forall_cons_iff in Hhf. destruct Hhf as [Hh1 Hhf].
      rewrite contents_cons in Hnn. apply Forall_app in Hnn. destruct Hnn as [Hnn1 Hnn2].
      apply Forall_cons_iff in Hge. destruct Hge as [Hge1 Hge2].
      rewrite contents_cons, !map_app, !fsum_app. cbn [length]. rewrite Nat2Z.inj_succ.
      unfold wf_bin in Hwb.
      assert (Hnn1' : Forall (fun a => 0 <= a) (map valueof (snd bn)))
        by (rewrite Forall_map; exact Hnn1).
      set (alpha' := Z.max alpha (C - fst bn + 1)).
      assert (Hmono : PhiS C l0 alpha' <= PhiS C l0 alpha) by (apply PhiS_mono; unfold alpha'; lia).
      (* the bins after this one: either all hold a value above C/2, or the induction hypothesis *)
      assert (Htail : (l0 <= fst bn /\ nobig C bn /\
                       10 * C * Z.of_nat (length t) + 6 * bigc C t <= cw2 C t) \/
                      10 * C * Z.of_nat (length t) + 6 * bigc C t <= cw2 C t + PhiS C l0 alpha').
      { inversion Hreg as [c t0 Hnb Hlv Hallbig E1|c t0 Hreg' E1]; subst.
        - left. split; [exact Hlv|]. split; [exact Hnb|]. apply allbig_heavy; auto.
        - right. apply IH; auto. apply (head2_ge_next1 valueof C alpha (fst bn)); auto. }
      destruct (Forall_Exists_dec (fun a => 2 * a <= C) (fun a => Z_le_dec (2 * a) C)
                  (map valueof (snd bn))) as [Hnb|Hbig].
      + rewrite (bigc_nobig C _ Hnb).
        unfold head2_ge in Hge1.
        destruct (snd bn) as [|x1 [|x2 rest]] eqn:Es; [congruence| |].
        * cbn [map] in Hwb, Hnb. rewrite pk_zsum_cons, pk_zsum_nil in Hwb.
          apply Forall_cons_iff in Hnb. destruct Hnb as [Hx1 _]. lia.
        * cbn [map] in Hwb, Hnb, Hnn1' |- *. rewrite !pk_zsum_cons in Hwb.
          apply Forall_cons_iff in Hnb. destruct Hnb as [Hx1 Hnb].
          apply Forall_cons_iff in Hnb. destruct Hnb as [Hx2 Hnb].
          destruct Hge1 as [Ha1 Ha2].
          assert (Ha2' : alpha <= valueof x2) by (destruct Ha2 as [Ha2|Ha2]; [exact Ha2|lia]).
          clear Ha2.
          apply Forall_cons_iff in Hnn1'. destruct Hnn1' as [Hp1 Hnn1'].
          apply Forall_cons_iff in Hnn1'. destruct Hnn1' as [Hp2 Hnnr].
          pose proof (zsum_nonneg _ Hnnr) as Hr0.
          pose proof (wsum2_ge_12 C _ HC Hnnr) as Hr12.
          rewrite !fsum_cons.
          pose proof (bonus_spec C (valueof x1)) as H1.
          pose proof (bonus_spec C (valueof x2)) as H2.
          pose proof (bonus_spec C alpha) as H3.
          destruct Htail as [(Hlv & _ & Ht)|Ht].
          -- (* the last common bin *)
             assert (Hstep : 10 * C <=
                       W2 C (valueof x1) + W2 C (valueof x2) + 12 * zsum (map valueof rest)
                       + PhiS C l0 alpha).
             { unfold PhiS, W2. lia. }
             lia.
          -- assert (Hstep : 10 * C + PhiS C l0 alpha' <=
                       W2 C (valueof x1) + W2 C (valueof x2) + 12 * zsum (map valueof rest)
                       + PhiS C l0 alpha).
             { unfold PhiS, W2. subst alpha'.
               pose proof (bonus_spec C (Z.max alpha (C - fst bn + 1))) as H4. lia. }
             lia.
      + (* a value above C/2: not the last common bin *)
        pose proof (wsum2_bigc C _ HC Hnn1') as Hw6.
        pose proof (fsum_bigw_pos C _ Hbig) as Hb1.
        assert (Hw10 : 10 * C + 6 * fsum (bigw C) (map valueof (snd bn)) <=
                       wsum2 C (map valueof (snd bn))) by nia.
        destruct Htail as [(_ & Hnb & _)|Ht].
        * exfalso. unfold nobig in Hnb. apply Exists_exists in Hbig.
          destruct Hbig as (a & Hin & Ha). rewrite Forall_forall in Hnb. apply Ha. apply Hnb. exact Hin.
        * lia.
  Qed.

  Lemma regular_app C l0 (t1 : bins A) t : regular C l0 t -> regular C l0 (t1 ++ t).
  Proof. intros H. induction t1 as [|c t1 IH]; [exact H|]. cbn [app]. apply reg_cons. exact IH. Qed.

  (** a list either holds only bins with a value above C/2, or has a last bin without one *)
  Lemma last_common_split C (b : bins A) :
    Forall (hasbig C) b \/
    exists t1 c t2, b = t1 ++ c :: t2 /\ nobig C c /\ Forall (hasbig C) t2.
  Proof.
    induction b as [|c t IH]; [left; constructor|].
    destruct IH as [Hall|(t1 & c0 & t2 & E & Hnb & Hall)].
    - destruct (Forall_Exists_dec (fun a => 2 * a <= C) (fun a => Z_le_dec (2 * a) C)
                  (map valueof (snd c))) as [Hnb|Hbig].
      + right. exists [], c, t. split; [reflexivity|]. split; [exact Hnb|exact Hall].
      + left. constructor; [exact Hbig|exact Hall].
    - right. exists (c :: t1), c0, t2. subst t. split; [reflexivity|]. split; assumption.
  Qed.

  (** the last bin without a value above C/2, if there is one, is at least 2/3 full *)
  Definition last_common_23 (C : Z) (b : bins A) : Prop :=
    forall t1 c t2, b = t1 ++ c :: t2 -> nobig C c -> Forall (hasbig C) t2 -> 2 * C <= 3 * fst c.

  Lemma regular_core C (b : bins A) (vs : list Z) (n : nat) :
    0 < C -> (1 <= n)%nat -> wf valueof b -> all_nonempty b -> anyfit valueof C b ->
    bf2 valueof C b -> Forall (fun y => 0 <= valueof y) (contents b) ->
    Permutation (map valueof (contents b)) vs -> Packable C vs n ->
    half_full C b -> last_common_23 C b ->
    (10 * length b <= 17 * n + 1)%nat.
  Proof.
    intros HC Hn Hw Hnem Ha Hb2 Hnnb Hpv Hpack Hhf Hlc.
    assert (HC0 : 0 <= C) by lia.
    assert (Hvs : Forall (fun a => 0 <= a) vs).
    { eapply Permutation_Forall; [exact Hpv|]. rewrite Forall_map. exact Hnnb. }
    pose proof (packable_wsum2b C _ n HC0 Hvs Hpack) as Hlight.
    pose proof (packable_big C vs n HC0 Hvs Hpack) as Hbig.
    change (zsum (map (bigw C) vs)) with (fsum (bigw C) vs) in Hbig.
    pose proof (fsum_bigw_nonneg C vs) as Hb0.
    rewrite <- (fsum_perm (bigw C) _ _ Hpv) in Hbig, Hb0, Hlight.
    rewrite <- (fsum_perm (W2 C) _ _ Hpv) in Hlight.
    set (beta := fsum (bigw C) (map valueof (contents b))) in *.
    assert (Hkey : 10 * C * Z.of_nat (length b) + 6 * beta <=
                   wsum2 C (map valueof (contents b)) + 2 * C).
    { destruct (last_common_split C b) as [Hall|(t1 & c & t2 & E & Hnb & Hall)].
      - pose proof (allbig_heavy C b HC0 Hnnb Hall). unfold beta. lia.
      - specialize (Hlc t1 c t2 E Hnb Hall).
        pose proof (Z.div_mod (2 * C + 2) 3) as Hdm. pose proof (Z.mod_pos_bound (2 * C + 2) 3) as Hmb.
        assert (Hl : 2 * C <= 3 * ((2 * C + 2) / 3) <= 2 * C + 2) by lia.
        clear Hdm Hmb. set (l0 := (2 * C + 2) / 3) in *.
        assert (Hreg : regular C l0 b).
        { subst b. apply regular_app. apply reg_last; auto. lia. }
        pose proof (heavyR C l0 HC0 ltac:(lia) ltac:(lia) b 0 Hw Hnem Ha Hb2 Hhf Hreg Hnnb
                      (head2_ge_nonneg valueof C b Hnnb)) as Hheavy.
        assert (HPhi : PhiS C l0 0 <= 2 * C).
        { unfold PhiS. pose proof (bonus_spec C 0). lia. }
        unfold beta. lia. }
    assert (Hz : 10 * Z.of_nat (length b) < 17 * Z.of_nat n + 2).
    { destruct (Z.eq_dec beta 0) as [E0|E0]; nia. }
    lia.
  Qed.
End Regular.

(** ---- 6. a bin that is at most half full, other than a single item a with C/3 < a <= C/2 ----
    Let L be such a bin, of sum s.  Every other bin is filled above C - s.
    - s <= C/3: the sizes give 2 m <= 3 n + 1.
    - s > C/3 and L holds at least two items: one of the first two is at most s/2, so the earlier
      bins are filled above C - s/2; the later bins are single items above C - s >= C/2, at most n
      of them; the sizes give 3 m <= 5 n + 1. *)
Section LowBin.
  Context {A : Type} (valueof : A -> Z).

  Lemma sums_ge K (t : bins A) : Forall (fun c : bin A => K <= fst c) t ->
    K * Z.of_nat (length t) <= zsum (sums t).
  Proof.
    intros H. induction H as [|c t Hc Ht IH].
    - cbn [length Z.of_nat sums map]. rewrite pk_zsum_nil. lia.
    - unfold sums in IH |- *. cbn [map length]. rewrite pk_zsum_cons, Nat2Z.inj_succ. lia.
  Qed.

  Lemma sums_app (l1 l2 : bins A) : sums (l1 ++ l2) = sums l1 ++ sums l2.
  Proof. unfold sums. apply map_app. Qed.

  Lemma sums_cons (c : bin A) (t : bins A) : sums (c :: t) = fst c :: sums t.
  Proof. reflexivity. Qed.

  Lemma anyfit_app_r C (l1 l2 : bins A) : anyfit valueof C (l1 ++ l2) -> anyfit valueof C l2.
  Proof.
    induction l1 as [|a l1 IH]; cbn [app]; [auto|].
    rewrite anyfit_cons. intros [_ H]. apply IH. exact H.
  Qed.

  Lemma bf2_at C (l1 : bins A) bn l2 : bf2 valueof C (l1 ++ bn :: l2) ->
    Forall (fun c => later2_ok valueof C (fst c) bn) l1.
  Proof.
    induction l1 as [|a l1 IH]; cbn [app]; [intros _; constructor|].
    cbn [bf2]. intros [H1 H2]. constructor; [|apply IH; exact H2].
    apply Forall_app in H1. destruct H1 as [_ H1]. apply Forall_cons_iff in H1.
    destruct H1 as [H1 _]. exact H1.
  Qed.

  (** bins whose first item exceeds C/2 hold that many values above C/2 *)
  Lemma first_big_count C (t : bins A) :
    Forall (fun c : bin A => match snd c with x :: _ => C < 2 * valueof x | [] => False end) t ->
    Z.of_nat (length t) <= fsum (bigw C) (map valueof (contents t)).
  Proof.
    intros H. induction H as [|c t Hc Ht IH].
    - cbn [length Z.of_nat]. unfold contents, lists. cbn [map concat]. rewrite fsum_nil. lia.
    - rewrite contents_cons, map_app, fsum_app. cbn [length]. rewrite Nat2Z.inj_succ.
      destruct (snd c) as [|x r]; [contradiction|]. cbn [map]. rewrite fsum_cons.
      pose proof (fsum_bigw_nonneg C (map valueof r)).
      assert (E1 : bigw C (valueof x) = 1) by (unfold bigw; destruct (C <? 2 * valueof x) eqn:E; lia).
      lia.
  Qed.

  Lemma first_le_sum (c : bin A) x r : wf_bin valueof c -> snd c = x :: r ->
    Forall (fun y => 0 <= valueof y) (snd c) -> valueof x <= fst c.
  Proof.
    intros Hw E Hnn. unfold wf_bin in Hw. rewrite E in Hw, Hnn. cbn [map] in Hw.
    rewrite pk_zsum_cons in Hw. apply Forall_cons_iff in Hnn. destruct Hnn as [_ Hr].
    assert (0 <= zsum (map valueof r)) by (apply zsum_nonneg; rewrite Forall_map; exact Hr). lia.
  Qed.

  Lemma low_bin_core C (b : bins A) (vs : list Z) (n : nat) :
    0 < C -> (1 <= n)%nat ->
    wf valueof b -> all_nonempty b -> nonneg_sums b -> anyfit valueof C b -> bf2 valueof C b ->
    Forall (fun y => 0 <= valueof y) (contents b) ->
    Permutation (map valueof (contents b)) vs -> Packable C vs n ->
    ~ half_full C b ->
    (forall bn a, In bn b -> snd bn = [a] -> ~ (C < 3 * valueof a /\ 2 * valueof a <= C)) ->
    (10 * length b <= 17 * n)%nat.
  Proof.
    intros HC Hn Hw Hnem Hns Ha Hb2 Hnnb Hpv Hpack Hnhf Hno1.
    assert (HC0 : 0 <= C) by lia.
    pose proof (anyfit_lt_2n_perm valueof C b vs n Ha Hw Hnnb Hpv Hpack) as Hlt.
    assert (Hvs : Forall (fun a => 0 <= a) vs).
    { eapply Permutation_Forall; [exact Hpv|]. rewrite Forall_map. exact Hnnb. }
    pose proof (packable_total C vs n Hpack) as Htot.
    rewrite <- (zsum_perm _ _ Hpv), <- (wf_total valueof _ Hw) in Htot.
    pose proof (packable_big C vs n HC0 Hvs Hpack) as Hbig.
    change (zsum (map (bigw C) vs)) with (fsum (bigw C) vs) in Hbig.
    rewrite <- (fsum_perm _ _ _ Hpv) in Hbig.
    (* the bin L *)
    assert (Hex : Exists (fun bn : bin A => ~ C < 2 * fst bn) b).
    { destruct (Forall_Exists_dec (fun bn : bin A => C < 2 * fst bn)
                  (fun bn => Z_lt_dec C (2 * fst bn)) b) as [Hall|Hex]; [|exact Hex].
      exfalso. apply Hnhf. exact Hall. }
    apply Exists_exists in Hex. destruct Hex as (L & HinL & HsL).
    pose proof HinL as Hsplit. apply in_split in Hsplit. destruct Hsplit as (l1 & l2 & E). subst b.
    unfold wf in Hw. apply Forall_app in Hw. destruct Hw as [Hw1 Hw].
    apply Forall_cons_iff in Hw. destruct Hw as [HwL Hw2].
    unfold all_nonempty in Hnem. apply Forall_app in Hnem. destruct Hnem as [_ Hnem].
    apply Forall_cons_iff in Hnem. destruct Hnem as [HneL _].
    unfold nonneg_sums in Hns. apply Forall_app in Hns. destruct Hns as [_ Hns].
    apply Forall_cons_iff in Hns. destruct Hns as [HnsL _].
    rewrite contents_app, contents_cons in Hnnb, Hbig.
    apply Forall_app in Hnnb. destruct Hnnb as [Hnn1 Hnnb].
    apply Forall_app in Hnnb. destruct Hnnb as [HnnL Hnn2].
    rewrite !map_app, !fsum_app in Hbig.
    pose proof (anyfit_at valueof C l1 L l2 Ha) as Hpre1.
    pose proof (bf2_at C l1 L l2 Hb2) as Hpre2.
    pose proof (anyfit_app_r C l1 (L :: l2) Ha) as Hsuf. apply anyfit_cons in Hsuf.
    destruct Hsuf as [Hsuf _].
    rewrite sums_app, sums_cons, zsum_app, pk_zsum_cons in Htot.
    rewrite app_length. cbn [length]. rewrite app_length in Hlt. cbn [length] in Hlt.
    set (s := fst L) in *.
    (* the later bins *)
    assert (Hk2 : (C - s + 1) * Z.of_nat (length l2) <= zsum (sums l2)).
    { apply (sums_ge_first valueof); auto. eapply Forall_impl; [|exact Hsuf].
      intros c Hc. unfold later_ok in Hc. destruct (snd c) as [|x r]; [exact Hc|lia]. }
    pose proof (fsum_bigw_nonneg C (map valueof (contents l1))) as Hb1.
    pose proof (fsum_bigw_nonneg C (map valueof (snd L))) as HbL.
    destruct (snd L) as [|x1 [|x2 r]] eqn:EL; [congruence| |].
    - (* a single item *)
      pose proof (first_le_sum L x1 [] HwL EL) as Hx1. rewrite EL in Hx1. specialize (Hx1 HnnL).
      assert (Es : s = valueof x1).
      { unfold wf_bin in HwL. rewrite EL in HwL. cbn [map] in HwL.
        rewrite pk_zsum_cons, pk_zsum_nil in HwL. unfold s. lia. }
      assert (H3 : 3 * s <= C).
      { destruct (Z_le_dec (3 * s) C) as [H3|H3]; [exact H3|]. exfalso.
        apply (Hno1 L x1 HinL EL). lia. }
      assert (Hk1 : (C - s + 1) * Z.of_nat (length l1) <= zsum (sums l1)).
      { apply sums_ge. eapply Forall_impl; [|exact Hpre1].
        intros c Hc. unfold later_ok in Hc. rewrite EL in Hc. lia. }
      set (k := Z.of_nat (length l1) + Z.of_nat (length l2)) in *.
      assert (Hk : (C - s + 1) * k + s <= Z.of_nat n * C) by (unfold k; lia).
      assert (Hk3 : (2 * C + 3) * k <= 3 * (Z.of_nat n * C)) by nia.
      assert (Hz : 2 * k + 1 <= 3 * Z.of_nat n) by nia.
      unfold k in Hz. lia.
    - (* at least two items *)
      pose proof (first_le_sum L x1 (x2 :: r) HwL EL) as Hx1. rewrite EL in Hx1. specialize (Hx1 HnnL).
      assert (Hx12 : valueof x1 + valueof x2 <= s /\ 0 <= valueof x1 /\ 0 <= valueof x2).
      { unfold wf_bin in HwL. rewrite EL in HwL. cbn [map] in HwL. rewrite !pk_zsum_cons in HwL.
        apply Forall_cons_iff in HnnL. destruct HnnL as [H1 HnnL].
        apply Forall_cons_iff in HnnL. destruct HnnL as [H2 Hr].
        assert (0 <= zsum (map valueof r)) by (apply zsum_nonneg; rewrite Forall_map; exact Hr).
        unfold s. lia. }
      destruct (Z_le_dec (3 * s) C) as [H3|H3].
      + (* at most C/3 *)
        assert (Hk1 : (C - s + 1) * Z.of_nat (length l1) <= zsum (sums l1)).
        { apply sums_ge. eapply Forall_impl; [|exact Hpre1].
          intros c Hc. unfold later_ok in Hc. rewrite EL in Hc. lia. }
          set (k := Z.of_nat (length l1) + Z.of_nat (length l2)) in *.
        assert (Hk : (C - s + 1) * k + s <= Z.of_nat n * C) by (unfold k; lia).
        assert (Hk3 : (2 * C + 3) * k <= 3 * (Z.of_nat n * C)) by nia.
        assert (Hz : 2 * k + 1 <= 3 * Z.of_nat n) by nia.
        unfold k in Hz. lia.
      + (* between C/3 and C/2, two items *)
        set (y := Z.min (valueof x1) (valueof x2)).
        assert (Hk1 : (C - y + 1) * Z.of_nat (length l1) <= zsum (sums l1)).
        { apply sums_ge. rewrite Forall_forall in *. intros c Hc.
          specialize (Hpre1 c Hc). specialize (Hpre2 c Hc).
          unfold later_ok in Hpre1. unfold later2_ok in Hpre2. rewrite EL in Hpre1, Hpre2.
          unfold y. lia. }
          assert (Hq : Z.of_nat (length l2) <= Z.of_nat n).
        { assert (Hfb : Z.of_nat (length l2) <= fsum (bigw C) (map valueof (contents l2))).
          { apply first_big_count. eapply Forall_impl; [|exact Hsuf].
            intros c Hc. unfold later_ok in Hc. destruct (snd c) as [|x r0]; [exact Hc|lia]. }
          lia. }
        set (p := Z.of_nat (length l1)) in *. set (q := Z.of_nat (length l2)) in *.
        set (nn := Z.of_nat n) in *.
        assert (Hp0 : 0 <= p) by (unfold p; lia). assert (Hq0 : 0 <= q) by (unfold q; lia).
        assert (Hy : 2 * y <= s) by (unfold y; lia).
        assert (H1 : p * (4 * C - 2 * s + 4) <= 4 * ((C - y + 1) * p)) by nia.
        destruct (Z_le_dec 2 (p + 2 * q)) as [Hpq|Hpq].
        * assert (HD : 0 <= (p + 2 * q - 2) * (C - 2 * s)) by (apply Z.mul_nonneg_nonneg; lia).
          assert (H2 : q * (4 * C - 4 * s + 4) = 4 * ((C - s + 1) * q)) by ring.
          assert (H4 : C * (3 * p + 2 * q + 2) + 4 * p + 4 * q <= C * (4 * nn)) by nia.
          assert (H5 : 3 * p + 2 * q + 3 <= 4 * nn) by nia.
          lia.
        * assert (q = 0) by lia. assert (p <= 1) by lia. lia.
  Qed.
End LowBin.

(** ---- 7. the additive constant 3/10, except for a bin {a} with C/3 < a <= C/2 ---- *)
Section Rung3.
  Context {A : Type} (valueof : A -> Z).

  (** no bin consists of a single item a with C/3 < a <= C/2 *)
  Definition no_medium_single (C : Z) (b : bins A) : Prop :=
    forall bn a, In bn b -> snd bn = [a] -> ~ (C < 3 * valueof a /\ 2 * valueof a <= C).

  Lemma ratio_17_3_core C (items : list A) (b : bins A) (n : nat) :
    Inv valueof C b items -> bf2 valueof C b -> 0 <= C -> (1 <= n)%nat ->
    Forall (fun y => 0 <= valueof y) (contents b) ->
    Packable C (map valueof items) n -> no_medium_single C b ->
    (10 * length b <= 17 * n + 3)%nat.
  Proof.
    intros (Hw & Hf & Hp & Hnem & Hns & Ha) Hb2 HC Hn Hnnb Hpack Hno1.
    pose proof (Permutation_map valueof Hp) as Hpv.
    destruct (Z.eq_dec C 0) as [E0|Hpos].
    - subst C. pose proof (cap0_single valueof b _ n Hw Ha Hnnb Hpv Hpack). lia.
    - assert (HCpos : 0 < C) by lia.
      destruct (Forall_dec (fun bn : bin A => C < 2 * fst bn)
                  (fun bn => Z_lt_dec C (2 * fst bn)) b) as [Hhf|Hnhf].
      + pose proof (half_full_core valueof C b _ n HCpos Hw Hnem Ha Hb2 Hnnb Hpv Hpack Hhf) as H.
        assert (Hvs : Forall (fun a => 0 <= a) (map valueof items)).
        { eapply Permutation_Forall; [exact Hpv|]. rewrite Forall_map. exact Hnnb. }
        pose proof (packable_big C _ n HC Hvs Hpack) as Hbig. unfold fsum in H. lia.
      + pose proof (low_bin_core valueof C b (map valueof items) n HCpos Hn Hw Hnem Hns Ha Hb2 Hnnb Hpv
                      Hpack Hnhf Hno1) as H. lia.
  Qed.

  Theorem ff_ratio_17_3_partial C (items : list A) (b : bins A) (n : nat) :
    items <> [] -> Forall (fun x : A => 0 <= valueof x) items ->
    first_fit valueof true C items = Ok b -> Packable C (map valueof items) n ->
    no_medium_single C b -> (10 * length b <= 17 * n + 3)%nat.
  Proof.
    intros Hne Hnn Hff Hpack Hno1.
    destruct (ff_facts valueof C items b n Hne Hnn Hff Hpack) as (HI & Hb2 & HC & Hn & Hnnb).
    apply (ratio_17_3_core C items b n); auto.
  Qed.

  Theorem bf_ratio_17_3_partial C (items : list A) (b : bins A) (n : nat) :
    items <> [] -> Forall (fun x : A => 0 <= valueof x) items ->
    best_fit valueof true C items = Ok b -> Packable C (map valueof items) n ->
    no_medium_single C b -> (10 * length b <= 17 * n + 3)%nat.
  Proof.
    intros Hne Hnn Hbf Hpack Hno1.
    destruct (bf_facts valueof C items b n Hne Hnn Hbf Hpack) as (HI & Hb2 & HC & Hn & Hnnb).
    apply (ratio_17_3_core C items b n); auto.
  Qed.

  (** the regular case: every bin more than half full and either the last bin without a value
      above C/2 is at least 2/3 full, or fewer than n values exceed C/2 *)
  Lemma ratio_17_1_core C (items : list A) (b : bins A) (n : nat) :
    Inv valueof C b items -> bf2 valueof C b -> 0 <= C -> (1 <= n)%nat ->
    Forall (fun y => 0 <= valueof y) (contents b) ->
    Packable C (map valueof items) n -> half_full C b ->
    last_common_23 valueof C b \/ fsum (bigw C) (map valueof items) < Z.of_nat n ->
    (10 * length b <= 17 * n + 1)%nat.
  Proof.
    intros (Hw & Hf & Hp & Hnem & Hns & Ha) Hb2 HC Hn Hnnb Hpack Hhf Hor.
    pose proof (Permutation_map valueof Hp) as Hpv.
    destruct (Z.eq_dec C 0) as [E0|Hpos].
    - subst C. pose proof (cap0_single valueof b _ n Hw Ha Hnnb Hpv Hpack). lia.
    - assert (HCpos : 0 < C) by lia. destruct Hor as [Hlc|Hbeta].
      + apply (regular_core valueof C b (map valueof items) n); auto.
      + pose proof (half_full_core valueof C b _ n HCpos Hw Hnem Ha Hb2 Hnnb Hpv Hpack Hhf) as H.
        lia.
  Qed.

  Theorem ff_ratio_17_1_partial C (items : list A) (b : bins A) (n : nat) :
    items <> [] -> Forall (fun x : A => 0 <= valueof x) items ->
    first_fit valueof true C items = Ok b -> Packable C (map valueof items) n ->
    half_full C b ->
    last_common_23 valueof C b \/ fsum (bigw C) (map valueof items) < Z.of_nat n ->
    (10 * length b <= 17 * n + 1)%nat.
  Proof.
    intros Hne Hnn Hff Hpack Hhf Hor.
    destruct (ff_facts valueof C items b n Hne Hnn Hff Hpack) as (HI & Hb2 & HC & Hn & Hnnb).
    apply (ratio_17_1_core C items b n); auto.
  Qed.

  Theorem bf_ratio_17_1_partial C (items : list A) (b : bins A) (n : nat) :
    items <> [] -> Forall (fun x : A => 0 <= valueof x) items ->
    best_fit valueof true C items = Ok b -> Packable C (map valueof items) n ->
    half_full C b ->
    last_common_23 valueof C b \/ fsum (bigw C) (map valueof items) < Z.of_nat n ->
    (10 * length b <= 17 * n + 1)%nat.
  Proof.
    intros Hne Hnn Hbf Hpack Hhf Hor.
    destruct (bf_facts valueof C items b n Hne Hnn Hbf Hpack) as (HI & Hb2 & HC & Hn & Hnnb).
    apply (ratio_17_1_core C items b n); auto.
  Qed.

  (** a bin that is at most half full and is not a single item a with C/3 < a <= C/2: the
      sharp bound *)
  Theorem ff_low_bin_sharp_partial C (items : list A) (b : bins A) (n : nat) :
    items <> [] -> Forall (fun x : A => 0 <= valueof x) items ->
    first_fit valueof true C items = Ok b -> Packable C (map valueof items) n ->
    no_medium_single C b -> ~ half_full C b -> (10 * length b <= 17 * n)%nat.
  Proof.
    intros Hne Hnn Hff Hpack Hno1 Hnhf.
    destruct (ff_facts valueof C items b n Hne Hnn Hff Hpack)
      as ((Hw & Hf & Hp & Hnem & Hns & Ha) & Hb2 & HC & Hn & Hnnb).
    pose proof (Permutation_map valueof Hp) as Hpv.
    destruct (Z.eq_dec C 0) as [E0|Hpos].
    - subst C. pose proof (cap0_single valueof b _ n Hw Ha Hnnb Hpv Hpack). lia.
    - apply (low_bin_core valueof C b (map valueof items) n); auto. lia.
  Qed.

  Theorem bf_low_bin_sharp_partial C (items : list A) (b : bins A) (n : nat) :
    items <> [] -> Forall (fun x : A => 0 <= valueof x) items ->
    best_fit valueof true C items = Ok b -> Packable C (map valueof items) n ->
    no_medium_single C b -> ~ half_full C b -> (10 * length b <= 17 * n)%nat.
  Proof.
    intros Hne Hnn Hbf Hpack Hno1 Hnhf.
    destruct (bf_facts valueof C items b n Hne Hnn Hbf Hpack)
      as ((Hw & Hf & Hp & Hnem & Hns & Ha) & Hb2 & HC & Hn & Hnnb).
    pose proof (Permutation_map valueof Hp) as Hpv.
    destruct (Z.eq_dec C 0) as [E0|Hpos].
    - subst C. pose proof (cap0_single valueof b _ n Hw Ha Hnnb Hpv Hpack). lia.
    - apply (low_bin_core valueof C b (map valueof items) n); auto. lia.
  Qed.
End Rung3.

(** ---- 7b. first-fit with a bin {a}, C/3 < a <= C/2: 4 m <= 7 n ----
    Put theta = C - a.  The bins after {a} hold single items above theta ("huge"); a does not
    fit the bins before, so these are filled above theta.  A bin without a huge item holds at
    least two items, and all of these bins but one are filled to 2C/3 (the items after a bin
    filled below 2C/3 exceed C/3).  With h bins holding a huge item and k without:
      sizes:     3 (theta+1) h + 2 C k + C + 3 <= 3 n C,  hence  4 k + 3 h + 3 <= 6 n;
      conflicts: a huge item shares a bin with no item >= a, at most two items >= a share a bin
                 (3 a > C), hence 2 h + 1 <= 2 n.
    Together 4 (k + h + 1) <= 7 n. *)
Definition fE (C a y : Z) : Z := if C - a <? y then 2 else if a <=? y then 1 else 0.
Definition FE (C a R : Z) : Z :=
  if (C - a + 1 <=? R) || (2 * a <=? R) then 2 else if a <=? R then 1 else 0.

Lemma fE_spec C a y :
  (C - a < y /\ fE C a y = 2) \/ (y <= C - a /\ a <= y /\ fE C a y = 1) \/
  (y <= C - a /\ y < a /\ fE C a y = 0).
Proof.
  unfold fE. destruct (C - a <? y) eqn:E1; [left; lia|].
  destruct (a <=? y) eqn:E2; [right; left; lia|right; right; lia].
Qed.

Lemma FE_spec C a R :
  ((C - a + 1 <= R \/ 2 * a <= R) /\ FE C a R = 2) \/
  (R <= C - a /\ R < 2 * a /\ a <= R /\ FE C a R = 1) \/
  (R <= C - a /\ R < 2 * a /\ R < a /\ FE C a R = 0).
Proof.
  unfold FE. destruct (C - a + 1 <=? R) eqn:E1; cbn [orb]; [left; lia|].
  destruct (2 * a <=? R) eqn:E2; [left; lia|].
  destruct (a <=? R) eqn:E3; [right; left; lia|right; right; lia].
Qed.

Lemma fE_nonneg C a y : 0 <= fE C a y.
Proof. pose proof (fE_spec C a y). lia. Qed.

Lemma light_fE C a : C < 3 * a -> 2 * a <= C -> forall l R,
  Forall (fun y => 0 <= y) l -> zsum l <= R -> R <= C -> fsum (fE C a) l <= FE C a R.
Proof.
  intros H3 H2. induction l as [|y l IH]; intros R Hnn Hs HR.
  - rewrite fsum_nil. pose proof (FE_spec C a R). lia.
  - apply Forall_cons_iff in Hnn. destruct Hnn as [Hy Hl]. rewrite pk_zsum_cons in Hs.
    rewrite fsum_cons. assert (H1 : zsum l <= R - y) by lia. assert (H1' : R - y <= C) by lia.
    specialize (IH (R - y) Hl H1 H1'). pose proof (zsum_nonneg l Hl) as H0.
    pose proof (fE_spec C a y). pose proof (FE_spec C a R). pose proof (FE_spec C a (R - y)). lia.
Qed.

Lemma fsum_ge_in f l y : (forall z, 0 <= f z) -> In y l -> f y <= fsum f l.
Proof.
  intros Hf. induction l as [|z l IH]; intros Hin; [contradiction|].
  rewrite fsum_cons. destruct Hin as [E|Hin].
  - subst z. assert (0 <= fsum f l).
    { clear IH. induction l as [|w l IHl]; [rewrite fsum_nil; lia|].
      rewrite fsum_cons. pose proof (Hf w). lia. }
    lia.
  - specialize (IH Hin). pose proof (Hf z). lia.
Qed.

Section MediumSingle.
  Context {A : Type} (valueof : A -> Z).

  (** the bin holds an item above th *)
  Definition hbb (th : Z) (c : bin A) : bool := existsb (fun y => th <? valueof y) (snd c).

  Fixpoint cntb (P : bin A -> bool) (t : bins A) : Z :=
    match t with [] => 0 | c :: t' => (if P c then 1 else 0) + cntb P t' end.

  Lemma cntb_total P (t : bins A) :
    cntb P t + cntb (fun c => negb (P c)) t = Z.of_nat (length t).
  Proof.
    induction t as [|c t IH]; [reflexivity|]. cbn [cntb length]. rewrite Nat2Z.inj_succ.
    destruct (P c); cbn [negb]; lia.
  Qed.

  Lemma cntb_nonneg P (t : bins A) : 0 <= cntb P t.
  Proof. induction t as [|c t IH]; cbn [cntb]; [lia|]. destruct (P c); lia. Qed.

  Lemma sfit_app C (l1 t : bins A) : sfit valueof C (l1 ++ t) ->
    sfit valueof C l1 /\ sfit valueof C t /\
    Forall (fun c => Forall (fun y => C < fst c + valueof y) (contents t)) l1.
  Proof.
    induction l1 as [|c l1 IH]; cbn [app sfit].
    - intros H. split; [exact I|]. split; [exact H|constructor].
    - intros [H1 H2]. destruct (IH H2) as (Ha & Hb & Hc).
      rewrite contents_app in H1. apply Forall_app in H1. destruct H1 as [H1a H1b].
      split; [split; assumption|]. split; [exact Hb|]. constructor; assumption.
  Qed.

  (** the conflict count: twice the bins with an item above C - a *)
  Lemma fE_sum_ge C a (t : bins A) :
    2 * cntb (hbb (C - a)) t <= fsum (fE C a) (map valueof (contents t)).
  Proof.
    induction t as [|c t IH].
    - cbn [cntb]. unfold contents, lists. cbn [map concat]. rewrite fsum_nil. lia.
    - rewrite contents_cons, map_app, fsum_app. cbn [cntb].
      assert (H0 : 0 <= fsum (fE C a) (map valueof (snd c))).
      { generalize (map valueof (snd c)). intros l. induction l as [|w l IHl]; [rewrite fsum_nil; lia|].
        rewrite fsum_cons. pose proof (fE_nonneg C a w). lia. }
      destruct (hbb (C - a) c) eqn:E; [|lia].
      unfold hbb in E. apply existsb_exists in E. destruct E as (y & Hin & Hy).
      assert (Hin' : In (valueof y) (map valueof (snd c))) by (apply in_map; exact Hin).
      pose proof (fsum_ge_in (fE C a) _ _ (fE_nonneg C a) Hin') as Hge.
      pose proof (fE_spec C a (valueof y)). lia.
  Qed.

  Lemma cntb_all_huge th (t : bins A) :
    Forall (fun c : bin A => match snd c with x :: _ => th < valueof x | [] => False end) t ->
    cntb (hbb th) t = Z.of_nat (length t).
  Proof.
    intros H. induction H as [|c t Hc Ht IH]; [reflexivity|].
    cbn [cntb length]. rewrite Nat2Z.inj_succ, IH.
    destruct (snd c) as [|x r] eqn:E; [contradiction|].
    assert (Hb : hbb th c = true).
    { unfold hbb. rewrite E. cbn [existsb]. apply orb_true_iff. left. lia. }
    rewrite Hb. lia.
  Qed.

  (** the exceptional bin filled below 2C/3 is still available iff alpha <= C/3 *)
  Definition DE (C th alpha : Z) : Z := if 3 * alpha <=? C then Z.max 0 (2 * C - 3 * th - 3) else 0.

  Lemma sizeG C th : forall (t : bins A) alpha, 0 <= alpha ->
    wf valueof t -> all_nonempty t -> sfit valueof C t ->
    Forall (fun y => 0 <= valueof y) (contents t) ->
    Forall (fun y => alpha <= valueof y) (contents t) ->
    Forall (fun c : bin A => th + 1 <= fst c) t ->
    3 * (th + 1) * cntb (hbb th) t + 2 * C * cntb (fun c => negb (hbb th c)) t <=
      3 * zsum (sums t) + DE C th alpha.
  Proof.
    induction t as [|c t IH]; intros alpha Hal Hw Hne Hsf Hnn Hge Hlv.
    - cbn [cntb sums map]. rewrite pk_zsum_nil. unfold DE. destruct (3 * alpha <=? C); lia.
    - unfold wf in Hw. apply Forall_cons_iff in Hw. destruct Hw as [Hwc Hw].
      unfold all_nonempty in Hne. apply Forall_cons_iff in Hne. destruct Hne as [Hnc Hne].
      cbn [sfit] in Hsf. destruct Hsf as [Hs1 Hsf].
      rewrite contents_cons in Hnn, Hge.
      apply Forall_app in Hnn. destruct Hnn as [Hnn1 Hnn2].
      apply Forall_app in Hge. destruct Hge as [Hge1 Hge2].
      apply Forall_cons_iff in Hlv. destruct Hlv as [Hl1 Hlv].
      set (alpha' := Z.max alpha (C - fst c + 1)).
      assert (Hnext : 3 * (th + 1) * cntb (hbb th) t + 2 * C * cntb (fun c0 => negb (hbb th c0)) t <=
                      3 * zsum (sums t) + DE C th alpha').
      { apply IH; auto; [unfold alpha'; lia|].
        rewrite Forall_forall in *. intros y Hy. specialize (Hs1 y Hy). specialize (Hge2 y Hy).
        unfold alpha'. lia. }
      cbn [cntb]. unfold sums in Hnext |- *. cbn [map]. rewrite pk_zsum_cons.
      assert (HDE : DE C th alpha' <= DE C th alpha).
      { unfold DE, alpha'. destruct (3 * alpha <=? C) eqn:E1;
          destruct (3 * Z.max alpha (C - fst c + 1) <=? C) eqn:E2; lia. }
      destruct (hbb th c) eqn:Eh; cbn [negb].
      + lia.
      + (* no item above th: at least two items *)
        unfold hbb in Eh. unfold wf_bin in Hwc.
        destruct (snd c) as [|x1 r] eqn:Es; [congruence|].
        cbn [existsb] in Eh. apply orb_false_iff in Eh. destruct Eh as [Eh1 Eh2].
        cbn [map] in Hwc. rewrite pk_zsum_cons in Hwc.
        apply Forall_cons_iff in Hnn1. destruct Hnn1 as [Hx1 Hr].
        apply Forall_cons_iff in Hge1. destruct Hge1 as [Ha1 Hgr].
        destruct r as [|x2 r'].
        * cbn [map] in Hwc. rewrite pk_zsum_nil in Hwc. lia.
        * cbn [map] in Hwc. rewrite pk_zsum_cons in Hwc.
          apply Forall_cons_iff in Hr. destruct Hr as [Hx2 Hr'].
          apply Forall_cons_iff in Hgr. destruct Hgr as [Ha2 _].
          assert (Hr0 : 0 <= zsum (map valueof r')) by (apply zsum_nonneg; rewrite Forall_map; exact Hr').
          assert (Hs2 : 2 * alpha <= fst c) by lia.
          unfold DE in *. unfold alpha' in *.
          destruct (3 * alpha <=? C) eqn:E1;
            destruct (3 * Z.max alpha (C - fst c + 1) <=? C) eqn:E2; lia.
  Qed.

  Lemma light_fE_bin C a : C < 3 * a -> 2 * a <= C -> forall g,
    Forall (fun y => 0 <= y) g -> zsum g <= C -> fsum (fE C a) g <= 2.
  Proof.
    intros H3 H2 g Hg Hs. pose proof (light_fE C a H3 H2 g C Hg Hs ltac:(lia)) as H.
    pose proof (FE_spec C a C). lia.
  Qed.

  (** the structure around a bin {a} with C/3 < a <= C/2 (th = C - a) *)
  Lemma medium_single_split C (items : list A) (b : bins A) (n : nat) :
    items <> [] -> Forall (fun x : A => 0 <= valueof x) items ->
    first_fit valueof true C items = Ok b -> Packable C (map valueof items) n ->
    (exists bn xa, In bn b /\ snd bn = [xa] /\ C < 3 * valueof xa /\ 2 * valueof xa <= C) ->
    exists (l1 l2 : bins A) a, C < 3 * a /\ 2 * a <= C /\
      length b = (length l1 + S (length l2))%nat /\
      wf valueof l1 /\ all_nonempty l1 /\ sfit valueof C l1 /\
      Forall (fun y => 0 <= valueof y) (contents l1) /\
      Forall (fun c : bin A => C - a + 1 <= fst c) l1 /\
      zsum (sums l1) + (a + zsum (sums l2)) <= Z.of_nat n * C /\
      (C - a + 1) * Z.of_nat (length l2) <= zsum (sums l2) /\
      cntb (hbb (C - a)) l1 + Z.of_nat (length l2) + 1 <= Z.of_nat n.
  Proof.
    intros Hne Hnn Hff Hpack (E & xa & HinE & EsE & Ha3 & Ha2).
    pose proof (ff_sfit valueof C items b Hnn Hff) as Hsf.
    destruct (ff_facts valueof C items b n Hne Hnn Hff Hpack)
      as ((Hw & Hf & Hp & Hnem & Hns & Ha) & _ & HC & Hn & Hnnb).
    pose proof (Permutation_map valueof Hp) as Hpv.
    set (a := valueof xa) in *.
    assert (Hvs : Forall (fun v => 0 <= v) (map valueof items)) by (rewrite Forall_map; exact Hnn).
    (* the two bounds on an optimal packing *)
    pose proof (packable_total C _ n Hpack) as Htot.
    rewrite <- (zsum_perm _ _ Hpv), <- (wf_total valueof _ Hw) in Htot.
    assert (Hconf : fsum (fE C a) (map valueof (contents b)) <= 2 * Z.of_nat n).
    { rewrite (fsum_perm _ _ _ Hpv). apply (packable_fsum (fE C a) C); auto.
      intros g Hg Hs. apply light_fE_bin; auto. }
    (* split the bins at {a} *)
    apply in_split in HinE. destruct HinE as (l1 & l2 & Eb). subst b.
    apply sfit_app in Hsf. destruct Hsf as (Hsf1 & Hsf2 & Hpre).
    cbn [sfit] in Hsf2. destruct Hsf2 as [Hsuf _].
    unfold wf in Hw. apply Forall_app in Hw. destruct Hw as [Hw1 Hw].
    apply Forall_cons_iff in Hw. destruct Hw as [HwE Hw2].
    unfold all_nonempty in Hnem. apply Forall_app in Hnem. destruct Hnem as [Hne1 Hnem].
    apply Forall_cons_iff in Hnem. destruct Hnem as [_ Hne2].
    rewrite contents_app, contents_cons in Hnnb, Hconf.
    apply Forall_app in Hnnb. destruct Hnnb as [Hnn1 Hnnb].
    apply Forall_app in Hnnb. destruct Hnnb as [HnnE Hnn2].
    rewrite !map_app, !fsum_app in Hconf. rewrite EsE in Hconf. cbn [map] in Hconf.
    rewrite fsum_cons, fsum_nil in Hconf.
    rewrite sums_app, sums_cons, zsum_app, pk_zsum_cons in Htot.
    assert (EsumE : fst E = a).
    { unfold wf_bin in HwE. rewrite EsE in HwE. cbn [map] in HwE.
      rewrite pk_zsum_cons, pk_zsum_nil in HwE. unfold a. lia. }
    rewrite EsumE in Htot.
    set (th := C - a) in *.
    (* the bins after {a}: single items above th *)
    assert (Hsuf' : Forall (fun c : bin A => match snd c with x :: _ => th < valueof x | [] => False end) l2).
    { clear - Hsuf Hne2 EsumE. induction l2 as [|c l2 IH]; [constructor|].
      apply Forall_cons_iff in Hne2. destruct Hne2 as [Hc Hne2].
      rewrite contents_cons in Hsuf. apply Forall_app in Hsuf. destruct Hsuf as [H1 H2].
      constructor; [|apply IH; assumption].
      destruct (snd c) as [|x r]; [congruence|].
      apply Forall_cons_iff in H1. destruct H1 as [Hx _]. unfold th. lia. }
    assert (Hk2 : (th + 1) * Z.of_nat (length l2) <= zsum (sums l2)).
    { apply (sums_ge_first valueof); auto. eapply Forall_impl; [|exact Hsuf'].
      intros c Hc. cbv beta in Hc. destruct (snd c) as [|x r]; [exact Hc|lia]. }
    pose proof (fE_sum_ge C a l2) as Hf2. fold th in Hf2.
    rewrite (cntb_all_huge th l2 Hsuf') in Hf2.
    (* the bins before {a} *)
    assert (Hlv1 : Forall (fun c : bin A => th + 1 <= fst c) l1).
    { eapply Forall_impl; [|exact Hpre]. intros c Hc. cbv beta in Hc.
      rewrite contents_cons, EsE in Hc. apply Forall_app in Hc. destruct Hc as [Hc _].
      apply Forall_cons_iff in Hc. destruct Hc as [Hc _]. fold a in Hc. unfold th. lia. }
    pose proof (fE_sum_ge C a l1) as Hf1. fold th in Hf1.
    assert (HfEa : fE C a a = 1).
    { pose proof (fE_spec C a a). lia. }
    fold a in Hconf. rewrite HfEa in Hconf.
    unfold th in *. clear th.
    exists l1, l2, a. repeat split; auto.
    - rewrite app_length. reflexivity.
    - lia.
  Qed.

  Theorem ff_medium_single_partial C (items : list A) (b : bins A) (n : nat) :
    items <> [] -> Forall (fun x : A => 0 <= valueof x) items ->
    first_fit valueof true C items = Ok b -> Packable C (map valueof items) n ->
    (exists bn xa, In bn b /\ snd bn = [xa] /\ C < 3 * valueof xa /\ 2 * valueof xa <= C) ->
    (4 * length b <= 7 * n)%nat.
  Proof.
    intros Hne Hnn Hff Hpack Hex.
    destruct (medium_single_split C items b n Hne Hnn Hff Hpack Hex)
      as (l1 & l2 & a & Ha3 & Ha2 & Elen & Hw1 & Hne1 & Hsf1 & Hnn1 & Hlv1 & Htot & Hk2 & Hconf).
    rewrite Elen.
    set (th := C - a) in *.
    pose proof (sizeG C th l1 0 ltac:(lia) Hw1 Hne1 Hsf1 Hnn1 Hnn1 Hlv1) as Hsz.
    pose proof (cntb_total (hbb th) l1) as Hcnt.
    pose proof (cntb_nonneg (hbb th) l1) as Hh0.
    pose proof (cntb_nonneg (fun c => negb (hbb th c)) l1) as Hk0.
    assert (HDE : DE C th 0 = Z.max 0 (2 * C - 3 * th - 3)).
    { unfold DE. destruct (3 * 0 <=? C) eqn:E0; lia. }
    rewrite HDE in Hsz.
    set (h1 := cntb (hbb th) l1) in *. set (k := cntb (fun c => negb (hbb th c)) l1) in *.
    set (q := Z.of_nat (length l2)) in *. set (nn := Z.of_nat n) in *.
    assert (Hq0 : 0 <= q) by (unfold q; lia).
    assert (Eth : th = C - a) by reflexivity. clearbody th.
    assert (Hth : C + 2 <= 2 * (th + 1)) by lia.
    assert (Hhq : 0 <= h1 + q) by lia.
    assert (H1 : 3 * ((th + 1) * h1) + 3 * ((th + 1) * q) + 2 * C * k + C + 1 <= 3 * (nn * C)) by lia.
    assert (H2 : (C + 2) * (h1 + q) <= 2 * (th + 1) * (h1 + q))
      by (apply Z.mul_le_mono_nonneg_r; lia).
    assert (H3 : C * (3 * (h1 + q) + 4 * k + 2) + 6 * (h1 + q) + 2 <= C * (6 * nn)) by lia.
    assert (H4 : 3 * (h1 + q) + 4 * k + 3 <= 6 * nn).
    { destruct (Z_le_dec (3 * (h1 + q) + 4 * k + 3) (6 * nn)) as [H4|H4]; [exact H4|]. exfalso.
      assert (C * (6 * nn) <= C * (3 * (h1 + q) + 4 * k + 2))
        by (apply Z.mul_le_mono_nonneg_l; lia).
      lia. }
    lia.
  Qed.

  (** three bins without an item above th, in a list whose bins are all filled above th: the
      third holds two items, which fit neither the first nor the second *)
  Lemma split_cnt P (t : bins A) : 1 <= cntb P t ->
    exists u c r, t = u ++ c :: r /\ P c = true /\ cntb P r = cntb P t - 1.
  Proof.
    induction t as [|c t IH]; cbn [cntb]; [lia|]. intros H.
    destruct (P c) eqn:E.
    - exists [], c, t. split; [reflexivity|]. split; [exact E|lia].
    - destruct (IH ltac:(lia)) as (u & c0 & r & Et & Hc & Hr).
      exists (c :: u), c0, r. subst t. split; [reflexivity|]. split; [exact Hc|lia].
  Qed.

  Lemma sfit_in_later C (c : bin A) (u : bins A) d r y : sfit valueof C (c :: u ++ d :: r) ->
    In y (snd d) -> C < fst c + valueof y.
  Proof.
    cbn [sfit]. intros [H _] Hin. rewrite Forall_forall in H. apply H.
    rewrite contents_app, contents_cons. apply in_or_app. right. apply in_or_app. left. exact Hin.
  Qed.

  Lemma three_bins C th (t : bins A) : 0 <= th ->
    wf valueof t -> sfit valueof C t ->
    Forall (fun y => 0 <= valueof y) (contents t) ->
    Forall (fun c : bin A => th + 1 <= fst c) t ->
    3 <= cntb (fun c => negb (hbb th c)) t ->
    (th + 1) * (Z.of_nat (length t) - 3) + 2 * C + 2 <= zsum (sums t).
  Proof.
    intros Hth Hw Hsf Hnn Hlv H3.
    set (P := fun c : bin A => negb (hbb th c)) in *.
    destruct (split_cnt P t ltac:(lia)) as (u1 & c1 & r1 & E1 & Hc1 & Hr1).
    destruct (split_cnt P r1 ltac:(lia)) as (u2 & c2 & r2 & E2 & Hc2 & Hr2).
    destruct (split_cnt P r2 ltac:(lia)) as (u3 & c3 & r3 & E3 & Hc3 & Hr3).
    subst r2. subst r1. subst t.
    (* levels of the other bins *)
    apply Forall_app in Hlv. destruct Hlv as [Hl1 Hlv].
    apply Forall_cons_iff in Hlv. destruct Hlv as [Hlc1 Hlv].
    apply Forall_app in Hlv. destruct Hlv as [Hl2 Hlv].
    apply Forall_cons_iff in Hlv. destruct Hlv as [Hlc2 Hlv].
    apply Forall_app in Hlv. destruct Hlv as [Hl3 Hlv].
    apply Forall_cons_iff in Hlv. destruct Hlv as [Hlc3 Hl4].
    pose proof (sums_ge (th + 1) u1 Hl1) as S1.
    pose proof (sums_ge (th + 1) u2 Hl2) as S2.
    pose proof (sums_ge (th + 1) u3 Hl3) as S3.
    pose proof (sums_ge (th + 1) r3 Hl4) as S4.
    (* the third bin *)
    apply sfit_app in Hsf. destruct Hsf as (_ & Hsf & _).
    assert (Hwc3 : wf_bin valueof c3 /\ Forall (fun y => 0 <= valueof y) (snd c3)).
    { unfold wf in Hw. rewrite !Forall_app, !Forall_cons_iff, !Forall_app, !Forall_cons_iff,
        !Forall_app, !Forall_cons_iff in Hw.
      rewrite !contents_app, !contents_cons, !contents_app, !contents_cons, !contents_app,
        !contents_cons in Hnn.
      rewrite !Forall_app in Hnn. tauto. }
    destruct Hwc3 as [Hwc3 Hnn3].
    assert (Hfit1 : forall y, In y (snd c3) -> C < fst c1 + valueof y).
    { intros y Hy. apply (sfit_in_later C c1 (u2 ++ c2 :: u3) c3 r3 y); [|exact Hy].
      rewrite <- app_assoc. cbn [app]. exact Hsf. }
    assert (Hfit2 : forall y, In y (snd c3) -> C < fst c2 + valueof y).
    { intros y Hy. cbn [sfit] in Hsf. destruct Hsf as [_ Hsf].
      apply sfit_app in Hsf. destruct Hsf as (_ & Hsf & _).
      apply (sfit_in_later C c2 u3 c3 r3 y); assumption. }
    assert (Hs3 : 2 * C + 2 <= fst c1 + fst c2 + fst c3).
    { unfold P, hbb in Hc3. apply negb_true_iff in Hc3. unfold wf_bin in Hwc3.
      destruct (snd c3) as [|x1 r] eqn:Es.
      - cbn [map] in Hwc3. rewrite pk_zsum_nil in Hwc3. lia.
      - cbn [existsb] in Hc3. apply orb_false_iff in Hc3. destruct Hc3 as [Hx1 _].
        cbn [map] in Hwc3. rewrite pk_zsum_cons in Hwc3.
        apply Forall_cons_iff in Hnn3. destruct Hnn3 as [Hx10 Hr].
        destruct r as [|x2 r'].
        + cbn [map] in Hwc3. rewrite pk_zsum_nil in Hwc3. lia.
        + cbn [map] in Hwc3. rewrite pk_zsum_cons in Hwc3.
          apply Forall_cons_iff in Hr. destruct Hr as [Hx20 Hr'].
          assert (Hr0 : 0 <= zsum (map valueof r')) by (apply zsum_nonneg; rewrite Forall_map; exact Hr').
          pose proof (Hfit1 x1 ltac:(left; reflexivity)) as F11.
          pose proof (Hfit2 x2 ltac:(right; left; reflexivity)) as F22.
          lia. }
    rewrite !sums_app, !sums_cons, !sums_app, !sums_cons, !sums_app, !sums_cons.
    rewrite !zsum_app, !pk_zsum_cons, !zsum_app, !pk_zsum_cons, !zsum_app, !pk_zsum_cons.
    rewrite !app_length. cbn [length]. rewrite !app_length. cbn [length]. rewrite !app_length.
    cbn [length].
    rewrite !Nat2Z.inj_add, !Nat2Z.inj_succ, !Nat2Z.inj_add, !Nat2Z.inj_succ, !Nat2Z.inj_add,
      !Nat2Z.inj_succ.
    lia.
  Qed.

  (** the bin is a single item a with C/3 < a <= C/2 *)
  Definition msb (C : Z) (bn : bin A) : bool :=
    match snd bn with
    | [xa] => (C <? 3 * valueof xa) && (2 * valueof xa <=? C)
    | _ => false
    end.

  (** bins with an item above th >= C/2 hold that many values above C/2 *)
  Lemma hbb_count C th (t : bins A) : C <= 2 * th + 1 ->
    cntb (hbb th) t <= fsum (bigw C) (map valueof (contents t)).
  Proof.
    intros Hth. induction t as [|c t IH].
    - cbn [cntb]. unfold contents, lists. cbn [map concat]. rewrite fsum_nil. lia.
    - rewrite contents_cons, map_app, fsum_app. cbn [cntb].
      pose proof (fsum_bigw_nonneg C (map valueof (snd c))) as H0.
      destruct (hbb th c) eqn:E; [|lia].
      unfold hbb in E. apply existsb_exists in E. destruct E as (y & Hin & Hy).
      assert (Hin' : In (valueof y) (map valueof (snd c))) by (apply in_map; exact Hin).
      assert (Hnnw : forall z, 0 <= bigw C z) by (intros z; pose proof (bigw_range C z); lia).
      pose proof (fsum_ge_in (bigw C) _ _ Hnnw Hin') as Hge.
      assert (E1 : bigw C (valueof y) = 1)
        by (unfold bigw; destruct (C <? 2 * valueof y) eqn:E1; lia).
      lia.
  Qed.
End MediumSingle.

(** ---- 7c. first-fit with OPT = 4 uses at most 6 bins ---- *)
Section Opt4.
  Context {A : Type} (valueof : A -> Z).

  Theorem ff_opt4_partial C (items : list A) (b : bins A) :
    items <> [] -> Forall (fun x : A => 0 <= valueof x) items ->
    first_fit valueof true C items = Ok b -> Packable C (map valueof items) 4 ->
    (length b <= 6)%nat.
  Proof.
    intros Hne Hnn Hff Hpack.
    destruct (le_lt_dec (length b) 6) as [Hle|Hgt]; [exact Hle|]. exfalso.
    pose proof (ff_sfit valueof C items b Hnn Hff) as Hsf.
    destruct (ff_facts valueof C items b 4 Hne Hnn Hff Hpack)
      as ((Hw & Hf & Hp & Hnem & Hns & Ha) & Hb2 & HC & Hn & Hnnb).
    pose proof (Permutation_map valueof Hp) as Hpv.
    assert (Hvs : Forall (fun v => 0 <= v) (map valueof items)) by (rewrite Forall_map; exact Hnn).
    destruct (existsb (msb valueof C) b) eqn:E.
    - (* a bin {a} with C/3 < a <= C/2 *)
      assert (Hex : exists bn xa, In bn b /\ snd bn = [xa] /\ C < 3 * valueof xa /\ 2 * valueof xa <= C).
      { apply existsb_exists in E. destruct E as (bn & Hin & Hm).
        unfold msb in Hm. destruct (snd bn) as [|xa [|y r]] eqn:Es; try discriminate Hm.
        exists bn, xa. repeat split; auto; lia. }
      pose proof (ff_medium_single_partial valueof C items b 4 Hne Hnn Hff Hpack Hex) as H74.
      destruct (medium_single_split valueof C items b 4 Hne Hnn Hff Hpack Hex)
        as (l1 & l2 & a & Ha3 & Ha2 & Elen & Hw1 & Hne1 & Hsf1 & Hnn1 & Hlv1 & Htot & Hk2 & Hconf).
      pose proof (cntb_total (hbb valueof (C - a)) l1) as Hcnt.
      pose proof (cntb_nonneg (hbb valueof (C - a)) l1) as Hh0.
      assert (Hk3 : 3 <= cntb (fun c => negb (hbb valueof (C - a) c)) l1) by lia.
      pose proof (three_bins valueof C (C - a) l1 ltac:(lia) Hw1 Hsf1 Hnn1 Hlv1 Hk3) as H3b.
      set (q := Z.of_nat (length l2)) in *.
      assert (Ep : Z.of_nat (length l1) = 6 - q) by (unfold q; lia).
      rewrite Ep in H3b. change (Z.of_nat 4) with 4 in *. lia.
    - (* no such bin *)
      assert (Hno1 : no_medium_single valueof C b).
      { intros bn xa Hin Es [H3 H2].
        assert (Hm : msb valueof C bn = true) by (unfold msb; rewrite Es; lia).
        assert (Hex : existsb (msb valueof C) b = true) by (apply existsb_exists; exists bn; auto).
        congruence. }
      destruct (Forall_dec (fun bn : bin A => C < 2 * fst bn)
                  (fun bn => Z_lt_dec C (2 * fst bn)) b) as [Hhf|Hnhf].
      + (* every bin more than half full: at most 4 bins hold a value above C/2 *)
        pose proof (Z.div_mod C 2) as Hdm. pose proof (Z.mod_pos_bound C 2) as Hmb.
        assert (Hh : C - 1 <= 2 * (C / 2) <= C) by lia.
        clear Hdm Hmb. set (h := C / 2) in *.
        assert (Hlv : Forall (fun c : bin A => h + 1 <= fst c) b).
        { eapply Forall_impl; [|exact Hhf]. intros bn Hbn. cbv beta in Hbn. lia. }
        pose proof (hbb_count valueof C h b ltac:(lia)) as Hcb.
        pose proof (packable_big C _ 4 HC Hvs Hpack) as Hbig.
        change (zsum (map (bigw C) (map valueof items))) with (fsum (bigw C) (map valueof items)) in Hbig.
        rewrite <- (fsum_perm _ _ _ Hpv) in Hbig.
        pose proof (cntb_total (hbb valueof h) b) as Hcnt.
        assert (Hk3 : 3 <= cntb (fun c => negb (hbb valueof h c)) b).
        { change (Z.of_nat 4) with 4 in Hbig. lia. }
        pose proof (three_bins valueof C h b ltac:(lia) Hw Hsf Hnnb Hlv Hk3) as H3b.
        pose proof (packable_total C _ 4 Hpack) as Htot.
        rewrite <- (zsum_perm _ _ Hpv), <- (wf_total valueof _ Hw) in Htot.
        change (Z.of_nat 4) with 4 in Htot.
        assert (Hm7 : 7 <= Z.of_nat (length b)) by lia.
        assert (Hmul : (h + 1) * 4 <= (h + 1) * (Z.of_nat (length b) - 3))
          by (apply Z.mul_le_mono_nonneg_l; lia).
        lia.
      + destruct (Z.eq_dec C 0) as [E0|Hpos].
        * subst C. pose proof (cap0_single valueof b _ 4%nat Hw Ha Hnnb Hpv Hpack). lia.
        * pose proof (low_bin_core valueof C b (map valueof items) 4 ltac:(lia) Hn Hw Hnem Hns Ha Hb2
                        Hnnb Hpv Hpack Hnhf Hno1) as Hlow. lia.
  Qed.
End Opt4.


(** ---- 8. what the additive constants give for the sharp bound floor(17 n / 10) ---- *)

(** 10 m <= 17 n + c and (17 n mod 10) + c < 10 give 10 m <= 17 n *)
Lemma floor_of_additive (m n c k r : nat) :
  (10 * m <= 17 * n + c)%nat -> (17 * n = 10 * k + r)%nat -> (r + c < 10)%nat ->
  (10 * m <= 17 * n)%nat.
Proof. intros H E Hr. lia. Qed.

Section Sharp.
  Context {A : Type} (valueof : A -> Z).

  (** unconditionally: the sharp bound for n <= 3 and for n = 0, 3, 6 mod 10 *)
  Theorem ff_ratio_17_floor_partial C (items : list A) (b : bins A) (n : nat) :
    items <> [] -> Forall (fun x : A => 0 <= valueof x) items ->
    first_fit valueof true C items = Ok b -> MinBins C (map valueof items) n ->
    (n <= 3)%nat \/ (exists k, n = 10 * k \/ n = 10 * k + 3 \/ n = 10 * k + 6)%nat ->
    (10 * length b <= 17 * n)%nat.
  Proof.
    intros Hne Hnn Hff [Hpack _] Hcase.
    pose proof (ff_ratio_17_7_partial valueof C items b n Hne Hnn Hff Hpack) as H7.
    destruct (ff_facts valueof C items b n Hne Hnn Hff Hpack) as (HI & _ & _ & Hn & _).
    pose proof (Inv_lt_2n valueof C b items n HI Hne Hnn Hpack) as H2.
    destruct Hcase as [Hs|(k & [E|[E|E]])]; lia.
  Qed.

  Theorem bf_ratio_17_floor_partial C (items : list A) (b : bins A) (n : nat) :
    items <> [] -> Forall (fun x : A => 0 <= valueof x) items ->
    best_fit valueof true C items = Ok b -> MinBins C (map valueof items) n ->
    (n <= 3)%nat \/ (exists k, n = 10 * k \/ n = 10 * k + 3 \/ n = 10 * k + 6)%nat ->
    (10 * length b <= 17 * n)%nat.
  Proof.
    intros Hne Hnn Hbf [Hpack _] Hcase.
    pose proof (bf_ratio_17_7_partial valueof C items b n Hne Hnn Hbf Hpack) as H7.
    destruct (bf_facts valueof C items b n Hne Hnn Hbf Hpack) as (HI & _ & _ & Hn & _).
    pose proof (Inv_lt_2n valueof C b items n HI Hne Hnn Hpack) as H2.
    destruct Hcase as [Hs|(k & [E|[E|E]])]; lia.
  Qed.

  (** when no bin is a single item a with C/3 < a <= C/2: the sharp bound unless
      n = 1, 4, 7 mod 10 (and for n = 1) *)
  Theorem ff_ratio_17_floor_nms_partial C (items : list A) (b : bins A) (n : nat) :
    items <> [] -> Forall (fun x : A => 0 <= valueof x) items ->
    first_fit valueof true C items = Ok b -> MinBins C (map valueof items) n ->
    no_medium_single valueof C b ->
    (n = 1)%nat \/ (exists k r, n = 10 * k + r /\ r < 10 /\ r <> 1 /\ r <> 4 /\ r <> 7)%nat ->
    (10 * length b <= 17 * n)%nat.
  Proof.
    intros Hne Hnn Hff [Hpack _] Hno1 Hcase.
    pose proof (ff_ratio_17_3_partial valueof C items b n Hne Hnn Hff Hpack Hno1) as H3.
    destruct (ff_facts valueof C items b n Hne Hnn Hff Hpack) as (HI & _ & _ & Hn & _).
    pose proof (Inv_lt_2n valueof C b items n HI Hne Hnn Hpack) as H2.
    destruct Hcase as [Hs|(k & r & E & Hr & H1 & H4 & H7)]; lia.
  Qed.

  Theorem bf_ratio_17_floor_nms_partial C (items : list A) (b : bins A) (n : nat) :
    items <> [] -> Forall (fun x : A => 0 <= valueof x) items ->
    best_fit valueof true C items = Ok b -> MinBins C (map valueof items) n ->
    no_medium_single valueof C b ->
    (n = 1)%nat \/ (exists k r, n = 10 * k + r /\ r < 10 /\ r <> 1 /\ r <> 4 /\ r <> 7)%nat ->
    (10 * length b <= 17 * n)%nat.
  Proof.
    intros Hne Hnn Hbf [Hpack _] Hno1 Hcase.
    pose proof (bf_ratio_17_3_partial valueof C items b n Hne Hnn Hbf Hpack Hno1) as H3.
    destruct (bf_facts valueof C items b n Hne Hnn Hbf Hpack) as (HI & _ & _ & Hn & _).
    pose proof (Inv_lt_2n valueof C b items n HI Hne Hnn Hpack) as H2.
    destruct Hcase as [Hs|(k & r & E & Hr & H1 & H4 & H7)]; lia.
  Qed.

  (** first-fit, unconditionally: additive constant 3/10, or the ratio 7/4 *)

  Theorem ff_ratio_17_3_or_74_partial C (items : list A) (b : bins A) (n : nat) :
    items <> [] -> Forall (fun x : A => 0 <= valueof x) items ->
    first_fit valueof true C items = Ok b -> Packable C (map valueof items) n ->
    (10 * length b <= 17 * n + 3)%nat \/ (4 * length b <= 7 * n)%nat.
  Proof.
    intros Hne Hnn Hff Hpack.
    destruct (existsb (msb valueof C) b) eqn:E.
    - right. apply existsb_exists in E. destruct E as (bn & Hin & Hm).
      apply (ff_medium_single_partial valueof C items b n Hne Hnn Hff Hpack).
      unfold msb in Hm. destruct (snd bn) as [|xa [|y r]] eqn:Es; try discriminate Hm.
      exists bn, xa. repeat split; auto; lia.
    - left. apply (ff_ratio_17_3_partial valueof C items b n Hne Hnn Hff Hpack).
      intros bn xa Hin Es [H3 H2].
      assert (Hm : msb valueof C bn = true) by (unfold msb; rewrite Es; lia).
      assert (Hex : existsb (msb valueof C) b = true) by (apply existsb_exists; exists bn; auto).
      congruence.
  Qed.

  (** rung 2: the sharp bound for first-fit whenever the optimum is at most 6
      (also for n = 9, 10, 13) *)
  Corollary ff_ratio_17_floor_small_partial C (items : list A) (b : bins A) (n : nat) :
    items <> [] -> Forall (fun x : A => 0 <= valueof x) items ->
    first_fit valueof true C items = Ok b -> MinBins C (map valueof items) n ->
    (n <= 6)%nat \/ (n = 9)%nat \/ (n = 10)%nat \/ (n = 13)%nat ->
    (10 * length b <= 17 * n)%nat.
  Proof.
    intros Hne Hnn Hff [Hpack _] Hcase.
    pose proof (ff_ratio_17_3_or_74_partial C items b n Hne Hnn Hff Hpack) as H.
    destruct (ff_facts valueof C items b n Hne Hnn Hff Hpack) as (HI & _ & _ & Hn & _).
    pose proof (Inv_lt_2n valueof C b items n HI Hne Hnn Hpack) as H2.
    destruct (Nat.eq_dec n 4) as [E4|N4].
    - subst n. pose proof (ff_opt4_partial valueof C items b Hne Hnn Hff Hpack). lia.
    - lia.
  Qed.
End Sharp.

(* OPEN: Theorem ff_ratio_17_floor (and bf_ratio_17_floor):
     items <> [] -> Forall (fun x => 0 <= valueof x) items ->
     first_fit valueof true C items = Ok b -> MinBins C (map valueof items) n ->
     (10 * length b <= 17 * n)%nat.
   What is missing, in the terms of this file:
   (a) every bin more than half full, beta = n (every optimal bin holds a value above C/2) and
       the last bin without such a value is less than 2/3 full: the weights give only
       10 m <= 17 n + 3 ([half_full_core]); the deficit 10 C m - W2 can really be 4 C
       (bins {C/4+1, C/4+1, C/4+1}, ..., {C/4+1, C/4+1}), so more than the weight is needed.
   (b) a bin {a} with C/3 < a <= C/2 (only 17 n + 7 and, for first-fit, 4 m <= 7 n are proved):
       after moving {a} to the end this is (a)-like with one optimal bin of capacity C - a; the
       deficit of the weights is up to 7 C.  For best-fit the later bins may hold further small
       items, so even 4 m <= 7 n is not available.
   (c) the regular case gives 10 m <= 17 n + 1, which is the sharp bound except for
       n = 7 mod 10 (m = 17 k + 12, n = 10 k + 7); Dosa and Sgall treat this case by a separate
       analysis that was not reconstructed.
   Numerical search (/root/scratch/ff17sharp, exact optimum, several million packings with
   C <= 60) found no violation of 10 m <= 17 n. *)

(** ---- 9. an instance: optimum 3, first-fit 5 = floor(17 * 3 / 10); the fourth bin is a single
    item a = C/2, the case left open for the constant 3/10 ---- *)
Ltac perm_go a l pre post :=
  lazymatch post with
  | a :: ?t => apply (@Permutation_cons_app _ l pre t a)
  | ?b :: ?t => perm_go a l (pre ++ [b]) t
  end.
Ltac perm_step :=
  lazymatch goal with
  | |- Permutation [] [] => apply perm_nil
  | |- Permutation (?a :: ?l) ?r => perm_go a l (@nil Z) r; cbn [app]
  end.

Example ff_opt3_uses5 :
  first_fit (fun v : Z => v) true 30 [7; 6; 10; 8; 8; 17; 15; 16] =
    Ok [(23, [7; 6; 10]); (16, [8; 8]); (17, [17]); (15, [15]); (16, [16])] /\
  MinBins 30 [7; 6; 10; 8; 8; 17; 15; 16] 3.
Proof.
  split; [vm_compute; reflexivity|]. split.
  - apply gpack_packable. exists [[15; 8; 7]; [16; 8; 6]; [17; 10]].
    split; [reflexivity|]. split.
    + cbn [concat app]. repeat perm_step.
    + repeat constructor; vm_compute; discriminate.
  - intros m Hm. pose proof (packable_total 30 _ m Hm) as H.
    change (zsum [7; 6; 10; 8; 8; 17; 15; 16]) with 87 in H. lia.
Qed.

Print Assumptions ff_ratio_17_7_partial.
Print Assumptions bf_ratio_17_7_partial.
Print Assumptions ff_half_full_partial.
Print Assumptions bf_half_full_partial.
Print Assumptions ff_filled_partial.
Print Assumptions bf_filled_partial.
Print Assumptions ff_ratio_17_3_partial.
Print Assumptions bf_ratio_17_3_partial.
Print Assumptions ff_ratio_17_1_partial.
Print Assumptions bf_ratio_17_1_partial.
Print Assumptions ff_medium_single_partial.
Print Assumptions ff_opt4_partial.
Print Assumptions ff_low_bin_sharp_partial.
Print Assumptions bf_low_bin_sharp_partial.
Print Assumptions ff_ratio_17_floor_partial.
Print Assumptions bf_ratio_17_floor_partial.
Print Assumptions ff_ratio_17_floor_nms_partial.
Print Assumptions ff_ratio_17_3_or_74_partial.
Print Assumptions ff_ratio_17_floor_small_partial.
Print Assumptions bf_ratio_17_floor_nms_partial.
