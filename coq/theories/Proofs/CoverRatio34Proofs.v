(** C10: the approximation guarantee of the three-quarters bin-covering heuristic
    (Model/Covering.v [cover_threequarters], prtpy/packing/cflz_covering.py [threequarters];
    Csirik, Frenk, Labbe, Zhang 1999, the "improved simple" heuristic):
        3 * OPT <= 4 * (number of bins filled) + 16.

    Method: a weighting argument with a run-dependent parameter D, 0 < D <= C.
    [W4 C D v] is, in units where a covered bin must weigh 6 D, a staircase with ramps of
    slope 6 (per unit of value): 0 .. 2D on [0, D/3], flat 2D up to C/2 - D/6, a ramp
    through (C/2, 3D) up to 4D, flat 4D up to C - D/3, a ramp up to 6D at C.
    (D = C gives six times the capped value.)
    Every set of values reaching C weighs at least 6 D ([W4_valid], hence
    [cover_weight_bound4]: OPT * 6 D <= total weight).  On the side of the heuristic
    ([tq_weights]) the total weight is at most 8 D per filled bin plus 22 D, where
      D = min (C, 3 (C - x), 9 (C - 2 y))   ([Dfin])
    over the big items x < C and the medium items y (except the largest) that are left when
    the small items run out (D = C when the big and medium items run out first):
    - a bin of the main loop opened by a big item, or by two medium items lying on the
      ramp, weighs at most 8 D ([binX], [binY_pair]); at most one bin is opened by a pair
      whose smaller item lies on the flat part, it weighs at most 9 D (allowance [Bud]);
    - in the finishing phases ([finish_B], [good_A]) the decreasing subroutine is followed
      with a potential depending on the level of the open bin ([acct], [PX], [PY], [PZ]):
      left-over big items weigh <= 4 D (two per bin), medium ones <= 8 D / 3 (three per bin).
    Result: 18 * OPT <= 24 * bins + 66, i.e. 3 * OPT <= 4 * bins + 11. *)
From Prtpy Require Import Base.Prelude Model.Binner Model.Covering Spec.Partition
  Proofs.BaseLemmas Proofs.BinnerLemmas Proofs.CoveringProofs Proofs.SNPProofs.
From Coq Require Import Sorting.Sorted ZifyBool.

(** ---- the weights ---- *)

Definition W4 (C D v : Z) : Z :=
  if 3 * v <? C then Z.min (6 * v) (2 * D)
  else if 2 * v <? C then Z.max (2 * D) (3 * D - 3 * C + 6 * v)
  else Z.min (6 * D) (Z.max (6 * D - 6 * (C - v)) (Z.min (4 * D) (3 * D + 3 * (2 * v - C)))).

Lemma W4_nonneg C D v : 0 < D -> D <= C -> 0 <= v -> 0 <= W4 C D v.
Proof.
  intros HD HDC Hv. unfold W4.
  destruct (3 * v <? C) eqn:E3; [lia|]. destruct (2 * v <? C) eqn:E2; lia.
Qed.

Lemma zsum_cons4 x l : zsum (x :: l) = x + zsum l.
Proof. reflexivity. Qed.

(** values below C/3: with total value a and total weight b, for k = 0, 1, 2
    min (2 (k+1) D) (2 k D + 6 a - 2 k C) <= b *)
Lemma third_weight C D Q : 0 < D -> D <= C ->
  Forall (fun v => 0 <= v /\ 3 * v < C) Q ->
  0 <= zsum Q /\ 0 <= zsum (map (W4 C D) Q) /\
  Z.min (2 * D) (6 * zsum Q) <= zsum (map (W4 C D) Q) /\
  Z.min (4 * D) (2 * D + 6 * zsum Q - 2 * C) <= zsum (map (W4 C D) Q) /\
  Z.min (6 * D) (4 * D + 6 * zsum Q - 4 * C) <= zsum (map (W4 C D) Q).
Proof.
  intros HD HDC HQ. induction HQ as [|v Q [Hv0 Hv] HQ IH]; cbn [map].
  - change (zsum []) with 0. lia.
  - rewrite !zsum_cons4. destruct IH as (I0 & I1 & I2 & I3 & I4).
    set (a := zsum Q) in *. set (b := zsum (map (W4 C D) Q)) in *.
    unfold W4. destruct (3 * v <? C) eqn:E; lia.
Qed.

(** the summary of a set of values below C/3 used in the case analysis *)
Definition third_sum (C D a b : Z) : Prop :=
  0 <= a /\ 0 <= b /\ Z.min (2 * D) (6 * a) <= b /\
  Z.min (4 * D) (2 * D + 6 * a - 2 * C) <= b /\ Z.min (6 * D) (4 * D + 6 * a - 4 * C) <= b.

Lemma WX_ge C D x : 0 < D -> D <= C -> C <= 2 * x -> 3 * D <= W4 C D x.
Proof.
  intros HD HDC Hx. unfold W4.
  destruct (3 * x <? C) eqn:E3; [lia|]. destruct (2 * x <? C) eqn:E2; lia.
Qed.

Lemma WY_ge C D y : 0 < D -> D <= C -> C <= 3 * y -> 2 * y < C -> 2 * D <= W4 C D y.
Proof.
  intros HD HDC Hy1 Hy2. unfold W4.
  destruct (3 * y <? C) eqn:E3; [lia|]. destruct (2 * y <? C) eqn:E2; lia.
Qed.

Lemma case00 C D a b : 0 < D -> D <= C -> third_sum C D a b -> C <= a -> 6 * D <= b.
Proof. intros HD HDC (A0 & B0 & I0 & I1 & I2) H. lia. Qed.

Lemma case10 C D a b x : 0 < D -> D <= C -> third_sum C D a b -> C <= 2 * x ->
  C <= x + a -> 6 * D <= W4 C D x + b.
Proof.
  intros HD HDC (A0 & B0 & I0 & I1 & I2) Hx H. unfold W4.
  destruct (3 * x <? C) eqn:E3; [lia|]. destruct (2 * x <? C) eqn:E2; lia.
Qed.

Lemma case01 C D a b y : 0 < D -> D <= C -> third_sum C D a b -> C <= 3 * y -> 2 * y < C ->
  C <= y + a -> 6 * D <= W4 C D y + b.
Proof.
  intros HD HDC (A0 & B0 & I0 & I1 & I2) Hy1 Hy2 H. unfold W4.
  destruct (3 * y <? C) eqn:E3; [lia|]. destruct (2 * y <? C) eqn:E2; lia.
Qed.

Lemma case02 C D a b y1 y2 : 0 < D -> D <= C -> third_sum C D a b ->
  C <= 3 * y1 -> 2 * y1 < C -> C <= 3 * y2 -> 2 * y2 < C ->
  C <= y1 + y2 + a -> 6 * D <= W4 C D y1 + W4 C D y2 + b.
Proof.
  intros HD HDC (A0 & B0 & I0 & I1 & I2) Hy1 Hy1' Hy2 Hy2' H. unfold W4.
  destruct (3 * y1 <? C) eqn:E3; [lia|]. destruct (2 * y1 <? C) eqn:E2; [|lia].
  destruct (3 * y2 <? C) eqn:F3; [lia|]. destruct (2 * y2 <? C) eqn:F2; lia.
Qed.

Lemma case11 C D a b x y : 0 < D -> D <= C -> third_sum C D a b ->
  C <= 2 * x -> C <= 3 * y -> 2 * y < C ->
  C <= x + y + a -> 6 * D <= W4 C D x + W4 C D y + b.
Proof.
  intros HD HDC (A0 & B0 & I0 & I1 & I2) Hx Hy Hy' H. unfold W4.
  destruct (3 * x <? C) eqn:E3; [lia|]. destruct (2 * x <? C) eqn:E2; [lia|].
  destruct (3 * y <? C) eqn:F3; [lia|]. destruct (2 * y <? C) eqn:F2; lia.
Qed.

Definition wz (C D : Z) (l : list Z) : Z := zsum (map (W4 C D) l).

Lemma wz_cons C D v l : wz C D (v :: l) = W4 C D v + wz C D l.
Proof. reflexivity. Qed.

Lemma wz_nonneg C D l : 0 < D -> D <= C -> Forall (fun v => 0 <= v) l -> 0 <= wz C D l.
Proof.
  intros HD HDC H. apply zsum_nonneg. rewrite Forall_map.
  eapply Forall_impl; [|exact H]. intros v Hv. apply W4_nonneg; assumption.
Qed.

Lemma Forall_weaken_nonneg (P : Z -> Prop) l : (forall v, P v -> 0 <= v) ->
  Forall P l -> Forall (fun v => 0 <= v) l.
Proof. intros H HF. eapply Forall_impl; [|exact HF]. exact H. Qed.

(** the case analysis: at most one value >= C/2 and at most two in [C/3, C/2) matter *)
Lemma valid3 C D XS YS ZS : 0 < D -> D <= C ->
  Forall (fun v => C <= 2 * v) XS -> Forall (fun v => C <= 3 * v /\ 2 * v < C) YS ->
  Forall (fun v => 0 <= v /\ 3 * v < C) ZS ->
  C <= zsum XS + zsum YS + zsum ZS -> 6 * D <= wz C D XS + wz C D YS + wz C D ZS.
Proof.
  intros HD HDC HX HY HZ Hsum. assert (HC : 0 < C) by lia.
  pose proof (third_weight C D ZS HD HDC HZ) as HT. fold (wz C D ZS) in HT.
  change (third_sum C D (zsum ZS) (wz C D ZS)) in HT.
  pose proof HT as (A0 & B0 & _).
  assert (HXn : Forall (fun v => 0 <= v) XS).
  { eapply Forall_weaken_nonneg; [|exact HX]. cbv beta. intros v Hv. lia. }
  assert (HYn : Forall (fun v => 0 <= v) YS).
  { eapply Forall_weaken_nonneg; [|exact HY]. cbv beta. intros v Hv. lia. }
  destruct XS as [|x1 [|x2 XS]].
  - change (zsum []) with 0 in Hsum. change (wz C D []) with 0.
    destruct YS as [|y1 [|y2 [|y3 YS]]].
    + change (zsum []) with 0 in Hsum. change (wz C D []) with 0.
      pose proof (case00 C D _ _ HD HDC HT). lia.
    + inversion HY as [|? ? [Hy1 Hy1'] _]; subst.
      rewrite wz_cons. change (wz C D []) with 0. rewrite zsum_cons4 in Hsum.
      change (zsum []) with 0 in Hsum.
      pose proof (case01 C D _ _ y1 HD HDC HT Hy1 Hy1'). lia.
    + inversion HY as [|? ? [Hy1 Hy1'] HY2]; subst.
      inversion HY2 as [|? ? [Hy2 Hy2'] _]; subst.
      rewrite !wz_cons. change (wz C D []) with 0. rewrite !zsum_cons4 in Hsum.
      change (zsum []) with 0 in Hsum.
      pose proof (case02 C D _ _ y1 y2 HD HDC HT Hy1 Hy1' Hy2 Hy2'). lia.
    + inversion HY as [|? ? [Hy1 Hy1'] HY2]; subst.
      inversion HY2 as [|? ? [Hy2 Hy2'] HY3]; subst.
      inversion HY3 as [|? ? [Hy3 Hy3'] HY4]; subst.
      inversion HYn as [|? ? _ HYn2]; subst. inversion HYn2 as [|? ? _ HYn3]; subst.
      inversion HYn3 as [|? ? _ HYn4]; subst.
      rewrite !wz_cons. pose proof (wz_nonneg C D YS HD HDC HYn4).
      pose proof (WY_ge C D y1 HD HDC Hy1 Hy1'). pose proof (WY_ge C D y2 HD HDC Hy2 Hy2').
      pose proof (WY_ge C D y3 HD HDC Hy3 Hy3'). lia.
  - inversion HX as [|? ? Hx1 _]; subst. rewrite wz_cons. change (wz C D []) with 0.
    rewrite zsum_cons4 in Hsum. change (zsum []) with 0 in Hsum.
    destruct YS as [|y1 [|y2 YS]].
    + change (zsum []) with 0 in Hsum. change (wz C D []) with 0.
      pose proof (case10 C D _ _ x1 HD HDC HT Hx1). lia.
    + inversion HY as [|? ? [Hy1 Hy1'] _]; subst.
      rewrite wz_cons. change (wz C D []) with 0. rewrite zsum_cons4 in Hsum.
      change (zsum []) with 0 in Hsum.
      pose proof (case11 C D _ _ x1 y1 HD HDC HT Hx1 Hy1 Hy1'). lia.
    + inversion HY as [|? ? [Hy1 Hy1'] HY2]; subst.
      inversion HY2 as [|? ? [Hy2 Hy2'] _]; subst.
      inversion HYn as [|? ? _ HYn2]; subst. inversion HYn2 as [|? ? _ HYn3]; subst.
      rewrite !wz_cons. pose proof (wz_nonneg C D YS HD HDC HYn3).
      pose proof (WX_ge C D x1 HD HDC Hx1).
      pose proof (WY_ge C D y1 HD HDC Hy1 Hy1'). pose proof (WY_ge C D y2 HD HDC Hy2 Hy2'). lia.
  - inversion HX as [|? ? Hx1 HX2]; subst. inversion HX2 as [|? ? Hx2 _]; subst.
    inversion HXn as [|? ? _ HXn2]; subst. inversion HXn2 as [|? ? _ HXn3]; subst.
    rewrite !wz_cons. pose proof (wz_nonneg C D XS HD HDC HXn3).
    pose proof (wz_nonneg C D YS HD HDC HYn).
    pose proof (WX_ge C D x1 HD HDC Hx1). pose proof (WX_ge C D x2 HD HDC Hx2). lia.
Qed.

Lemma filter_Forall_both {T} (P : T -> Prop) (p : T -> bool) l :
  Forall P l -> Forall (fun x => P x /\ p x = true) (filter p l).
Proof.
  intros H. apply Forall_forall. intros x Hx. apply filter_In in Hx. destruct Hx as [Hx Hp].
  rewrite Forall_forall in H. split; [apply H; exact Hx|exact Hp].
Qed.

(** every set of values that reaches C weighs at least 6 D *)
Lemma W4_valid C D Q : 0 < D -> D <= C -> Forall (fun v => 0 <= v) Q ->
  C <= zsum Q -> 6 * D <= wz C D Q.
Proof.
  intros HD HDC HQ Hsum. assert (HC : 0 < C) by lia.
  set (pX := fun v : Z => C <=? 2 * v). set (pY := fun v : Z => (C <=? 3 * v) && (2 * v <? C)).
  set (pZ := fun v : Z => 3 * v <? C).
  assert (HP : Permutation (filter pX Q ++ filter pY Q ++ filter pZ Q) Q).
  { apply filter3_perm. intros v. unfold pX, pY, pZ.
    destruct (Z_le_gt_dec C (2 * v)) as [H1|H1];
      [left|destruct (Z_le_gt_dec C (3 * v)) as [H2|H2]; [right; left|right; right]];
      repeat split; lia. }
  rewrite <- (zsum_perm _ _ HP), !zsum_app in Hsum.
  unfold wz. rewrite <- (zsum_perm _ _ (Permutation_map (W4 C D) HP)), !map_app, !zsum_app.
  rewrite Z.add_assoc in Hsum |- *. apply valid3; try assumption.
  - eapply Forall_impl; [|apply (filter_Forall_both _ pX Q HQ)]. unfold pX. cbv beta.
    intros v [_ Hv]. lia.
  - eapply Forall_impl; [|apply (filter_Forall_both _ pY Q HQ)]. unfold pY. cbv beta.
    intros v [_ Hv]. lia.
  - eapply Forall_impl; [|apply (filter_Forall_both _ pZ Q HQ)]. unfold pZ. cbv beta.
    intros v [Hv0 Hv]. lia.
Qed.

Definition idz4 (v : Z) : Z := v.

Lemma lists_weight4 C D : 0 < D -> D <= C -> forall T : list (list Z),
  Forall (fun v => 0 <= v) (concat T) -> Forall (fun x => C <= x) (tsums idz4 T) ->
  Z.of_nat (length T) * (6 * D) <= wz C D (concat T).
Proof.
  intros HD HDC. induction T as [|l T IH]; intros Hnn Hfull.
  - cbn. lia.
  - cbn [concat] in *. apply Forall_app in Hnn. destruct Hnn as [Hl HT].
    unfold tsums in Hfull. cbn [map] in Hfull. inversion Hfull as [|s0 ss Hs Hss]; subst s0 ss.
    specialize (IH HT Hss). unfold wz in *. rewrite map_app, zsum_app. cbn [length].
    rewrite Nat2Z.inj_succ.
    assert (H : 6 * D <= wz C D l).
    { apply W4_valid; try assumption. unfold InExTree.vsum, idz4 in Hs. rewrite map_id in Hs. exact Hs. }
    unfold wz in H. lia.
Qed.

(** the optimum is bounded by the total weight *)
Lemma cover_weight_bound4 C D n vs : 0 < D -> D <= C -> Forall (fun v => 0 <= v) vs ->
  Coverable C vs n -> Z.of_nat n * (6 * D) <= wz C D vs.
Proof.
  intros HD HDC Hnn [Hn|(s & Hat & Hfull)].
  - subst n. cbn [Z.of_nat]. pose proof (wz_nonneg C D vs HD HDC Hnn). lia.
  - rewrite <- (map_id vs) in Hat. change (fun x : Z => x) with idz4 in Hat.
    destruct (attainable_lists idz4 n vs s Hat) as (T & HL & HP & HS).
    rewrite <- HL. unfold wz. rewrite <- (zsum_perm _ _ (Permutation_map (W4 C D) HP)).
    apply lists_weight4; try assumption.
    + eapply Permutation_Forall; [symmetry; exact HP|exact Hnn].
    + rewrite HS. exact Hfull.
Qed.

(** ---- arithmetic facts about the weights of the three classes ---- *)

Lemma Wz_le C D z : 0 <= z -> 3 * z < C -> W4 C D z <= 6 * z /\ W4 C D z <= 2 * D.
Proof. intros H0 H3. unfold W4. destruct (3 * z <? C) eqn:E; lia. Qed.

(** with D = C the weight is six times the capped value *)
Lemma W4_C C v : 0 < C -> 0 <= v -> W4 C C v <= 6 * v /\ W4 C C v <= 6 * C.
Proof.
  intros HC Hv. unfold W4. destruct (3 * v <? C) eqn:E3; [lia|].
  destruct (2 * v <? C) eqn:E2; lia.
Qed.

(** an opener x >= C/2 whose gap is at most D/3 (or D = C) leaves room 6 (C - x) below 6 D *)
Lemma Wx_open C D x : 0 < D -> D <= C -> C <= 2 * x -> x < C ->
  D = C \/ 3 * (C - x) <= D -> W4 C D x <= 6 * D - 6 * (C - x).
Proof.
  intros HD HDC H2 HxC HDx. unfold W4. destruct (3 * x <? C) eqn:E3; [lia|].
  destruct (2 * x <? C) eqn:E2; lia.
Qed.

Lemma Wx_le C D x : 0 < D -> D <= C -> 0 <= x -> W4 C D x <= 6 * D.
Proof.
  intros HD HDC Hx. unfold W4. destruct (3 * x <? C) eqn:E3; [lia|].
  destruct (2 * x <? C) eqn:E2; lia.
Qed.

(** remaining big items weigh at most 4 D once D <= 3 (C - x) *)
Lemma Wx_rest C D x : 0 < D -> C <= 2 * x -> D <= 3 * (C - x) -> W4 C D x <= 4 * D.
Proof.
  intros HD H2 HDx. unfold W4. destruct (3 * x <? C) eqn:E3; [lia|].
  destruct (2 * x <? C) eqn:E2; lia.
Qed.

(** medium items: never more than 3 D; exactly on the ramp when 3 (C - 2 y) <= D *)
Lemma Wy_le C D y : 0 < D -> C <= 3 * y -> 2 * y < C -> W4 C D y <= 3 * D.
Proof.
  intros HD H3 H2. unfold W4. destruct (3 * y <? C) eqn:E3; [lia|].
  destruct (2 * y <? C) eqn:E2; lia.
Qed.

Lemma Wy_ramp C D y : C <= 3 * y -> 2 * y < C -> 3 * (C - 2 * y) <= D ->
  W4 C D y = 3 * D - 3 * C + 6 * y.
Proof.
  intros H3 H2 HDy. unfold W4. destruct (3 * y <? C) eqn:E3; [lia|].
  destruct (2 * y <? C) eqn:E2; lia.
Qed.

Lemma Wy_flat C D y : C <= 3 * y -> 2 * y < C -> D < 3 * (C - 2 * y) -> W4 C D y = 2 * D.
Proof.
  intros H3 H2 HDy. unfold W4. destruct (3 * y <? C) eqn:E3; [lia|].
  destruct (2 * y <? C) eqn:E2; lia.
Qed.

(** remaining medium items weigh at most 8 D / 3 once D <= 9 (C - 2 y) *)
Lemma Wy_rest C D y : 0 < D -> C <= 3 * y -> 2 * y < C -> D <= 9 * (C - 2 * y) ->
  3 * W4 C D y <= 8 * D.
Proof.
  intros HD H3 H2 HDy. unfold W4. destruct (3 * y <? C) eqn:E3; [lia|].
  destruct (2 * y <? C) eqn:E2; lia.
Qed.

Section CoverRatio34.
  Context {A : Type} (valueof : A -> Z).

  Notation add1 := (add_to_bin valueof true).
  Notation vsum := (InExTree.vsum valueof).

  Definition wsum4 (C D : Z) (l : list A) : Z := zsum (map (fun a => W4 C D (valueof a)) l).

  Lemma wsum4_app C D l1 l2 : wsum4 C D (l1 ++ l2) = wsum4 C D l1 + wsum4 C D l2.
  Proof. unfold wsum4. rewrite map_app, zsum_app. reflexivity. Qed.
  Lemma wsum4_cons C D x l : wsum4 C D (x :: l) = W4 C D (valueof x) + wsum4 C D l.
  Proof. reflexivity. Qed.
  Lemma wsum4_nil C D : wsum4 C D [] = 0.
  Proof. reflexivity. Qed.
  Lemma wsum4_perm C D l1 l2 : Permutation l1 l2 -> wsum4 C D l1 = wsum4 C D l2.
  Proof. intros H. unfold wsum4. apply zsum_perm, Permutation_map. exact H. Qed.

  Lemma vsum4_app l1 l2 : vsum (l1 ++ l2) = vsum l1 + vsum l2.
  Proof. unfold InExTree.vsum. rewrite map_app, zsum_app. reflexivity. Qed.
  Lemma vsum4_cons x l : vsum (x :: l) = valueof x + vsum l.
  Proof. reflexivity. Qed.

  (** the three classes of items *)
  Definition bigp (C : Z) (a : A) : Prop := C <= 2 * valueof a.
  Definition medp (C : Z) (a : A) : Prop := C <= 3 * valueof a /\ 2 * valueof a < C.
  Definition smp (C : Z) (a : A) : Prop := 0 < valueof a /\ 3 * valueof a < C.

  (** ---- accounting: three times the weight of the bins closed after [bs] and of the
      current bin is at most 24 D per closed bin, plus E, plus a potential of the
      level of the current bin ---- *)
  Definition acct (C D : Z) (bs : bins A) (E : Z) (P : Z -> Z) (st : cstate (A:=A)) : Prop :=
    0 <= fst (snd st) < C /\
    exists new, fst st = bs ++ new /\
      3 * (wsum4 C D (contents new) + wsum4 C D (snd (snd st)))
        <= 24 * D * Z.of_nat (length new) + E + P (fst (snd st)).

  Lemma acct_weaken C D bs E P E' P' st : acct C D bs E P st ->
    E + P (fst (snd st)) <= E' + P' (fst (snd st)) -> acct C D bs E' P' st.
  Proof.
    intros (Hf & new & H1 & H2) Hle. split; [exact Hf|]. exists new. split; [exact H1|]. lia.
  Qed.

  Lemma contents_snoc4 (b : bins A) (c : bin A) : contents (b ++ [c]) = contents b ++ snd c.
  Proof.
    rewrite contents_app. unfold contents at 2, lists. cbn [map concat].
    rewrite app_nil_r. reflexivity.
  Qed.

  (** one step of the decreasing subroutine *)
  Lemma acct_step C D bs E P E' P' st x : acct C D bs E P st -> 0 <= valueof x ->
    (C <= fst (snd st) + valueof x ->
       E + P (fst (snd st)) + 3 * W4 C D (valueof x) <= 24 * D + E' + P' 0) ->
    (fst (snd st) + valueof x < C ->
       E + P (fst (snd st)) + 3 * W4 C D (valueof x) <= E' + P' (fst (snd st) + valueof x)) ->
    0 < C -> acct C D bs E' P' (cover_add valueof true C st x).
  Proof.
    intros (Hf & new & H1 & H2) Hx Hclose Hkeep HC. unfold acct, cover_add. cbv zeta.
    cbn [add_to_bin fst snd].
    destruct (fst (snd st) + valueof x >=? C) eqn:Ecmp.
    - cbn [fst snd empty_bin]. split; [lia|]. exists (new ++ [add1 x (snd st)]).
      split; [rewrite H1, app_assoc; reflexivity|].
      rewrite contents_snoc4, app_length, Nat2Z.inj_add. cbn [length add_to_bin snd].
      rewrite !wsum4_app, wsum4_cons, !wsum4_nil.
      assert (Hc : C <= fst (snd st) + valueof x) by lia. specialize (Hclose Hc).
      change (Z.of_nat 1) with 1. lia.
    - cbn [add_to_bin fst snd]. split; [lia|]. exists new. split; [exact H1|].
      rewrite wsum4_app, wsum4_cons, wsum4_nil.
      assert (Hk : fst (snd st) + valueof x < C) by lia. specialize (Hkeep Hk). lia.
  Qed.

  (** the decreasing subroutine on items satisfying [ok], with a fixed potential *)
  Lemma acct_dec C D bs E P (ok : A -> Prop) : 0 < C ->
    (forall x, ok x -> 0 <= valueof x) ->
    (forall f x, ok x -> 0 <= f < C -> C <= f + valueof x ->
       P f + 3 * W4 C D (valueof x) <= 24 * D + P 0) ->
    (forall f x, ok x -> 0 <= f < C -> f + valueof x < C ->
       P f + 3 * W4 C D (valueof x) <= P (f + valueof x)) ->
    forall l st, Forall ok l -> acct C D bs E P st ->
      acct C D bs E P (dec_sub valueof true C st l).
  Proof.
    intros HC Hnn Hclose Hkeep. unfold dec_sub.
    induction l as [|x t IH]; intros st Hl Hst; cbn [fold_left]; [exact Hst|].
    inversion Hl as [|x0 t0 Hx Ht]; subst x0 t0. apply IH; [exact Ht|].
    pose proof Hst as (Hf & _).
    apply (acct_step C D bs E P E P st x Hst); [apply Hnn; exact Hx| | |exact HC].
    - intros Hc. specialize (Hclose _ x Hx Hf Hc). lia.
    - intros Hk. specialize (Hkeep _ x Hx Hf Hk). lia.
  Qed.

  (** ---- the potentials of the finishing phases ---- *)
  Definition P0 (f : Z) : Z := 0.
  Definition PX (C D f : Z) : Z := if 2 * f <? C then 0 else 12 * D.
  Definition PY (C D f : Z) : Z := if 3 * f <? C then 0 else if 3 * f <? 2 * C then 8 * D else 16 * D.
  Definition PZ (f : Z) : Z := 18 * f.

  (** items >= C: each closes a bin of weight <= 6 D *)
  Lemma acct_huge C D bs E l st : 0 < C -> 0 < D -> D <= C ->
    Forall (fun x => C <= valueof x) l -> acct C D bs E P0 st ->
    acct C D bs E P0 (dec_sub valueof true C st l).
  Proof.
    intros HC HD HDC. apply (acct_dec C D bs E P0 (fun x => C <= valueof x) HC).
    - intros x Hx. lia.
    - intros f x Hx Hf Hc. unfold P0. pose proof (Wx_le C D (valueof x) HD HDC). lia.
    - intros f x Hx Hf Hk. lia.
  Qed.

  (** items in [C/2, C) of weight <= 4 D: two of them close a bin *)
  Lemma acct_big C D bs E l st : 0 < C -> 0 < D ->
    Forall (fun x => bigp C x /\ D <= 3 * (C - valueof x)) l -> acct C D bs E (PX C D) st ->
    acct C D bs E (PX C D) (dec_sub valueof true C st l).
  Proof.
    intros HC HD. apply (acct_dec C D bs E (PX C D) _ HC).
    - intros x [Hx _]. unfold bigp in Hx. lia.
    - intros f x [Hx HDx] Hf Hc. pose proof (Wx_rest C D (valueof x) HD Hx HDx).
      unfold PX. destruct (2 * f <? C); destruct (2 * 0 <? C) eqn:E0; lia.
    - intros f x [Hx HDx] Hf Hk. pose proof (Wx_rest C D (valueof x) HD Hx HDx).
      unfold bigp in Hx. unfold PX. destruct (2 * f <? C) eqn:E1; [|lia].
      destruct (2 * (f + valueof x) <? C) eqn:E2; lia.
  Qed.

  (** items in [C/3, C/2) of weight <= 8 D / 3: three of them close a bin *)
  Lemma acct_med C D bs E l st : 0 < C -> 0 < D ->
    Forall (fun y => medp C y /\ D <= 9 * (C - 2 * valueof y)) l -> acct C D bs E (PY C D) st ->
    acct C D bs E (PY C D) (dec_sub valueof true C st l).
  Proof.
    intros HC HD. apply (acct_dec C D bs E (PY C D) _ HC).
    - intros y [[Hy _] _]. lia.
    - intros f y [[Hy1 Hy2] HDy] Hf Hc. pose proof (Wy_rest C D (valueof y) HD Hy1 Hy2 HDy).
      unfold PY. destruct (3 * 0 <? C) eqn:E0; [|lia].
      destruct (3 * f <? C); [lia|]. destruct (3 * f <? 2 * C); lia.
    - intros f y [[Hy1 Hy2] HDy] Hf Hk. pose proof (Wy_rest C D (valueof y) HD Hy1 Hy2 HDy).
      unfold PY. destruct (3 * f <? C) eqn:E1.
      + destruct (3 * (f + valueof y) <? C) eqn:E2; [lia|].
        destruct (3 * (f + valueof y) <? 2 * C); lia.
      + destruct (3 * f <? 2 * C) eqn:E3; [|lia].
        destruct (3 * (f + valueof y) <? C) eqn:E2; [lia|].
        destruct (3 * (f + valueof y) <? 2 * C) eqn:E4; lia.
  Qed.

  (** items below C/3 with D = C: the weight is six times the value *)
  Lemma acct_small C bs E l st : 0 < C ->
    Forall (smp C) l -> acct C C bs E PZ st -> acct C C bs E PZ (dec_sub valueof true C st l).
  Proof.
    intros HC. apply (acct_dec C C bs E PZ (smp C) HC).
    - intros x [Hx _]. lia.
    - intros f x [Hx0 Hx3] Hf Hc. unfold PZ.
      destruct (Wz_le C C (valueof x)) as [H1 H2]; lia.
    - intros f x [Hx0 Hx3] Hf Hk. unfold PZ.
      destruct (Wz_le C C (valueof x)) as [H1 H2]; lia.
  Qed.

  (** ---- the parameter D of a run ---- *)
  Notation desc := (StronglySorted (fun a b : A => valueof b <= valueof a)).

  (** admissible parameters, given the big and medium items still available *)
  Definition Dok (C : Z) (big medium : list A) (D : Z) : Prop :=
    0 < D /\ D <= C /\
    (D = C \/
     (exists x, In x big /\ valueof x < C /\ D = 3 * (C - valueof x)) \/
     (exists y, In y (tl medium) /\ D = 9 * (C - 2 * valueof y))).

  Lemma Dok_incl C b1 m1 b2 m2 D : incl b1 b2 -> incl (tl m1) (tl m2) ->
    Dok C b1 m1 D -> Dok C b2 m2 D.
  Proof.
    intros Hb Hm (H1 & H2 & H3). split; [exact H1|]. split; [exact H2|].
    destruct H3 as [H3|[(x & Hx & H3)|(y & Hy & H3)]]; [left; exact H3|right; left|right; right].
    - exists x. split; [apply Hb; exact Hx|exact H3].
    - exists y. split; [apply Hm; exact Hy|exact H3].
  Qed.

  Lemma Dok_C C big medium : 0 < C -> Dok C big medium C.
  Proof. intros HC. split; [exact HC|]. split; [lia|]. left. reflexivity. Qed.

  Lemma fold_min_le c l : fold_right Z.min c l <= c /\ Forall (fun d => fold_right Z.min c l <= d) l.
  Proof.
    induction l as [|d l [IH1 IH2]]; cbn [fold_right]; [split; [lia|constructor]|].
    split; [lia|]. constructor; [lia|]. eapply Forall_impl; [|exact IH2]. cbv beta. intros e He. lia.
  Qed.

  Lemma fold_min_in c l : fold_right Z.min c l = c \/ In (fold_right Z.min c l) l.
  Proof.
    induction l as [|d l IH]; cbn [fold_right]; [left; reflexivity|].
    destruct (Z.min_spec d (fold_right Z.min c l)) as [[_ E]|[_ E]]; rewrite E.
    - right. left. reflexivity.
    - destruct IH as [IH|IH]; [left; exact IH|right; right; exact IH].
  Qed.

  Definition cands (C : Z) (big medium : list A) : list Z :=
    map (fun x => 3 * (C - valueof x)) (filter (fun x => valueof x <? C) big) ++
    map (fun y => 9 * (C - 2 * valueof y)) (tl medium).

  Definition Dfin (C : Z) (big medium : list A) : Z := fold_right Z.min C (cands C big medium).

  Lemma Forall_tl {T} (P : T -> Prop) (l : list T) : Forall P l -> Forall P (tl l).
  Proof. intros H. destruct l as [|a t]; [constructor|]. inversion H; assumption. Qed.

  Lemma Dfin_spec C big medium : 0 < C -> Forall (medp C) medium ->
    Dok C big medium (Dfin C big medium) /\
    Forall (fun x => valueof x < C -> Dfin C big medium <= 3 * (C - valueof x)) big /\
    Forall (fun y => Dfin C big medium <= 9 * (C - 2 * valueof y)) (tl medium).
  Proof.
    intros HC Hm. unfold Dfin. set (D := fold_right Z.min C (cands C big medium)).
    destruct (fold_min_le C (cands C big medium)) as [HleC Hall]. fold D in HleC, Hall.
    unfold cands in Hall. apply Forall_app in Hall. destruct Hall as [Hb Hy].
    rewrite Forall_map in Hb, Hy. apply Forall_tl in Hm.
    assert (Hcase : D = C \/
      (exists x, In x big /\ valueof x < C /\ D = 3 * (C - valueof x)) \/
      (exists y, In y (tl medium) /\ D = 9 * (C - 2 * valueof y))).
    { destruct (fold_min_in C (cands C big medium)) as [H|H]; fold D in H; [left; exact H|right].
      unfold cands in H. apply in_app_or in H. destruct H as [H|H]; apply in_map_iff in H.
      - left. destruct H as (x & Hx & Hin). apply filter_In in Hin. destruct Hin as [Hin Hlt].
        exists x. split; [exact Hin|]. split; [lia|]. symmetry. exact Hx.
      - right. destruct H as (y & Hy' & Hin). exists y. split; [exact Hin|]. symmetry. exact Hy'. }
    split; [|split].
    - split; [|split; [exact HleC|exact Hcase]].
      destruct Hcase as [H|[(x & _ & Hx & H)|(y & Hin & H)]]; [lia|lia|].
      rewrite Forall_forall in Hm. destruct (Hm y Hin) as [_ H2]. lia.
    - apply Forall_forall. intros x Hx Hlt. rewrite Forall_forall in Hb. apply Hb.
      apply filter_In. split; [exact Hx|lia].
    - exact Hy.
  Qed.

  (** a descending list splits into the items >= C and the items < C *)
  Lemma desc_split C (l : list A) : desc l ->
    exists hi lo, l = hi ++ lo /\ Forall (fun x => C <= valueof x) hi /\
                  Forall (fun x => valueof x < C) lo.
  Proof.
    induction l as [|x t IH]; intros Hs.
    - exists [], []. split; [reflexivity|split; constructor].
    - inversion Hs as [|x0 t0 Hst Hxt]; subst x0 t0.
      destruct (Z_le_gt_dec C (valueof x)) as [Hx|Hx].
      + destruct (IH Hst) as (hi & lo & E & H1 & H2). exists (x :: hi), lo.
        split; [rewrite E; reflexivity|]. split; [constructor; assumption|exact H2].
      + exists [], (x :: t). split; [reflexivity|]. split; [constructor|].
        constructor; [lia|]. eapply Forall_impl; [|exact Hxt]. cbv beta. intros y Hy. lia.
  Qed.

  Lemma dec_sub_app C st (l1 l2 : list A) :
    dec_sub valueof true C st (l1 ++ l2) = dec_sub valueof true C (dec_sub valueof true C st l1) l2.
  Proof. unfold dec_sub. apply fold_left_app. Qed.

  (** ---- the finishing phase after the small items ran out ---- *)
  Lemma finish_B C D bs E big medium st : 0 < C -> 0 < D -> D <= C ->
    desc big -> Forall (bigp C) big -> Forall (medp C) medium ->
    Forall (fun x => valueof x < C -> D <= 3 * (C - valueof x)) big ->
    Forall (fun y => D <= 9 * (C - 2 * valueof y)) (tl medium) ->
    acct C D bs E P0 st ->
    acct C D bs (E + 13 * D) (PY C D)
      (dec_sub valueof true C (dec_sub valueof true C st big) medium).
  Proof.
    intros HC HD HDC Hs Hb Hm HDb HDm Hst.
    destruct (desc_split C big Hs) as (hi & lo & Ebig & Hhi & Hlo). subst big.
    rewrite dec_sub_app. apply Forall_app in Hb. destruct Hb as [_ Hblo].
    apply Forall_app in HDb. destruct HDb as [_ HDlo].
    set (s1 := dec_sub valueof true C st hi).
    assert (H1 : acct C D bs E P0 s1) by (apply acct_huge; assumption).
    set (s2 := dec_sub valueof true C s1 lo).
    assert (H2 : acct C D bs E (PX C D) s2).
    { apply acct_big; try assumption.
      - rewrite Forall_forall in Hblo, HDlo, Hlo |- *. intros x Hx.
        split; [apply Hblo; exact Hx|apply HDlo; [exact Hx|apply Hlo; exact Hx]].
      - apply (acct_weaken C D bs E P0); [exact H1|].
        unfold P0, PX. destruct (2 * fst (snd s1) <? C); lia. }
    assert (H3 : acct C D bs (E + 12 * D) P0 s2).
    { apply (acct_weaken C D bs E (PX C D)); [exact H2|].
      unfold P0, PX. destruct (2 * fst (snd s2) <? C); lia. }
    destruct medium as [|y0 rest].
    - unfold dec_sub at 1. cbn [fold_left]. apply (acct_weaken C D bs (E + 12 * D) P0); [exact H3|].
      unfold P0, PY. destruct (3 * fst (snd s2) <? C); [lia|].
      destruct (3 * fst (snd s2) <? 2 * C); lia.
    - cbn [tl] in HDm. inversion Hm as [|y1 r1 [Hy1 Hy2] Hrest]; subst y1 r1.
      change (y0 :: rest) with ([y0] ++ rest). rewrite dec_sub_app.
      pose proof (Wy_le C D (valueof y0) HD Hy1 Hy2) as Hw. pose proof H3 as (Hf & _).
      apply acct_med; try assumption.
      + rewrite Forall_forall in Hrest, HDm |- *. intros y Hy.
        split; [apply Hrest; exact Hy|apply HDm; exact Hy].
      + unfold dec_sub. cbn [fold_left].
        apply (acct_step C D bs (E + 12 * D) P0 (E + 13 * D) (PY C D) s2 y0 H3); [lia| | |exact HC].
        * intros Hc. unfold P0, PY. destruct (3 * 0 <? C) eqn:E0; lia.
        * intros Hk. unfold P0, PY.
          destruct (3 * (fst (snd s2) + valueof y0) <? C) eqn:E1; [lia|].
          destruct (3 * (fst (snd s2) + valueof y0) <? 2 * C); lia.
  Qed.

  (** ---- filling a bin with the smallest small items ---- *)
  Definition room (C D f : Z) : Z := if f <? C then 6 * (C - f) + 2 * D else 0.

  Lemma fill_w C : forall fuel (cur : bin A) small cur1 small',
    fill_small valueof true fuel C cur small = (cur1, small') ->
    Forall (smp C) small -> (length small <= fuel)%nat ->
    Forall (smp C) small' /\ (C <= fst cur1 \/ small' = []) /\
    exists used, snd cur1 = snd cur ++ used /\ fst cur1 = fst cur + vsum used /\
      0 <= vsum used /\ forall D, 0 < D -> wsum4 C D used <= room C D (fst cur).
  Proof.
    assert (Base : forall (cur : bin A) small cur1 small',
      (cur, small) = (cur1, small') -> Forall (smp C) small -> (C <= fst cur \/ small = []) ->
      Forall (smp C) small' /\ (C <= fst cur1 \/ small' = []) /\
      exists used, snd cur1 = snd cur ++ used /\ fst cur1 = fst cur + vsum used /\
        0 <= vsum used /\ forall D, 0 < D -> wsum4 C D used <= room C D (fst cur)).
    { intros cur small cur1 small' E Hs Hor. inversion E; subst cur1 small'.
      split; [exact Hs|]. split; [exact Hor|]. exists []. rewrite app_nil_r.
      split; [reflexivity|]. split; [cbn; lia|]. split; [cbn; lia|].
      intros D HD. rewrite wsum4_nil. unfold room.
      destruct (fst cur <? C) eqn:Ef; lia. }
    induction fuel as [|f IH]; intros cur small cur1 small' E Hs Hlen; cbn [fill_small] in E.
    - apply (Base cur small); [exact E|exact Hs|]. right. destruct small; [reflexivity|cbn in Hlen; lia].
    - destruct (fst cur <? C) eqn:EC; [|apply (Base cur small); [exact E|exact Hs|left; lia]].
      destruct (unsnoc small) as [[r y]|] eqn:U.
      + apply unsnoc_Some in U. subst small. apply Forall_app in Hs. destruct Hs as [Hr Hy].
        inversion Hy as [|y0 t0 [Hy0 Hy3] _]; subst y0 t0.
        rewrite app_length in Hlen. cbn [length] in Hlen.
        destruct (IH _ _ _ _ E Hr ltac:(lia)) as (H1 & H2 & used & H3 & H4 & H40 & H5).
        split; [exact H1|]. split; [exact H2|]. exists (y :: used).
        cbn [add_to_bin fst snd] in H3, H4, H5.
        split; [rewrite H3, <- app_assoc; reflexivity|].
        split; [rewrite H4, vsum4_cons; lia|]. split; [rewrite vsum4_cons; lia|].
        intros D HD. specialize (H5 D HD).
        rewrite wsum4_cons.
        destruct (Wz_le C D (valueof y)) as [W1 W2]; [lia|lia|].
        unfold room in H5 |- *. rewrite EC.
        destruct (fst cur + valueof y <? C) eqn:E2; lia.
      + apply unsnoc_None in U. apply (Base cur small); [exact E|exact Hs|right; exact U].
  Qed.

  (** ---- the one-off allowance for a bin opened by an unbalanced medium pair ---- *)
  Definition onramp (C D : Z) (y : A) : bool := 3 * (C - 2 * valueof y) <=? D.
  Definition Bud (C D : Z) (medium : list A) : Z :=
    if existsb (onramp C D) medium then 6 * D else 0.

  Lemma Bud_bounds C D medium : 0 < D -> 0 <= Bud C D medium <= 6 * D.
  Proof. intros HD. unfold Bud. destruct (existsb (onramp C D) medium); lia. Qed.

  Lemma Bud_in C D medium y : In y medium -> 3 * (C - 2 * valueof y) <= D ->
    Bud C D medium = 6 * D.
  Proof.
    intros Hin Hy. unfold Bud.
    assert (H : existsb (onramp C D) medium = true).
    { apply existsb_exists. exists y. split; [exact Hin|]. unfold onramp. lia. }
    rewrite H. reflexivity.
  Qed.

  Lemma Bud_none C D medium : Forall (fun y => D < 3 * (C - 2 * valueof y)) medium ->
    Bud C D medium = 0.
  Proof.
    intros H. unfold Bud. destruct (existsb (onramp C D) medium) eqn:E; [|reflexivity].
    apply existsb_exists in E. destruct E as (y & Hin & Hy). rewrite Forall_forall in H.
    specialize (H y Hin). unfold onramp in Hy. lia.
  Qed.

  Lemma Bud_incl C D m1 m2 : 0 < D -> incl m1 m2 -> Bud C D m1 <= Bud C D m2.
  Proof.
    intros HD Hi. unfold Bud at 1. destruct (existsb (onramp C D) m1) eqn:E.
    - apply existsb_exists in E. destruct E as (y & Hin & Hy). unfold onramp in Hy.
      rewrite (Bud_in C D m2 y); [lia|apply Hi; exact Hin|lia].
    - pose proof (Bud_bounds C D m2 HD). lia.
  Qed.

  (** sorted lists: everything is below the head; the tail is below half the top pair *)
  Lemma head_ge (l : list A) x : desc l -> In x l ->
    valueof x <= zsum (map valueof (firstn 1 l)).
  Proof.
    intros Hs Hin. destruct l as [|h t]; [destruct Hin|].
    cbn [firstn map]. rewrite zsum_cons4. change (zsum []) with 0.
    inversion Hs as [|h0 t0 _ Hht]; subst h0 t0. destruct Hin as [<-|Hin]; [lia|].
    rewrite Forall_forall in Hht. specialize (Hht x Hin). cbv beta in Hht. lia.
  Qed.

  Lemma tl_le_pair (l : list A) y : desc l -> In y (tl l) ->
    2 * valueof y <= zsum (map valueof (firstn 2 l)).
  Proof.
    intros Hs Hin. destruct l as [|m1 [|m2 rest]]; [destruct Hin|destruct Hin|].
    cbn [tl] in Hin. cbn [firstn map]. rewrite !zsum_cons4. change (zsum []) with 0.
    inversion Hs as [|h0 t0 Hs2 Hm1]; subst h0 t0.
    inversion Hs2 as [|h0 t0 _ Hm2]; subst h0 t0.
    rewrite Forall_forall in Hm1, Hm2.
    pose proof (Hm1 m2 (or_introl eq_refl)) as H12. cbv beta in H12.
    destruct Hin as [<-|Hin]; [lia|]. specialize (Hm2 y Hin). cbv beta in Hm2. lia.
  Qed.

  (** ---- a bin of the main loop opened by the largest big item ---- *)
  Lemma binX C D x0 big' medium used : 0 < C -> Dok C big' medium D ->
    bigp C x0 -> Forall (fun x => valueof x <= valueof x0) big' ->
    desc medium -> Forall (medp C) medium ->
    zsum (map valueof (firstn 2 medium)) <= valueof x0 ->
    wsum4 C D used <= room C D (valueof x0) ->
    3 * wsum4 C D (x0 :: used) <= 24 * D.
  Proof.
    intros HC (HD & HDC & Hcase) Hx0 Hle Hsm Hm Hcmp Hused. unfold bigp in Hx0.
    assert (Hgap : D = C \/ 3 * (C - valueof x0) <= D).
    { destruct Hcase as [H|[(x & Hin & HxC & H)|(y & Hin & H)]]; [left; exact H|right|right].
      - rewrite Forall_forall in Hle. specialize (Hle x Hin). cbv beta in Hle. lia.
      - pose proof (tl_le_pair medium y Hsm Hin) as Hy.
        apply Forall_tl in Hm. rewrite Forall_forall in Hm. destruct (Hm y Hin) as [_ Hy2]. lia. }
    rewrite wsum4_cons. unfold room in Hused. destruct (valueof x0 <? C) eqn:E.
    - pose proof (Wx_open C D (valueof x0) HD HDC Hx0 ltac:(lia) Hgap). lia.
    - pose proof (Wx_le C D (valueof x0) HD HDC ltac:(lia)). lia.
  Qed.

  (** ---- a bin of the main loop opened by the two largest medium items ---- *)
  Lemma binY_single C D big m1 used : 0 < C -> Dok C big [] D -> desc big ->
    Forall (bigp C) big -> medp C m1 ->
    zsum (map valueof (firstn 1 big)) < valueof m1 ->
    wsum4 C D used <= room C D (valueof m1) ->
    3 * wsum4 C D (m1 :: used) <= 24 * D.
  Proof.
    intros HC (HD & HDC & Hcase) Hsb Hb [Hm3 Hm2] Hcmp Hused.
    assert (HDeq : D = C).
    { destruct Hcase as [H|[(x & Hin & HxC & H)|(y & Hin & _)]]; [exact H| |destruct Hin].
      pose proof (head_ge big x Hsb Hin) as Hh. rewrite Forall_forall in Hb.
      specialize (Hb x Hin). unfold bigp in Hb. lia. }
    subst D. rewrite wsum4_cons. unfold room in Hused.
    destruct (valueof m1 <? C) eqn:E; [|lia].
    destruct (W4_C C (valueof m1) HC ltac:(lia)) as [W1 _]. lia.
  Qed.

  Lemma binY_pair C D big m1 m2 rest used : 0 < C -> Dok C big rest D -> desc big ->
    desc (m1 :: m2 :: rest) -> Forall (medp C) (m1 :: m2 :: rest) ->
    zsum (map valueof (firstn 1 big)) < valueof m1 + valueof m2 ->
    wsum4 C D used <= room C D (valueof m1 + valueof m2) ->
    3 * wsum4 C D (m1 :: m2 :: used) + Bud C D rest <= 24 * D + Bud C D (m1 :: m2 :: rest).
  Proof.
    intros HC (HD & HDC & Hcase) Hsb Hsm Hm Hcmp Hused.
    inversion Hm as [|a1 l1 [H13 H12] Hm']; subst a1 l1.
    inversion Hm' as [|a2 l2 [H23 H22] Hrest]; subst a2 l2.
    inversion Hsm as [|a1 l1 Hsm2 Hle1]; subst a1 l1.
    inversion Hsm2 as [|a2 l2 _ Hle2]; subst a2 l2.
    inversion Hle1 as [|a2 l2 H21 _]; subst a2 l2.
    rewrite !wsum4_cons. unfold room in Hused.
    destruct (valueof m1 + valueof m2 <? C) eqn:E; [|lia].
    assert (Hrest_le : Bud C D rest <= Bud C D (m1 :: m2 :: rest)).
    { apply Bud_incl; [exact HD|]. intros a Ha. right. right. exact Ha. }
    assert (Hramp : 3 * (C - 2 * valueof m2) <= D ->
      3 * (W4 C D (valueof m1) + (W4 C D (valueof m2) + wsum4 C D used)) <= 24 * D).
    { intros Hr. rewrite (Wy_ramp C D (valueof m1)), (Wy_ramp C D (valueof m2)); lia. }
    destruct Hcase as [H|[(x & Hin & HxC & H)|(y & Hin & H)]].
    - specialize (Hramp ltac:(lia)). lia.
    - destruct (Z_le_gt_dec (3 * (C - 2 * valueof m2)) D) as [Hr|Hr]; [specialize (Hramp Hr); lia|].
      pose proof (head_ge big x Hsb Hin) as Hh.
      rewrite (Wy_flat C D (valueof m2)) by lia.
      pose proof (Wy_le C D (valueof m1) HD H13 H12) as Hw1.
      rewrite (Bud_in C D (m1 :: m2 :: rest) m1); [|left; reflexivity|lia].
      rewrite (Bud_none C D rest); [lia|].
      rewrite Forall_forall in Hle2 |- *. intros a Ha. specialize (Hle2 a Ha). cbv beta in Hle2. lia.
    - apply Forall_tl in Hrest. rewrite Forall_forall in Hrest. destruct (Hrest y Hin) as [_ Hy2].
      assert (Hyin : In y rest) by (destruct rest; [destruct Hin|right; exact Hin]).
      rewrite Forall_forall in Hle2. specialize (Hle2 y Hyin). cbv beta in Hle2.
      specialize (Hramp ltac:(lia)). lia.
  Qed.

  (** ---- the whole run from a state of the main loop ---- *)
  Definition good (C : Z) (bs : bins A) (big medium : list A) (st' : cstate (A:=A)) : Prop :=
    exists new D, fst st' = bs ++ new /\ Dok C big medium D /\
      3 * (wsum4 C D (contents new) + wsum4 C D (snd (snd st')))
        <= 24 * D * Z.of_nat (length new) + 60 * D + Bud C D medium.

  (** the current bin at the head of the loop: not full, and light for every admissible D *)
  Definition resid (C : Z) (big medium : list A) (cur : bin A) : Prop :=
    0 <= fst cur < C /\ forall D, Dok C big medium D -> 3 * wsum4 C D (snd cur) <= 30 * D.

  Lemma resid_empty C big medium : 0 < C -> resid C big medium empty_bin.
  Proof.
    intros HC. unfold resid, empty_bin. cbn [fst snd]. split; [lia|].
    intros D (HD & _). rewrite wsum4_nil. lia.
  Qed.

  Lemma good_cons C bs b big' medium' big medium st' :
    incl big' big -> incl (tl medium') (tl medium) ->
    (forall D, Dok C big' medium' D ->
       3 * wsum4 C D (snd b) + Bud C D medium' <= 24 * D + Bud C D medium) ->
    good C (bs ++ [b]) big' medium' st' -> good C bs big medium st'.
  Proof.
    intros Hb Hm Hw (new & D & H1 & H2 & H3). exists (b :: new), D.
    split; [rewrite H1, <- app_assoc; reflexivity|].
    split; [eapply Dok_incl; eassumption|].
    change (contents (b :: new)) with (snd b ++ contents new). rewrite wsum4_app.
    cbn [length]. rewrite Nat2Z.inj_succ. specialize (Hw D H2). lia.
  Qed.

  Lemma good_stop C bs big medium cur : 0 < C -> resid C big medium cur ->
    good C bs big medium (bs, cur).
  Proof.
    intros HC (Hf & Hw). exists [], C. cbn [fst snd]. rewrite app_nil_r.
    split; [reflexivity|]. split; [apply Dok_C; exact HC|].
    specialize (Hw C (Dok_C C big medium HC)). pose proof (Bud_bounds C C medium HC).
    change (contents []) with (@nil A). rewrite wsum4_nil. cbn [length]. lia.
  Qed.

  (** the small items ran out: the big and the medium items go through the subroutine *)
  Lemma good_B C bs big medium cur : 0 < C -> resid C big medium cur ->
    desc big -> Forall (bigp C) big -> Forall (medp C) medium ->
    good C bs big medium
      (dec_sub valueof true C (dec_sub valueof true C (bs, cur) big) medium).
  Proof.
    intros HC (Hf & Hw) Hs Hb Hm.
    destruct (Dfin_spec C big medium HC Hm) as (Hok & HDb & HDm).
    set (D := Dfin C big medium) in *. pose proof Hok as (HD & HDC & _).
    assert (H0 : acct C D bs (30 * D) P0 (bs, cur)).
    { split; [exact Hf|]. exists []. cbn [fst snd]. rewrite app_nil_r. split; [reflexivity|].
      change (contents []) with (@nil A). rewrite wsum4_nil. cbn [length]. unfold P0.
      specialize (Hw D Hok). lia. }
    pose proof (finish_B C D bs (30 * D) big medium (bs, cur) HC HD HDC Hs Hb Hm HDb HDm H0) as H.
    destruct H as (_ & new & H1 & H2). exists new, D. split; [exact H1|]. split; [exact Hok|].
    pose proof (Bud_bounds C D medium HD). unfold PY in H2.
    destruct (3 * fst (snd (dec_sub valueof true C (dec_sub valueof true C (bs, cur) big) medium)) <? C);
      [lia|].
    destruct (3 * fst (snd (dec_sub valueof true C (dec_sub valueof true C (bs, cur) big) medium)) <? 2 * C);
      lia.
  Qed.

  (** the big and medium items ran out: the small items go through the subroutine *)
  Lemma good_A C bs small : 0 < C -> Forall (smp C) small ->
    good C bs [] [] (dec_sub valueof true C (bs, empty_bin) small).
  Proof.
    intros HC Hs.
    assert (H0 : acct C C bs 0 PZ (bs, @empty_bin A)).
    { split; [cbn; lia|]. exists []. cbn [fst snd empty_bin]. rewrite app_nil_r.
      split; [reflexivity|]. change (contents []) with (@nil A). rewrite wsum4_nil.
      cbn [length]. unfold PZ. lia. }
    pose proof (acct_small C bs 0 small (bs, empty_bin) HC Hs H0) as (Hf & new & H1 & H2).
    exists new, C. split; [exact H1|]. split; [apply Dok_C; exact HC|].
    pose proof (Bud_bounds C C [] HC). unfold PZ in H2. lia.
  Qed.

  Definition main_at (C : Z) (f : nat) : Prop := forall bs cur big medium small,
    desc big -> desc medium -> Forall (bigp C) big -> Forall (medp C) medium ->
    Forall (smp C) small -> (cur = empty_bin \/ small = []) -> resid C big medium cur ->
    good C bs big medium (tq_loop valueof true f C (bs, cur) big medium small).

  Lemma good_incl C bs big' medium' big medium st' :
    incl big' big -> incl medium' medium -> incl (tl medium') (tl medium) ->
    good C bs big' medium' st' -> good C bs big medium st'.
  Proof.
    intros Hb Hm Hmt (new & D & H1 & H2 & H3). exists new, D. split; [exact H1|].
    split; [eapply Dok_incl; eassumption|]. pose proof H2 as (HD & _).
    pose proof (Bud_incl C D medium' medium HD Hm). lia.
  Qed.

  (** one iteration of the main loop, after the opener has been chosen *)
  Lemma iter_step C f : 0 < C -> main_at C f ->
    forall bs big medium small big' medium' opener (cur0 : bin A),
    fst cur0 = vsum opener -> snd cur0 = opener -> 0 <= vsum opener ->
    incl big' big -> incl medium' medium -> incl (tl medium') (tl medium) ->
    desc big' -> desc medium' ->
    Forall (bigp C) big' -> Forall (medp C) medium' -> Forall (smp C) small ->
    (forall used D, Dok C big' medium' D -> wsum4 C D used <= room C D (vsum opener) ->
       3 * wsum4 C D (opener ++ used) + Bud C D medium' <= 24 * D + Bud C D medium) ->
    good C bs big medium
      (let '(cur1, small') := fill_small valueof true (length small) C cur0 small in
       if fst cur1 >=? C then tq_loop valueof true f C (bs ++ [cur1], empty_bin) big' medium' small'
       else tq_loop valueof true f C (bs, cur1) big' medium' small').
  Proof.
    intros HC Hrec bs big medium small big' medium' opener cur0 Hf0 Hs0 Hop Hib Him Himt Hsb Hsm
      Hb Hm Hsmall Hbin.
    destruct (fill_small valueof true (length small) C cur0 small) as [cur1 small'] eqn:E.
    destruct (fill_w C _ _ _ _ _ E Hsmall (le_n _)) as (Hs' & Hor & used & Hu1 & Hu2 & Hu0 & Hu3).
    rewrite Hs0 in Hu1. rewrite Hf0 in Hu2, Hu3.
    assert (Hw : forall D, Dok C big' medium' D ->
      3 * wsum4 C D (snd cur1) + Bud C D medium' <= 24 * D + Bud C D medium).
    { intros D HD. rewrite Hu1. apply Hbin; [exact HD|]. apply Hu3. destruct HD as (HD & _). exact HD. }
    destruct (fst cur1 >=? C) eqn:EC.
    - apply (good_cons C bs cur1 big' medium' big medium); try assumption.
      apply (Hrec (bs ++ [cur1]) empty_bin big' medium' small' Hsb Hsm Hb Hm Hs' (or_introl eq_refl)).
      apply resid_empty; exact HC.
    - destruct Hor as [Hor|Hor]; [lia|]. subst small'.
      apply (good_incl C bs big' medium' big medium); try assumption.
      apply (Hrec bs cur1 big' medium' [] Hsb Hsm Hb Hm (Forall_nil _) (or_intror eq_refl)).
      split; [lia|]. intros D HD. specialize (Hw D HD). pose proof HD as (HD0 & _).
      pose proof (Bud_bounds C D medium' HD0). pose proof (Bud_bounds C D medium HD0). lia.
  Qed.

  Lemma medp_pos C l : 0 < C -> Forall (medp C) l -> Forall (fun a => 0 < valueof a) l.
  Proof. intros HC H. eapply Forall_impl; [|exact H]. intros a [Ha _]. lia. Qed.
  Lemma bigp_pos C l : 0 < C -> Forall (bigp C) l -> Forall (fun a => 0 < valueof a) l.
  Proof. intros HC H. eapply Forall_impl; [|exact H]. unfold bigp. intros a Ha. lia. Qed.

  Lemma main_all C : 0 < C -> forall f, main_at C f.
  Proof.
    intros HC. induction f as [|f IH]; intros bs cur big medium small Hsb Hsm Hb Hm Hsmall Hor Hres.
    - cbn [tq_loop]. apply good_stop; assumption.
    - rewrite tq_loop_S. destruct small as [|s0 smt]; [apply good_B; assumption|].
      destruct Hor as [->|Hd]; [|discriminate Hd].
      destruct (is_nil big && is_nil medium) eqn:EN.
      + destruct big; [|discriminate EN]. destruct medium; [|discriminate EN].
        apply good_A; assumption.
      + unfold tq_pick. cbn [fst snd].
        destruct (zsum (map valueof (firstn 1 big)) >=? zsum (map valueof (firstn 2 medium))) eqn:Ecmp.
        * (* opened by the largest big item *)
          destruct big as [|x0 big'].
          { destruct medium as [|m0 mt]; [discriminate EN|].
            pose proof (firstn_pos_sum valueof 2 (m0 :: mt) (medp_pos C _ HC Hm)) as Hp.
            change (zsum (map valueof (firstn 1 []))) with 0 in Ecmp.
            assert (0 < zsum (map valueof (firstn 2 (m0 :: mt)))) by (apply Hp; [discriminate|lia]).
            lia. }
          cbn [firstn skipn fold_left].
          inversion Hsb as [|a1 l1 Hsb' Hle]; subst a1 l1.
          inversion Hb as [|a1 l1 Hx0 Hb']; subst a1 l1.
          apply (iter_step C f HC IH bs (x0 :: big') medium (s0 :: smt) big' medium [x0]);
            try assumption.
          -- cbn. lia.
          -- reflexivity.
          -- unfold bigp in Hx0. cbn. lia.
          -- intros a Ha. right. exact Ha.
          -- apply incl_refl.
          -- apply incl_refl.
          -- intros used D HD Hused.
             assert (H : 3 * wsum4 C D ([x0] ++ used) <= 24 * D); [|lia].
             cbn [app]. apply (binX C D x0 big' medium used); try assumption.
             ++ change (zsum (map valueof (firstn 1 (x0 :: big')))) with (valueof x0 + 0) in Ecmp.
                lia.
             ++ replace (valueof x0) with (vsum [x0]) by (cbn; lia). exact Hused.
        * (* opened by the two largest medium items *)
          pose proof (firstn_nonneg_sum valueof 1 big (bigp_pos C _ HC Hb)) as Hb0.
          destruct medium as [|m1 [|m2 rest]].
          { change (zsum (map valueof (firstn 2 []))) with 0 in Ecmp. lia. }
          { cbn [firstn skipn fold_left].
            change (zsum (map valueof (firstn 2 [m1]))) with (valueof m1 + 0) in Ecmp.
            inversion Hm as [|a1 l1 Hm1 _]; subst a1 l1. pose proof Hm1 as [Hm13 Hm12].
            apply (iter_step C f HC IH bs big [m1] (s0 :: smt) big [] [m1]); try assumption.
            - cbn. lia.
            - reflexivity.
            - cbn. lia.
            - apply incl_refl.
            - intros a Ha. destruct Ha.
            - apply incl_refl.
            - constructor.
            - constructor.
            - intros used D HD Hused. pose proof HD as (HD0 & _).
              pose proof (Bud_incl C D [] [m1] HD0 (incl_nil_l _)) as HB.
              assert (H : 3 * wsum4 C D ([m1] ++ used) <= 24 * D); [|lia].
              cbn [app]. apply (binY_single C D big m1 used); try assumption; [lia|].
              replace (valueof m1) with (vsum [m1]) by (cbn; lia). exact Hused. }
          cbn [firstn skipn fold_left].
          change (zsum (map valueof (firstn 2 (m1 :: m2 :: rest))))
            with (valueof m1 + (valueof m2 + 0)) in Ecmp.
          inversion Hm as [|a1 l1 [Hm13 Hm12] Hm']; subst a1 l1.
          inversion Hm' as [|a2 l2 [Hm23 Hm22] Hmr]; subst a2 l2.
          inversion Hsm as [|a1 l1 Hsm' _]; subst a1 l1.
          inversion Hsm' as [|a2 l2 Hsr _]; subst a2 l2.
          apply (iter_step C f HC IH bs big (m1 :: m2 :: rest) (s0 :: smt) big rest [m1; m2]);
            try assumption.
          -- cbn. lia.
          -- reflexivity.
          -- cbn. lia.
          -- apply incl_refl.
          -- intros a Ha. right. right. exact Ha.
          -- intros a Ha. cbn [tl]. right. destruct rest as [|r0 rt]; [destruct Ha|right; exact Ha].
          -- intros used D HD Hused. cbn [app].
             apply (binY_pair C D big m1 m2 rest used); try assumption; [lia|].
             replace (valueof m1 + valueof m2) with (vsum [m1; m2]) by (cbn; lia). exact Hused.
  Qed.

  Lemma desc_filter (p : A -> bool) l : desc l -> desc (filter p l).
  Proof.
    induction 1 as [|a l Hs IH Hf]; cbn [filter]; [constructor|].
    destruct (p a); [|exact IH]. constructor; [exact IH|].
    apply Forall_forall. intros b Hb. apply filter_In in Hb. destruct Hb as [Hb _].
    rewrite Forall_forall in Hf. apply Hf. exact Hb.
  Qed.

  (** ---- the whole run: some D accounts for all the bins and the left-over ---- *)
  Lemma tq_weights C items : 0 < C -> Forall (fun a => 0 < valueof a) items ->
    exists D rest, 0 < D /\ D <= C /\
      Permutation (contents (cover_threequarters valueof true C items) ++ rest) items /\
      3 * (wsum4 C D (contents (cover_threequarters valueof true C items)) + wsum4 C D rest)
        <= 24 * D * Z.of_nat (length (cover_threequarters valueof true C items)) + 66 * D.
  Proof.
    intros HC Hpos. unfold cover_threequarters. cbv zeta.
    set (s := sort_desc valueof items).
    set (B := filter (is_big valueof C) s). set (M := filter (is_medium valueof C) s).
    set (Z := filter (is_small valueof C) s).
    set (st := tq_loop valueof true (S (length items)) C ([], empty_bin) B M Z).
    assert (Hs : Forall (fun a => 0 < valueof a) s).
    { eapply Permutation_Forall; [symmetry; apply sort_desc_perm|exact Hpos]. }
    pose proof (classes_perm valueof C s HC) as HP. fold B M Z in HP.
    assert (Hinv : cinv valueof C items st []).
    { subst st. apply tq_loop_inv; try assumption.
      - apply cinv_init; [exact HC|]. rewrite HP. apply sort_desc_perm.
      - apply Forall_filter. exact Hs.
      - apply Forall_filter. exact Hs.
      - apply Permutation_length in HP. rewrite !app_length in HP.
        unfold s in HP. rewrite sort_desc_length in HP. lia. }
    destruct Hinv as (_ & _ & _ & _ & HPi). rewrite app_nil_r in HPi.
    assert (Hsorted : desc s) by apply sort_desc_sorted.
    assert (Hgood : good C [] B M st).
    { subst st. apply main_all; try assumption.
      - apply desc_filter. exact Hsorted.
      - apply desc_filter. exact Hsorted.
      - eapply Forall_impl; [|apply (filter_Forall_both _ (is_big valueof C) s Hs)].
        cbv beta. unfold is_big, bigp. intros a [_ Ha]. lia.
      - eapply Forall_impl; [|apply (filter_Forall_both _ (is_medium valueof C) s Hs)].
        cbv beta. unfold is_medium, medp. intros a [_ Ha]. lia.
      - eapply Forall_impl; [|apply (filter_Forall_both _ (is_small valueof C) s Hs)].
        cbv beta. unfold is_small, smp. intros a [Ha0 Ha]. lia.
      - left. reflexivity.
      - apply resid_empty. exact HC. }
    destruct Hgood as (new & D & H1 & (HD & HDC & _) & H3). cbn [app] in H1.
    exists D, (snd (snd st)). rewrite H1 in *. pose proof (Bud_bounds C D M HD).
    split; [exact HD|]. split; [exact HDC|]. split; [exact HPi|]. lia.
  Qed.

  (** C10: threequarters fills at least 3/4 of OPT, up to an additive constant.
      The accounting gives 18 * OPT <= 24 * bins + 66, i.e. 3 * OPT <= 4 * bins + 11. *)
  Theorem threequarters_ratio_strong : forall C items n, 0 < C ->
    Forall (fun x => 0 < valueof x) items -> MaxCover C (map valueof items) n ->
    (3 * n <= 4 * length (cover_threequarters valueof true C items) + 11)%nat.
  Proof.
    intros C items n HC Hpos [Hcov _].
    destruct (tq_weights C items HC Hpos) as (D & rest & HD & HDC & HP & Hw).
    assert (Hopt : Z.of_nat n * (6 * D) <= wsum4 C D items).
    { unfold wsum4. rewrite <- (map_map valueof (W4 C D)).
      apply cover_weight_bound4; try assumption.
      rewrite Forall_map. eapply Forall_impl; [|exact Hpos]. cbv beta. intros x Hx. lia. }
    rewrite <- (wsum4_perm C D _ _ HP), wsum4_app in Hopt.
    set (m := length (cover_threequarters valueof true C items)) in *.
    assert (Hle : (18 * Z.of_nat n) * D <= (24 * Z.of_nat m + 66) * D) by lia.
    apply Z.mul_le_mono_pos_r in Hle; [lia|exact HD].
  Qed.

  Theorem threequarters_ratio : forall C items n, 0 < C ->
    Forall (fun x => 0 < valueof x) items -> MaxCover C (map valueof items) n ->
    (3 * n <= 4 * length (cover_threequarters valueof true C items) + 16)%nat.
  Proof.
    intros C items n HC Hpos Hmax.
    pose proof (threequarters_ratio_strong C items n HC Hpos Hmax). lia.
  Qed.
End CoverRatio34.

(** ---- the guarantee against the executable oracle, and examples ---- *)
From Prtpy Require Import Oracle.Reach Proofs.OracleSpec.

Corollary threequarters_ratio_oracle : forall C vs, 0 < C -> Forall (fun v => 0 < v) vs ->
  (3 * max_cover C vs <= 4 * length (cover_threequarters idz4 true C vs) + 16)%nat.
Proof.
  intros C vs HC Hpos. apply (threequarters_ratio idz4 C vs (max_cover C vs) HC Hpos).
  change (map idz4 vs) with (map (fun v : Z => v) vs). rewrite map_id.
  apply max_cover_spec; assumption.
Qed.

(** the heuristic can lose a bin: OPT = 2 ([8;5], [7;6]), one bin filled *)
Example threequarters_ratio_loss :
  max_cover 12 [8; 7; 6; 5] = 2%nat /\
  cover_threequarters idz4 true 12 [8; 7; 6; 5] = [(15, [8; 7])].
Proof. vm_compute. split; reflexivity. Qed.

(** a run with an unbalanced medium pair (49 + 35 beats 80 although 2 * 35 < 80): with
    D = 3 * (100 - 80) = 60 the item 35 lies on the flat part of the weight (120 = 2 D
    instead of 90); such a bin can weigh up to 9 D instead of 8 D, which happens at most
    once per run and is paid by the allowance [Bud] *)
Example threequarters_ratio_unbalanced :
  max_cover 100 [80; 80; 49; 35; 34; 6; 5; 5; 4] = 2%nat /\
  cover_threequarters idz4 true 100 [80; 80; 49; 35; 34; 6; 5; 5; 4] =
    [(104, [49; 35; 4; 5; 5; 6]); (160, [80; 80])] /\
  map (W4 100 60) [49; 35; 4; 5; 5; 6] = [174; 120; 24; 30; 30; 36].
Proof. vm_compute. repeat split; reflexivity. Qed.

(** the docstring instance for 3/4 with k = 1, scaled by 1/10 and shortened to 9 items *)
Example threequarters_ratio_docstring :
  let vs := [59; 59; 40; 40; 40; 40; 1; 1; 1] in
  (max_cover 120 vs, cover_threequarters idz4 true 120 vs) =
  (2%nat, [(120, [59; 59; 1; 1]); (121, [40; 40; 1; 40])]).
Proof. vm_compute. reflexivity. Qed.

(** the weights: a covered bin weighs at least 6 D, e.g. D = 60, C = 100 *)
Example W4_values :
  map (W4 100 60) [5; 20; 33; 34; 45; 50; 55; 70; 80; 90; 100; 120] =
  [30; 120; 120; 120; 150; 180; 210; 240; 240; 300; 360; 360].
Proof. vm_compute. reflexivity. Qed.

Print Assumptions threequarters_ratio.
Print Assumptions threequarters_ratio_strong.
Print Assumptions threequarters_ratio_oracle.
