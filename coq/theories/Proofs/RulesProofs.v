(** Property C14: every simple heuristic of the model computes exactly what its textbook
    rule (Spec/Rules.v) prescribes.
    Part 1: the model's output satisfies the rule (refinement).
    Part 2: the rules are deterministic up to the observable the property names.
    Part 3: corollaries "the model agrees with ANY run of the rule".
    Everything is on plain values: A = Z, valueof = id, keep = true. *)
From Prtpy Require Import Base.Prelude Model.Binner Model.Greedy Model.Packing Model.Covering
  Spec.Rules Proofs.BaseLemmas Proofs.BinnerLemmas.
From Coq Require Import Sorting.Sorted ZifyBool.

Definition id : Z -> Z := fun v => v.

(** ================= common facts linking [bins Z] and [vbins] ================= *)

Lemma map_id' (l : list Z) : map id l = l.
Proof. unfold id. apply map_id. Qed.

Lemma wf_bin_id (bn : bin Z) : wf_bin id bn <-> fst bn = zsum (snd bn).
Proof. unfold wf_bin. rewrite map_id'. reflexivity. Qed.

Lemma sums_vsums (b : bins Z) : wf id b -> sums b = vsums (lists b).
Proof.
  unfold wf, sums, vsums, lists. induction 1 as [|bn t Hb Ht IH]; cbn [map]; [reflexivity|].
  apply wf_bin_id in Hb. rewrite Hb, IH. reflexivity.
Qed.

Lemma lists_length (b : bins Z) : length (lists b) = length b.
Proof. apply map_length. Qed.

Lemma vsums_length (b : vbins) : length (vsums b) = length b.
Proof. apply map_length. Qed.

Lemma lists_add_item (b : bins Z) v i : lists (add_item id true b v i) = put i v (lists b).
Proof. unfold lists, add_item, put. apply map_update. intros bn. reflexivity. Qed.

Lemma lists_app (b1 b2 : bins Z) : lists (b1 ++ b2) = lists b1 ++ lists b2.
Proof. apply map_app. Qed.

Lemma lists_new_bins k : lists (@new_bins Z k) = repeat [] k.
Proof. unfold lists, new_bins. induction k as [|k IH]; cbn [repeat map]; [reflexivity|]. rewrite IH. reflexivity. Qed.

Lemma vsums_put i v (b : vbins) : vsums (put i v b) = update i (fun s => s + v) (vsums b).
Proof.
  unfold vsums, put. apply map_update. intros l. rewrite zsum_app. cbn [zsum fold_right]. lia.
Qed.

Lemma vsums_app (b1 b2 : vbins) : vsums (b1 ++ b2) = vsums b1 ++ vsums b2.
Proof. apply map_app. Qed.

Lemma nth_vsums i (b : vbins) : nth i (vsums b) 0 = zsum (nth i b []).
Proof. unfold vsums. change 0 with (zsum []). apply map_nth. Qed.

Lemma nth_lists i (b : bins Z) : nth i (lists b) [] = snd (nth i b empty_bin).
Proof. unfold lists. change (@nil Z) with (snd (@empty_bin Z)). apply map_nth. Qed.

Lemma sort_desc_nonincreasing vs : nonincreasing (sort_desc id vs).
Proof. exact (sort_desc_sorted id vs). Qed.

Lemma perm_nonnil {T} (l1 l2 : list T) : Permutation l1 l2 -> l2 <> [] -> l1 <> [].
Proof. intros P H E. subst l1. apply Permutation_nil in P. auto. Qed.

(** ================= PART 1: refinement ================= *)

(** ---- greedy = LPT ---- *)

Lemma greedy_fold_ls l : forall b : bins Z, (1 <= length b)%nat -> wf id b ->
  list_scheduling l (lists b) (lists (fold_left (greedy_step id true) l b)).
Proof.
  induction l as [|v t IH]; intros b Hlen Hwf; cbn [fold_left].
  - apply ls_nil.
  - assert (Hne : sums b <> []).
    { unfold sums. destruct b; cbn [map length] in *; [lia|discriminate]. }
    destruct (argmin_spec (sums b) Hne) as (H1 & H2 & _).
    apply ls_cons with (i := argmin (sums b)).
    + unfold least_loaded. rewrite lists_length, <- sums_vsums by exact Hwf.
      split; [|exact H2]. unfold sums in H1. rewrite map_length in H1. exact H1.
    + rewrite <- lists_add_item. apply IH.
      * unfold greedy_step. rewrite add_item_length. exact Hlen.
      * unfold greedy_step. apply add_item_wf. exact Hwf.
Qed.

Theorem greedy_refines_lpt : forall k vs, (1 <= k)%nat -> lpt_rule k vs (lists (greedy id true k vs)).
Proof.
  intros k vs Hk. exists (sort_desc id vs). split; [apply sort_desc_perm|].
  split; [apply sort_desc_nonincreasing|].
  unfold greedy. rewrite <- lists_new_bins. apply greedy_fold_ls.
  - rewrite new_bins_length. exact Hk.
  - apply new_bins_wf.
Qed.

Lemma greedy_wf k vs : wf id (greedy id true k vs).
Proof.
  unfold greedy. generalize (sort_desc id vs) as l. generalize (new_bins_wf id k).
  generalize (@new_bins Z k) as b. intros b Hb l. revert b Hb.
  induction l as [|v t IH]; intros b Hb; cbn [fold_left]; [exact Hb|].
  apply IH. unfold greedy_step. apply add_item_wf. exact Hb.
Qed.

(** ---- first-fit ---- *)

Lemma ff_step_cons C v l0 b b' :
  ~ fits C v l0 -> ff_step C v b b' -> ff_step C v (l0 :: b) (l0 :: b').
Proof.
  intros Hno H. destruct H as [b i Hi Hfit Hmin|b Hall].
  - change (l0 :: put i v b) with (put (S i) v (l0 :: b)). apply ff_existing.
    + cbn [length]. lia.
    + exact Hfit.
    + intros [|j] Hj; cbn [nth]; [exact Hno|]. apply Hmin. lia.
  - change (l0 :: b ++ [[v]]) with ((l0 :: b) ++ [[v]]). apply ff_new. constructor; assumption.
Qed.

Lemma ff_place_ff_step C v (b : bins Z) : wf id b ->
  ff_step C v (lists b) (lists (ff_place id true C v b)).
Proof.
  induction 1 as [|bn t Hb Ht IH]; cbn [ff_place].
  - apply (ff_new C v []). constructor.
  - apply wf_bin_id in Hb. unfold id at 1. destruct (fst bn + v <=? C) eqn:E.
    + change (lists (add_to_bin id true v bn :: t)) with (put 0 v (lists (bn :: t))).
      apply ff_existing.
      * cbn [lists map length]. lia.
      * unfold fits. cbn [lists map nth]. lia.
      * intros j Hj. lia.
    + change (lists (bn :: ff_place id true C v t)) with (snd bn :: lists (ff_place id true C v t)).
      change (lists (bn :: t)) with (snd bn :: lists t).
      apply ff_step_cons; [|exact IH]. unfold fits. lia.
Qed.

Lemma ff_place_wf C v (b : bins Z) : wf id b -> wf id (ff_place id true C v b).
Proof.
  unfold wf. induction 1 as [|bn t Hb Ht IH]; cbn [ff_place].
  - constructor; [|constructor]. apply add_to_bin_wf; reflexivity.
  - destruct (fst bn + id v <=? C).
    + constructor; [|exact Ht]. apply add_to_bin_wf; [reflexivity|exact Hb].
    + constructor; [exact Hb|exact IH].
Qed.

Lemma ff_loop_run C vs : forall b b', wf id b -> ff_loop id true C vs b = Ok b' ->
  run_steps (ff_step C) vs (lists b) (lists b').
Proof.
  induction vs as [|v t IH]; intros b b' Hwf; cbn [ff_loop].
  - intros H. injection H as H. subst b'. apply rs_nil.
  - destruct (id v >? C); [intros H; discriminate H|]. intros H.
    apply rs_cons with (b1 := lists (ff_place id true C v b)).
    + apply ff_place_ff_step. exact Hwf.
    + apply IH; [apply ff_place_wf; exact Hwf|exact H].
Qed.

(** the model starts from one empty bin, the rule from no bin: they meet after the first item *)
Theorem ff_refines_rule_gen : forall C vs b, vs <> [] ->
  first_fit id true C vs = Ok b -> ff_rule C vs (lists b).
Proof.
  intros C [|v t] b Hne; [congruence|]. unfold first_fit, ff_rule, new_bins. cbn [repeat ff_loop].
  destruct (id v >? C) eqn:E; [intros H; discriminate H|]. unfold id in E.
  assert (Hp : ff_place id true C v [empty_bin] = [add_to_bin id true v empty_bin]).
  { unfold id, empty_bin. cbn [ff_place fst].
    destruct (0 + v <=? C) eqn:E2; [reflexivity|lia]. }
  rewrite Hp. intros H.
  apply rs_cons with (b1 := [] ++ [[v]]).
  - apply ff_new. constructor.
  - apply (ff_loop_run C t [add_to_bin id true v empty_bin] b); [|exact H].
    constructor; [|constructor]. apply add_to_bin_wf; reflexivity.
Qed.

Theorem ff_refines_rule : forall C vs b, vs <> [] -> Forall (fun v => 0 <= v <= C) vs ->
  first_fit id true C vs = Ok b -> ff_rule C vs (lists b).
Proof. intros C vs b Hne _. apply ff_refines_rule_gen. exact Hne. Qed.

Theorem ffd_refines_rule_gen : forall C vs b, vs <> [] ->
  first_fit_decreasing id true C vs = Ok b -> ffd_rule C vs (lists b).
Proof.
  intros C vs b Hne H. exists (sort_desc id vs). split; [apply sort_desc_perm|].
  split; [apply sort_desc_nonincreasing|]. apply ff_refines_rule_gen; [|exact H].
  apply perm_nonnil with (l2 := vs); [apply sort_desc_perm|exact Hne].
Qed.

Theorem ffd_refines_rule : forall C vs b, vs <> [] -> Forall (fun v => 0 <= v <= C) vs ->
  first_fit_decreasing id true C vs = Ok b -> ffd_rule C vs (lists b).
Proof. intros C vs b Hne _. apply ffd_refines_rule_gen. exact Hne. Qed.

(** on the empty input the model returns its initial empty bin, the rule no bin at all *)
Example ff_empty_input_differs :
  rmap lists (first_fit id true 5 []) = Ok [[]] /\ (forall b, ff_rule 5 [] b -> b = []).
Proof.
  split; [vm_compute; reflexivity|]. intros b H. inversion H; subst. reflexivity.
Qed.

(** ---- best-fit ---- *)

Definition nonneg_sums (b : bins Z) : Prop := Forall (fun bn => 0 <= fst bn) b.

(** full specification of the scan: either nothing beats [best], or the result is the
    first index among the fitting bins of maximal sum *)
Lemma bf_scan_spec C v (b : bins Z) : forall i best,
  let r := bf_scan C v b i best in
  (r = best /\ Forall (fun bn => fst bn + v <= C -> fst bn + v <= snd best) b) \/
  (exists j, fst r = Some (i + j)%nat /\ (j < length b)%nat /\
             snd r = fst (nth j b empty_bin) + v /\ snd r <= C /\ snd best < snd r /\
             Forall (fun bn => fst bn + v <= C -> fst bn + v <= snd r) b).
Proof.
  induction b as [|bn t IH]; intros i best; cbn [bf_scan]; cbv zeta.
  - left. split; [reflexivity|constructor].
  - destruct ((fst bn + v <=? C) && (snd best <? fst bn + v)) eqn:E.
    + destruct (IH (S i) (Some i, fst bn + v)) as [[H1 H2]|(j & H1 & H2 & H3 & H4 & H5 & H6)].
      * right. exists O. rewrite H1. cbn [fst snd nth length] in *.
        repeat split; try lia.
        -- f_equal. lia.
        -- constructor; [lia|exact H2].
      * right. exists (S j). cbn [fst snd nth length] in *. repeat split; try lia.
        -- rewrite H1. f_equal. lia.
        -- constructor; [lia|exact H6].
    + destruct (IH (S i) best) as [[H1 H2]|(j & H1 & H2 & H3 & H4 & H5 & H6)].
      * left. split; [exact H1|]. constructor; [lia|exact H2].
      * right. exists (S j). cbn [fst snd nth length] in *. repeat split; try lia.
        -- rewrite H1. f_equal. lia.
        -- constructor; [lia|exact H6].
Qed.

Lemma bf_place_bf_step C v (b : bins Z) : wf id b -> nonneg_sums b -> 0 <= v ->
  bf_step C v (lists b) (lists (bf_place id true C v b)).
Proof.
  intros Hwf Hnn Hv. unfold bf_place. unfold id at 1.
  assert (Hsum : forall j, (j < length b)%nat -> fst (nth j b empty_bin) = zsum (nth j (lists b) [])).
  { intros j Hj. rewrite nth_lists. apply wf_bin_id. unfold wf in Hwf. rewrite Forall_forall in Hwf.
    apply Hwf. apply nth_In. exact Hj. }
  destruct (bf_scan_spec C v b O (None, -1)) as [[H1 H2]|(j & H1 & H2 & H3 & H4 & H5 & H6)].
  - rewrite H1. cbn [fst snd] in *. rewrite lists_app. apply bf_new.
    unfold lists. rewrite Forall_map. unfold nonneg_sums in Hnn. unfold wf in Hwf.
    rewrite Forall_forall in *. intros bn Hin. specialize (H2 bn Hin). specialize (Hnn bn Hin).
    specialize (Hwf bn Hin). apply wf_bin_id in Hwf. unfold fits. lia.
  - rewrite H1. cbn [Nat.add]. rewrite lists_add_item. apply bf_existing.
    + rewrite lists_length. exact H2.
    + unfold fits. rewrite <- Hsum by exact H2. lia.
    + intros j' Hj' Hfit. rewrite lists_length in Hj'. unfold fits in Hfit.
      rewrite <- !Hsum by assumption. rewrite <- Hsum in Hfit by assumption.
      rewrite Forall_forall in H6. specialize (H6 (nth j' b empty_bin) (nth_In _ _ Hj')). lia.
Qed.

Lemma Forall_update {T} (P : T -> Prop) (f : T -> T) i l :
  (forall x, P x -> P (f x)) -> Forall P l -> Forall P (update i f l).
Proof.
  intros Hf H. revert i. induction H as [|x t Hx Ht IH]; intros [|j]; cbn [update];
    constructor; auto.
Qed.

Lemma bf_place_inv C v (b : bins Z) : wf id b -> nonneg_sums b -> 0 <= v ->
  wf id (bf_place id true C v b) /\ nonneg_sums (bf_place id true C v b).
Proof.
  intros Hwf Hnn Hv. unfold bf_place.
  destruct (fst (bf_scan C (id v) b 0 (None, -1))) as [i|].
  - split; [apply add_item_wf; exact Hwf|].
    unfold nonneg_sums, add_item. apply Forall_update; [|exact Hnn].
    intros bn Hbn. unfold add_to_bin, id. cbn [fst]. lia.
  - split.
    + unfold wf. apply Forall_app. split; [exact Hwf|]. constructor; [|constructor].
      apply add_to_bin_wf; reflexivity.
    + unfold nonneg_sums. apply Forall_app. split; [exact Hnn|]. constructor; [|constructor].
      unfold add_to_bin, empty_bin, id. cbn [fst]. lia.
Qed.

Lemma bf_loop_run C vs : forall b b', wf id b -> nonneg_sums b -> Forall (fun v => 0 <= v) vs ->
  bf_loop id true C vs b = Ok b' -> run_steps (bf_step C) vs (lists b) (lists b').
Proof.
  induction vs as [|v t IH]; intros b b' Hwf Hnn Hvs; cbn [bf_loop].
  - intros H. injection H as H. subst b'. apply rs_nil.
  - inversion Hvs as [|v' t' Hv Ht]; subst.
    destruct (id v >? C); [intros H; discriminate H|]. intros H.
    destruct (bf_place_inv C v b Hwf Hnn Hv) as [Hwf' Hnn'].
    apply rs_cons with (b1 := lists (bf_place id true C v b)).
    + apply bf_place_bf_step; assumption.
    + apply IH; assumption.
Qed.

Theorem bf_refines_rule_gen : forall C vs b, vs <> [] -> Forall (fun v => 0 <= v) vs ->
  best_fit id true C vs = Ok b -> bf_rule C vs (lists b).
Proof.
  intros C [|v t] b Hne Hvs; [congruence|]. inversion Hvs as [|v' t' Hv Ht]; subst.
  unfold best_fit, bf_rule, new_bins. cbn [repeat bf_loop].
  destruct (id v >? C) eqn:E; [intros H; discriminate H|]. unfold id in E.
  assert (Hp : bf_place id true C v [empty_bin] = [add_to_bin id true v empty_bin]).
  { unfold bf_place, id, empty_bin. cbn [bf_scan fst snd]. cbv zeta. cbn [fst snd].
    destruct ((0 + v <=? C) && (-1 <? 0 + v)) eqn:E2; [|lia]. reflexivity. }
  rewrite Hp. intros H.
  apply rs_cons with (b1 := [] ++ [[v]]).
  - apply bf_new. constructor.
  - apply (bf_loop_run C t [add_to_bin id true v empty_bin] b); [| |exact Ht|exact H].
    + constructor; [|constructor]. apply add_to_bin_wf; reflexivity.
    + constructor; [|constructor]. unfold add_to_bin, empty_bin, id. cbn [fst]. lia.
Qed.

Theorem bf_refines_rule : forall C vs b, vs <> [] -> Forall (fun v => 0 <= v <= C) vs ->
  best_fit id true C vs = Ok b -> bf_rule C vs (lists b).
Proof.
  intros C vs b Hne Hvs. apply bf_refines_rule_gen; [exact Hne|].
  eapply Forall_impl; [|exact Hvs]. cbv beta. intros v Hv. lia.
Qed.

Theorem bfd_refines_rule_gen : forall C vs b, vs <> [] -> Forall (fun v => 0 <= v) vs ->
  best_fit_decreasing id true C vs = Ok b -> bfd_rule C vs (lists b).
Proof.
  intros C vs b Hne Hvs H. exists (sort_desc id vs). split; [apply sort_desc_perm|].
  split; [apply sort_desc_nonincreasing|]. apply bf_refines_rule_gen; [| |exact H].
  - apply perm_nonnil with (l2 := vs); [apply sort_desc_perm|exact Hne].
  - eapply Permutation_Forall; [symmetry; apply sort_desc_perm|exact Hvs].
Qed.

Theorem bfd_refines_rule : forall C vs b, vs <> [] -> Forall (fun v => 0 <= v <= C) vs ->
  best_fit_decreasing id true C vs = Ok b -> bfd_rule C vs (lists b).
Proof.
  intros C vs b Hne Hvs. apply bfd_refines_rule_gen; [exact Hne|].
  eapply Forall_impl; [|exact Hvs]. cbv beta. intros v Hv. lia.
Qed.

(** best-fit needs non-negative values: the scan starts from best sum -1, so a bin whose new
    sum would be <= -1 is never chosen although the item fits *)
Example bf_negative_value_differs :
  rmap lists (best_fit id true 5 [-2]) = Ok [[]; [-2]] /\ ~ bf_rule 5 [-2] [[]; [-2]].
Proof.
  split; [vm_compute; reflexivity|]. intros H. unfold bf_rule in H.
  inversion H as [|v t b0 b1 b2 Hs Hr]; subst. inversion Hr; subst.
  inversion Hs as [b i Hi Hfit Hmax|b Hall].
  - cbn [length] in Hi. lia.
Qed.

(** ---- next-fit-decreasing cover ---- *)

Notation cst := (cstate (A:=Z)).

Lemma add_to_bin_fst v (c : bin Z) : fst (add_to_bin id true v c) = fst c + v.
Proof. reflexivity. Qed.
Lemma add_to_bin_snd v (c : bin Z) : snd (add_to_bin id true v c) = snd c ++ [v].
Proof. reflexivity. Qed.

Lemma wf_bin_add v (c : bin Z) : wf_bin id c -> wf_bin id (add_to_bin id true v c).
Proof. apply add_to_bin_wf. reflexivity. Qed.

Lemma wf_bin_empty : wf_bin id (@empty_bin Z).
Proof. reflexivity. Qed.

Lemma wf_bin_sum (c : bin Z) v : wf_bin id c -> zsum (snd c ++ [v]) = fst c + v.
Proof. intros H. apply wf_bin_id in H. rewrite zsum_app, H. cbn [zsum fold_right]. lia. Qed.

Lemma cover_add_eq C (st : cst) v :
  cover_add id true C st v =
  if C <=? fst (snd st) + v then (fst st ++ [add_to_bin id true v (snd st)], empty_bin)
  else (fst st, add_to_bin id true v (snd st)).
Proof. unfold cover_add. cbv zeta. rewrite add_to_bin_fst, Z.geb_leb. reflexivity. Qed.

(** [dec_sub] is [next_fill] continuing in the current bin *)
Lemma dec_sub_next_fill C l : forall st : cst, wf_bin id (snd st) ->
  lists (fst (dec_sub id true C st l)) = lists (fst st) ++ fst (next_fill C l (snd (snd st))) /\
  snd (snd (dec_sub id true C st l)) = snd (next_fill C l (snd (snd st))) /\
  wf_bin id (snd (dec_sub id true C st l)).
Proof.
  unfold dec_sub. induction l as [|v t IH]; intros st Hwf; cbn [fold_left next_fill].
  - cbn [fst snd]. rewrite app_nil_r. auto.
  - rewrite cover_add_eq, (wf_bin_sum (snd st) v Hwf).
    destruct (C <=? fst (snd st) + v) eqn:E.
    + destruct (IH (fst st ++ [add_to_bin id true v (snd st)], empty_bin) wf_bin_empty) as (H1 & H2 & H3).
      cbn [fst snd] in H1, H2. change (snd (@empty_bin Z)) with (@nil Z) in H1, H2.
      destruct (next_fill C t []) as [bs last]. cbn [fst snd] in *.
      rewrite H1, H2, lists_app. cbn [lists map]. rewrite add_to_bin_snd, <- app_assoc.
      cbn [app]. auto.
    + destruct (IH (fst st, add_to_bin id true v (snd st)) (wf_bin_add v _ Hwf)) as (H1 & H2 & H3).
      cbn [fst snd] in H1, H2. rewrite add_to_bin_snd in H1, H2. auto.
Qed.

Theorem dec_refines_rule : forall C vs, nfd_cover_rule C vs (lists (cover_decreasing id true C vs)).
Proof.
  intros C vs. exists (sort_desc id vs). split; [apply sort_desc_perm|].
  split; [apply sort_desc_nonincreasing|]. unfold cover_decreasing.
  destruct (dec_sub_next_fill C (sort_desc id vs) ([], empty_bin) wf_bin_empty) as (H1 & _ & _).
  exact H1.
Qed.
